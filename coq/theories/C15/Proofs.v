(* C15/Proofs.v — lemmas about the model in Model.v *)
From OV Require Import Common.Base C15.Model.
From Coq Require Import ZifyBool ZifyNat ZifyN.
Local Open Scope N_scope.
Ltac Zify.zify_post_hook ::= Z.div_mod_to_equations.

(* ---------- geometries used by the historical witnesses (variant [defective] = before the fixes) ---------- *)
Definition ex_base : N := 1681915904.
Definition ex_raw : rawcfg :=
  {| r_bs := 16; r_ratio := 0; r_range := Some (1024, 1151); r_max := 2; r_pooling := 1;
     r_outside := [OCidr ex_base 31]; r_excluded := [] |}.
Definition ex_cfg : cfg := effective ex_raw.
Definition pool_of (v : variant) (r : rawcfg) : pool :=
  match configure v r with Some p => p | None => {| p_addrs := []; p_subs := [] |} end.

Definition wf (c : cfg) : Prop :=
  1 <= c_bs c /\ c_pstart c <= c_pend c /\ c_pend c < two16 /\ 1 <= c_max c.

Lemma usable_eq c : wf c -> usable c = c_pend c - c_pstart c + 1.
Proof. unfold wf, usable, two16, two32. intros. lia. Qed.

Lemma tb_bound c idx : wf c -> idx < total_blocks c -> c_pstart c + idx * c_bs c + c_bs c - 1 <= c_pend c.
Proof.
  intros W H. pose proof (usable_eq c W) as U. unfold total_blocks in H. rewrite U in H.
  destruct W as (B & R & P & M).
  assert (c_bs c * ((c_pend c - c_pstart c + 1) / c_bs c) <= c_pend c - c_pstart c + 1) by (apply N.mul_div_le; lia).
  assert ((idx + 1) * c_bs c <= ((c_pend c - c_pstart c + 1) / c_bs c) * c_bs c) by (apply N.mul_le_mono_r; lia).
  lia.
Qed.

Lemma start_ok_spec c s : wf c -> start_ok c (total_blocks c) s = true ->
  exists idx, idx < total_blocks c /\ s = c_pstart c + idx * c_bs c /\ idx_of c s = idx /\ s + c_bs c - 1 <= c_pend c.
Proof.
  intros W H. unfold start_ok in H. rewrite !andb_true_iff, N.leb_le, N.eqb_eq, N.ltb_lt in H.
  destruct H as ((H1 & H2) & H3).
  exists ((s - c_pstart c) / c_bs c).
  pose proof (tb_bound c _ W H3) as TB.
  assert (B : c_bs c <> 0) by (destruct W; lia).
  pose proof (N.div_mod (s - c_pstart c) (c_bs c) B) as DM. rewrite H2 in DM.
  assert (E : s = c_pstart c + (s - c_pstart c) / c_bs c * c_bs c) by lia.
  split; [exact H3|]. split; [exact E|]. split.
  - unfold idx_of, sub16. destruct W as (? & ? & ? & ?). unfold two16 in *.
    assert (s < 65536) by lia. assert ((s + 65536 - c_pstart c) mod 65536 = s - c_pstart c) by lia. congruence.
  - lia.
Qed.

Lemma block_at_spec c ip idx : wf c -> idx < total_blocks c ->
  let b := block_at c ip idx in
  b_ip b = ip /\ b_start b = c_pstart c + idx * c_bs c /\ b_end b = b_start b + c_bs c - 1 /\
  start_ok c (total_blocks c) (b_start b) = true /\ idx_of c (b_start b) = idx.
Proof.
  intros W H. pose proof (tb_bound c idx W H) as TB. destruct W as (B & R & P & M).
  assert (S1 : add16 (c_pstart c) (mul16 (u16 idx) (c_bs c)) = c_pstart c + idx * c_bs c).
  { unfold add16, mul16, u16, two16 in *.
    assert (idx * 1 <= idx * c_bs c) by (apply N.mul_le_mono_l; lia).
    rewrite (N.mod_small idx) by lia. rewrite (N.mod_small (idx * c_bs c)) by lia. apply N.mod_small. lia. }
  cbn [block_at b_ip b_start b_end]. rewrite S1.
  assert (S2 : sub16 (add16 (c_pstart c + idx * c_bs c) (c_bs c)) 1 = c_pstart c + idx * c_bs c + c_bs c - 1).
  { unfold sub16, add16, two16 in *.
    assert (D : c_pstart c + idx * c_bs c + c_bs c <= 65536) by lia.
    destruct (N.eq_dec (c_pstart c + idx * c_bs c + c_bs c) 65536) as [E|E].
    - rewrite E. rewrite N.mod_same by lia. cbn. reflexivity.
    - rewrite (N.mod_small (c_pstart c + idx * c_bs c + c_bs c)) by lia.
      replace (c_pstart c + idx * c_bs c + c_bs c + 65536 - 1) with ((c_pstart c + idx * c_bs c + c_bs c - 1) + 1 * 65536) by lia.
      rewrite N.mod_add by lia. apply N.mod_small. lia. }
  rewrite S2.
  assert (SO : start_ok c (total_blocks c) (c_pstart c + idx * c_bs c) = true).
  { unfold start_ok. rewrite !andb_true_iff, N.leb_le, N.eqb_eq, N.ltb_lt.
    replace (c_pstart c + idx * c_bs c - c_pstart c) with (idx * c_bs c) by lia.
    rewrite N.mod_mul by lia. rewrite N.div_mul by lia. repeat split; try lia. }
  repeat split; try assumption.
  destruct (start_ok_spec c _ (conj B (conj R (conj P M))) SO) as (i' & _ & E & I & _).
  rewrite I. assert (i' * c_bs c = idx * c_bs c) by lia.
  apply N.mul_cancel_r in H0; lia.
Qed.

Lemma start_ok_inj c s1 s2 : wf c -> start_ok c (total_blocks c) s1 = true -> start_ok c (total_blocks c) s2 = true ->
  idx_of c s1 = idx_of c s2 -> s1 = s2.
Proof.
  intros W H1 H2 E. destruct (start_ok_spec c s1 W H1) as (i1 & _ & E1 & I1 & _).
  destruct (start_ok_spec c s2 W H2) as (i2 & _ & E2 & I2 & _). congruence.
Qed.

Lemma start_ok_disjoint c s1 s2 : wf c -> start_ok c (total_blocks c) s1 = true -> start_ok c (total_blocks c) s2 = true ->
  s1 <> s2 -> s1 + c_bs c - 1 < s2 \/ s2 + c_bs c - 1 < s1.
Proof.
  intros W H1 H2 NE. destruct (start_ok_spec c s1 W H1) as (i1 & _ & E1 & _ & _).
  destruct (start_ok_spec c s2 W H2) as (i2 & _ & E2 & _ & _). destruct W as (B & _).
  destruct (N.lt_trichotomy i1 i2) as [L|[L|L]].
  - left. assert ((i1 + 1) * c_bs c <= i2 * c_bs c) by (apply N.mul_le_mono_r; lia). lia.
  - subst. congruence.
  - right. assert ((i2 + 1) * c_bs c <= i1 * c_bs c) by (apply N.mul_le_mono_r; lia). lia.
Qed.

(* ---------- bitmap ---------- *)
Lemma upd_nth_length {A} (f : A -> A) l : forall n, length (upd_nth n f l) = length l.
Proof. induction l as [|x l IH]; intros [|n]; simpl; auto. Qed.

Lemma nth_upd_nth {A} (f : A -> A) d l : forall i j,
  nth j (upd_nth i f l) d = if (Nat.eqb j i && Nat.ltb i (length l))%bool then f (nth i l d) else nth j l d.
Proof.
  induction l as [|x l IH]; intros [|i] [|j]; simpl; auto.
  - destruct (Nat.eqb j i); reflexivity.
  - rewrite IH. reflexivity.
Qed.

Lemma idx_split i j : i = j <-> (word_of i = word_of j /\ i mod 64 = j mod 64).
Proof.
  unfold word_of. split; [intros ->; auto|]. intros [H1 H2].
  assert (i / 64 = j / 64) by lia.
  rewrite (N.div_mod i 64), (N.div_mod j 64) by lia. congruence.
Qed.

Lemma test_set_bit bm i j :
  test_bit (set_bit bm i) j = ((Nat.ltb (word_of i) (length bm) && (i =? j)) || test_bit bm j)%bool.
Proof.
  unfold test_bit, set_bit. rewrite nth_upd_nth.
  destruct (Nat.eqb_spec (word_of j) (word_of i)) as [E|E]; simpl.
  - destruct (Nat.ltb (word_of i) (length bm)) eqn:L; simpl; [|reflexivity].
    rewrite E.  cbv beta. match goal with |- context [N.lor ?w (N.pos (Pos.shiftl 1 ?n))] => change (N.lor w (N.pos (Pos.shiftl 1 n))) with (N.setbit w n) end. rewrite N.setbit_eqb.
    destruct (N.eqb_spec (i mod 64) (j mod 64)) as [M|M]; destruct (N.eqb_spec i j) as [IJ|IJ]; simpl; try reflexivity.
    + exfalso. apply IJ. apply idx_split. auto.
    + exfalso. subst. auto.
  - destruct (N.eqb_spec i j) as [IJ|IJ]; [subst; congruence|]. rewrite andb_false_r. reflexivity.
Qed.

Lemma test_clear_bit bm i j :
  test_bit (clear_bit bm i) j = (test_bit bm j && negb (i =? j))%bool.
Proof.
  unfold test_bit, clear_bit. rewrite nth_upd_nth.
  destruct (Nat.eqb_spec (word_of j) (word_of i)) as [E|E]; simpl.
  - destruct (Nat.ltb_spec (word_of i) (length bm)) as [L|L]; simpl.
    + rewrite E. cbv beta. match goal with |- context [N.ldiff ?w (N.pos (Pos.shiftl 1 ?n))] => change (N.ldiff w (N.pos (Pos.shiftl 1 n))) with (N.clearbit w n) end. rewrite N.clearbit_eqb.
      destruct (N.eqb_spec (i mod 64) (j mod 64)) as [M|M]; destruct (N.eqb_spec i j) as [IJ|IJ]; simpl; try reflexivity.
      * exfalso. apply IJ. apply idx_split. auto.
      * exfalso. subst. auto.
    + destruct (N.eqb_spec i j) as [IJ|IJ]; simpl; [|rewrite andb_true_r; reflexivity].
      subst. rewrite nth_overflow by lia. rewrite N.bits_0. reflexivity.
  - destruct (N.eqb_spec i j) as [IJ|IJ]; [subst; congruence|]. simpl. rewrite andb_true_r. reflexivity.
Qed.

Lemma set_bit_length bm i : length (set_bit bm i) = length bm.
Proof. apply upd_nth_length. Qed.
Lemma clear_bit_length bm i : length (clear_bit bm i) = length bm.
Proof. apply upd_nth_length. Qed.

(* ---------- address list ---------- *)
Definition faddr (addrs : list addr) (ip : N) : option addr := find (fun a => a_ip a =? ip) addrs.
Definition static (a : addr) : N * N * bool * nat := (a_ip a, a_total a, a_excl a, length (a_bits a)).
Definition st_ip (x : N * N * bool * nat) : N := fst (fst (fst x)).

Lemma findi_spec {A} (f : A -> bool) l : forall i, findi f l = Some i -> exists a, nth_error l i = Some a /\ f a = true.
Proof.
  induction l as [|x l IH]; simpl; intros i H; [discriminate|].
  destruct (f x) eqn:F.
  - inversion H; subst. exists x; auto.
  - destruct (findi f l) as [j|] eqn:E; [|discriminate]. inversion H; subst. simpl. apply IH; reflexivity.
Qed.
Lemma findi_none {A} (f : A -> bool) l : findi f l = None -> forall a, In a l -> f a = false.
Proof.
  induction l as [|x l IH]; simpl; intros H a Ha; [contradiction|].
  destruct (f x) eqn:F; [discriminate|]. destruct (findi f l) eqn:E; [discriminate|].
  destruct Ha as [->|Ha]; auto.
Qed.

Lemma map_static_upd f l : (forall a, static (f a) = static a) -> forall i, map static (upd_nth i f l) = map static l.
Proof.
  intros H. induction l as [|x l IH]; intros [|i]; simpl; auto.
  - rewrite H. reflexivity.
  - rewrite IH. reflexivity.
Qed.
Lemma map_ip_static l : map a_ip l = map st_ip (map static l).
Proof. rewrite map_map. apply map_ext. reflexivity. Qed.

Lemma faddr_upd f l ip : (forall a, a_ip (f a) = a_ip a) -> NoDup (map a_ip l) ->
  forall i a, nth_error l i = Some a ->
  faddr (upd_nth i f l) ip = if a_ip a =? ip then Some (f a) else faddr l ip.
Proof.
  intros Hf. unfold faddr. induction l as [|x l IH]; intros ND [|i] a H; simpl in *; try discriminate.
  - inversion H; subst. rewrite Hf. destruct (a_ip a =? ip); reflexivity.
  - inversion ND as [|? ? NI ND']; subst.
    destruct (N.eqb_spec (a_ip x) ip) as [E|E].
    + destruct (N.eqb_spec (a_ip a) ip) as [E2|E2]; [|reflexivity].
      exfalso. apply NI. rewrite E, <- E2. apply in_map. eapply nth_error_In; eauto.
    + apply IH; auto.
Qed.
Lemma faddr_nth l : NoDup (map a_ip l) -> forall i a, nth_error l i = Some a -> faddr l (a_ip a) = Some a.
Proof.
  unfold faddr. induction l as [|x l IH]; intros ND [|i] a H; simpl in *; try discriminate.
  - inversion H; subst. rewrite N.eqb_refl. reflexivity.
  - inversion ND as [|? ? NI ND']; subst.
    destruct (N.eqb_spec (a_ip x) (a_ip a)) as [E|E]; [|eauto].
    exfalso. apply NI. rewrite E. apply in_map. eapply nth_error_In; eauto.
Qed.
Lemma faddr_some l ip a : faddr l ip = Some a -> In a l /\ a_ip a = ip.
Proof. unfold faddr. intros H. apply find_some in H. rewrite N.eqb_eq in H. exact H. Qed.
Lemma faddr_findi l ip : forall i, findi (fun a => a_ip a =? ip) l = Some i -> exists a, nth_error l i = Some a /\ faddr l ip = Some a.
Proof.
  unfold faddr. induction l as [|x l IH]; simpl; intros i H; [discriminate|].
  destruct (a_ip x =? ip) eqn:F.
  - inversion H; subst. exists x; auto.
  - destruct (findi _ l) as [j|] eqn:E; [|discriminate]. inversion H; subst. simpl. apply IH; reflexivity.
Qed.
Lemma faddr_findi_none l ip : findi (fun a => a_ip a =? ip) l = None -> faddr l ip = None.
Proof.
  unfold faddr. induction l as [|x l IH]; simpl; intros H; [reflexivity|].
  destruct (a_ip x =? ip) eqn:F; [discriminate|]. destruct (findi _ l) eqn:E; [discriminate|]. auto.
Qed.

(* ---------- subscriber map ---------- *)
Lemma sub_get_set k bl subs k' : sub_get k' (sub_set k bl subs) = if k' =? k then Some bl else sub_get k' subs.
Proof.
  unfold sub_get. induction subs as [|e r IH]; simpl.
  - rewrite (N.eqb_sym k k'). destruct (k' =? k); reflexivity.
  - destruct (N.eqb_spec (fst e) k) as [E|E]; simpl.
    + rewrite (N.eqb_sym k k'). destruct (N.eqb_spec k' k) as [E2|E2]; [reflexivity|].
      destruct (N.eqb_spec (fst e) k'); [congruence|]. reflexivity.
    + destruct (N.eqb_spec (fst e) k') as [E2|E2].
      * destruct (N.eqb_spec k' k); [congruence|reflexivity].
      * exact IH.
Qed.
Lemma sub_get_del k subs k' : sub_get k' (sub_del k subs) = if k' =? k then None else sub_get k' subs.
Proof.
  unfold sub_get, sub_del. induction subs as [|e r IH]; simpl.
  - destruct (k' =? k); reflexivity.
  - destruct (N.eqb_spec (fst e) k) as [E|E]; simpl.
    + rewrite IH. destruct (N.eqb_spec k' k) as [E2|E2]; [reflexivity|].
      destruct (N.eqb_spec (fst e) k'); [congruence|reflexivity].
    + destruct (N.eqb_spec (fst e) k') as [E2|E2].
      * destruct (N.eqb_spec k' k); [congruence|reflexivity].
      * exact IH.
Qed.
Lemma blocks_of_add p k b addrs' k' :
  blocks_of (add_block p k b addrs') k' = if k' =? k then blocks_of p k ++ [b] else blocks_of p k'.
Proof. unfold blocks_of, add_block; simpl. rewrite sub_get_set. destruct (k' =? k); reflexivity. Qed.

(* ---------- the invariant ---------- *)
Definition wfst (c : cfg) (st : list (N * N * bool * nat)) : Prop :=
  NoDup (map st_ip st) /\
  forall x, In x st -> snd (fst (fst x)) = total_blocks c /\ snd x = N.to_nat ((total_blocks c + 63) / 64).

Record Inv (c : cfg) (st : list (N * N * bool * nat)) (p : pool) : Prop := {
  i_static : map static (p_addrs p) = st;
  i_blk : forall k b, In b (blocks_of p k) ->
      exists a, faddr (p_addrs p) (b_ip b) = Some a /\ a_excl a = false /\
                start_ok c (total_blocks c) (b_start b) = true /\ b_end b = b_start b + c_bs c - 1 /\
                test_bit (a_bits a) (idx_of c (b_start b)) = true;
  i_excl : forall k1 k2 b1 b2, In b1 (blocks_of p k1) -> In b2 (blocks_of p k2) ->
      b_ip b1 = b_ip b2 -> b_start b1 = b_start b2 -> k1 = k2;
  i_limit : forall k, N.of_nat (length (blocks_of p k)) <= c_max c;
  i_paired : c_paired c = true -> forall k b1 b2, In b1 (blocks_of p k) -> In b2 (blocks_of p k) -> b_ip b1 = b_ip b2 }.

Lemma inv_nodup c st p : wfst c st -> Inv c st p -> NoDup (map a_ip (p_addrs p)).
Proof. intros [ND _] I. rewrite map_ip_static, (i_static _ _ _ I). exact ND. Qed.
Lemma inv_addr c st p a : wfst c st -> Inv c st p -> In a (p_addrs p) ->
  a_total a = total_blocks c /\ length (a_bits a) = N.to_nat ((total_blocks c + 63) / 64).
Proof.
  intros [_ H] I Ha. apply (in_map static) in Ha. rewrite (i_static _ _ _ I) in Ha.
  apply H in Ha. exact Ha.
Qed.

Lemma block_eq b1 b2 : b_ip b1 = b_ip b2 -> b_start b1 = b_start b2 -> b_end b1 = b_end b2 -> b1 = b2.
Proof. destruct b1, b2; simpl; intros; subst; reflexivity. Qed.

Lemma word_in_range tb idx : idx < tb -> (word_of idx < N.to_nat ((tb + 63) / 64))%nat.
Proof. unfold word_of. intros. lia. Qed.

Lemma grant_inv c st p k b i a :
  wf c -> wfst c st -> Inv c st p ->
  nth_error (p_addrs p) i = Some a -> a_ip a = b_ip b -> a_excl a = false ->
  start_ok c (total_blocks c) (b_start b) = true -> b_end b = b_start b + c_bs c - 1 ->
  (test_bit (a_bits a) (idx_of c (b_start b)) = false \/ In b (blocks_of p k)) ->
  N.of_nat (length (blocks_of p k)) < c_max c ->
  (c_paired c = true -> forall b', In b' (blocks_of p k) -> b_ip b' = b_ip b) ->
  Inv c st (add_block p k b (upd_nth i (fun a => with_bits a (set_bit (a_bits a) (idx_of c (b_start b)))) (p_addrs p))).
Proof.
  intros W WS I Hn Hip Hex Hso Hend Hfree Hlim Hpair.
  pose proof (inv_nodup _ _ _ WS I) as ND.
  set (f := fun a0 : addr => with_bits a0 (set_bit (a_bits a0) (idx_of c (b_start b)))).
  assert (Hf : forall a0, a_ip (f a0) = a_ip a0) by reflexivity.
  assert (FA : forall ip, faddr (upd_nth i f (p_addrs p)) ip = if a_ip a =? ip then Some (f a) else faddr (p_addrs p) ip)
    by (intros; apply faddr_upd; auto).
  assert (Hmono : forall ip a0 idx, faddr (p_addrs p) ip = Some a0 -> test_bit (a_bits a0) idx = true ->
            exists a1, faddr (upd_nth i f (p_addrs p)) ip = Some a1 /\ a_excl a1 = a_excl a0 /\ test_bit (a_bits a1) idx = true).
  { intros ip a0 idx F T. rewrite FA. destruct (N.eqb_spec (a_ip a) ip) as [E|E].
    - exists (f a). split; [reflexivity|].
      assert (a0 = a). { rewrite <- E in F. rewrite (faddr_nth _ ND _ _ Hn) in F. congruence. }
      subst a0. split; [reflexivity|]. unfold f; simpl. rewrite test_set_bit, T. apply orb_true_r.
    - exists a0; auto. }
  destruct (start_ok_spec c _ W Hso) as (idx & Hidx & _ & Hio & _).
  assert (Hnew : exists a1, faddr (upd_nth i f (p_addrs p)) (b_ip b) = Some a1 /\ a_excl a1 = false /\
                     test_bit (a_bits a1) (idx_of c (b_start b)) = true).
  { exists (f a). rewrite FA, Hip, N.eqb_refl. split; [reflexivity|]. split; [exact Hex|].
    unfold f; simpl. rewrite test_set_bit, N.eqb_refl.
    destruct (inv_addr _ _ _ a WS I (nth_error_In _ _ Hn)) as [_ L]. rewrite L, Hio.
    pose proof (word_in_range _ _ Hidx). destruct (Nat.ltb_spec (word_of idx) (N.to_nat ((total_blocks c + 63) / 64))); [reflexivity|lia]. }
  constructor.
  - simpl. rewrite map_static_upd; [apply (i_static _ _ _ I)|].
    intros a0. unfold static, f; simpl. rewrite set_bit_length. reflexivity.
  - intros k' b' Hin. rewrite blocks_of_add in Hin. cbn [p_addrs add_block].
    assert (Hold : In b' (blocks_of p k') -> exists a0, faddr (upd_nth i f (p_addrs p)) (b_ip b') = Some a0 /\ a_excl a0 = false /\
               start_ok c (total_blocks c) (b_start b') = true /\ b_end b' = b_start b' + c_bs c - 1 /\
               test_bit (a_bits a0) (idx_of c (b_start b')) = true).
    { intros Ho. destruct (i_blk _ _ _ I _ _ Ho) as (a0 & F & X & S & E & T).
      destruct (Hmono _ _ _ F T) as (a1 & F1 & X1 & T1). exists a1. rewrite X1. auto. }
    destruct (N.eqb_spec k' k) as [->|NE]; [|auto].
    apply in_app_or in Hin. destruct Hin as [Ho|[<-|[]]]; [auto|].
    destruct Hnew as (a1 & F1 & X1 & T1). exists a1; auto.
  - intros k1 k2 b1 b2 H1 H2 Eip Est. rewrite blocks_of_add in H1, H2.
    assert (Hcross : forall k' b', k' <> k -> In b' (blocks_of p k') -> b_ip b' = b_ip b -> b_start b' = b_start b -> False).
    { intros k' b' NE Hb' E1 E2. destruct Hfree as [Hclr|Hheld].
      - destruct (i_blk _ _ _ I _ _ Hb') as (a0 & F & _ & _ & _ & T).
        rewrite E1, <- Hip, (faddr_nth _ ND _ _ Hn) in F. inversion F; subst a0. rewrite E2 in T. congruence.
      - apply NE. eapply (i_excl _ _ _ I); eauto. }
    destruct (N.eqb_spec k1 k) as [->|N1]; destruct (N.eqb_spec k2 k) as [->|N2]; auto.
    + apply in_app_or in H1. destruct H1 as [H1|[<-|[]]].
      * eapply (i_excl _ _ _ I); eauto.
      * exfalso. eapply (Hcross k2 b2); eauto.
    + apply in_app_or in H2. destruct H2 as [H2|[<-|[]]].
      * eapply (i_excl _ _ _ I); eauto.
      * exfalso. eapply (Hcross k1 b1); eauto.
    + eapply (i_excl _ _ _ I); eauto.
  - intros k'. rewrite blocks_of_add. destruct (N.eqb_spec k' k) as [->|NE]; [|apply (i_limit _ _ _ I)].
    rewrite app_length. simpl. lia.
  - intros P k' b1 b2 H1 H2. rewrite blocks_of_add in H1, H2.
    destruct (N.eqb_spec k' k) as [->|NE]; [|eapply (i_paired _ _ _ I); eauto].
    apply in_app_or in H1. apply in_app_or in H2.
    destruct H1 as [H1|[<-|[]]]; destruct H2 as [H2|[<-|[]]]; auto.
    + eapply (i_paired _ _ _ I); eauto.
    + symmetry. auto.
Qed.

(* ---------- release ---------- *)
Lemma faddr_upd_first f l ip0 ip : (forall a, a_ip (f a) = a_ip a) ->
  forall i, findi (fun a => a_ip a =? ip0) l = Some i ->
  faddr (upd_nth i f l) ip = if ip0 =? ip then option_map f (faddr l ip0) else faddr l ip.
Proof.
  intros Hf. unfold faddr. induction l as [|x l IH]; simpl; intros i H; [discriminate|].
  destruct (N.eqb_spec (a_ip x) ip0) as [E|E].
  - inversion H; subst i. simpl. rewrite Hf.
    destruct (N.eqb_spec ip0 ip) as [E2|E2].
    + rewrite E, E2, N.eqb_refl. reflexivity.
    + destruct (N.eqb_spec (a_ip x) ip); [congruence|reflexivity].
  - destruct (findi _ l) as [j|] eqn:F; [|discriminate]. inversion H; subst i. simpl.
    destruct (N.eqb_spec (a_ip x) ip) as [E2|E2].
    + destruct (N.eqb_spec ip0 ip); [congruence|reflexivity].
    + apply IH. reflexivity.
Qed.

Definition ainfo (addrs : list addr) (ip idx : N) : option (bool * bool) :=
  option_map (fun a => (a_excl a, test_bit (a_bits a) idx)) (faddr addrs ip).

Lemma ainfo_release_one c addrs b ip idx :
  ainfo (release_one c addrs b) ip idx =
  option_map (fun xt => (fst xt, snd xt && negb ((b_ip b =? ip) && (idx_of c (b_start b) =? idx)))) (ainfo addrs ip idx).
Proof.
  unfold release_one, ainfo. destruct (findi _ addrs) as [i|] eqn:F.
  - rewrite (faddr_upd_first _ _ (b_ip b) ip) by (auto || reflexivity).
    destruct (N.eqb_spec (b_ip b) ip) as [E|E]; simpl.
    + subst ip. destruct (faddr addrs (b_ip b)) as [a|]; simpl; [|reflexivity].
      rewrite test_clear_bit. reflexivity.
    + destruct (faddr addrs ip); simpl; [rewrite andb_true_r|]; reflexivity.
  - destruct (N.eqb_spec (b_ip b) ip) as [E|E]; simpl.
    + subst ip. rewrite (faddr_findi_none _ _ F). reflexivity.
    + destruct (faddr addrs ip); simpl; [rewrite andb_true_r|]; reflexivity.
Qed.
Lemma ainfo_release_fold c bl : forall addrs ip idx,
  ainfo (fold_left (release_one c) bl addrs) ip idx =
  option_map (fun xt => (fst xt, snd xt && forallb (fun b => negb ((b_ip b =? ip) && (idx_of c (b_start b) =? idx))) bl))
             (ainfo addrs ip idx).
Proof.
  induction bl as [|b bl IH]; intros; simpl.
  - destruct (ainfo addrs ip idx) as [[x t]|]; simpl; [rewrite andb_true_r|]; reflexivity.
  - rewrite IH, ainfo_release_one. destruct (ainfo addrs ip idx) as [[x t]|]; simpl; [|reflexivity].
    rewrite andb_assoc. reflexivity.
Qed.
Lemma static_release_one c addrs b : map static (release_one c addrs b) = map static addrs.
Proof.
  unfold release_one. destruct (findi _ addrs); [|reflexivity]. apply map_static_upd.
  intros a. unfold static, free_block; simpl. rewrite clear_bit_length. reflexivity.
Qed.
Lemma static_release_fold c bl : forall addrs, map static (fold_left (release_one c) bl addrs) = map static addrs.
Proof. induction bl; intros; simpl; [reflexivity|]. rewrite IHbl. apply static_release_one. Qed.

Lemma ainfo_blk addrs ip idx : ainfo addrs ip idx = Some (false, true) <->
  exists a, faddr addrs ip = Some a /\ a_excl a = false /\ test_bit (a_bits a) idx = true.
Proof.
  unfold ainfo. split.
  - destruct (faddr addrs ip) as [a|]; simpl; [|discriminate]. intros H; inversion H. exists a; auto.
  - intros (a & -> & X & T). simpl. rewrite X, T. reflexivity.
Qed.

Lemma blocks_of_release c p k k' :
  blocks_of (release c p k) k' = if k' =? k then [] else blocks_of p k'.
Proof.
  unfold release, blocks_of. destruct (sub_get k (p_subs p)) as [bl|] eqn:G; simpl.
  - rewrite sub_get_del. destruct (k' =? k); reflexivity.
  - destruct (N.eqb_spec k' k) as [->|]; [rewrite G|]; reflexivity.
Qed.

Lemma release_inv c st p k : wf c -> Inv c st p -> Inv c st (release c p k).
Proof.
  intros W I.
  assert (Hsub : forall k', k' <> k -> blocks_of (release c p k) k' = blocks_of p k').
  { intros k' NE. rewrite blocks_of_release. destruct (N.eqb_spec k' k); congruence. }
  assert (Hk : blocks_of (release c p k) k = []) by (rewrite blocks_of_release, N.eqb_refl; reflexivity).
  assert (Hin : forall k' b, In b (blocks_of (release c p k) k') -> k' <> k /\ In b (blocks_of p k')).
  { intros k' b H. destruct (N.eq_dec k' k) as [->|NE]; [rewrite Hk in H; contradiction|]. rewrite Hsub in H; auto. }
  constructor.
  - unfold release. destruct (sub_get k (p_subs p)); simpl; [rewrite static_release_fold|]; apply (i_static _ _ _ I).
  - intros k' b H. destruct (Hin _ _ H) as [NE Hb].
    destruct (i_blk _ _ _ I _ _ Hb) as (a & F & X & S & E & T).
    assert (A : ainfo (p_addrs (release c p k)) (b_ip b) (idx_of c (b_start b)) = Some (false, true)).
    { unfold release. destruct (sub_get k (p_subs p)) as [bl|] eqn:G; simpl.
      - rewrite ainfo_release_fold.
        assert (A0 : ainfo (p_addrs p) (b_ip b) (idx_of c (b_start b)) = Some (false, true)) by (apply ainfo_blk; eauto).
        rewrite A0. simpl. f_equal. f_equal. apply forallb_forall. intros b0 Hb0.
        apply negb_true_iff. apply andb_false_iff.
        destruct (N.eqb_spec (b_ip b0) (b_ip b)) as [E1|E1]; [|auto]. right.
        apply N.eqb_neq. intros E2.
        assert (Hb0' : In b0 (blocks_of p k)) by (unfold blocks_of; rewrite G; exact Hb0).
        destruct (i_blk _ _ _ I _ _ Hb0') as (_ & _ & _ & S0 & _ & _).
        pose proof (start_ok_inj c _ _ W S0 S E2) as ES.
        apply NE. symmetry. eapply (i_excl _ _ _ I); eauto.
      - apply ainfo_blk; eauto. }
    apply ainfo_blk in A. destruct A as (a1 & F1 & X1 & T1). exists a1; auto.
  - intros k1 k2 b1 b2 H1 H2. destruct (Hin _ _ H1), (Hin _ _ H2). eapply (i_excl _ _ _ I); eauto.
  - intros k'. destruct (N.eq_dec k' k) as [->|NE]; [rewrite Hk; simpl; lia|rewrite Hsub by auto; apply (i_limit _ _ _ I)].
  - intros P k' b1 b2 H1 H2. destruct (Hin _ _ H1), (Hin _ _ H2). eapply (i_paired _ _ _ I); eauto.
Qed.

(* ---------- allocateBlock ---------- *)
Lemma alloc_in_word_spec fuel : forall w base bit total idx,
  alloc_in_word fuel w base bit total = Some (Some idx) ->
  exists b', bit <= b' /\ b' < bit + N.of_nat fuel /\ idx = base + b' /\ N.testbit w b' = false /\ idx < total.
Proof.
  induction fuel as [|f IH]; simpl; intros w base bit total idx H; [discriminate|].
  destruct (N.leb_spec total (base + bit)) as [L|L]; [discriminate|].
  destruct (N.testbit w bit) eqn:T.
  - destruct (IH _ _ _ _ _ H) as (b' & ? & ? & ? & ? & ?). exists b'. repeat split; auto; lia.
  - inversion H; subst. exists bit. repeat split; auto; lia.
Qed.

Lemma alloc_words_spec ws : forall i total idx,
  alloc_words ws i total = Some idx ->
  exists j, (j < length ws)%nat /\ idx / 64 = i + N.of_nat j /\ N.testbit (nth j ws 0) (idx mod 64) = false /\ idx < total.
Proof.
  induction ws as [|w r IH]; cbn [alloc_words length]; intros i total idx H; [discriminate|].
  assert (Hrec : alloc_words r (i + 1) total = Some idx ->
          exists j, (j < S (length r))%nat /\ idx / 64 = i + N.of_nat j /\
                    N.testbit (nth j (w :: r) 0) (idx mod 64) = false /\ idx < total).
  { intros H'. destruct (IH _ _ _ H') as (j & ? & ? & ? & ?). exists (S j). cbn [nth]. repeat split; auto; lia. }
  destruct (w =? all_ones); [auto|].
  destruct (alloc_in_word 64 w (i * 64) 0 total) as [[res|]|] eqn:A; [| discriminate | auto].
  inversion H; subst res. destruct (alloc_in_word_spec _ _ _ _ _ _ A) as (b' & ? & ? & ? & ? & ?).
  exists O. cbn [nth]. assert (b' < 64) by (cbn in *; lia).
  assert (idx / 64 = i) by (subst idx; rewrite N.add_comm, N.div_add by lia; rewrite N.div_small by lia; lia).
  assert (idx mod 64 = b') by (subst idx; rewrite N.add_comm, N.mod_add by lia; apply N.mod_small; lia).
  repeat split; try lia. congruence.
Qed.

Lemma allocate_block_spec a idx a' : allocate_block a = Some (idx, a') ->
  idx < a_total a /\ test_bit (a_bits a) idx = false /\ a' = with_bits a (set_bit (a_bits a) idx).
Proof.
  unfold allocate_block. destruct (alloc_words (a_bits a) 0 (a_total a)) as [i|] eqn:A; [|discriminate].
  intros H; inversion H; subst. destruct (alloc_words_spec _ _ _ _ A) as (j & ? & D & T & ?).
  repeat split; auto. unfold test_bit, word_of. replace (N.to_nat (idx / 64)) with j by lia. exact T.
Qed.

Lemma upd_nth_const {A} (f : A -> A) (x' : A) l : forall i x, nth_error l i = Some x -> f x = x' ->
  upd_nth i (fun _ => x') l = upd_nth i f l.
Proof. induction l as [|y l IH]; intros [|i] x H E; simpl in *; try discriminate; [inversion H; congruence|]. f_equal. eauto. Qed.

(* ---------- who may be the target ---------- *)
Lemma limit_not_reached c p k : wf c -> limit_reached c p k = false -> N.of_nat (length (blocks_of p k)) < c_max c.
Proof.
  unfold limit_reached, blocks_of. intros (_ & _ & _ & M). destruct (sub_get k (p_subs p)); simpl; lia.
Qed.

Lemma paired_target_some c st p k i a : wfst c st -> Inv c st p ->
  paired_target c p k = Some i -> nth_error (p_addrs p) i = Some a ->
  a_excl a = false /\ forall b', In b' (blocks_of p k) -> b_ip b' = a_ip a.
Proof.
  unfold paired_target. intros WS I H Hn. destruct (blocks_of p k) as [|b0 r] eqn:B; [discriminate|].
  destruct (c_paired c) eqn:P; [|discriminate].
  destruct (findi_spec _ _ _ H) as (a0 & Hn0 & F). rewrite Hn in Hn0. inversion Hn0; subst a0.
  apply andb_true_iff in F. destruct F as [F1 F2]. apply N.eqb_eq in F1. apply negb_true_iff in F2.
  split; [exact F2|]. intros b' Hb'. rewrite F1. eapply (i_paired _ _ _ I P k); rewrite B; simpl; auto.
Qed.
Lemma paired_target_none c st p k : Inv c st p -> paired_target c p k = None -> c_paired c = true -> blocks_of p k = [].
Proof.
  unfold paired_target. intros I H P. destruct (blocks_of p k) as [|b0 r] eqn:B; [reflexivity|]. rewrite P in H.
  assert (Hb : In b0 (blocks_of p k)) by (rewrite B; simpl; auto).
  destruct (i_blk _ _ _ I _ _ Hb) as (a & F & X & _). apply faddr_some in F. destruct F as [Fi Fe].
  pose proof (findi_none _ _ H a Fi) as N. simpl in N. rewrite Fe, N.eqb_refl, X in N. discriminate.
Qed.

Lemma alloc_literal_inv c st p k b p' : wf c -> wfst c st -> Inv c st p ->
  alloc_literal c p k = inr (b, p') -> Inv c st p'.
Proof.
  intros W WS I. unfold alloc_literal.
  destruct (limit_reached c p k) eqn:L; [discriminate|].
  destruct (choose_target c p k) as [i|] eqn:C; [|discriminate].
  destruct (nth_error (p_addrs p) i) as [a|] eqn:Hn; [|discriminate].
  destruct (allocate_block a) as [[idx a']|] eqn:A; [|discriminate].
  intros H; inversion H; subst b p'; clear H.
  destruct (allocate_block_spec _ _ _ A) as (Hidx & Hclr & Ha').
  destruct (inv_addr _ _ _ a WS I (nth_error_In _ _ Hn)) as [Htot _]. rewrite Htot in Hidx.
  destruct (block_at_spec c (a_ip a) idx W Hidx) as (B1 & B2 & B3 & B4 & B5).
  rewrite (upd_nth_const (fun a0 => with_bits a0 (set_bit (a_bits a0) (idx_of c (b_start (block_at c (a_ip a) idx))))) a' _ i a Hn)
    by (rewrite B5; auto).
  assert (T : a_excl a = false /\ (c_paired c = true -> forall b', In b' (blocks_of p k) -> b_ip b' = a_ip a)).
  { unfold choose_target in C. destruct (paired_target c p k) as [i'|] eqn:PT.
    - inversion C; subst i'. destruct (paired_target_some _ _ _ _ _ _ WS I PT Hn). auto.
    - unfold first_free in C. destruct (findi_spec _ _ _ C) as (a0 & Hn0 & F). rewrite Hn in Hn0. inversion Hn0; subst a0.
      apply andb_true_iff in F. destruct F as [F _]. apply negb_true_iff in F. split; [exact F|].
      intros P b' Hb'. rewrite (paired_target_none _ _ _ _ I PT P) in Hb'. contradiction. }
  destruct T as [Hex Hp].
  eapply grant_inv; eauto.
  all: try (rewrite B5; auto; fail).
  all: try (apply limit_not_reached; auto; fail).
  all: try (intros P b' Hb'; rewrite B1; auto; fail).
Qed.

Lemma obs_addr_ok_spec c st p b a : wfst c st -> Inv c st p -> In a (p_addrs p) -> obs_addr_ok c b a = true ->
  a_ip a = b_ip b /\ a_excl a = false /\ start_ok c (total_blocks c) (b_start b) = true /\
  b_end b = b_start b + c_bs c - 1 /\ test_bit (a_bits a) (idx_of c (b_start b)) = false.
Proof.
  intros WS I Ha H. unfold obs_addr_ok in H. rewrite !andb_true_iff, !negb_true_iff, !N.eqb_eq in H.
  destruct H as ((((H1 & H2) & H3) & H4) & H5). destruct (inv_addr _ _ _ a WS I Ha) as [Htot _].
  rewrite Htot in H3. auto.
Qed.

Lemma alloc_obs_inv c st p k b p' : wf c -> wfst c st -> Inv c st p ->
  alloc_obs c p k b = Some p' -> Inv c st p'.
Proof.
  intros W WS I. unfold alloc_obs.
  destruct (limit_reached c p k) eqn:L; [discriminate|].
  destruct (paired_target c p k) as [i|] eqn:PT.
  - destruct (nth_error (p_addrs p) i) as [a|] eqn:Hn; [|discriminate].
    destruct (obs_addr_ok c b a) eqn:O; [|discriminate]. intros H; inversion H; subst p'; clear H.
    destruct (obs_addr_ok_spec _ _ _ _ _ WS I (nth_error_In _ _ Hn) O) as (E1 & E2 & E3 & E4 & E5).
    destruct (paired_target_some _ _ _ _ _ _ WS I PT Hn) as [_ Hp].
    eapply grant_inv; eauto.
    all: try (apply limit_not_reached; auto; fail).
    all: try (intros P b' Hb'; rewrite <- E1; auto; fail).
  - destruct (findi (obs_addr_ok c b) (p_addrs p)) as [i|] eqn:F; [|discriminate].
    intros H; inversion H; subst p'; clear H.
    destruct (findi_spec _ _ _ F) as (a & Hn & O).
    destruct (obs_addr_ok_spec _ _ _ _ _ WS I (nth_error_In _ _ Hn) O) as (E1 & E2 & E3 & E4 & E5).
    eapply grant_inv; eauto.
    all: try (apply limit_not_reached; auto; fail).
    all: try (intros P b' Hb'; rewrite (paired_target_none _ _ _ _ I PT P) in Hb'; contradiction).
Qed.

Lemma do_alloc_inv c st p k obs : wf c -> wfst c st -> Inv c st p -> Inv c st (fst (do_alloc c p k obs)).
Proof.
  intros W WS I. unfold do_alloc. destruct (alloc_literal c p k) as [e|[b p']] eqn:A; [exact I|].
  pose proof (alloc_literal_inv _ _ _ _ _ _ W WS I A) as I'.
  destruct obs as [o|]; [|exact I']. destruct (block_eqb o b); [exact I'|].
  destruct (alloc_obs c p k o) as [p''|] eqn:O; [|exact I]. exact (alloc_obs_inv _ _ _ _ _ _ W WS I O).
Qed.

(* ---------- restore ---------- *)
Lemma holds_block_in c st p k b : wf c -> Inv c st p -> holds_block (blocks_of p k) b = true ->
  b_end b = b_start b + c_bs c - 1 -> In b (blocks_of p k).
Proof.
  intros W I H E. unfold holds_block in H. apply existsb_exists in H. destruct H as (x & Hx & H).
  apply andb_true_iff in H. rewrite !N.eqb_eq in H. destruct H as [H1 H2].
  destruct (i_blk _ _ _ I _ _ Hx) as (_ & _ & _ & _ & Ex & _).
  assert (x = b) by (apply block_eq; congruence). subst. exact Hx.
Qed.

Lemma restore_repaired_inv c st p k b ia p' : wf c -> wfst c st -> Inv c st p ->
  restore_repaired c p k b ia = Some p' -> Inv c st p'.
Proof.
  intros W WS I. unfold restore_repaired.
  destruct (findi _ (p_addrs p)) as [i|] eqn:F; [|discriminate].
  destruct (faddr_findi _ _ _ F) as (a & Hn & Fa). rewrite Hn.
  destruct (a_excl a) eqn:X; [discriminate|].
  destruct (start_ok c (a_total a) (b_start b)) eqn:S; [|discriminate]. simpl.
  destruct (N.eqb_spec (b_end b) (b_start b + c_bs c - 1)) as [E|E]; [|discriminate]. simpl.
  destruct (ia && holds_block (blocks_of p k) b); [intros H; inversion H; subst; exact I|].
  destruct (negb (holds_block (blocks_of p k) b) && test_bit (a_bits a) (idx_of c (b_start b))) eqn:HB; [discriminate|].
  destruct (limit_reached c p k) eqn:L; [discriminate|].
  destruct (c_paired c && match blocks_of p k with b0 :: _ => negb (b_ip b0 =? b_ip b) | [] => false end) eqn:P; [discriminate|].
  intros H; inversion H; subst p'; clear H.
  destruct (inv_addr _ _ _ a WS I (nth_error_In _ _ Hn)) as [Htot _]. rewrite Htot in S.
  apply faddr_some in Fa. destruct Fa as [_ Fip].
  assert (G1 : test_bit (a_bits a) (idx_of c (b_start b)) = false \/ In b (blocks_of p k)).
  { apply andb_false_iff in HB. destruct HB as [HB|HB]; [right|left; exact HB].
    apply negb_false_iff in HB. eapply holds_block_in; eauto. }
  assert (G2 : c_paired c = true -> forall b', In b' (blocks_of p k) -> b_ip b' = b_ip b).
  { intros Pp b' Hb'. rewrite Pp in P. simpl in P. destruct (blocks_of p k) as [|b0 r] eqn:B; [contradiction|].
    apply negb_false_iff, N.eqb_eq in P. rewrite <- P.
    eapply (i_paired _ _ _ I Pp k); rewrite B; simpl; auto. }
  eapply grant_inv; eauto.
  all: try (apply limit_not_reached; auto; fail).
Qed.

Lemma step_inv c st p o : wf c -> wfst c st -> Inv c st p -> Inv c st (fst (step repaired c p o)).
Proof.
  intros W WS I. destruct o as [k obs|k obs|k|k b|k b]; simpl.
  - apply do_alloc_inv; auto.
  - destruct (blocks_of p k); [apply do_alloc_inv; auto|exact I].
  - apply release_inv; auto.
  - unfold restore; simpl. destruct (restore_repaired c p k b false) eqn:R; simpl; [eapply restore_repaired_inv; eauto|exact I].
  - unfold restore; simpl. destruct (restore_repaired c p k b true) eqn:R; simpl; [eapply restore_repaired_inv; eauto|exact I].
Qed.

Lemma run_inv c st ops : wf c -> wfst c st -> forall p, Inv c st p -> Inv c st (run repaired c p ops).
Proof.
  intros W WS. unfold run. induction ops as [|o ops IH]; intros p I; simpl; [exact I|].
  apply IH. apply step_inv; auto.
Qed.

(* ---------- ConfigurePool establishes the invariant ---------- *)
Lemma dedup_spec l : forall seen, NoDup (dedup seen l) /\ forall x, In x (dedup seen l) -> ~ In x seen /\ In x l.
Proof.
  induction l as [|y l IH]; intros seen; simpl.
  - split; [constructor|contradiction].
  - destruct (existsb (N.eqb y) seen) eqn:E.
    + destruct (IH seen) as [ND H]. split; [exact ND|]. intros x Hx. destruct (H x Hx). auto.
    + destruct (IH (y :: seen)) as [ND H]. split.
      * constructor; [|exact ND]. intros Hy. destruct (H y Hy) as [N _]. apply N. simpl; auto.
      * intros x [<-|Hx].
        -- split; [|auto]. intros Hs. assert (existsb (N.eqb y) seen = true); [|congruence].
           apply existsb_exists. exists y. split; [exact Hs|apply N.eqb_refl].
        -- destruct (H x Hx) as [N1 N2]. split; [|auto]. intros Hs. apply N1. simpl; auto.
Qed.

Definition wf_range (r : rawcfg) : Prop := get_pstart r <= get_pend r /\ get_pend r < two16.

Lemma configure_inv r p0 : wf_range r -> configure repaired r = Some p0 ->
  wf (effective r) /\ wfst (effective r) (map static (p_addrs p0)) /\ Inv (effective r) (map static (p_addrs p0)) p0.
Proof.
  intros [R1 R2] H. unfold configure in H.
  destruct (N.eqb_spec (c_bs (effective r)) 0) as [E|E]; [discriminate|]. inversion H; subst p0; clear H.
  assert (W : wf (effective r)).
  { unfold wf. cbn [effective c_bs c_pstart c_pend c_max] in *. unfold get_max.
    repeat split; try lia. destruct (N.ltb_spec 0 (r_max r)); lia. }
  split; [exact W|]. cbn [p_addrs p_subs].
  split.
  - split.
    + rewrite <- map_ip_static. rewrite map_map. cbn [a_ip]. rewrite map_id.
      unfold outside_ips. cbn [repaired v_dedup]. apply dedup_spec.
    + intros x Hx. rewrite map_map in Hx. apply in_map_iff in Hx. destruct Hx as (ip & <- & _).
      unfold static; simpl. rewrite repeat_length. auto.
  - destruct W as (_ & _ & _ & M).
    constructor; unfold blocks_of; simpl; try reflexivity; try (intros; contradiction); try (intros; lia).
Qed.

(* ---------- the property, read off the invariant ---------- *)
Section Reach.
  Variable r : rawcfg.
  Variable p0 : pool.
  Hypothesis Hr : wf_range r.
  Hypothesis Hc : configure repaired r = Some p0.
  Let c := effective r.
  Let st := map static (p_addrs p0).

  Lemma reach_inv ops : Inv c st (run repaired c p0 ops).
  Proof. destruct (configure_inv r p0 Hr Hc) as (W & WS & I). apply run_inv; auto. Qed.
  Lemma reach_wf : wf c.
  Proof. destruct (configure_inv r p0 Hr Hc) as (W & WS & I). exact W. Qed.
End Reach.

Lemma inv_disjoint c st p : wf c -> Inv c st p -> forall k1 k2 b1 b2, k1 <> k2 ->
  In b1 (blocks_of p k1) -> In b2 (blocks_of p k2) -> b_ip b1 = b_ip b2 ->
  b_end b1 < b_start b2 \/ b_end b2 < b_start b1.
Proof.
  intros W I k1 k2 b1 b2 NE H1 H2 Eip.
  destruct (i_blk _ _ _ I _ _ H1) as (_ & _ & _ & S1 & E1 & _).
  destruct (i_blk _ _ _ I _ _ H2) as (_ & _ & _ & S2 & E2 & _).
  assert (b_start b1 <> b_start b2) by (intros E; apply NE; eapply (i_excl _ _ _ I); eauto).
  rewrite E1, E2. apply start_ok_disjoint; auto.
Qed.

Lemma inv_block_ok c st p : wf c -> wfst c st -> Inv c st p -> forall k b, In b (blocks_of p k) ->
  (exists a, In a (p_addrs p) /\ a_ip a = b_ip b /\ a_excl a = false) /\
  c_pstart c <= b_start b /\ (b_start b - c_pstart c) mod c_bs c = 0 /\
  b_end b = b_start b + c_bs c - 1 /\ b_end b <= c_pend c.
Proof.
  intros W WS I k b H. destruct (i_blk _ _ _ I _ _ H) as (a & F & X & S & E & _).
  apply faddr_some in F. destruct F as [Fi Fe].
  split; [exists a; auto|].
  destruct (start_ok_spec c _ W S) as (idx & _ & _ & _ & B).
  unfold start_ok in S. rewrite !andb_true_iff, N.leb_le, N.eqb_eq in S. destruct S as ((S1 & S2) & _).
  repeat split; auto. rewrite E. exact B.
Qed.

Lemma configure_addr r p0 a : configure repaired r = Some p0 ->
  In (static a) (map static (p_addrs p0)) ->
  In (a_ip a) (flat_map expand (r_outside r)) /\ (a_excl a = false -> ~ In (a_ip a) (r_excluded r)).
Proof.
  intros H Ha. unfold configure in H. destruct (c_bs (effective r) =? 0); [discriminate|]. inversion H; subst p0; clear H.
  cbn [p_addrs] in Ha. rewrite map_map in Ha. apply in_map_iff in Ha. destruct Ha as (ip & E & Hip).
  unfold static in E; simpl in E. inversion E as [[E1 E2 E3 E4]]. rewrite <- E1. split.
  - unfold outside_ips in Hip. cbn [repaired v_dedup] in Hip. apply (proj2 (dedup_spec _ []) ip Hip).
  - intros X Hin. assert (existsb (N.eqb ip) (r_excluded r) = true); [|congruence].
    apply existsb_exists. exists ip. split; [exact Hin|apply N.eqb_refl].
Qed.

Section Statements.
  Variable r : rawcfg.
  Variable p0 : pool.
  Variable ops : list op.
  Hypothesis Hr : wf_range r.
  Hypothesis Hc : configure repaired r = Some p0.
  Let c := effective r.
  Let p := run repaired c p0 ops.

  Lemma disjoint_all k1 k2 b1 b2 : k1 <> k2 -> In b1 (blocks_of p k1) -> In b2 (blocks_of p k2) ->
    b_ip b1 = b_ip b2 -> b_end b1 < b_start b2 \/ b_end b2 < b_start b1.
  Proof. eapply inv_disjoint; [eapply reach_wf|eapply reach_inv]; eauto. Qed.

  Lemma in_range_all k b : In b (blocks_of p k) ->
    In (b_ip b) (flat_map expand (r_outside r)) /\ ~ In (b_ip b) (r_excluded r) /\
    c_pstart c <= b_start b /\ (b_start b - c_pstart c) mod c_bs c = 0 /\
    b_end b = b_start b + c_bs c - 1 /\ b_end b <= c_pend c.
  Proof.
    intros H. destruct (configure_inv r p0 Hr Hc) as (W & WS & I0).
    pose proof (reach_inv r p0 Hr Hc ops) as I.
    destruct (inv_block_ok _ _ _ W WS I _ _ H) as ((a & Ha & Eip & X) & R).
    apply (in_map static) in Ha. rewrite (i_static _ _ _ I) in Ha.
    destruct (configure_addr r p0 a Hc Ha) as [A1 A2]. rewrite Eip in *. auto.
  Qed.

  Lemma limit_all k : N.of_nat (length (blocks_of p k)) <= c_max c.
  Proof. apply (i_limit _ _ _ (reach_inv r p0 Hr Hc ops)). Qed.

  Lemma paired_all k b1 b2 : c_paired c = true -> In b1 (blocks_of p k) -> In b2 (blocks_of p k) -> b_ip b1 = b_ip b2.
  Proof. intros P. apply (i_paired _ _ _ (reach_inv r p0 Hr Hc ops) P). Qed.
End Statements.

(* ---------- releasing frees every block for reuse ---------- *)
Lemma release_clears c st p k b : wf c -> wfst c st -> Inv c st p -> In b (blocks_of p k) ->
  exists a, faddr (p_addrs (release c p k)) (b_ip b) = Some a /\ a_excl a = false /\
            test_bit (a_bits a) (idx_of c (b_start b)) = false.
Proof.
  intros W WS I Hb. destruct (i_blk _ _ _ I _ _ Hb) as (a & F & X & S & E & T).
  assert (A0 : ainfo (p_addrs p) (b_ip b) (idx_of c (b_start b)) = Some (false, true)) by (apply ainfo_blk; eauto).
  unfold release, blocks_of in *. destruct (sub_get k (p_subs p)) as [bl|] eqn:G; [|contradiction]. cbn [p_addrs].
  pose proof (ainfo_release_fold c bl (p_addrs p) (b_ip b) (idx_of c (b_start b))) as A. rewrite A0 in A. simpl in A.
  assert (FB : forallb (fun b0 => negb ((b_ip b0 =? b_ip b) && (idx_of c (b_start b0) =? idx_of c (b_start b)))) bl = false).
  { apply not_true_is_false. intros FT. rewrite forallb_forall in FT. specialize (FT b Hb).
    rewrite !N.eqb_refl in FT. discriminate. }
  rewrite FB in A. unfold ainfo in A.
  destruct (faddr (fold_left (release_one c) bl (p_addrs p)) (b_ip b)) as [a1|] eqn:F1; [|discriminate]. simpl in A.
  inversion A as [[A1 A2]]. exists a1. repeat split; auto.
Qed.

Lemma release_reuse c st p k b k' : wf c -> wfst c st -> Inv c st p -> In b (blocks_of p k) ->
  limit_reached c (release c p k) k' = false ->
  (c_paired c = true -> forall b', In b' (blocks_of (release c p k) k') -> b_ip b' = b_ip b) ->
  alloc_obs c (release c p k) k' b <> None.
Proof.
  intros W WS I Hb L P. pose proof (release_inv c st p k W I) as I'.
  destruct (release_clears _ _ _ _ _ W WS I Hb) as (a & F & X & T).
  destruct (i_blk _ _ _ I _ _ Hb) as (_ & _ & _ & S & E & _).
  pose proof (faddr_some _ _ _ F) as [Fi Fe].
  destruct (inv_addr _ _ _ a WS I' Fi) as [Htot _].
  assert (O : obs_addr_ok c b a = true).
  { unfold obs_addr_ok. rewrite Fe, N.eqb_refl, X, Htot, S, E, N.eqb_refl, T. reflexivity. }
  unfold alloc_obs. rewrite L.
  destruct (paired_target c (release c p k) k') as [i|] eqn:PT.
  - destruct (nth_error (p_addrs (release c p k)) i) as [a1|] eqn:Hn.
    + destruct (paired_target_some _ _ _ _ _ _ WS I' PT Hn) as [X1 Hp].
      assert (a1 = a).
      { unfold paired_target in PT. destruct (blocks_of (release c p k) k') as [|b0 r0] eqn:B; [discriminate|].
        destruct (c_paired c) eqn:Pc; [|discriminate].
        assert (a_ip a1 = b_ip b). { rewrite <- (Hp b0) by (simpl; auto). apply P; simpl; auto. }
        pose proof (faddr_nth _ (inv_nodup _ _ _ WS I') _ _ Hn) as F1. rewrite H, F in F1. congruence. }
      subst a1. rewrite O. discriminate.
    + unfold paired_target in PT. destruct (blocks_of (release c p k) k'); [discriminate|].
      destruct (c_paired c); [|discriminate]. destruct (findi_spec _ _ _ PT) as (? & ? & _). congruence.
  - destruct (findi (obs_addr_ok c b) (p_addrs (release c p k))) eqn:FI; [discriminate|].
    pose proof (findi_none _ _ FI a Fi). congruence.
Qed.

Lemma release_frees_all r p0 ops k : wf_range r -> configure repaired r = Some p0 ->
  let c := effective r in
  let p := run repaired c p0 ops in
  let p' := fst (step repaired c p (ORelease k)) in
  blocks_of p' k = [] /\
  forall b, In b (blocks_of p k) ->
    (forall k', ~ In b (blocks_of p' k')) /\
    (forall k', limit_reached c p' k' = false ->
                (c_paired c = true -> forall b', In b' (blocks_of p' k') -> b_ip b' = b_ip b) ->
                exists p'', alloc_obs c p' k' b = Some p'').
Proof.
  intros Hr Hc c p p'. destruct (configure_inv r p0 Hr Hc) as (W & WS & I0).
  pose proof (reach_inv r p0 Hr Hc ops) as I. fold c p in I.
  subst p'. cbn [step fst]. split; [rewrite blocks_of_release, N.eqb_refl; reflexivity|].
  intros b Hb. split.
  - intros k' H. rewrite blocks_of_release in H. destruct (N.eqb_spec k' k) as [E|NE]; [contradiction|].
    apply NE. eapply (i_excl _ _ _ I); eauto.
  - intros k' L P. destruct (alloc_obs c (release c p k) k' b) eqn:A; [eauto|].
    exfalso. eapply release_reuse; eauto.
Qed.

(* ====================================================================== reverse index and component *)
Definition rkey (m : mapping) : N * N := (b_ip (m_blk m), b_start (m_blk m)).

Lemma nodup_map_inj {A B} (f : A -> B) l x y : NoDup (map f l) -> In x l -> In y l -> f x = f y -> x = y.
Proof.
  induction l as [|a l IH]; simpl; intros ND Hx Hy E; [contradiction|].
  inversion ND as [|? ? NI ND']; subst.
  destruct Hx as [->|Hx], Hy as [->|Hy]; auto.
  - exfalso. apply NI. rewrite E. apply in_map; auto.
  - exfalso. apply NI. rewrite <- E. apply in_map; auto.
Qed.
Lemma nodup_map_filter {A B} (f : A -> B) g l : NoDup (map f l) -> NoDup (map f (filter g l)).
Proof.
  induction l as [|a l IH]; simpl; intros ND; [constructor|]. inversion ND as [|? ? NI ND']; subst.
  destruct (g a); simpl; auto. constructor; auto. intros H. apply NI.
  apply in_map_iff in H. destruct H as (x & E & Hx). apply filter_In in Hx. rewrite <- E. apply in_map. tauto.
Qed.
Lemma remove_first_id_filter id l : NoDup (map m_id l) ->
  remove_first_id id l = filter (fun m => negb (m_id m =? id)) l.
Proof.
  induction l as [|m l IH]; simpl; intros ND; [reflexivity|]. inversion ND as [|? ? NI ND']; subst.
  destruct (N.eqb_spec (m_id m) id) as [E|E]; simpl.
  - symmetry. rewrite <- (filter_ext_in (fun _ => true)); [clear; induction l; simpl; congruence|].
    intros x Hx. symmetry. apply negb_true_iff, N.eqb_neq. intros E2. apply NI. rewrite E, <- E2. apply in_map; auto.
  - f_equal. auto.
Qed.

Lemma NoDup_app_single {A} (l : list A) x : NoDup l /\ ~ In x l -> NoDup (l ++ [x]).
Proof.
  intros [ND NI]. induction l as [|a l IH]; simpl; [constructor; [tauto|constructor]|].
  inversion ND; subst. constructor.
  - rewrite in_app_iff. simpl. intros [H|[H|[]]]; [auto|]. apply NI. simpl; auto.
  - apply IH; auto. intros H. apply NI. simpl; auto.
Qed.

Record RI (ri : rindex) : Prop := {
  ri_fresh : forall m, In m (r_byip ri) -> m_id m < r_next ri;
  ri_ids : NoDup (map m_id (r_byip ri));
  ri_keys : NoDup (map rkey (r_byip ri));
  ri_bb : forall ip s id, In (ip, s, id) (r_byblock ri) <->
                          exists m, In m (r_byip ri) /\ rkey m = (ip, s) /\ m_id m = id }.

Lemma key_eqb_spec ip s e : key_eqb ip s e = true <-> fst e = (ip, s).
Proof.
  unfold key_eqb. destruct e as [[ip' s'] id]; simpl. rewrite andb_true_iff, !N.eqb_eq. split.
  - intros [-> ->]; reflexivity.
  - intros H; inversion H; auto.
Qed.

(* membership after Remove: exactly the entries with another key *)
Lemma rev_remove_spec ri ip s : RI ri ->
  RI (rev_remove ri ip s) /\ r_next (rev_remove ri ip s) = r_next ri /\
  forall m, In m (r_byip (rev_remove ri ip s)) <-> In m (r_byip ri) /\ rkey m <> (ip, s).
Proof.
  intros R. unfold rev_remove. destruct (find (key_eqb ip s) (r_byblock ri)) as [e|] eqn:F.
  - apply find_some in F. destruct F as [Fi Fk]. apply key_eqb_spec in Fk.
    destruct e as [[ip' s'] id]; simpl in Fk; inversion Fk; subst ip' s'; clear Fk. cbn [snd].
    destruct (proj1 (ri_bb _ R ip s id) Fi) as (m0 & Hm0 & K0 & I0).
    rewrite (remove_first_id_filter id _ (ri_ids _ R)).
    assert (Hmem : forall m, In m (filter (fun m => negb (m_id m =? id)) (r_byip ri)) <-> In m (r_byip ri) /\ rkey m <> (ip, s)).
    { intros m. rewrite filter_In, negb_true_iff, N.eqb_neq. split; intros [Hm H]; split; auto.
      - intros K. apply H. rewrite <- I0. f_equal. eapply (nodup_map_inj rkey); eauto using ri_keys. congruence.
      - intros E. apply H. rewrite <- K0. f_equal. eapply (nodup_map_inj m_id); eauto using ri_ids. congruence. }
    split; [|split; [reflexivity|exact Hmem]].
    constructor; cbn [r_byblock r_byip r_next].
    + intros m Hm. apply Hmem in Hm. apply (ri_fresh _ R). tauto.
    + apply nodup_map_filter. apply (ri_ids _ R).
    + apply nodup_map_filter. apply (ri_keys _ R).
    + intros ip' s' id'. rewrite filter_In, negb_true_iff. rewrite (ri_bb _ R). split.
      * intros [(m & Hm & K & I) NK]. exists m. split; [|auto]. apply Hmem. split; auto.
        intros K2. rewrite K in K2. inversion K2; subst. unfold key_eqb in NK; simpl in NK. rewrite !N.eqb_refl in NK. discriminate.
      * intros (m & Hm & K & I). apply Hmem in Hm. destruct Hm as [Hm NK]. split; [eauto|].
        apply not_true_is_false. intros T. apply key_eqb_spec in T. simpl in T. congruence.
  - split; [exact R|]. split; [reflexivity|]. intros m. split; [|tauto]. intros Hm. split; [exact Hm|].
    intros K. pose proof (find_none _ _ F) as FN.
    assert (Hin : In (ip, s, m_id m) (r_byblock ri)) by (apply (ri_bb _ R); eauto).
    specialize (FN _ Hin). assert (key_eqb ip s (ip, s, m_id m) = true) by (apply key_eqb_spec; reflexivity). congruence.
Qed.

Lemma rev_add_spec ri k b : RI ri ->
  RI (rev_add repaired ri k b) /\
  forall m, In m (r_byip (rev_add repaired ri k b)) <->
            (In m (r_byip ri) /\ rkey m <> (b_ip b, b_start b)) \/ m = {| m_id := r_next ri; m_sub := k; m_blk := b |}.
Proof.
  intros R. destruct (rev_remove_spec ri (b_ip b) (b_start b) R) as (R1 & N1 & M1).
  set (mn := {| m_id := r_next ri; m_sub := k; m_blk := b |}).
  assert (BYIP : r_byip (rev_add repaired ri k b) = r_byip (rev_remove ri (b_ip b) (b_start b)) ++ [mn]).
  { unfold rev_add, rev_remove. cbn [repaired v_replace r_byip].
    destruct (find (key_eqb (b_ip b) (b_start b)) (r_byblock ri)); reflexivity. }
  assert (BB : forall e, In e (r_byblock (rev_add repaired ri k b)) <->
               e = (b_ip b, b_start b, r_next ri) \/ In e (r_byblock (rev_remove ri (b_ip b) (b_start b)))).
  { intros e. unfold rev_add, rev_remove. cbn [r_byblock].
    destruct (find (key_eqb (b_ip b) (b_start b)) (r_byblock ri)) eqn:F; cbn [r_byblock In].
    - split; intros [H|H]; auto.
    - split; intros [H|H]; auto.
      + right. apply filter_In in H. tauto.
      + right. apply filter_In. split; [exact H|]. rewrite (find_none _ _ F _ H). reflexivity. }
  assert (Hmem : forall m, In m (r_byip (rev_add repaired ri k b)) <->
            (In m (r_byip ri) /\ rkey m <> (b_ip b, b_start b)) \/ m = mn).
  { intros m. rewrite BYIP, in_app_iff, M1. simpl. intuition. }
  split; [|exact Hmem].
  constructor.
  - intros m Hm. apply Hmem in Hm. unfold rev_add; cbn [r_next]. destruct Hm as [[Hm _]| ->].
    + pose proof (ri_fresh _ R _ Hm). lia.
    + simpl. lia.
  - rewrite BYIP, map_app. simpl. apply NoDup_app_single. split; [apply (ri_ids _ R1)|].
    intros H. apply in_map_iff in H. destruct H as (m & E & Hm). apply M1 in Hm.
    pose proof (ri_fresh _ R _ (proj1 Hm)). lia.
  - rewrite BYIP, map_app. simpl. apply NoDup_app_single. split; [apply (ri_keys _ R1)|].
    intros H. apply in_map_iff in H. destruct H as (m & E & Hm). apply M1 in Hm. destruct Hm as [_ NK]. apply NK. exact E.
  - intros ip s id. rewrite BB. split.
    + intros [E|H].
      * inversion E; subst. exists mn. split; [apply Hmem; auto|]. split; reflexivity.
      * apply (ri_bb _ R1) in H. destruct H as (m & Hm & K & I). exists m. split; [|auto].
        rewrite BYIP. apply in_or_app. auto.
    + intros (m & Hm & K & I). apply Hmem in Hm. destruct Hm as [Hm| ->].
      * right. apply (ri_bb _ R1). exists m. split; [apply M1; exact Hm|auto].
      * left. unfold rkey in K; simpl in K. inversion K; subst. simpl. reflexivity.
Qed.

Lemma rev_remove_fold bl : forall ri, RI ri ->
  let ri' := fold_left (fun ri b => rev_remove ri (b_ip b) (b_start b)) bl ri in
  RI ri' /\ forall m, In m (r_byip ri') <-> In m (r_byip ri) /\ forall b, In b bl -> rkey m <> (b_ip b, b_start b).
Proof.
  induction bl as [|b bl IH]; intros ri R; simpl.
  - split; [exact R|]. intros m. split; [intros H; split; [exact H|intros ? []]|tauto].
  - destruct (rev_remove_spec ri (b_ip b) (b_start b) R) as (R1 & _ & M1).
    destruct (IH _ R1) as [R2 M2]. split; [exact R2|]. intros m. rewrite M2, M1. split.
    + intros [[Hm NK] H]. split; [exact Hm|]. intros b0 [<-|Hb0]; auto.
    + intros [Hm H]. split; [split; [exact Hm|apply H; auto]|]. intros b0 Hb0. apply H; auto.
Qed.

(* shape of what the pool operations do to the block lists *)
Lemma do_alloc_shape c p k obs p' o : do_alloc c p k obs = (p', o) ->
  (exists b addrs', o = RBlock true b /\ p' = add_block p k b addrs') \/
  (p' = p /\ forall nw b, o <> RBlock nw b).
Proof.
  unfold do_alloc, alloc_literal.
  destruct (limit_reached c p k) eqn:L; [intros H; inversion H; right; split; [auto|discriminate]|].
  assert (AO : forall o0 p1, alloc_obs c p k o0 = Some p1 -> exists addrs', p1 = add_block p k o0 addrs').
  { unfold alloc_obs. rewrite L. intros o0 p1 H.
    destruct (match paired_target c p k with Some i => _ | None => _ end); inversion H. eauto. }
  destruct (choose_target c p k) as [i|]; [|intros H; inversion H; right; split; [auto|discriminate]].
  destruct (nth_error (p_addrs p) i) as [a|]; [|intros H; inversion H; right; split; [auto|discriminate]].
  destruct (allocate_block a) as [[idx a']|]; [|intros H; inversion H; right; split; [auto|discriminate]].
  destruct obs as [o0|]; [|intros H; inversion H; left; eauto].
  destruct (block_eqb o0 _); [intros H; inversion H; left; eauto|].
  destruct (alloc_obs c p k o0) as [p1|] eqn:A; intros H; inversion H.
  - destruct (AO _ _ A) as (addrs' & ->). left. eauto.
  - right. split; [auto|discriminate].
Qed.

Lemma restore_repaired_shape c st p k b p' : wf c -> Inv c st p -> restore_repaired c p k b true = Some p' ->
  (p' = p /\ In b (blocks_of p k)) \/ exists addrs', p' = add_block p k b addrs'.
Proof.
  intros W I. unfold restore_repaired.
  destruct (findi _ (p_addrs p)); [|discriminate]. destruct (nth_error (p_addrs p) n) as [a|]; [|discriminate].
  destruct (a_excl a); [discriminate|]. destruct (start_ok c (a_total a) (b_start b)); [|discriminate]. simpl.
  destruct (N.eqb_spec (b_end b) (b_start b + c_bs c - 1)) as [E|E]; [|discriminate]. simpl.
  destruct (holds_block (blocks_of p k) b) eqn:H.
  - intros X; inversion X; subst. left. split; [reflexivity|]. eapply holds_block_in; eauto.
  - simpl. destruct (test_bit _ _); [discriminate|]. destruct (limit_reached c p k); [discriminate|].
    destruct (c_paired c && _); [discriminate|]. intros X; inversion X. right. eauto.
Qed.

Lemma pk_repaired k : pk repaired k = k.
Proof. reflexivity. Qed.

Lemma configure_empty v r p0 : configure v r = Some p0 -> forall k, blocks_of p0 k = [].
Proof. unfold configure. destruct (c_bs (effective r) =? 0); [discriminate|]. intros H; inversion H. reflexivity. Qed.

Lemma covers_spec b ip port : covers b ip port = true <-> b_ip b = ip /\ b_start b <= port /\ port <= b_end b.
Proof. unfold covers. rewrite !andb_true_iff, N.eqb_eq, !N.leb_le. tauto. Qed.

(* the current first-free policy is one of the admissible ones *)
Lemma literal_is_admissible c st p k b p' : wf c -> wfst c st -> Inv c st p ->
  alloc_literal c p k = inr (b, p') -> alloc_obs c p k b = Some p'.
Proof.
  intros W WS I. unfold alloc_literal, alloc_obs.
  destruct (limit_reached c p k) eqn:L; [discriminate|].
  destruct (choose_target c p k) as [i|] eqn:C; [|discriminate].
  destruct (nth_error (p_addrs p) i) as [a|] eqn:Hn; [|discriminate].
  destruct (allocate_block a) as [[idx a']|] eqn:A; [|discriminate].
  intros H; inversion H; subst b p'; clear H.
  destruct (allocate_block_spec _ _ _ A) as (Hidx & Hclr & Ha').
  destruct (inv_addr _ _ _ a WS I (nth_error_In _ _ Hn)) as [Htot _]. rewrite Htot in Hidx.
  destruct (block_at_spec c (a_ip a) idx W Hidx) as (B1 & B2 & B3 & B4 & B5).
  assert (O : obs_addr_ok c (block_at c (a_ip a) idx) a = true).
  { unfold obs_addr_ok. rewrite B1, N.eqb_refl, Htot, B4, B3, N.eqb_refl, B5, Hclr.
    assert (X : a_excl a = false).
    { unfold choose_target in C. destruct (paired_target c p k) as [i'|] eqn:PT.
      - inversion C; subst i'. apply (paired_target_some _ _ _ _ _ _ WS I PT Hn).
      - unfold first_free in C. destruct (findi_spec _ _ _ C) as (a0 & Hn0 & F). rewrite Hn in Hn0. inversion Hn0; subst a0.
        apply andb_true_iff in F. destruct F as [F _]. apply negb_true_iff in F. exact F. }
    rewrite X. reflexivity. }
  assert (U : upd_nth i (fun _ => a') (p_addrs p) =
              upd_nth i (fun a0 => with_bits a0 (set_bit (a_bits a0) (idx_of c (b_start (block_at c (a_ip a) idx))))) (p_addrs p)).
  { eapply upd_nth_const; eauto. rewrite B5. auto. }
  unfold choose_target in C. destruct (paired_target c p k) as [i'|] eqn:PT.
  - inversion C; subst i'. rewrite Hn, O, U. reflexivity.
  - assert (FI : findi (obs_addr_ok c (block_at c (a_ip a) idx)) (p_addrs p) = Some i).
    { pose proof (inv_nodup _ _ _ WS I) as ND.
      destruct (findi (obs_addr_ok c (block_at c (a_ip a) idx)) (p_addrs p)) as [j|] eqn:FJ.
      - destruct (findi_spec _ _ _ FJ) as (aj & Hj & Oj).
        assert (a_ip aj = a_ip a).
        { unfold obs_addr_ok in Oj. rewrite !andb_true_iff in Oj. destruct Oj as ((((Oj & _) & _) & _) & _).
          apply N.eqb_eq in Oj. rewrite B1 in Oj. exact Oj. }
        f_equal. clear - ND Hj Hn H. revert i j Hj Hn. induction (p_addrs p) as [|x l IH]; intros [|i] [|j] Hj Hn; simpl in *; try discriminate; auto.
        + inversion Hn; subst. inversion ND; subst. exfalso. apply H2. rewrite <- H. apply in_map. eapply nth_error_In; eauto.
        + inversion Hj; subst. inversion ND; subst. exfalso. apply H2. rewrite H. apply in_map. eapply nth_error_In; eauto.
        + f_equal. inversion ND; subst. eauto.
      - pose proof (findi_none _ _ FJ a (nth_error_In _ _ Hn)). congruence. }
    rewrite FI, U. reflexivity.
Qed.

Lemma first_free_admissible r p0 ops k b p' : wf_range r -> configure repaired r = Some p0 ->
  alloc_literal (effective r) (run repaired (effective r) p0 ops) k = inr (b, p') ->
  alloc_obs (effective r) (run repaired (effective r) p0 ops) k b = Some p'.
Proof.
  intros Hr Hc. destruct (configure_inv r p0 Hr Hc) as (W & WS & I0).
  eapply literal_is_admissible; eauto. apply run_inv; auto.
Qed.

(* second geometry for the reverse-index witnesses: one public address *)
Definition ex_raw1 : rawcfg :=
  {| r_bs := 16; r_ratio := 0; r_range := Some (1024, 1151); r_max := 2; r_pooling := 1;
     r_outside := [OIp 1681915905]; r_excluded := [] |}.
(* the same address listed twice *)
Definition ex_raw_dup : rawcfg :=
  {| r_bs := 64; r_ratio := 0; r_range := Some (1024, 1151); r_max := 1; r_pooling := 1;
     r_outside := [OIp 1681915905; OIp 1681915905]; r_excluded := [] |}.

(* ====================================================================== the component only ever performs pool operations *)
Lemma run_app v c p l1 l2 : run v c p (l1 ++ l2) = run v c (run v c p l1) l2.
Proof. unfold run. apply fold_left_app. Qed.

Lemma restore_as_step v c p mk mb :
  match restore v c p mk mb true with Some p' => p' | None => p end = fst (step v c p (ORestoreIfAbsent mk mb)).
Proof. cbn [step]. destruct (restore v c p mk mb true); reflexivity. Qed.

Lemma pba_refines v c s sid k dp obs :
  exists pops, cp_pool (fst (pba_activate v c s sid k dp obs)) = run v c (cp_pool s) pops.
Proof.
  unfold pba_activate. destruct (step v c (cp_pool s) (OGoa k obs)) as [p' o] eqn:E.
  assert (P : p' = run v c (cp_pool s) [OGoa k obs]) by (unfold run; cbn [fold_left]; rewrite E; reflexivity).
  destruct o as [nw b|e|b| |]; try (exists [OGoa k obs]; exact P).
  destruct nw; [|exists [OGoa k obs]; exact P].
  destruct dp; [exists [OGoa k obs]; exact P|].
  exists [OGoa k obs; ORelease k]. unfold run. cbn [fold_left]. rewrite E. reflexivity.
Qed.

Lemma cstep_refines v c s o : exists pops, cp_pool (fst (cstep v c s o)) = run v c (cp_pool s) pops.
Proof.
  destruct o as [sid k dp obs|sid k obs|sid ok|sid k mk mb dp obs|sid k dl|sid mk mb bulk obs|sid0 mk mb|]; cbn [cstep].
  - destruct (busy s sid); [exists []; reflexivity|]. apply pba_refines.
  - destruct (busy s sid); [exists []; reflexivity|].
    destruct (step v c (cp_pool s) (OGoa (pk v k) obs)) as [p' o] eqn:E.
    exists [OGoa (pk v k) obs]. unfold run; cbn [fold_left]. rewrite E.
    destruct o as [nw b|e|b| |]; try reflexivity. destruct nw; reflexivity.
  - destruct (find _ (cp_pend s)) as [e|]; [|exists []; reflexivity].
    destruct ok.
    + exists []. destruct (v_late v && _); reflexivity.
    + exists [ORelease (snd (fst e))]. reflexivity.
  - destruct (busy s sid); [exists []; reflexivity|].
    pose proof (restore_as_step v c (cp_pool s) mk mb) as RS.
    destruct (restore v c (cp_pool s) mk mb true) as [p'|] eqn:H; [|apply pba_refines].
    destruct dp.
    + exists [ORestoreIfAbsent mk mb]. unfold run; cbn [fold_left]. rewrite <- RS. reflexivity.
    + exists [ORestoreIfAbsent mk mb; ORelease (pk v mk)]. unfold run. cbn [fold_left]. rewrite <- RS. reflexivity.
  - match goal with |- context [if ?b then _ else _] => destruct b end; [exists []; reflexivity|].
    destruct (blocks_of (cp_pool s) (pk v k)); [exists []; reflexivity|].
    exists [ORelease (pk v k)]. reflexivity.
  - destruct (negb (bulk =? 0)).
    { destruct (busy s sid); [exists []; reflexivity|]. apply pba_refines. }
    pose proof (restore_as_step v c (cp_pool s) mk mb) as RS.
    destruct (restore v c (cp_pool s) mk mb true) as [p'|] eqn:H.
    + exists [ORestoreIfAbsent mk mb]. unfold run; cbn [fold_left]. rewrite <- RS. reflexivity.
    + exists []. destruct (v_validate v); reflexivity.
  - pose proof (restore_as_step v c (cp_pool s) mk mb) as RS.
    destruct (restore v c (cp_pool s) mk mb true) as [p'|] eqn:H.
    + exists [ORestoreIfAbsent mk mb]. unfold run; cbn [fold_left]. rewrite <- RS. reflexivity.
    + exists []. reflexivity.
  - exists []. reflexivity.
Qed.

Lemma crun_refines v c ops : forall s, exists pops, cp_pool (crun v c s ops) = run v c (cp_pool s) pops.
Proof.
  unfold crun. induction ops as [|o ops IH]; intros s; simpl; [exists []; reflexivity|].
  destruct (cstep_refines v c s o) as (l1 & E1). destruct (IH (fst (cstep v c s o))) as (l2 & E2).
  exists (l1 ++ l2). rewrite E2, E1, run_app. reflexivity.
Qed.

(* pool statements for the pool inside the component, for EVERY component history: late completions in any
   order included *)
Lemma comp_pool_props_all r p0 ops : wf_range r -> configure repaired r = Some p0 ->
  let c := effective r in
  let s := crun repaired c (comp_init p0) ops in
  (forall k1 k2 b1 b2, k1 <> k2 -> In b1 (blocks_of (cp_pool s) k1) -> In b2 (blocks_of (cp_pool s) k2) ->
     b_ip b1 = b_ip b2 -> b_end b1 < b_start b2 \/ b_end b2 < b_start b1) /\
  (forall k b, In b (blocks_of (cp_pool s) k) ->
     In (b_ip b) (flat_map expand (r_outside r)) /\ ~ In (b_ip b) (r_excluded r) /\
     c_pstart c <= b_start b /\ (b_start b - c_pstart c) mod c_bs c = 0 /\
     b_end b = b_start b + c_bs c - 1 /\ b_end b <= c_pend c) /\
  (forall k, N.of_nat (length (blocks_of (cp_pool s) k)) <= c_max c) /\
  (c_paired c = true -> forall k b1 b2, In b1 (blocks_of (cp_pool s) k) -> In b2 (blocks_of (cp_pool s) k) -> b_ip b1 = b_ip b2).
Proof.
  intros Hr Hc c s. destruct (crun_refines repaired c ops (comp_init p0)) as (pops & E).
  subst s. rewrite E. cbn [comp_init cp_pool]. repeat split.
  - apply (disjoint_all r p0 pops Hr Hc).
  - apply (in_range_all r p0 pops Hr Hc k b H).
  - apply (in_range_all r p0 pops Hr Hc k b H).
  - apply (in_range_all r p0 pops Hr Hc k b H).
  - apply (in_range_all r p0 pops Hr Hc k b H).
  - apply (in_range_all r p0 pops Hr Hc k b H).
  - apply (in_range_all r p0 pops Hr Hc k b H).
  - apply (limit_all r p0 pops Hr Hc).
  - intros P k b1 b2. apply (paired_all r p0 pops Hr Hc k b1 b2 P).
Qed.

(* an activation that reports a block gives the subscriber (VRF and address) that very block *)
Lemma activation_grants_own_block c s sid k obs s' nw b :
  cstep repaired c s (CActivate sid k true obs) = (s', RBlock nw b) -> In b (blocks_of (cp_pool s') k).
Proof.
  cbn [cstep]. rewrite pk_repaired. destruct (busy s sid); [discriminate|].
  unfold pba_activate. cbn [step].
  destruct (blocks_of (cp_pool s) k) as [|b0 r0] eqn:B.
  - destruct (do_alloc c (cp_pool s) k obs) as [p' o] eqn:D.
    destruct (do_alloc_shape _ _ _ _ _ _ D) as [(b1 & addrs' & -> & E)|[-> Hno]].
    + intros H; inversion H; subst. cbn [commit_mapping cp_pool]. rewrite blocks_of_add, N.eqb_refl.
      apply in_or_app. simpl; auto.
    + destruct o as [nw1 b1|e|b1| |]; intros H; inversion H. exfalso. eapply Hno; reflexivity.
  - intros H; inversion H; subst. cbn [commit_mapping cp_pool]. rewrite B. simpl; auto.
Qed.

(* ====================================================================== several pools *)
Lemma nth_error_upd_nth {A} (f : A -> A) l : forall i j,
  nth_error (upd_nth i f l) j = if Nat.eqb j i then option_map f (nth_error l j) else nth_error l j.
Proof.
  induction l as [|x l IH]; intros [|i] [|j]; simpl; auto.
  - destruct (Nat.eqb j i); reflexivity.
Qed.

Lemma mrun_proj v ops : forall ps i cp, nth_error ps i = Some cp ->
  exists pops, nth_error (mrun v ps ops) i = Some (fst cp, run v (fst cp) (snd cp) pops).
Proof.
  unfold mrun. induction ops as [|[j o] ops IH]; intros ps i cp H; simpl.
  - exists []. destruct cp; exact H.
  - unfold mstep at 2. cbn [fst snd].
    assert (H' : nth_error (upd_nth j (fun cp0 => (fst cp0, fst (step v (fst cp0) (snd cp0) o))) ps) i =
                 Some (if Nat.eqb i j then (fst cp, fst (step v (fst cp) (snd cp) o)) else cp)).
    { rewrite nth_error_upd_nth, H. destruct (Nat.eqb i j); reflexivity. }
    destruct (IH _ _ _ H') as (pops & E). destruct (Nat.eqb i j).
    + exists (o :: pops). cbn [fst snd] in E. exact E.
    + exists pops. exact E.
Qed.

Lemma configure_all_nth v rs : forall ps i c p, configure_all v rs = Some ps -> nth_error ps i = Some (c, p) ->
  exists r, nth_error rs i = Some r /\ c = effective r /\ configure v r = Some p.
Proof.
  induction rs as [|r rs IH]; simpl; intros ps i c p H Hn.
  - inversion H; subst. destruct i; discriminate.
  - destruct (configure v r) as [p1|] eqn:C1; [|discriminate]. destruct (configure_all v rs) as [ps1|]; [|discriminate].
    inversion H; subst. destruct i as [|i]; simpl in Hn.
    + inversion Hn; subst. exists r. auto.
    + apply (IH ps1 i c p eq_refl Hn).
Qed.

Lemma share_address_false r1 r2 : share_address r1 r2 = false ->
  forall ip, In ip (outside_set r1) -> In ip (outside_set r2) -> False.
Proof.
  unfold share_address. intros H ip H1 H2.
  assert (existsb (fun ip0 => existsb (N.eqb ip0) (outside_set r2)) (outside_set r1) = true); [|congruence].
  apply existsb_exists. exists ip. split; [exact H1|]. apply existsb_exists. exists ip. split; [exact H2|apply N.eqb_refl].
Qed.

Lemma pools_valid_spec rs : pools_valid rs = true -> forall i j ri rj, (i < j)%nat ->
  nth_error rs i = Some ri -> nth_error rs j = Some rj -> share_address ri rj = false.
Proof.
  induction rs as [|r rs IH]; simpl; intros V i j ri rj L Hi Hj; [destruct i; discriminate|].
  apply andb_true_iff in V. destruct V as [V1 V2].
  destruct i as [|i], j as [|j]; simpl in *; try lia.
  - inversion Hi; subst. rewrite forallb_forall in V1. apply negb_true_iff. apply V1. eapply nth_error_In; eauto.
  - apply (IH V2 i j); auto. lia.
Qed.

Lemma pool_ok_wf r : pool_ok r = true -> wf_range r.
Proof.
  unfold pool_ok, wf_range, get_pstart, get_pend, parsed_range. intros H. apply andb_true_iff in H. destruct H as [H _].
  destruct (r_range r) as [[a b]|]; simpl; [|unfold two16; lia].
  apply andb_true_iff in H. destruct H as [H1 H2]. apply N.leb_le in H1. apply N.ltb_lt in H2.
  assert (a <? two16 = true) by (apply N.ltb_lt; lia). rewrite H, (proj2 (N.ltb_lt _ _) H2). simpl. lia.
Qed.
Lemma pool_ok_bs r : pool_ok r = true -> get_bs r <> 0.
Proof. unfold pool_ok. intros H. apply andb_true_iff in H. destruct H as [_ H]. apply negb_true_iff, N.eqb_neq in H. exact H. Qed.

(* Validate accepted the pool: the range is well formed and ConfigurePool succeeds *)
Lemma setup_ok r p0 : setup repaired r = Some p0 -> wf_range r /\ configure repaired r = Some p0.
Proof.
  unfold setup. cbn [repaired v_cfgcheck andb]. destruct (pool_ok r) eqn:P; simpl; [|discriminate].
  intros H. split; [apply pool_ok_wf; exact P|exact H].
Qed.
(* and conversely ConfigurePool cannot panic on an accepted pool *)
Lemma setup_total r : pool_ok r = true -> exists p0, setup repaired r = Some p0.
Proof.
  intros P. unfold setup. cbn [repaired v_cfgcheck andb]. rewrite P. simpl. unfold configure.
  pose proof (pool_ok_bs r P) as B. cbn [effective c_bs]. destruct (N.eqb_spec (get_bs r) 0); [contradiction|]. eauto.
Qed.

Lemma mdisjoint rs ps ops : mconfigure repaired rs = Some ps ->
  forall i j k1 k2 b1 b2, (i <> j \/ k1 <> k2) ->
    In b1 (mblocks (mrun repaired ps ops) i k1) -> In b2 (mblocks (mrun repaired ps ops) j k2) ->
    b_ip b1 = b_ip b2 -> b_end b1 < b_start b2 \/ b_end b2 < b_start b1.
Proof.
  intros Hm i j k1 k2 b1 b2 NE H1 H2 Eip.
  unfold mconfigure in Hm. cbn [repaired v_xpool v_cfgcheck] in Hm. simpl in Hm.
  destruct (pools_valid rs) eqn:V; [|discriminate]. simpl in Hm.
  destruct (forallb pool_ok rs) eqn:PO; [|discriminate]. simpl in Hm.
  assert (Hwf : forall r, In r rs -> wf_range r).
  { intros r Hr. apply pool_ok_wf. rewrite forallb_forall in PO. auto. }
  unfold mblocks in H1, H2.
  destruct (nth_error (mrun repaired ps ops) i) as [[c1 q1]|] eqn:N1; [|contradiction].
  destruct (nth_error (mrun repaired ps ops) j) as [[c2 q2]|] eqn:N2; [|contradiction].
  cbn [snd] in H1, H2.
  assert (L : forall i0 c q, nth_error (mrun repaired ps ops) i0 = Some (c, q) ->
          exists r p0 pops, nth_error rs i0 = Some r /\ c = effective r /\ configure repaired r = Some p0 /\
                            q = run repaired c p0 pops).
  { intros i0 c q Hn.
    assert (LEN : length (mrun repaired ps ops) = length ps).
    { clear. unfold mrun. revert ps. induction ops as [|o ops IH]; intros ps; simpl; [reflexivity|].
      rewrite IH. unfold mstep. apply upd_nth_length. }
    destruct (nth_error ps i0) as [[c0 p0]|] eqn:Np.
    - destruct (mrun_proj repaired ops ps i0 (c0, p0) Np) as (pops & E). rewrite Hn in E. inversion E; subst.
      destruct (configure_all_nth _ _ _ _ _ _ Hm Np) as (r & Hr & -> & Hc). exists r, p0, pops. auto.
    - apply nth_error_None in Np. assert (nth_error (mrun repaired ps ops) i0 <> None) by congruence.
      apply nth_error_Some in H. lia. }
  destruct (L _ _ _ N1) as (r1 & p1 & l1 & R1 & -> & C1 & ->).
  destruct (L _ _ _ N2) as (r2 & p2 & l2 & R2 & -> & C2 & ->).
  destruct (Nat.eq_dec i j) as [E|NEij].
  - subst j. rewrite R1 in R2. inversion R2; subst r2. rewrite C1 in C2. inversion C2; subst p2.
    destruct NE as [NE|NE]; [congruence|].
    (* same pool: both states are the same run *)
    rewrite N1 in N2. inversion N2 as [E2]. rewrite <- E2 in H2.
    eapply (disjoint_all r1 p1 l1); eauto. apply Hwf. eapply nth_error_In; eauto.
  - exfalso.
    pose proof (in_range_all r1 p1 l1 (Hwf _ (nth_error_In _ _ R1)) C1 k1 b1 H1) as (O1 & _).
    pose proof (in_range_all r2 p2 l2 (Hwf _ (nth_error_In _ _ R2)) C2 k2 b2 H2) as (O2 & _).
    rewrite Eip in O1.
    destruct (Nat.lt_ge_cases i j) as [Lt|Ge].
    + apply (share_address_false r1 r2 (pools_valid_spec rs V i j r1 r2 Lt R1 R2) (b_ip b2) O1 O2).
    + assert (Lt : (j < i)%nat) by lia.
      apply (share_address_false r2 r1 (pools_valid_spec rs V j i r2 r1 Lt R2 R1) (b_ip b2) O2 O1).
Qed.

(* ====================================================================== reverse exactness for every completion order *)
(* pool and index agree up to the blocks whose dataplane add is still in flight *)
Record RSP (p : pool) (ri : rindex) (pend : list (N * N * block)) : Prop := {
  rp_sound : forall m, In m (r_byip ri) -> In (m_blk m) (blocks_of p (m_sub m));
  rp_complete : forall k b, In b (blocks_of p k) ->
     (exists m, In m (r_byip ri) /\ m_sub m = k /\ m_blk m = b) \/ (exists sid, In (sid, k, b) pend) }.

(* f: the subscriber key a session id stands for *)
Definition PInv (c : cfg) (st : list (N * N * bool * nat)) (f : N -> N) (s : comp) : Prop :=
  Inv c st (cp_pool s) /\ RI (cp_rev s) /\ RSP (cp_pool s) (cp_rev s) (cp_pend s) /\
  NoDup (map pend_sid (cp_pend s)) /\ (forall e, In e (cp_pend s) -> snd (fst e) = f (pend_sid e)).

(* a release names the subscriber the session's activation was issued for *)
Definition keyed (f : N -> N) (o : cop) : bool :=
  match o with
  | CActivateLate sid k _ => k =? f sid
  | CRelease sid k _ => k =? f sid
  | _ => true
  end.

Lemma rsp_ext p p' ri pend : (forall k, blocks_of p' k = blocks_of p k) -> RSP p ri pend -> RSP p' ri pend.
Proof.
  intros E [S C]. constructor.
  - intros m Hm. rewrite E. auto.
  - intros k b Hb. rewrite E in Hb. auto.
Qed.

(* pending entries may be dropped when their block is gone or indexed *)
Lemma rsp_drop p ri pend pend' : RSP p ri pend -> incl pend' pend ->
  (forall sid k b, In (sid, k, b) pend -> ~ In (sid, k, b) pend' -> In b (blocks_of p k) ->
     exists m, In m (r_byip ri) /\ m_sub m = k /\ m_blk m = b) ->
  RSP p ri pend'.
Proof.
  intros [S C] Hincl Hd. constructor; [exact S|].
  intros k b Hb. destruct (C _ _ Hb) as [L|(sid & Hp)]; [left; exact L|].
  destruct (in_dec (fun x y : N * N * block =>
      ltac:(decide equality; [decide equality; apply N.eq_dec|decide equality; apply N.eq_dec]))
      (sid, k, b) pend') as [Hin|Hnin].
  - right. eauto.
  - left. eapply Hd; eauto.
Qed.
Lemma rsp_grow p ri pend x : RSP p ri pend -> RSP p ri (pend ++ [x]).
Proof.
  intros [S C]. constructor; [exact S|]. intros k b Hb. destruct (C _ _ Hb) as [L|(sid & Hp)]; [auto|].
  right. exists sid. apply in_or_app. auto.
Qed.

Lemma commit_p c st p p' ri pend k b : wf c -> Inv c st p' -> RI ri -> RSP p ri pend ->
  (forall k' b', In b' (blocks_of p k') -> In b' (blocks_of p' k')) ->
  (forall k' b', In b' (blocks_of p' k') -> In b' (blocks_of p k') \/ (k' = k /\ b' = b)) ->
  In b (blocks_of p' k) ->
  RI (rev_add repaired ri k b) /\ RSP p' (rev_add repaired ri k b) pend.
Proof.
  intros W I' R [S C] Hgrow Hnew Hb. destruct (rev_add_spec ri k b R) as [R' M]. split; [exact R'|].
  constructor.
  - intros m Hm. apply M in Hm. destruct Hm as [[Hm _]| ->]; [apply Hgrow; auto|exact Hb].
  - intros k' b' Hb'.
    assert (Hold : (b_ip b' <> b_ip b \/ b_start b' <> b_start b) ->
              (exists m, In m (r_byip (rev_add repaired ri k b)) /\ m_sub m = k' /\ m_blk m = b') \/
              (exists sid, In (sid, k', b') pend)).
    { intros NK. destruct (Hnew _ _ Hb') as [Ho|[-> ->]]; [|destruct NK; congruence].
      destruct (C _ _ Ho) as [(m & Hm & Ms & Mb)|P]; [|right; exact P].
      left. exists m. split; [|auto]. apply M. left. split; [exact Hm|].
      unfold rkey. rewrite Mb. intros K; inversion K; destruct NK; congruence. }
    destruct (N.eq_dec (b_ip b') (b_ip b)) as [E1|E1]; [destruct (N.eq_dec (b_start b') (b_start b)) as [E2|E2]|]; auto.
    assert (k' = k) by (eapply (i_excl _ _ _ I'); eauto). subst k'.
    destruct (i_blk _ _ _ I' _ _ Hb') as (_ & _ & _ & _ & En' & _).
    destruct (i_blk _ _ _ I' _ _ Hb) as (_ & _ & _ & _ & En & _).
    assert (b' = b) by (apply block_eq; congruence). subst b'.
    left. eexists. split; [apply M; right; reflexivity|]. split; reflexivity.
Qed.

Lemma rollback_p c st p p' ri pend mk : wf c -> Inv c st p' -> RI ri -> RSP p ri pend ->
  (forall k b, In b (blocks_of p k) -> In b (blocks_of p' k)) ->
  (forall k, k <> mk -> blocks_of p' k = blocks_of p k) ->
  RI (fold_left (fun ri b => rev_remove ri (b_ip b) (b_start b)) (blocks_of p' mk) ri) /\
  RSP (release c p' mk) (fold_left (fun ri b => rev_remove ri (b_ip b) (b_start b)) (blocks_of p' mk) ri) pend.
Proof.
  intros W I' R [S C] Hgrow Hother.
  destruct (rev_remove_fold (blocks_of p' mk) ri R) as [R' M]. split; [exact R'|].
  constructor.
  - intros m Hm. apply M in Hm. destruct Hm as [Hm NK]. rewrite blocks_of_release.
    destruct (N.eqb_spec (m_sub m) mk) as [E|E].
    + exfalso. pose proof (S _ Hm) as Own. rewrite E in Own. apply (NK _ (Hgrow _ _ Own)). reflexivity.
    + rewrite Hother by auto. auto.
  - intros k' b' Hb'. rewrite blocks_of_release in Hb'. destruct (N.eqb_spec k' mk) as [E|NE]; [contradiction|].
    pose proof Hb' as Hb2. rewrite Hother in Hb' by auto.
    destruct (C _ _ Hb') as [(m & Hm & Ms & Mb)|P]; [|right; exact P].
    left. exists m. split; [|auto]. apply M. split; [exact Hm|].
    intros b0 Hb0 K. unfold rkey in K. rewrite Mb in K. inversion K. apply NE. eapply (i_excl _ _ _ I'); eauto.
Qed.

Section PendingSteps.
  Variable c : cfg.
  Variable st : list (N * N * bool * nat).
  Variable f : N -> N.
  Hypothesis W : wf c.
  Hypothesis WS : wfst c st.

  (* replace pool and index, keep the pending list *)
  Lemma pinv_with s p' ri' : PInv c st f s -> Inv c st p' -> RI ri' -> RSP p' ri' (cp_pend s) ->
    forall sess deg, PInv c st f {| cp_pool := p'; cp_rev := ri'; cp_sess := sess; cp_pend := cp_pend s; cp_deg := deg |}.
  Proof. intros (_ & _ & _ & ND & K) I R S sess deg. unfold PInv; cbn [cp_pool cp_rev cp_pend]. auto. Qed.

  Lemma commit_after_add_p s p' k b sid addrs' : PInv c st f s -> Inv c st p' ->
    p' = add_block (cp_pool s) k b addrs' -> PInv c st f (commit_mapping repaired s p' sid k b).
  Proof.
    intros PI I' E. pose proof PI as (I & R & S & _).
    destruct (commit_p c st (cp_pool s) p' (cp_rev s) (cp_pend s) k b W I' R S) as [R' S'].
    - intros k' b' H. subst p'. rewrite blocks_of_add. destruct (k' =? k) eqn:K; [apply N.eqb_eq in K; subst; apply in_or_app|]; auto.
    - intros k' b' H. subst p'. rewrite blocks_of_add in H. destruct (N.eqb_spec k' k) as [->|]; [|auto].
      apply in_app_or in H. destruct H as [H|[<-|[]]]; auto.
    - subst p'. rewrite blocks_of_add, N.eqb_refl. apply in_or_app. simpl; auto.
    - apply (pinv_with s p' _ PI I' R' S').
  Qed.
  Lemma commit_same_p s k b sid : PInv c st f s -> In b (blocks_of (cp_pool s) k) ->
    PInv c st f (commit_mapping repaired s (cp_pool s) sid k b).
  Proof.
    intros PI Hb. pose proof PI as (I & R & S & _).
    destruct (commit_p c st (cp_pool s) (cp_pool s) (cp_rev s) (cp_pend s) k b W I R S) as [R' S']; auto.
    apply (pinv_with s _ _ PI I R' S').
  Qed.
  Lemma restore_commit_p s sid mk mb p' : PInv c st f s ->
    restore_repaired c (cp_pool s) mk mb true = Some p' -> PInv c st f (commit_mapping repaired s p' sid mk mb).
  Proof.
    intros PI H. pose proof PI as (I & R & S & _).
    pose proof (restore_repaired_inv _ _ _ _ _ _ _ W WS I H) as I'.
    destruct (restore_repaired_shape _ _ _ _ _ _ W I H) as [[-> Hb]|(addrs' & E)].
    - apply commit_same_p; auto.
    - eapply commit_after_add_p; eauto.
  Qed.

  Lemma pba_p s sid k dp obs : PInv c st f s -> PInv c st f (fst (pba_activate repaired c s sid k dp obs)).
  Proof.
    intros PI. pose proof PI as (I & R & S & ND & K). unfold pba_activate. cbn [step].
    destruct (blocks_of (cp_pool s) k) as [|b0 r0] eqn:B.
    - destruct (do_alloc c (cp_pool s) k obs) as [p' o] eqn:D.
      pose proof (do_alloc_inv c st (cp_pool s) k obs W WS I) as I'. rewrite D in I'. cbn [fst] in I'.
      destruct (do_alloc_shape _ _ _ _ _ _ D) as [(b & addrs' & -> & E)|[-> Hno]].
      + destruct dp; cbn [fst].
        * eapply commit_after_add_p; eauto.
        * unfold with_pool. apply (pinv_with s _ _ PI); [apply release_inv; auto|exact R|].
          eapply rsp_ext; [|exact S]. intros k'. rewrite blocks_of_release. subst p'. rewrite blocks_of_add.
          destruct (N.eqb_spec k' k) as [->|]; [rewrite B|]; reflexivity.
      + destruct o as [nw b| | | |]; try (cbn [fst]; destruct s; exact PI).
        exfalso. eapply Hno; reflexivity.
    - cbn [fst]. apply commit_same_p; auto. rewrite B. simpl; auto.
  Qed.

  Lemma filter_sid_facts (pend : list (N * N * block)) sid :
    let pend' := filter (fun e => negb (pend_sid e =? sid)) pend in
    incl pend' pend /\ (NoDup (map pend_sid pend) -> NoDup (map pend_sid pend')) /\
    (forall x, In x pend -> ~ In x pend' -> pend_sid x = sid).
  Proof.
    intros pend'. split; [|split].
    - intros x Hx. apply filter_In in Hx. tauto.
    - apply nodup_map_filter.
    - intros x Hx Hn. destruct (N.eqb_spec (pend_sid x) sid) as [E|E]; [exact E|].
      exfalso. apply Hn. apply filter_In. split; [exact Hx|]. apply negb_true_iff, N.eqb_neq. exact E.
  Qed.

  (* shrink the pending list of a state *)
  Lemma pinv_shrink p ri sess deg pend sid : Inv c st p -> RI ri -> RSP p ri pend ->
    NoDup (map pend_sid pend) -> (forall e, In e pend -> snd (fst e) = f (pend_sid e)) ->
    (forall k b, In (sid, k, b) pend -> In b (blocks_of p k) ->
       exists m, In m (r_byip ri) /\ m_sub m = k /\ m_blk m = b) ->
    PInv c st f {| cp_pool := p; cp_rev := ri; cp_sess := sess;
                   cp_pend := filter (fun e => negb (pend_sid e =? sid)) pend; cp_deg := deg |}.
  Proof.
    intros I R S ND K Hd. destruct (filter_sid_facts pend sid) as (Hi & Hn & Hx).
    unfold PInv; cbn [cp_pool cp_rev cp_pend]. split; [exact I|]. split; [exact R|]. split; [|split].
    - eapply rsp_drop; eauto. intros sid' k b Hp Hnp Hb.
      pose proof (Hx _ Hp Hnp) as E. unfold pend_sid in E; simpl in E. subst sid'. eauto.
    - auto.
    - intros e He. apply K. apply Hi. exact He.
  Qed.

  Lemma existsb_block_false b l : existsb (block_eqb b) l = false -> ~ In b l.
  Proof.
    intros H Hin. assert (existsb (block_eqb b) l = true); [|congruence].
    apply existsb_exists. exists b. split; [exact Hin|]. unfold block_eqb. rewrite !N.eqb_refl. reflexivity.
  Qed.

  Lemma cstep_p s o : keyed f o = true -> PInv c st f s -> PInv c st f (fst (cstep repaired c s o)).
  Proof.
    intros KY PI. pose proof PI as (I & R & S & ND & K).
    destruct o as [sid k dp obs|sid k obs|sid ok|sid k mk mb dp obs|sid k dl|sid mk mb bulk obs|sid0 mk mb|];
      cbn [cstep]; rewrite ?pk_repaired.
    - destruct (busy s sid); [exact PI|]. apply pba_p; auto.
    - (* activation whose add stays in flight *)
      destruct (busy s sid) eqn:BZ; [exact PI|]. cbn [step].
      simpl in KY. apply N.eqb_eq in KY.
      destruct (blocks_of (cp_pool s) k) as [|b0 r0] eqn:B.
      + destruct (do_alloc c (cp_pool s) k obs) as [p' o] eqn:D.
        pose proof (do_alloc_inv c st (cp_pool s) k obs W WS I) as I'. rewrite D in I'. cbn [fst] in I'.
        destruct (do_alloc_shape _ _ _ _ _ _ D) as [(b & addrs' & -> & E)|[-> Hno]].
        * cbn [fst]. unfold PInv; cbn [cp_pool cp_rev cp_pend]. split; [exact I'|]. split; [exact R|]. split; [|split].
          -- destruct S as [Ss Sc]. constructor.
             ++ intros m Hm. subst p'. rewrite blocks_of_add. specialize (Ss _ Hm).
                destruct (m_sub m =? k) eqn:Q; [apply N.eqb_eq in Q; rewrite Q in *; apply in_or_app|]; auto.
             ++ intros k' b' Hb'. subst p'. rewrite blocks_of_add in Hb'.
                destruct (N.eqb_spec k' k) as [->|NE].
                ** apply in_app_or in Hb'. destruct Hb' as [Ho|[<-|[]]].
                   --- destruct (Sc _ _ Ho) as [L|(sd & Hp)]; [left; exact L|right; exists sd; apply in_or_app; auto].
                   --- right. exists sid. apply in_or_app. right. simpl; auto.
                ** destruct (Sc _ _ Hb') as [L|(sd & Hp)]; [left; exact L|right; exists sd; apply in_or_app; auto].
          -- rewrite map_app. simpl. apply NoDup_app_single. split; [exact ND|].
             intros Hin. apply in_map_iff in Hin. destruct Hin as (x & Ex & Hx).
             unfold busy in BZ. apply orb_false_iff in BZ. destruct BZ as [_ BZ].
             assert (existsb (fun e => pend_sid e =? sid) (cp_pend s) = true); [|congruence].
             apply existsb_exists. exists x. split; [exact Hx|]. apply N.eqb_eq. exact Ex.
          -- intros e He. apply in_app_or in He. destruct He as [He|[<-|[]]]; [auto|]. simpl. exact KY.
        * destruct o as [nw b| | | |]; try (cbn [fst]; destruct s; exact PI).
          exfalso. eapply Hno; reflexivity.
      + cbn [fst]. apply commit_same_p; auto. rewrite B. simpl; auto.
    - (* the in-flight add completes *)
      destruct (find (fun e => pend_sid e =? sid) (cp_pend s)) as [e|] eqn:F; [|exact PI].
      apply find_some in F. destruct F as [He Hs]. apply N.eqb_eq in Hs.
      destruct e as [[sid0 k0] b0]. unfold pend_sid in Hs; simpl in Hs. subst sid0. cbn [fst snd].
      assert (UNI : forall k b, In (sid, k, b) (cp_pend s) -> k = k0 /\ b = b0).
      { intros k b Hin. assert (E : (sid, k, b) = (sid, k0, b0)) by (eapply (nodup_map_inj pend_sid); eauto).
        inversion E; auto. }
      destruct ok.
      + cbn [repaired v_late andb].
        destruct (existsb (block_eqb b0) (blocks_of (cp_pool s) k0)) eqn:HB; cbn [negb fst].
        * (* still held: commit, then forget the pending entry *)
          apply existsb_exists in HB. destruct HB as (x & Hx & Ex).
          assert (x = b0). { unfold block_eqb in Ex. rewrite !andb_true_iff, !N.eqb_eq in Ex. destruct Ex as ((E1 & E2) & E3).
                            symmetry. apply block_eq; auto. } subst x.
          destruct (commit_p c st (cp_pool s) (cp_pool s) (cp_rev s) (cp_pend s) k0 b0 W I R S) as [R' S']; auto.
          unfold commit_mapping; cbn [cp_pool cp_rev cp_sess cp_pend].
          apply pinv_shrink; auto.
          intros k b Hin _. destruct (UNI _ _ Hin) as [-> ->].
          destruct (rev_add_spec (cp_rev s) k0 b0 R) as [_ M]. eexists. split; [apply M; right; reflexivity|]. auto.
        * apply pinv_shrink; auto. intros k b Hin Hb. destruct (UNI _ _ Hin) as [-> ->].
          exfalso. eapply existsb_block_false; eauto.
      + cbn [repaired v_late fst with_pool cp_pool cp_rev cp_sess cp_pend].
        destruct (rollback_p c st (cp_pool s) (cp_pool s) (cp_rev s) (cp_pend s) k0 W I R S) as [R' S']; auto.
        apply pinv_shrink; auto; [apply release_inv; auto|].
        intros k b Hin Hb. destruct (UNI _ _ Hin) as [-> ->]. rewrite blocks_of_release, N.eqb_refl in Hb. contradiction.
    - destruct (busy s sid); [exact PI|].
      unfold restore; cbn [repaired v_validate v_rollback].
      destruct (restore_repaired c (cp_pool s) mk mb true) as [p'|] eqn:H; [|apply pba_p; auto].
      destruct dp; cbn [fst]; [eapply restore_commit_p; eauto|].
      pose proof (restore_repaired_inv _ _ _ _ _ _ _ W WS I H) as I'.
      destruct (rollback_p c st (cp_pool s) p' (cp_rev s) (cp_pend s) mk W I' R S) as [R' S'].
      + destruct (restore_repaired_shape _ _ _ _ _ _ W I H) as [[-> Hb]|(addrs' & ->)]; [auto|].
        intros k0 b0 H0. rewrite blocks_of_add. destruct (N.eqb_spec k0 mk) as [->|]; [apply in_or_app|]; auto.
      + destruct (restore_repaired_shape _ _ _ _ _ _ W I H) as [[-> Hb]|(addrs' & ->)]; [auto|].
        intros k0 NE. rewrite blocks_of_add. destruct (N.eqb_spec k0 mk); [contradiction|reflexivity].
      + apply (pinv_with s _ _ PI); auto. apply release_inv; auto.
    - (* release; cancels an activation in flight *)
      simpl in KY. apply N.eqb_eq in KY. cbn [repaired v_late v_degrel andb].
      match goal with |- context [if ?b then _ else _] => destruct b end; [cbn [fst]; destruct s; exact PI|].
      assert (KEY : forall k1 b1, In (sid, k1, b1) (cp_pend s) -> k1 = k).
      { intros k1 b1 Hin. specialize (K _ Hin). unfold pend_sid in K; simpl in K. congruence. }
      destruct (blocks_of (cp_pool s) k) as [|b0 r0] eqn:B; cbn [fst].
      + apply pinv_shrink; auto. intros k1 b1 Hin Hb. rewrite (KEY _ _ Hin), B in Hb. contradiction.
      + rewrite <- B.
        destruct (rollback_p c st (cp_pool s) (cp_pool s) (cp_rev s) (cp_pend s) k W I R S) as [R' S']; auto.
        apply pinv_shrink; auto; [apply release_inv; auto|].
        intros k1 b1 Hin Hb. rewrite (KEY _ _ Hin), blocks_of_release, N.eqb_refl in Hb. contradiction.
    - destruct (negb (bulk =? 0)).
      { destruct (busy s sid); [exact PI|]. apply pba_p; auto. }
      unfold restore; cbn [repaired v_validate].
      destruct (restore_repaired c (cp_pool s) mk mb true) as [p'|] eqn:H; cbn [fst]; [|exact PI].
      eapply restore_commit_p; eauto.
    - unfold restore; cbn [repaired v_validate].
      destruct (restore_repaired c (cp_pool s) mk mb true) as [p'|] eqn:H; cbn [fst]; [|exact PI].
      pose proof (restore_commit_p s 0 mk mb p' PI H) as Q. exact Q.
    - exact PI.
  Qed.

  Lemma crun_p ops : forallb (keyed f) ops = true -> forall s, PInv c st f s -> PInv c st f (crun repaired c s ops).
  Proof.
    unfold crun. induction ops as [|o ops IH]; intros KY s PI; simpl; [exact PI|].
    simpl in KY. apply andb_true_iff in KY. destruct KY as [K1 K2]. apply IH; auto. apply cstep_p; auto.
  Qed.
End PendingSteps.

Lemma comp_init_p c st f p0 : Inv c st p0 -> (forall k, blocks_of p0 k = []) -> PInv c st f (comp_init p0).
Proof.
  intros I E. unfold PInv, comp_init; cbn [cp_pool cp_rev cp_pend]. split; [exact I|]. split; [|split; [|split]].
  - constructor; simpl; try (intros; contradiction); try constructor.
    all: try (intros; contradiction).
    intros (m & [] & _).
  - constructor; [simpl; intros m []|]. intros k b H. rewrite E in H. contradiction.
  - constructor.
  - intros e [].
Qed.

(* every completion order: the answer of Lookup is always an owner; a covered port without an answer belongs to a block
   whose dataplane add is still in flight *)
Lemma reverse_lookup_exact_all r p0 f ops ip port :
  wf_range r -> configure repaired r = Some p0 -> forallb (keyed f) ops = true ->
  let s := crun repaired (effective r) (comp_init p0) ops in
  match rev_lookup (cp_rev s) ip port with
  | Some m => In (m_blk m) (blocks_of (cp_pool s) (m_sub m)) /\ covers (m_blk m) ip port = true /\
              forall k b, In b (blocks_of (cp_pool s) k) -> covers b ip port = true -> k = m_sub m /\ b = m_blk m
  | None => forall k b, In b (blocks_of (cp_pool s) k) -> covers b ip port = true ->
                        exists sid, In (sid, k, b) (cp_pend s)
  end.
Proof.
  intros Hr Hc KY s. destruct (configure_inv r p0 Hr Hc) as (W & WS & I0).
  assert (PI : PInv (effective r) (map static (p_addrs p0)) f s).
  { apply crun_p; auto. apply comp_init_p; auto. eapply configure_empty; eauto. }
  destruct PI as (I & R & [S C] & _). unfold rev_lookup.
  destruct (find _ (r_byip (cp_rev s))) as [m|] eqn:F.
  - apply find_some in F. destruct F as [Hm Cm]. pose proof (S _ Hm) as Own. split; [exact Own|]. split; [exact Cm|].
    intros k b Hb Cb. apply covers_spec in Cm. apply covers_spec in Cb.
    destruct (i_blk _ _ _ I _ _ Hb) as (_ & _ & _ & S1 & E1 & _).
    destruct (i_blk _ _ _ I _ _ Own) as (_ & _ & _ & S2 & E2 & _).
    assert (ES : b_start b = b_start (m_blk m)).
    { destruct (N.eq_dec (b_start b) (b_start (m_blk m))) as [E|NE]; [exact E|].
      destruct (start_ok_disjoint (effective r) _ _ W S1 S2 NE); lia. }
    assert (EI : b_ip b = b_ip (m_blk m)) by (destruct Cm, Cb; congruence).
    split; [eapply (i_excl _ _ _ I); eauto|]. apply block_eq; congruence.
  - intros k b Hb Cb. destruct (C _ _ Hb) as [(m & Hm & _ & Mb)|P]; [|exact P].
    exfalso. pose proof (find_none _ _ F _ Hm) as N. simpl in N. congruence.
Qed.

(* with no add in flight the lookup is exact in both directions *)
Lemma reverse_lookup_exact_quiescent r p0 f ops ip port :
  wf_range r -> configure repaired r = Some p0 -> forallb (keyed f) ops = true ->
  let s := crun repaired (effective r) (comp_init p0) ops in
  cp_pend s = [] -> rev_lookup (cp_rev s) ip port = None ->
  forall k b, In b (blocks_of (cp_pool s) k) -> covers b ip port = false.
Proof.
  intros Hr Hc KY s HP HL k b Hb. pose proof (reverse_lookup_exact_all r p0 f ops ip port Hr Hc KY) as E.
  cbv zeta in E. fold s in E. rewrite HL in E. destruct (covers b ip port) eqn:Cb; [|reflexivity].
  destruct (E _ _ Hb Cb) as (sid & Hin). rewrite HP in Hin. contradiction.
Qed.

(* ====================================================================== statements over validated configurations *)
(* [setup repaired r = Some p0]: Config.Validate accepted the pool and ConfigurePool built p0.  This single hypothesis
   replaces the former pair [wf_range r], [configure repaired r = Some p0]. *)
Section SetupStatements.
  Variable r : rawcfg.
  Variable p0 : pool.
  Hypothesis Hs : setup repaired r = Some p0.
  Let c := effective r.

  Lemma s_disjoint ops k1 k2 b1 b2 : k1 <> k2 ->
    In b1 (blocks_of (run repaired c p0 ops) k1) -> In b2 (blocks_of (run repaired c p0 ops) k2) ->
    b_ip b1 = b_ip b2 -> b_end b1 < b_start b2 \/ b_end b2 < b_start b1.
  Proof. destruct (setup_ok r p0 Hs) as [Hr Hc]. exact (disjoint_all r p0 ops Hr Hc k1 k2 b1 b2). Qed.

  Lemma s_in_range ops k b : In b (blocks_of (run repaired c p0 ops) k) ->
    In (b_ip b) (flat_map expand (r_outside r)) /\ ~ In (b_ip b) (r_excluded r) /\
    c_pstart c <= b_start b /\ (b_start b - c_pstart c) mod c_bs c = 0 /\
    b_end b = b_start b + c_bs c - 1 /\ b_end b <= c_pend c.
  Proof. destruct (setup_ok r p0 Hs) as [Hr Hc]. exact (in_range_all r p0 ops Hr Hc k b). Qed.

  Lemma s_limit ops k : N.of_nat (length (blocks_of (run repaired c p0 ops) k)) <= c_max c.
  Proof. destruct (setup_ok r p0 Hs) as [Hr Hc]. exact (limit_all r p0 ops Hr Hc k). Qed.

  Lemma s_paired ops k b1 b2 : c_paired c = true ->
    In b1 (blocks_of (run repaired c p0 ops) k) -> In b2 (blocks_of (run repaired c p0 ops) k) -> b_ip b1 = b_ip b2.
  Proof. destruct (setup_ok r p0 Hs) as [Hr Hc]. exact (paired_all r p0 ops Hr Hc k b1 b2). Qed.

  Lemma s_release_frees_all ops k :
    let p := run repaired c p0 ops in
    let p' := fst (step repaired c p (ORelease k)) in
    blocks_of p' k = [] /\
    forall b, In b (blocks_of p k) ->
      (forall k', ~ In b (blocks_of p' k')) /\
      (forall k', limit_reached c p' k' = false ->
                  (c_paired c = true -> forall b', In b' (blocks_of p' k') -> b_ip b' = b_ip b) ->
                  exists p'', alloc_obs c p' k' b = Some p'').
  Proof. destruct (setup_ok r p0 Hs) as [Hr Hc]. exact (release_frees_all r p0 ops k Hr Hc). Qed.

  Lemma s_first_free ops k b p' :
    alloc_literal c (run repaired c p0 ops) k = inr (b, p') -> alloc_obs c (run repaired c p0 ops) k b = Some p'.
  Proof. destruct (setup_ok r p0 Hs) as [Hr Hc]. exact (first_free_admissible r p0 ops k b p' Hr Hc). Qed.

  Lemma s_lookup_exact f ops ip port : forallb (keyed f) ops = true ->
    match rev_lookup (cp_rev (crun repaired c (comp_init p0) ops)) ip port with
    | Some m => In (m_blk m) (blocks_of (cp_pool (crun repaired c (comp_init p0) ops)) (m_sub m)) /\
                covers (m_blk m) ip port = true /\
                forall k b, In b (blocks_of (cp_pool (crun repaired c (comp_init p0) ops)) k) ->
                            covers b ip port = true -> k = m_sub m /\ b = m_blk m
    | None => forall k b, In b (blocks_of (cp_pool (crun repaired c (comp_init p0) ops)) k) ->
                          covers b ip port = true ->
                          exists sid, In (sid, k, b) (cp_pend (crun repaired c (comp_init p0) ops))
    end.
  Proof. intros K. destruct (setup_ok r p0 Hs) as [Hr Hc]. exact (reverse_lookup_exact_all r p0 f ops ip port Hr Hc K). Qed.

  Lemma s_lookup_quiescent f ops ip port : forallb (keyed f) ops = true ->
    cp_pend (crun repaired c (comp_init p0) ops) = [] ->
    rev_lookup (cp_rev (crun repaired c (comp_init p0) ops)) ip port = None ->
    forall k b, In b (blocks_of (cp_pool (crun repaired c (comp_init p0) ops)) k) -> covers b ip port = false.
  Proof. intros K. destruct (setup_ok r p0 Hs) as [Hr Hc]. exact (reverse_lookup_exact_quiescent r p0 f ops ip port Hr Hc K). Qed.

  Lemma s_comp_pool_props ops :
    let s := crun repaired c (comp_init p0) ops in
    (forall k1 k2 b1 b2, k1 <> k2 -> In b1 (blocks_of (cp_pool s) k1) -> In b2 (blocks_of (cp_pool s) k2) ->
       b_ip b1 = b_ip b2 -> b_end b1 < b_start b2 \/ b_end b2 < b_start b1) /\
    (forall k b, In b (blocks_of (cp_pool s) k) ->
       In (b_ip b) (flat_map expand (r_outside r)) /\ ~ In (b_ip b) (r_excluded r) /\
       c_pstart c <= b_start b /\ (b_start b - c_pstart c) mod c_bs c = 0 /\
       b_end b = b_start b + c_bs c - 1 /\ b_end b <= c_pend c) /\
    (forall k, N.of_nat (length (blocks_of (cp_pool s) k)) <= c_max c) /\
    (c_paired c = true -> forall k b1 b2, In b1 (blocks_of (cp_pool s) k) -> In b2 (blocks_of (cp_pool s) k) -> b_ip b1 = b_ip b2).
  Proof. destruct (setup_ok r p0 Hs) as [Hr Hc]. exact (comp_pool_props_all r p0 ops Hr Hc). Qed.

  (* ---- releasing a subscriber at component level ---- *)
  Lemma existsb_sess_del sid l : existsb (N.eqb sid) (sess_del sid l) = false.
  Proof.
    unfold sess_del. induction l as [|x l IH]; simpl; [reflexivity|].
    destruct (N.eqb_spec x sid) as [E|E]; simpl; [exact IH|].
    rewrite IH. destruct (N.eqb_spec sid x); [congruence|reflexivity].
  Qed.

  (* A release event for a session the component knows -- committed, with its add in flight, or preserved by the
     degraded restore -- leaves the session's subscriber without blocks and without reverse entries, forgets the
     session, and every block it held can be granted again. *)
  Lemma s_comp_release_frees f ops sid dl : forallb (keyed f) ops = true ->
    let s := crun repaired c (comp_init p0) ops in
    let k := f sid in
    existsb (N.eqb sid) (cp_sess s) || existsb (fun e => pend_sid e =? sid) (cp_pend s)
      || existsb (N.eqb sid) (cp_deg s) = true ->
    let s' := fst (cstep repaired c s (CRelease sid k dl)) in
    blocks_of (cp_pool s') k = [] /\
    (forall m, In m (r_byip (cp_rev s')) -> m_sub m <> k) /\
    existsb (N.eqb sid) (cp_sess s') = false /\
    existsb (fun e => pend_sid e =? sid) (cp_pend s') = false /\
    existsb (N.eqb sid) (cp_deg s') = false /\
    forall b, In b (blocks_of (cp_pool s) k) ->
      forall k', limit_reached c (cp_pool s') k' = false ->
                 (c_paired c = true -> forall b', In b' (blocks_of (cp_pool s') k') -> b_ip b' = b_ip b) ->
                 exists p'', alloc_obs c (cp_pool s') k' b = Some p''.
  Proof.
    intros KY s k KN s'. destruct (setup_ok r p0 Hs) as [Hr Hc].
    destruct (configure_inv r p0 Hr Hc) as (W & WS & I0). fold c in W, WS, I0.
    assert (PI : PInv c (map static (p_addrs p0)) f s).
    { apply crun_p; auto. apply comp_init_p; auto. eapply configure_empty; eauto. }
    assert (PI' : PInv c (map static (p_addrs p0)) f s').
    { apply cstep_p; auto. simpl. apply N.eqb_refl. }
    pose proof PI as (I & _). destruct PI' as (_ & _ & [S' _] & _).
    assert (SH : s' = fst (cstep repaired c s (CRelease sid k dl))) by reflexivity.
    cbn [cstep] in SH. rewrite pk_repaired in SH. cbn [repaired v_late v_degrel andb] in SH.
    assert (CND : negb (existsb (N.eqb sid) (cp_sess s)) && negb (existsb (fun e => pend_sid e =? sid) (cp_pend s))
                  && negb (existsb (N.eqb sid) (cp_deg s)) = false).
    { destruct (existsb (N.eqb sid) (cp_sess s)); [reflexivity|].
      destruct (existsb (fun e => pend_sid e =? sid) (cp_pend s)); [reflexivity|].
      simpl in KN. rewrite KN. reflexivity. }
    rewrite CND in SH.
    assert (B0 : blocks_of (cp_pool s') k = []).
    { rewrite SH. destruct (blocks_of (cp_pool s) k) eqn:B; cbn [fst cp_pool]; [exact B|].
      rewrite blocks_of_release, N.eqb_refl. reflexivity. }
    split; [exact B0|]. split.
    { intros m Hm E. specialize (S' _ Hm). rewrite E, B0 in S'. contradiction. }
    assert (F1 : existsb (fun e : N * N * block => pend_sid e =? sid)
                   (filter (fun e => negb (pend_sid e =? sid)) (cp_pend s)) = false).
    { apply not_true_is_false. intros T. apply existsb_exists in T. destruct T as (x & Hx & Ex).
      apply filter_In in Hx. destruct Hx as [_ Hx]. rewrite Ex in Hx. discriminate. }
    split; [|split; [|split]].
    - rewrite SH. destruct (blocks_of (cp_pool s) k); cbn [fst cp_sess]; apply existsb_sess_del.
    - rewrite SH. destruct (blocks_of (cp_pool s) k); cbn [fst cp_pend]; exact F1.
    - rewrite SH. destruct (blocks_of (cp_pool s) k); cbn [fst cp_deg]; apply existsb_sess_del.
    - intros b Hb k' L P.
      assert (EP : cp_pool s' = release c (cp_pool s) k).
      { rewrite SH. destruct (blocks_of (cp_pool s) k) eqn:B; cbn [fst cp_pool]; [contradiction|reflexivity]. }
      rewrite EP in *. destruct (alloc_obs c (release c (cp_pool s) k) k' b) eqn:A; [eauto|].
      exfalso. eapply release_reuse; eauto.
  Qed.
End SetupStatements.

(* ====================================================================== allocateBlock fails only when the address is full *)
Lemma alloc_in_word_complete fuel : forall w base bit total b,
  bit <= b -> b < bit + N.of_nat fuel -> N.testbit w b = false -> base + b < total ->
  exists idx, alloc_in_word fuel w base bit total = Some (Some idx).
Proof.
  induction fuel as [|f IH]; intros w base bit total b L1 L2 T B; [lia|]. cbn [alloc_in_word].
  destruct (N.leb_spec total (base + bit)) as [Q|Q]; [lia|].
  destruct (N.testbit w bit) eqn:TB; [|eauto].
  assert (bit <> b) by (intros ->; congruence).
  apply (IH w base (bit + 1) total b); auto; lia.
Qed.
Lemma alloc_in_word_minus1 fuel : forall w base bit total,
  alloc_in_word fuel w base bit total = Some None -> exists b', b' < bit + N.of_nat fuel /\ total <= base + b'.
Proof.
  induction fuel as [|f IH]; intros w base bit total H; [discriminate|]. cbn [alloc_in_word] in H.
  destruct (N.leb_spec total (base + bit)) as [Q|Q]; [exists bit; split; [lia|exact Q]|].
  destruct (N.testbit w bit); [|discriminate].
  destruct (IH _ _ _ _ H) as (b' & ? & ?). exists b'. split; [lia|auto].
Qed.
Lemma all_ones_bits b : b < 64 -> N.testbit all_ones b = true.
Proof. intros H. change all_ones with (N.ones 64). apply N.ones_spec_low. exact H. Qed.

Lemma alloc_words_complete ws : forall i total idx (j : nat),
  (j < length ws)%nat -> idx / 64 = i + N.of_nat j -> N.testbit (nth j ws 0) (idx mod 64) = false -> idx < total ->
  alloc_words ws i total <> None.
Proof.
  induction ws as [|w r IH]; intros i total idx j L D T B; [simpl in L; lia|]. cbn [alloc_words].
  assert (M : idx mod 64 < 64) by (apply N.mod_lt; lia).
  assert (E : idx = 64 * (idx / 64) + idx mod 64) by (apply N.div_mod; lia).
  destruct j as [|j].
  - cbn [nth] in T. destruct (N.eqb_spec w all_ones) as [->|NE].
    + rewrite all_ones_bits in T by exact M. discriminate.
    + destruct (alloc_in_word_complete 64 w (i * 64) 0 total (idx mod 64)) as (x & ->); try lia; [exact T|]. discriminate.
  - cbn [nth length] in *. assert (Hrec : alloc_words r (i + 1) total <> None) by (apply (IH (i + 1) total idx j); auto; lia).
    destruct (w =? all_ones); [exact Hrec|].
    destruct (alloc_in_word 64 w (i * 64) 0 total) as [[x|]|] eqn:A; [discriminate| |exact Hrec].
    destruct (alloc_in_word_minus1 _ _ _ _ _ A) as (b' & Hb & Ht). lia.
Qed.

(* allocateBlock returns -1 exactly when no block below TotalBlocks is free (bitmap long enough for TotalBlocks) *)
Lemma allocate_block_none_iff a : (N.to_nat ((a_total a + 63) / 64) <= length (a_bits a))%nat ->
  (allocate_block a = None <-> forall idx, idx < a_total a -> test_bit (a_bits a) idx = true).
Proof.
  intros LEN. split.
  - intros H idx B. destruct (test_bit (a_bits a) idx) eqn:T; [reflexivity|]. exfalso.
    unfold allocate_block in H. destruct (alloc_words (a_bits a) 0 (a_total a)) eqn:A; [discriminate|].
    revert A. apply (alloc_words_complete (a_bits a) 0 (a_total a) idx (word_of idx)).
    + pose proof (word_in_range _ _ B). lia.
    + unfold word_of. lia.
    + exact T.
    + exact B.
  - intros H. destruct (allocate_block a) as [[idx a']|] eqn:A; [|reflexivity].
    destruct (allocate_block_spec _ _ _ A) as (B & T & _). rewrite H in T by exact B. discriminate.
Qed.

(* ====================================================================== event entry points and the restore-window queue *)
(* the component event an entry-point event amounts to, if any *)
Definition ev_cop (e : ev) (obs : option block) : list cop :=
  match e with
  | ELifecycle SReleased acc sid k dl => if pba_access acc then [CRelease sid k dl] else []
  | ELifecycle _ _ _ _ _ => []
  | EProgrammed acc sid k dp => if pba_access acc then [CActivate sid k dp obs] else []
  | ERestored acc sid k dp => if pba_access acc then [CActivate sid k dp obs] else []
  | EBadPayload => []
  end.
Definition ev_keyed (f : N -> N) (e : ev) : bool :=
  match e with ELifecycle SReleased _ sid k _ => k =? f sid | _ => true end.
Definition eop_keyed (f : N -> N) (o : eop) : bool :=
  match o with EvDeliver e _ => ev_keyed f e | EvDrain _ => true | EvDirect co => keyed f co end.

Lemma crun_app v c s l1 l2 : crun v c s (l1 ++ l2) = crun v c (crun v c s l1) l2.
Proof. unfold crun. apply fold_left_app. Qed.

Lemma dispatch_cop v c s e obs : fst (dispatch v c s e obs) = crun v c s (ev_cop e obs).
Proof.
  destruct e as [st acc sid k dl|acc sid k dp|acc sid k dp|]; simpl; try reflexivity.
  - destruct st; try reflexivity. destruct (pba_access acc); reflexivity.
  - destruct (pba_access acc); reflexivity.
  - destruct (pba_access acc); reflexivity.
Qed.
Lemma ev_cop_keyed f e obs : ev_keyed f e = true -> forallb (keyed f) (ev_cop e obs) = true.
Proof.
  destruct e as [st acc sid k dl|acc sid k dp|acc sid k dp|]; simpl; try reflexivity.
  - destruct st; try reflexivity. destruct (pba_access acc); simpl; [intros ->|]; reflexivity.
  - destruct (pba_access acc); reflexivity.
  - destruct (pba_access acc); reflexivity.
Qed.

Lemma drain_all_crun v c f q : forall s obsl, forallb (ev_keyed f) q = true ->
  exists cops, drain_all v c s q obsl = crun v c s cops /\ forallb (keyed f) cops = true.
Proof.
  induction q as [|e q IH]; intros s obsl K; simpl.
  - exists []. split; reflexivity.
  - simpl in K. apply andb_true_iff in K. destruct K as [K1 K2].
    destruct (IH (fst (dispatch v c s e (hd None obsl))) (tl obsl) K2) as (l & E & KL).
    exists (ev_cop e (hd None obsl) ++ l). split.
    + rewrite E, dispatch_cop, crun_app. reflexivity.
    + rewrite forallb_app, KL, (ev_cop_keyed f e _ K1). reflexivity.
Qed.

(* whatever arrives through the entry points, in the restore window or after it, the component performs a sequence of
   the component events of [cstep]; a keyed event stream gives a keyed sequence *)
Lemma erun_refines vq v c f ops : forall s, forallb (eop_keyed f) ops = true -> forallb (ev_keyed f) (e_queue s) = true ->
  exists cops, e_comp (erun vq v c s ops) = crun v c (e_comp s) cops /\ forallb (keyed f) cops = true.
Proof.
  unfold erun. induction ops as [|o ops IH]; intros s K Q; simpl.
  - exists []. split; reflexivity.
  - simpl in K. apply andb_true_iff in K. destruct K as [K1 K2].
    assert (STEP : exists l, e_comp (estep vq v c s o) = crun v c (e_comp s) l /\ forallb (keyed f) l = true /\
                             forallb (ev_keyed f) (e_queue (estep vq v c s o)) = true).
    { destruct o as [e obs|obsl|co]; cbn [estep].
      - destruct (e_drained s).
        + exists (ev_cop e obs). cbn [e_comp e_queue]. rewrite dispatch_cop. repeat split; auto.
          apply ev_cop_keyed. exact K1.
        + destruct ((queue_bound <=? length (e_queue s))%nat && negb (vq && is_release e)); cbn [e_comp e_queue];
            exists []; repeat split; auto.
          rewrite forallb_app, Q. simpl. simpl in K1. rewrite K1. reflexivity.
      - destruct (drain_all_crun v c f (e_queue s) (e_comp s) obsl Q) as (l & E & KL).
        exists l. cbn [e_comp e_queue]. repeat split; auto.
      - exists [co]. cbn [e_comp e_queue]. simpl in K1. repeat split; auto. simpl. rewrite K1. reflexivity. }
    destruct STEP as (l1 & E1 & KL1 & Q1).
    destruct (IH (estep vq v c s o) K2 Q1) as (l2 & E2 & KL2).
    exists (l1 ++ l2). split.
    + rewrite E2, E1, crun_app. reflexivity.
    + rewrite forallb_app, KL1, KL2. reflexivity.
Qed.

(* after the fix a release is never dropped: it is queued whatever the length of the queue *)
Lemma release_never_dropped v c s e obs : is_release e = true -> e_drained s = false ->
  let s' := estep true v c s (EvDeliver e obs) in
  e_queue s' = e_queue s ++ [e] /\ e_dropped s' = e_dropped s.
Proof.
  intros R D. cbn [estep]. rewrite D, R. simpl. rewrite andb_false_r. split; reflexivity.
Qed.

(* end to end over the entry points: reverse exactness for every keyed event stream *)
Lemma event_level_exact r p0 f ops ip port : setup repaired r = Some p0 -> forallb (eop_keyed f) ops = true ->
  let s := e_comp (erun true repaired (effective r) (ecomp_init p0) ops) in
  match rev_lookup (cp_rev s) ip port with
  | Some m => In (m_blk m) (blocks_of (cp_pool s) (m_sub m)) /\ covers (m_blk m) ip port = true /\
              forall k b, In b (blocks_of (cp_pool s) k) -> covers b ip port = true -> k = m_sub m /\ b = m_blk m
  | None => forall k b, In b (blocks_of (cp_pool s) k) -> covers b ip port = true -> exists sid, In (sid, k, b) (cp_pend s)
  end.
Proof.
  intros Hs K s. destruct (erun_refines true repaired (effective r) f ops (ecomp_init p0) K eq_refl) as (cops & E & KC).
  subst s. rewrite E. cbn [ecomp_init e_comp]. exact (s_lookup_exact r p0 Hs f cops ip port KC).
Qed.

Lemma event_level_pool_props r p0 vq ops : setup repaired r = Some p0 ->
  let c := effective r in
  let s := e_comp (erun vq repaired c (ecomp_init p0) ops) in
  (forall k1 k2 b1 b2, k1 <> k2 -> In b1 (blocks_of (cp_pool s) k1) -> In b2 (blocks_of (cp_pool s) k2) ->
     b_ip b1 = b_ip b2 -> b_end b1 < b_start b2 \/ b_end b2 < b_start b1) /\
  (forall k b, In b (blocks_of (cp_pool s) k) ->
     In (b_ip b) (flat_map expand (r_outside r)) /\ ~ In (b_ip b) (r_excluded r) /\
     c_pstart c <= b_start b /\ (b_start b - c_pstart c) mod c_bs c = 0 /\
     b_end b = b_start b + c_bs c - 1 /\ b_end b <= c_pend c) /\
  (forall k, N.of_nat (length (blocks_of (cp_pool s) k)) <= c_max c) /\
  (c_paired c = true -> forall k b1 b2, In b1 (blocks_of (cp_pool s) k) -> In b2 (blocks_of (cp_pool s) k) -> b_ip b1 = b_ip b2).
Proof.
  intros Hs c s.
  assert (K0 : forallb (eop_keyed (fun _ => 0)) [] = true) by reflexivity.
  (* refinement without the keyed part: use the trivially keyed function on an erased stream is not available, so
     repeat the induction for the pool projection only *)
  assert (R : forall ops0 s0, exists cops, e_comp (erun vq repaired c s0 ops0) = crun repaired c (e_comp s0) cops).
  { unfold erun. induction ops0 as [|o ops0 IH]; intros s0; simpl; [exists []; reflexivity|].
    assert (STEP : exists l, e_comp (estep vq repaired c s0 o) = crun repaired c (e_comp s0) l).
    { destruct o as [e obs|obsl|co]; cbn [estep].
      - destruct (e_drained s0); [exists (ev_cop e obs); cbn [e_comp]; apply dispatch_cop|].
        destruct ((queue_bound <=? length (e_queue s0))%nat && negb (vq && is_release e)); exists []; reflexivity.
      - cbn [e_comp]. generalize (e_comp s0) obsl. induction (e_queue s0) as [|e q IHq]; intros s1 ol; simpl; [exists []; reflexivity|].
        destruct (IHq (fst (dispatch repaired c s1 e (hd None ol))) (tl ol)) as (l & E).
        exists (ev_cop e (hd None ol) ++ l). rewrite E, dispatch_cop, crun_app. reflexivity.
      - exists [co]. reflexivity. }
    destruct STEP as (l1 & E1). destruct (IH (estep vq repaired c s0 o)) as (l2 & E2).
    exists (l1 ++ l2). rewrite E2, E1, crun_app. reflexivity. }
  destruct (R ops (ecomp_init p0)) as (cops & E). subst s. rewrite E. cbn [ecomp_init e_comp].
  exact (s_comp_pool_props r p0 Hs cops).
Qed.

(* ====================================================================== persisted mappings and restart *)
Definition pop_keyed (f : N -> N) (o : pop) : bool := match o with PEvent co => keyed f co | PRestart _ => true end.

Lemma restart_ops_keyed f d order : forallb (keyed f) (restart_ops d order) = true.
Proof.
  unfold restart_ops. induction order as [|sid order IH]; simpl; [reflexivity|].
  rewrite forallb_app, IH. destruct (db_get sid d) as [[k b]|]; reflexivity.
Qed.

(* any history of component events and process restarts leaves the component in a state that some history of
   component events reaches from the freshly configured pool; keyed histories give keyed ones *)
Lemma prun_refines v c p0 f ops : forall s l, pc_comp s = crun v c (comp_init p0) l -> forallb (keyed f) l = true ->
  forallb (pop_keyed f) ops = true ->
  exists cops, pc_comp (prun v c p0 s ops) = crun v c (comp_init p0) cops /\ forallb (keyed f) cops = true.
Proof.
  unfold prun. induction ops as [|o ops IH]; intros s l E KL K; simpl.
  - exists l. auto.
  - simpl in K. apply andb_true_iff in K. destruct K as [K1 K2]. destruct o as [co|order].
    + apply (IH _ (l ++ [co])); auto.
      * cbn [pstep pc_comp]. rewrite E, crun_app. reflexivity.
      * rewrite forallb_app, KL. simpl. simpl in K1. rewrite K1. reflexivity.
    + apply (IH _ (restart_ops (pc_db s) order)); auto. apply restart_ops_keyed.
Qed.

Lemma restart_level_exact r p0 f ops ip port : setup repaired r = Some p0 -> forallb (pop_keyed f) ops = true ->
  let s := pc_comp (prun repaired (effective r) p0 (pcomp_init p0) ops) in
  match rev_lookup (cp_rev s) ip port with
  | Some m => In (m_blk m) (blocks_of (cp_pool s) (m_sub m)) /\ covers (m_blk m) ip port = true /\
              forall k b, In b (blocks_of (cp_pool s) k) -> covers b ip port = true -> k = m_sub m /\ b = m_blk m
  | None => forall k b, In b (blocks_of (cp_pool s) k) -> covers b ip port = true -> exists sid, In (sid, k, b) (cp_pend s)
  end.
Proof.
  intros Hs K s.
  destruct (prun_refines repaired (effective r) p0 f ops (pcomp_init p0) [] eq_refl eq_refl K) as (cops & E & KC).
  subst s. rewrite E. exact (s_lookup_exact r p0 Hs f cops ip port KC).
Qed.

Lemma restart_level_pool_props r p0 ops : setup repaired r = Some p0 ->
  let c := effective r in
  let s := pc_comp (prun repaired c p0 (pcomp_init p0) ops) in
  (forall k1 k2 b1 b2, k1 <> k2 -> In b1 (blocks_of (cp_pool s) k1) -> In b2 (blocks_of (cp_pool s) k2) ->
     b_ip b1 = b_ip b2 -> b_end b1 < b_start b2 \/ b_end b2 < b_start b1) /\
  (forall k b, In b (blocks_of (cp_pool s) k) ->
     In (b_ip b) (flat_map expand (r_outside r)) /\ ~ In (b_ip b) (r_excluded r) /\
     c_pstart c <= b_start b /\ (b_start b - c_pstart c) mod c_bs c = 0 /\
     b_end b = b_start b + c_bs c - 1 /\ b_end b <= c_pend c) /\
  (forall k, N.of_nat (length (blocks_of (cp_pool s) k)) <= c_max c) /\
  (c_paired c = true -> forall k b1 b2, In b1 (blocks_of (cp_pool s) k) -> In b2 (blocks_of (cp_pool s) k) -> b_ip b1 = b_ip b2).
Proof.
  intros Hs c s.
  assert (R : forall ops0 s0 l, pc_comp s0 = crun repaired c (comp_init p0) l ->
              exists cops, pc_comp (prun repaired c p0 s0 ops0) = crun repaired c (comp_init p0) cops).
  { unfold prun. induction ops0 as [|o ops0 IH]; intros s0 l E; simpl; [eauto|]. destruct o as [co|order].
    - apply (IH _ (l ++ [co])). cbn [pstep pc_comp]. rewrite E, crun_app. reflexivity.
    - apply (IH _ (restart_ops (pc_db s0) order)). reflexivity. }
  destruct (R ops (pcomp_init p0) [] eq_refl) as (cops & E). subst s. rewrite E.
  exact (s_comp_pool_props r p0 Hs cops).
Qed.

(* ====================================================================== a restart rebuilds exactly what the store says *)
Lemma cons_eq_inv {A} (x y : A) l l' : x :: l = y :: l' -> x = y /\ l = l'.
Proof. intros H. inversion H. auto. Qed.
Lemma findi_static ip l1 : forall l2, map static l1 = map static l2 ->
  findi (fun a => a_ip a =? ip) l1 = findi (fun a => a_ip a =? ip) l2.
Proof.
  induction l1 as [|x l1 IH]; intros [|y l2] E; cbn [map] in E; try discriminate; cbn [findi]; [reflexivity|].
  apply cons_eq_inv in E. destruct E as [E1 E2].
  assert (HIP : a_ip x = a_ip y) by (unfold static in E1; congruence).
  rewrite HIP. destruct (a_ip y =? ip); [reflexivity|]. rewrite (IH l2 E2). reflexivity.
Qed.
Lemma nth_static l1 : forall l2 i a1, map static l1 = map static l2 -> nth_error l1 i = Some a1 ->
  exists a2, nth_error l2 i = Some a2 /\ static a1 = static a2.
Proof.
  induction l1 as [|x l1 IH]; intros [|y l2] [|i] a1 E H; cbn [map nth_error] in *; try discriminate;
    apply cons_eq_inv in E; destruct E as [E1 E2].
  - injection H as <-. eauto.
  - eauto.
Qed.
Lemma faddr_findi_conv l ip a : faddr l ip = Some a -> exists i, findi (fun a => a_ip a =? ip) l = Some i /\ nth_error l i = Some a.
Proof.
  unfold faddr. induction l as [|x l IH]; simpl; intros H; [discriminate|].
  destruct (a_ip x =? ip); [inversion H; subst; exists O; auto|].
  destruct (IH H) as (i & F & N). exists (S i). rewrite F. auto.
Qed.
Lemma in_upd_nth {A} (f : A -> A) l : forall i x, In x (upd_nth i f l) ->
  (exists a, nth_error l i = Some a /\ x = f a) \/ In x l.
Proof.
  induction l as [|y l IH]; intros [|i] x H; simpl in *; try contradiction.
  - destruct H as [<-|H]; [left; eauto|right; auto].
  - destruct H as [<-|H]; [right; auto|]. destruct (IH i x H) as [L|R]; [left; exact L|right; auto].
Qed.

Section Restart.
  Variable c : cfg.
  Variable st : list (N * N * bool * nat).
  Hypothesis W : wf c.
  Hypothesis WS : wfst c st.

  (* pn, the pool being rebuilt, holds only blocks po held, without repetition, and every set bit has an owner *)
  Record Sub (po pn : pool) : Prop := {
    sb_incl : forall k b, In b (blocks_of pn k) -> In b (blocks_of po k);
    sb_nodup : forall k, NoDup (blocks_of pn k);
    sb_own : forall a idx, In a (p_addrs pn) -> test_bit (a_bits a) idx = true ->
             exists k b, In b (blocks_of pn k) /\ b_ip b = a_ip a /\ idx_of c (b_start b) = idx }.

  Lemma holds_block_false_notin bl b : holds_block bl b = false -> ~ In b bl.
  Proof.
    intros H Hin. assert (holds_block bl b = true); [|congruence].
    unfold holds_block. apply existsb_exists. exists b. split; [exact Hin|]. rewrite !N.eqb_refl. reflexivity.
  Qed.

  (* restoring a block the old pool's subscriber k held is always accepted by the pool being rebuilt *)
  Lemma restore_accepts po pn k b : Inv c st po -> Inv c st pn -> Sub po pn -> In b (blocks_of po k) ->
    exists p', restore_repaired c pn k b true = Some p' /\ Inv c st p' /\ Sub po p' /\ In b (blocks_of p' k) /\
               (forall k' b', In b' (blocks_of p' k') -> In b' (blocks_of pn k') \/ (k' = k /\ b' = b)) /\
               (forall k' b', In b' (blocks_of pn k') -> In b' (blocks_of p' k')).
  Proof.
    intros Io In_ [SI SN SO] Hb.
    destruct (i_blk _ _ _ Io _ _ Hb) as (ao & Fo & Xo & So & Eo & _).
    destruct (faddr_findi_conv _ _ _ Fo) as (i & Fi & Ni).
    assert (ST : map static (p_addrs po) = map static (p_addrs pn)) by (rewrite (i_static _ _ _ Io), (i_static _ _ _ In_); reflexivity).
    destruct (nth_static _ _ _ _ ST Ni) as (an & Nn & SA).
    assert (Xn : a_excl an = false) by (unfold static in SA; inversion SA; congruence).
    assert (IPn : a_ip an = b_ip b).
    { unfold static in SA; inversion SA. apply faddr_some in Fo. destruct Fo; congruence. }
    destruct (inv_addr _ _ _ an WS In_ (nth_error_In _ _ Nn)) as [Tn _].
    pose proof (restore_repaired_inv c st pn k b true) as RI.
    unfold restore_repaired in *. rewrite <- (findi_static (b_ip b) _ _ ST), Fi, Nn, Xn, Tn, So in *. cbn [negb] in *.
    rewrite Eo, N.eqb_refl in *. cbn [negb andb] in *.
    destruct (holds_block (blocks_of pn k) b) eqn:HB.
    - exists pn. split; [reflexivity|]. split; [exact In_|]. split; [constructor; auto|].
      split; [eapply holds_block_in; eauto|]. split; auto.
    - cbn [negb andb] in *.
      assert (Hclr : test_bit (a_bits an) (idx_of c (b_start b)) = false).
      { destruct (test_bit (a_bits an) (idx_of c (b_start b))) eqn:T; [|reflexivity]. exfalso.
        destruct (SO an _ (nth_error_In _ _ Nn) T) as (k1 & b1 & H1 & E1 & E2).
        pose proof (SI _ _ H1) as H1o.
        destruct (i_blk _ _ _ Io _ _ H1o) as (_ & _ & _ & S1 & _).
        pose proof (start_ok_inj c _ _ W S1 So E2) as ES.
        assert (k1 = k) by (eapply (i_excl _ _ _ Io); eauto; congruence). subst k1.
        apply (holds_block_false_notin _ _ HB).
        destruct (i_blk _ _ _ Io _ _ H1o) as (_ & _ & _ & _ & E1o & _).
        assert (b1 = b) by (apply block_eq; congruence). subst. exact H1. }
      rewrite Hclr in *.
      assert (NI : ~ In b (blocks_of pn k)) by (apply holds_block_false_notin; exact HB).
      assert (LIM : limit_reached c pn k = false).
      { unfold limit_reached. destruct (sub_get k (p_subs pn)) as [bl|] eqn:G; [|reflexivity].
        assert (EB : blocks_of pn k = bl) by (unfold blocks_of; rewrite G; reflexivity).
        apply N.leb_gt.
        assert (L : (length (b :: bl) <= length (blocks_of po k))%nat).
        { apply NoDup_incl_length.
          - constructor; [rewrite <- EB; exact NI|rewrite <- EB; apply SN].
          - intros x [<-|Hx]; [exact Hb|]. apply SI. rewrite EB. exact Hx. }
        pose proof (i_limit _ _ _ Io k). simpl in L. lia. }
      rewrite LIM in *.
      assert (PAIR : c_paired c && match blocks_of pn k with b0 :: _ => negb (b_ip b0 =? b_ip b) | [] => false end = false).
      { destruct (c_paired c) eqn:P; [|reflexivity]. simpl. destruct (blocks_of pn k) as [|b0 r0] eqn:B; [reflexivity|].
        apply negb_false_iff, N.eqb_eq. apply (i_paired _ _ _ Io P k); [apply SI; rewrite B; simpl; auto|exact Hb]. }
      rewrite PAIR in *.
      eexists. split; [reflexivity|].
      specialize (RI _ W WS In_ eq_refl).
      split; [exact RI|].
      split; [|split; [|split]].
      + constructor.
        * intros k' b'. rewrite blocks_of_add. destruct (N.eqb_spec k' k) as [->|]; [|apply SI].
          intros H. apply in_app_or in H. destruct H as [H|[<-|[]]]; auto.
        * intros k'. rewrite blocks_of_add. destruct (N.eqb_spec k' k) as [->|]; [|apply SN].
          apply NoDup_app_single. split; [apply SN|exact NI].
        * intros a idx Ha T. cbn [add_block p_addrs] in Ha.
          destruct (in_upd_nth _ _ _ _ Ha) as [(a0 & N0 & ->)|Hin].
          -- rewrite Nn in N0. inversion N0; subst a0. cbn [with_bits a_bits a_ip] in *.
             rewrite test_set_bit in T. apply orb_true_iff in T. destruct T as [T|T].
             ++ apply andb_true_iff in T. destruct T as [_ T]. apply N.eqb_eq in T.
                exists k, b. rewrite blocks_of_add, N.eqb_refl. split; [apply in_or_app; simpl; auto|]. split; [congruence|exact T].
             ++ destruct (SO an idx (nth_error_In _ _ Nn) T) as (k1 & b1 & H1 & E1 & E2).
                exists k1, b1. rewrite blocks_of_add. split; [|auto].
                destruct (N.eqb_spec k1 k) as [->|]; [apply in_or_app|]; auto.
          -- destruct (SO a idx Hin T) as (k1 & b1 & H1 & E1 & E2).
             exists k1, b1. rewrite blocks_of_add. split; [|auto].
             destruct (N.eqb_spec k1 k) as [->|]; [apply in_or_app|]; auto.
      + rewrite blocks_of_add, N.eqb_refl. apply in_or_app. simpl; auto.
      + intros k' b'. rewrite blocks_of_add. destruct (N.eqb_spec k' k) as [->|]; [|auto].
        intros H. apply in_app_or in H. destruct H as [H|[<-|[]]]; auto.
      + intros k' b' H. rewrite blocks_of_add. destruct (N.eqb_spec k' k) as [->|]; [apply in_or_app|]; auto.
  Qed.

  Lemma existsb_sess_add sid l : existsb (N.eqb sid) (sess_add sid l) = true.
  Proof.
    unfold sess_add. destruct (existsb (N.eqb sid) l) eqn:E; [exact E|].
    rewrite existsb_app. simpl. rewrite N.eqb_refl. apply orb_true_r.
  Qed.
  Lemma existsb_sess_add_mono sid sid' l : existsb (N.eqb sid) l = true -> existsb (N.eqb sid) (sess_add sid' l) = true.
  Proof.
    unfold sess_add. intros H. destruct (existsb (N.eqb sid') l); [exact H|]. rewrite existsb_app, H. reflexivity.
  Qed.

  (* the restore loop over the store *)
  Lemma restart_fold po d order : Inv c st po ->
    (forall sid k b, db_get sid d = Some (k, b) -> In b (blocks_of po k)) ->
    forall s, Inv c st (cp_pool s) -> Sub po (cp_pool s) ->
    let s' := crun repaired c s (restart_ops d order) in
    Inv c st (cp_pool s') /\ Sub po (cp_pool s') /\
    (forall k b, In b (blocks_of (cp_pool s) k) -> In b (blocks_of (cp_pool s') k)) /\
    (forall sid, existsb (N.eqb sid) (cp_sess s) = true -> existsb (N.eqb sid) (cp_sess s') = true) /\
    (forall sid k b, In sid order -> db_get sid d = Some (k, b) ->
       In b (blocks_of (cp_pool s') k) /\ existsb (N.eqb sid) (cp_sess s') = true) /\
    (forall k b, In b (blocks_of (cp_pool s') k) ->
       In b (blocks_of (cp_pool s) k) \/ exists sid, In sid order /\ db_get sid d = Some (k, b)).
  Proof.
    intros Io DS. induction order as [|sid order IH]; intros s In_ SB; cbn [restart_ops flat_map].
    - unfold crun; simpl. split; [exact In_|]. split; [exact SB|]. split; [auto|]. split; [auto|].
      split; [intros sd k b []|]. intros k b H. left; exact H.
    - destruct (db_get sid d) as [[k b]|] eqn:G.
      + cbn [app]. unfold crun. cbn [fold_left]. fold (crun repaired c).
        destruct (restore_accepts po (cp_pool s) k b Io In_ SB (DS _ _ _ G)) as (p' & R & I' & S' & Hb' & Hnew & Hgrow).
        assert (STEP : fst (cstep repaired c s (CRestorePresent sid k b 0 None)) = commit_mapping repaired s p' sid k b).
        { cbn [cstep]. simpl (negb (0 =? 0)). cbv iota. unfold restore; cbn [repaired v_validate]. rewrite R. reflexivity. }
        rewrite STEP.
        destruct (IH (commit_mapping repaired s p' sid k b) I' S') as (I2 & S2 & G2 & SS2 & A2 & B2).
        cbn [commit_mapping cp_pool cp_sess] in *.
        split; [exact I2|]. split; [exact S2|]. split; [intros; apply G2, Hgrow; auto|].
        split; [intros sd H; apply SS2, existsb_sess_add_mono; exact H|]. split.
        * intros sd k1 b1 [<-|Hin] G1.
          -- rewrite G in G1. inversion G1; subst. split; [apply G2; exact Hb'|apply SS2, existsb_sess_add].
          -- apply A2; auto.
        * intros k1 b1 H. destruct (B2 _ _ H) as [H1|(sd & Hi & Gd)].
          -- destruct (Hnew _ _ H1) as [Ho|[-> ->]]; [left; exact Ho|right; exists sid; simpl; auto].
          -- right. exists sd. simpl; auto.
      + cbn [app]. destruct (IH s In_ SB) as (I2 & S2 & G2 & SS2 & A2 & B2).
        split; [exact I2|]. split; [exact S2|]. split; [exact G2|]. split; [exact SS2|]. split.
        * intros sd k1 b1 [<-|Hin] G1; [congruence|apply A2; auto].
        * intros k1 b1 H. destruct (B2 _ _ H) as [H1|(sd & Hi & Gd)]; [left; exact H1|right; exists sd; simpl; auto].
  Qed.
End Restart.

Lemma test_bit_zeros n idx : test_bit (repeat 0 n) idx = false.
Proof.
  unfold test_bit. destruct (nth_in_or_default (word_of idx) (repeat 0 n) 0) as [H|H].
  - apply repeat_spec in H. rewrite H. apply N.bits_0.
  - rewrite H. apply N.bits_0.
Qed.

Definition store_sound (ps : pcomp) : Prop :=
  forall sid k b, db_get sid (pc_db ps) = Some (k, b) -> In b (blocks_of (cp_pool (pc_comp ps)) k).

(* A restart rebuilds exactly the ownership the store records: every listed record is held again by its subscriber
   and its session is committed again; nothing else is held. *)
Lemma restart_restores_store r p0 ops order : setup repaired r = Some p0 ->
  let c := effective r in
  let ps := prun repaired c p0 (pcomp_init p0) ops in
  store_sound ps ->
  let ps' := pstep repaired c p0 ps (PRestart order) in
  (forall sid k b, In sid order -> db_get sid (pc_db ps) = Some (k, b) ->
     In b (blocks_of (cp_pool (pc_comp ps')) k) /\ existsb (N.eqb sid) (cp_sess (pc_comp ps')) = true) /\
  (forall k b, In b (blocks_of (cp_pool (pc_comp ps')) k) ->
     exists sid, In sid order /\ db_get sid (pc_db ps) = Some (k, b) /\ In b (blocks_of (cp_pool (pc_comp ps)) k)) /\
  pc_db ps' = pc_db ps.
Proof.
  intros Hs c ps SS ps'. destruct (setup_ok r p0 Hs) as [Hr Hc].
  destruct (configure_inv r p0 Hr Hc) as (W & WS & I0). fold c in W, WS, I0.
  set (st := map static (p_addrs p0)) in *.
  (* the pool before the restart is reachable, hence satisfies the invariant *)
  assert (Io : Inv c st (cp_pool (pc_comp ps))).
  { assert (R : forall ops0 s0 l, pc_comp s0 = crun repaired c (comp_init p0) l ->
                exists cops, pc_comp (prun repaired c p0 s0 ops0) = crun repaired c (comp_init p0) cops).
    { unfold prun. induction ops0 as [|o ops0 IH]; intros s0 l E; simpl; [eauto|]. destruct o as [co|od].
      - apply (IH _ (l ++ [co])). cbn [pstep pc_comp]. rewrite E, crun_app. reflexivity.
      - apply (IH _ (restart_ops (pc_db s0) od)). reflexivity. }
    destruct (R ops (pcomp_init p0) [] eq_refl) as (cops & E). subst ps. rewrite E.
    destruct (crun_refines repaired c cops (comp_init p0)) as (pops & E2). rewrite E2. cbn [comp_init cp_pool].
    apply run_inv; auto. }
  assert (E0 : forall k, blocks_of p0 k = []) by (eapply configure_empty; eauto).
  assert (SB0 : Sub c (cp_pool (pc_comp ps)) (cp_pool (comp_init p0))).
  { cbn [comp_init cp_pool]. constructor.
    - intros k b H. rewrite E0 in H. contradiction.
    - intros k. rewrite E0. constructor.
    - intros a idx Ha T. exfalso. unfold configure in Hc. destruct (c_bs (effective r) =? 0); [discriminate|].
      inversion Hc as [Hp]. rewrite <- Hp in Ha. cbn [p_addrs] in Ha. apply in_map_iff in Ha. destruct Ha as (ip & <- & _).
      cbn [a_bits] in T. rewrite test_bit_zeros in T. discriminate. }
  destruct (restart_fold c st W WS (cp_pool (pc_comp ps)) (pc_db ps) order Io SS (comp_init p0) I0 SB0)
    as (_ & S' & _ & _ & A & B).
  subst ps'. cbn [pstep pc_comp pc_db]. split; [exact A|]. split; [|reflexivity].
  intros k b H. destruct (B _ _ H) as [H0|(sid & Hi & G)].
  - cbn [comp_init cp_pool] in H0. rewrite E0 in H0. contradiction.
  - exists sid. split; [exact Hi|]. split; [exact G|]. apply SS with (sid := sid). exact G.
Qed.
