(* C15/Proofs.v — lemmas about the model in Model.v *)
From OV Require Import Common.Base C15.Model.
From Coq Require Import ZifyBool ZifyNat ZifyN.
Local Open Scope N_scope.

(* ---------- witnesses against the current code (variant [defective]) ---------- *)
Definition ex_base : N := 1681915904.
Definition ex_raw : rawcfg :=
  {| r_bs := 16; r_ratio := 0; r_range := Some (1024, 1151); r_max := 2; r_pooling := 1;
     r_outside := [OCidr ex_base 31]; r_excluded := [] |}.
Definition ex_cfg : cfg := effective ex_raw.
Definition pool_of (v : variant) (r : rawcfg) : pool :=
  match configure v r with Some p => p | None => {| p_addrs := []; p_subs := [] |} end.
