(* C15/Model.v — executable model of
     pkg/config/cgnat/cgnat.go    GetBlockSize, GetPortRangeStart/End, GetMaxBlocksPerSubscriber, GetAddressPooling
     internal/cgnat/pool.go       ConfigurePool, AllocateBlock/allocateLocked, GetOrAllocate, ReleaseBlocks,
                                  RestoreMapping / RestoreMappingIfAbsent (restoreLocked), GetPoolStats,
                                  hasFreeBlock, allocateBlock, freeBlock, popcount, expandCIDR
     internal/cgnat/mapping.go    ReverseIndex.Add / Remove / Lookup
     internal/cgnat/component.go  call order of handleSessionActivate -> handlePBAActivate (incl. the HA-synced
                                  path), handleSessionRelease, commitRestoredPBA and the "degraded" restore branch
   Definitions only; proofs are in Proofs.v.

   Numbers are N.  The Go code computes on uint16/uint32/uint64; every place where the Go arithmetic can wrap is
   written with an explicit [mod].  Subscribers are identified by one number k (the harness maps it to
   (InsideVRF, InsideIP)); public addresses are the IPv4 address as a 32-bit number. *)
From OV Require Import Common.Base.
Local Open Scope N_scope.

Definition two16 : N := 65536.
Definition two32 : N := 4294967296.
Definition two64 : N := 18446744073709551616.
Definition u16 (x : N) : N := x mod two16.
Definition add16 (a b : N) : N := (a + b) mod two16.
Definition mul16 (a b : N) : N := (a * b) mod two16.
Definition sub16 (a b : N) : N := (a + two16 - b) mod two16.   (* a, b < 2^16 *)

(* One flag per defect that was found in /repo; true = repaired.  All nine are fixed in /repo now, so [repaired] is
   what /repo HEAD does; the other settings exist for the historical [_refuted] witnesses only.
     v_validate   (285c7b2) restoreLocked validates its argument (address known and not excluded, block aligned and in
                  range, not owned by another subscriber, limit, paired); commitRestoredPBA stops on a restore error
     v_replace    (7d1d0b3) ReverseIndex.Add replaces an existing entry for the same (address, start)
     v_dedup      (3b1c45d) ConfigurePool keeps only the first occurrence of an outside address
     v_rollback   (0cedd79) the failure branch of tryRestoreSyncedMapping removes the subscriber's reverse entries
                  before it releases the subscriber's blocks *)
Record variant := { v_validate : bool; v_replace : bool; v_dedup : bool; v_rollback : bool;
                    v_vrfkey : bool; v_xpool : bool; v_late : bool; v_cfgcheck : bool; v_degrel : bool }.
(*   v_vrfkey     (53e73c2) the component keys the pool by (inside VRF, inside address) instead of (0, inside address)
     v_xpool      (1fd8c60) cgnat.Config.Validate rejects two pools whose outside addresses overlap
     v_late       (8d8ac1d) a dataplane add that completes late is reconciled with what happened meanwhile: a release of the
                  session cancels the activation in flight (blocks and reverse entries released), a successful
                  completion commits only if the subscriber still holds the block, a failed one removes the
                  subscriber's reverse entries before releasing
                  (exactness for every completion order: Properties.C15_reverse_lookup_exact).
     v_cfgcheck   (0e7517a) cgnat.Config.Validate rejects a port-range that is not start <= end <= 65535 and a derived block
                  size of 0
     v_degrel     (2953f22) a release frees the mapping that the degraded restore branch preserved for a session that was not
                  activated again *)
Definition repaired : variant :=
  {| v_validate := true; v_replace := true; v_dedup := true; v_rollback := true; v_vrfkey := true; v_xpool := true;
     v_late := true; v_cfgcheck := true; v_degrel := true |}.
Definition defective : variant :=
  {| v_validate := false; v_replace := false; v_dedup := false; v_rollback := false; v_vrfkey := false;
     v_xpool := false; v_late := false; v_cfgcheck := false; v_degrel := false |}.

(* ---------------------------------------------------------------- configuration *)
Inductive outside := OIp (ip : N) | OCidr (ip len : N).
Record rawcfg := {
  r_bs : N;                       (* BlockSize (0 = unset) *)
  r_ratio : N;                    (* SubscriberRatio (0 = unset) *)
  r_range : option (N * N);       (* PortRange "a-b"; None = unset *)
  r_max : N;                      (* MaxBlocksPerSubscriber (0 = unset) *)
  r_pooling : N;                  (* AddressPooling: 0 = "", 1 = "paired", other = any other string *)
  r_outside : list outside;
  r_excluded : list N }.

(* parsePortRange: Sscanf("%d-%d") into two uint16; anything it cannot scan (a number above 65535) silently gives
   the default range *)
Definition parsed_range (r : rawcfg) : N * N :=
  match r_range r with
  | Some (a, b) => if (a <? two16) && (b <? two16) then (a, b) else (1024, 65535)
  | None => (1024, 65535)
  end.
Definition get_pstart (r : rawcfg) : N := fst (parsed_range r).
Definition get_pend (r : rawcfg) : N := snd (parsed_range r).
Definition get_range_size (r : rawcfg) : N := (get_pend r + two32 - get_pstart r + 1) mod two32.
Definition get_bs (r : rawcfg) : N :=
  if 0 <? r_bs r then r_bs r
  else if 0 <? r_ratio r then u16 (get_range_size r / r_ratio r)
  else 512.
Definition get_max (r : rawcfg) : N := if 0 <? r_max r then r_max r else 4.
Definition get_paired (r : rawcfg) : bool := (r_pooling r =? 0) || (r_pooling r =? 1).

(* what Config.Validate checks of one pool's port geometry (0e7517a) *)
Definition pool_ok (r : rawcfg) : bool :=
  match r_range r with Some (a, b) => (a <=? b) && (b <? two16) | None => true end && negb (get_bs r =? 0).

Record cfg := { c_bs : N; c_pstart : N; c_pend : N; c_max : N; c_paired : bool }.
Definition effective (r : rawcfg) : cfg :=
  {| c_bs := get_bs r; c_pstart := get_pstart r; c_pend := get_pend r; c_max := get_max r;
     c_paired := get_paired r |}.
Definition usable (c : cfg) : N := (c_pend c + two32 - c_pstart c + 1) mod two32.
Definition total_blocks (c : cfg) : N := usable c / c_bs c.

(* ---------------------------------------------------------------- bitmap words *)
Fixpoint upd_nth {A} (n : nat) (f : A -> A) (l : list A) : list A :=
  match l, n with
  | [], _ => []
  | x :: r, O => f x :: r
  | x :: r, S m => x :: upd_nth m f r
  end.
Definition word_of (idx : N) : nat := N.to_nat (idx / 64).
Definition set_bit (bm : list N) (idx : N) : list N :=
  upd_nth (word_of idx) (fun w => N.lor w (N.shiftl 1 (idx mod 64))) bm.
Definition clear_bit (bm : list N) (idx : N) : list N :=
  upd_nth (word_of idx) (fun w => N.ldiff w (N.shiftl 1 (idx mod 64))) bm.
Definition test_bit (bm : list N) (idx : N) : bool :=
  N.testbit (nth (word_of idx) bm 0) (idx mod 64).

(* popcount, SWAR as in pool.go on uint64 *)
Definition m5 : N := 6148914691236517205.     (* 0x5555555555555555 *)
Definition m3 : N := 3689348814741910323.     (* 0x3333333333333333 *)
Definition m0f : N := 1085102592571150095.    (* 0x0f0f0f0f0f0f0f0f *)
Definition m01 : N := 72340172838076673.      (* 0x0101010101010101 *)
Definition popcount (x : N) : N :=
  let x1 := (x + two64 - N.land (N.shiftr x 1) m5) mod two64 in
  let x2 := (N.land x1 m3 + N.land (N.shiftr x1 2) m3) mod two64 in
  let x3 := N.land ((x2 + N.shiftr x2 4) mod two64) m0f in
  N.shiftr ((x3 * m01) mod two64) 56.

Record addr := { a_ip : N; a_total : N; a_bits : list N; a_excl : bool }.
Definition with_bits (a : addr) (bm : list N) : addr :=
  {| a_ip := a_ip a; a_total := a_total a; a_bits := bm; a_excl := a_excl a |}.

Definition allocated_count (a : addr) : N := fold_left (fun s w => (s + popcount w) mod two32) (a_bits a) 0.
Definition has_free_block (a : addr) : bool := allocated_count a <? a_total a.

(* allocateBlock: inner loop over bit = 0..63 of one word.
   None = loop ended without returning; Some None = return -1; Some (Some idx) = found *)
Fixpoint alloc_in_word (fuel : nat) (word base bit total : N) : option (option N) :=
  match fuel with
  | O => None
  | S f =>
      let idx := base + bit in
      if total <=? idx then Some None
      else if N.testbit word bit then alloc_in_word f word base (bit + 1) total
      else Some (Some idx)
  end.
Definition all_ones : N := two64 - 1.
Fixpoint alloc_words (ws : list N) (i : N) (total : N) : option N :=
  match ws with
  | [] => None
  | w :: r =>
      if w =? all_ones then alloc_words r (i + 1) total
      else match alloc_in_word 64 w (i * 64) 0 total with
           | Some res => res
           | None => alloc_words r (i + 1) total
           end
  end.
(* returns the block index and the updated address *)
Definition allocate_block (a : addr) : option (N * addr) :=
  match alloc_words (a_bits a) 0 (a_total a) with
  | Some idx => Some (idx, with_bits a (set_bit (a_bits a) idx))
  | None => None
  end.
Definition free_block (a : addr) (idx : N) : addr := with_bits a (clear_bit (a_bits a) idx).

(* ---------------------------------------------------------------- ConfigurePool *)
Fixpoint nseq (a : N) (n : nat) : list N :=
  match n with O => [] | S k => a :: nseq (a + 1) k end.
Definition expand (o : outside) : list N :=
  match o with
  | OIp ip => [ip]
  | OCidr ip len =>
      let size := 2 ^ (32 - len) in
      nseq ((ip / size) * size) (N.to_nat size)
  end.
Fixpoint dedup (seen : list N) (l : list N) : list N :=
  match l with
  | [] => []
  | x :: r => if existsb (N.eqb x) seen then dedup seen r else x :: dedup (x :: seen) r
  end.
Definition outside_ips (v : variant) (r : rawcfg) : list N :=
  let l := flat_map expand (r_outside r) in
  if v_dedup v then dedup [] l else l.

Record block := { b_ip : N; b_start : N; b_end : N }.
Definition block_eqb (x y : block) : bool :=
  (b_ip x =? b_ip y) && (b_start x =? b_start y) && (b_end x =? b_end y).
Record pool := { p_addrs : list addr; p_subs : list (N * list block) }.

(* None: ConfigurePool panics (integer divide by zero) *)
Definition configure (v : variant) (r : rawcfg) : option pool :=
  let c := effective r in
  if c_bs c =? 0 then None
  else
    let tb := total_blocks c in
    let nwords := N.to_nat ((tb + 63) / 64) in
    Some {| p_addrs := map (fun ip => {| a_ip := ip; a_total := tb; a_bits := repeat 0 nwords;
                                         a_excl := existsb (N.eqb ip) (r_excluded r) |})
                           (outside_ips v r);
            p_subs := [] |}.

(* Config.Validate, then ConfigurePool.  None: the configuration is rejected, or ConfigurePool panics *)
Definition setup (v : variant) (r : rawcfg) : option pool :=
  if v_cfgcheck v && negb (pool_ok r) then None else configure v r.

(* ---------------------------------------------------------------- subscriber map *)
Definition sub_get (k : N) (subs : list (N * list block)) : option (list block) :=
  match find (fun e => fst e =? k) subs with Some e => Some (snd e) | None => None end.
Fixpoint sub_set (k : N) (bl : list block) (subs : list (N * list block)) : list (N * list block) :=
  match subs with
  | [] => [(k, bl)]
  | e :: r => if fst e =? k then (k, bl) :: r else e :: sub_set k bl r
  end.
Definition sub_del (k : N) (subs : list (N * list block)) : list (N * list block) :=
  filter (fun e => negb (fst e =? k)) subs.
Definition blocks_of (p : pool) (k : N) : list block :=
  match sub_get k (p_subs p) with Some l => l | None => [] end.

Fixpoint findi {A} (f : A -> bool) (l : list A) : option nat :=
  match l with
  | [] => None
  | x :: r => if f x then Some O else match findi f r with Some i => Some (S i) | None => None end
  end.

(* ---------------------------------------------------------------- allocation *)
Inductive aerr := ELimit | ENoFree | EAllocFail.

Definition limit_reached (c : cfg) (p : pool) (k : N) : bool :=
  match sub_get k (p_subs p) with
  | Some bl => c_max c <=? N.of_nat (length bl)
  | None => false
  end.
Definition paired_target (c : cfg) (p : pool) (k : N) : option nat :=
  match blocks_of p k with
  | b0 :: _ => if c_paired c then findi (fun a => (a_ip a =? b_ip b0) && negb (a_excl a)) (p_addrs p) else None
  | [] => None
  end.
Definition first_free (p : pool) : option nat :=
  findi (fun a => negb (a_excl a) && has_free_block a) (p_addrs p).
Definition choose_target (c : cfg) (p : pool) (k : N) : option nat :=
  match paired_target c p k with Some i => Some i | None => first_free p end.

Definition block_at (c : cfg) (ip idx : N) : block :=
  let s := add16 (c_pstart c) (mul16 (u16 idx) (c_bs c)) in
  {| b_ip := ip; b_start := s; b_end := sub16 (add16 s (c_bs c)) 1 |}.
Definition add_block (p : pool) (k : N) (b : block) (addrs' : list addr) : pool :=
  {| p_addrs := addrs'; p_subs := sub_set k (blocks_of p k ++ [b]) (p_subs p) |}.

(* AllocateBlock / allocateLocked as written: first non-excluded address with a free block, lowest clear bit *)
Definition alloc_literal (c : cfg) (p : pool) (k : N) : aerr + (block * pool) :=
  if limit_reached c p k then inl ELimit
  else match choose_target c p k with
       | None => inl ENoFree
       | Some i =>
           match nth_error (p_addrs p) i with
           | None => inl ENoFree
           | Some a =>
               match allocate_block a with
               | None => inl EAllocFail
               | Some (idx, a') =>
                   let b := block_at c (a_ip a) idx in
                   inr (b, add_block p k b (upd_nth i (fun _ => a') (p_addrs p)))
               end
           end
       end.

(* the block index the code derives from a port-block start (ReleaseBlocks, restoreLocked) *)
Definition idx_of (c : cfg) (start : N) : N := sub16 start (c_pstart c) / c_bs c.
(* a block start that the allocator itself can produce *)
Definition start_ok (c : cfg) (tb : N) (start : N) : bool :=
  (c_pstart c <=? start) && ((start - c_pstart c) mod c_bs c =? 0) && ((start - c_pstart c) / c_bs c <? tb).

(* An allocation answer chosen by somebody else (the implementation): accepted iff it is a free, aligned, in-range
   block on a non-excluded address, on the subscriber's own address when pooling is paired.  The contract leaves the
   choice among those open. *)
Definition obs_addr_ok (c : cfg) (b : block) (a : addr) : bool :=
  (a_ip a =? b_ip b) && negb (a_excl a) && start_ok c (a_total a) (b_start b)
  && (b_end b =? b_start b + c_bs c - 1) && negb (test_bit (a_bits a) (idx_of c (b_start b))).
Definition alloc_obs (c : cfg) (p : pool) (k : N) (b : block) : option pool :=
  if limit_reached c p k then None
  else
    let pick := match paired_target c p k with
                | Some i => match nth_error (p_addrs p) i with
                            | Some a => if obs_addr_ok c b a then Some i else None
                            | None => None
                            end
                | None => findi (obs_addr_ok c b) (p_addrs p)
                end in
    match pick with
    | Some i => Some (add_block p k b (upd_nth i (fun a => with_bits a (set_bit (a_bits a) (idx_of c (b_start b))))
                                               (p_addrs p)))
    | None => None
    end.

(* ---------------------------------------------------------------- release *)
Definition release_one (c : cfg) (addrs : list addr) (b : block) : list addr :=
  match findi (fun a => a_ip a =? b_ip b) addrs with
  | Some i => upd_nth i (fun a => free_block a (idx_of c (b_start b))) addrs
  | None => addrs
  end.
Definition release (c : cfg) (p : pool) (k : N) : pool :=
  match sub_get k (p_subs p) with
  | None => p
  | Some bl => {| p_addrs := fold_left (release_one c) bl (p_addrs p); p_subs := sub_del k (p_subs p) |}
  end.

(* ---------------------------------------------------------------- restore *)
Definition holds_block (bl : list block) (b : block) : bool :=
  existsb (fun x => (b_start x =? b_start b) && (b_ip x =? b_ip b)) bl.

(* restoreLocked before 285c7b2: no validation at all *)
Definition restore_defective (c : cfg) (p : pool) (k : N) (b : block) (if_absent : bool) : pool :=
  if if_absent && holds_block (blocks_of p k) b then p
  else
    let addrs' := match findi (fun a => a_ip a =? b_ip b) (p_addrs p) with
                  | Some i => upd_nth i (fun a => with_bits a (set_bit (a_bits a) (idx_of c (b_start b)))) (p_addrs p)
                  | None => p_addrs p
                  end in
    add_block p k b addrs'.

(* restoreLocked with validation (285c7b2).  None = error returned, state unchanged.
   The shape of the block is checked before the idempotent early return of RestoreMappingIfAbsent (which compares
   address and start only): otherwise a record with a wrong end would be reported as restored and then indexed by
   the component.  A plain RestoreMapping of a block the subscriber already holds still appends a second copy (legacy behaviour
   pinned by TestRestoreMapping_NotIdempotent_DoubleAppends). *)
Definition restore_repaired (c : cfg) (p : pool) (k : N) (b : block) (if_absent : bool) : option pool :=
  match findi (fun a => a_ip a =? b_ip b) (p_addrs p) with
  | None => None
  | Some i =>
      match nth_error (p_addrs p) i with
      | None => None
      | Some a =>
          if a_excl a then None
          else if negb (start_ok c (a_total a) (b_start b)) then None
          else if negb (b_end b =? b_start b + c_bs c - 1) then None
          else if if_absent && holds_block (blocks_of p k) b then Some p
          else if negb (holds_block (blocks_of p k) b) && test_bit (a_bits a) (idx_of c (b_start b)) then None
          else if limit_reached c p k then None
          else if c_paired c && match blocks_of p k with b0 :: _ => negb (b_ip b0 =? b_ip b) | [] => false end
               then None
          else Some (add_block p k b
                       (upd_nth i (fun a => with_bits a (set_bit (a_bits a) (idx_of c (b_start b)))) (p_addrs p)))
      end
  end.
Definition restore (v : variant) (c : cfg) (p : pool) (k : N) (b : block) (if_absent : bool) : option pool :=
  if v_validate v then restore_repaired c p k b if_absent else Some (restore_defective c p k b if_absent).

(* ---------------------------------------------------------------- pool-level operations and outputs *)
Inductive op :=
| OAlloc (k : N) (obs : option block)      (* AllocateBlock; obs = the block the implementation returned, if any *)
| OGoa (k : N) (obs : option block)        (* GetOrAllocate *)
| ORelease (k : N)                         (* ReleaseBlocks *)
| ORestore (k : N) (b : block)             (* RestoreMapping *)
| ORestoreIfAbsent (k : N) (b : block).    (* RestoreMappingIfAbsent *)

Inductive out :=
| RBlock (is_new : bool) (b : block)
| RErr (e : aerr)
| RInadmissible (b : block)                (* the observed choice is not a free admissible block *)
| ROk
| RRestoreErr.

Definition do_alloc (c : cfg) (p : pool) (k : N) (obs : option block) : pool * out :=
  match alloc_literal c p k with
  | inl e => (p, RErr e)
  | inr (b, p') =>
      match obs with
      | None => (p', RBlock true b)
      | Some o =>
          if block_eqb o b then (p', RBlock true b)
          else match alloc_obs c p k o with
               | Some p'' => (p'', RBlock true o)
               | None => (p, RInadmissible o)
               end
      end
  end.

Definition step (v : variant) (c : cfg) (p : pool) (o : op) : pool * out :=
  match o with
  | OAlloc k obs => do_alloc c p k obs
  | OGoa k obs =>
      match blocks_of p k with
      | b0 :: _ => (p, RBlock false b0)
      | [] => do_alloc c p k obs
      end
  | ORelease k => (release c p k, ROk)
  | ORestore k b => match restore v c p k b false with Some p' => (p', ROk) | None => (p, RRestoreErr) end
  | ORestoreIfAbsent k b => match restore v c p k b true with Some p' => (p', ROk) | None => (p, RRestoreErr) end
  end.
Definition run (v : variant) (c : cfg) (p : pool) (ops : list op) : pool :=
  fold_left (fun s o => fst (step v c s o)) ops p.

(* GetPoolStats: total addresses, allocated, free, total blocks, excluded addresses, subscribers *)
Definition stats (p : pool) : N * N * N * N * N * N :=
  let live := filter (fun a => negb (a_excl a)) (p_addrs p) in
  let total := fold_left (fun s a => (s + a_total a) mod two32) live 0 in
  let alloc := fold_left (fun s a => fold_left (fun s w => (s + popcount w) mod two32) (a_bits a) s) live 0 in
  (N.of_nat (length (p_addrs p)), alloc, (if alloc <? total then total - alloc else 0), total,
   N.of_nat (length (p_addrs p) - length live), N.of_nat (length (p_subs p))).

(* ---------------------------------------------------------------- the property as an executable monitor *)
Definition all_blocks (p : pool) : list (N * block) :=
  flat_map (fun e => map (fun b => (fst e, b)) (snd e)) (p_subs p).
Definition overlap (x y : block) : bool :=
  (b_ip x =? b_ip y) && (b_start x <=? b_end y) && (b_start y <=? b_end x).
Definition mon_disjoint (p : pool) : bool :=
  forallb (fun x => forallb (fun y => (fst x =? fst y) || negb (overlap (snd x) (snd y))) (all_blocks p))
          (all_blocks p).
Definition block_wf (c : cfg) (p : pool) (b : block) : bool :=
  existsb (fun a => (a_ip a =? b_ip b) && negb (a_excl a)) (p_addrs p)
  && start_ok c (total_blocks c) (b_start b) && (b_end b =? b_start b + c_bs c - 1) && (b_end b <=? c_pend c).
Definition mon_range (c : cfg) (p : pool) : bool := forallb (fun x => block_wf c p (snd x)) (all_blocks p).
Definition mon_limit (c : cfg) (p : pool) : bool :=
  forallb (fun e => N.of_nat (length (snd e)) <=? c_max c) (p_subs p).
Definition mon_paired (c : cfg) (p : pool) : bool :=
  negb (c_paired c) ||
  forallb (fun e => match snd e with b0 :: r => forallb (fun b => b_ip b =? b_ip b0) r | [] => true end) (p_subs p).

(* ---------------------------------------------------------------- reverse index (mapping.go) *)
(* A *models.CGNATMapping.  m_id stands for the pointer: every Add in the component passes a fresh object. *)
Record mapping := { m_id : N; m_sub : N; m_blk : block }.
(* byBlock: (address, start) -> pointer.  byIP is kept as one list in insertion order; the per-address slices of
   the Go map are its sublists for one address (order preserved), which is all Lookup and Remove depend on. *)
Record rindex := { r_byblock : list (N * N * N); r_byip : list mapping; r_next : N }.
Definition rev_empty : rindex := {| r_byblock := []; r_byip := []; r_next := 0 |}.
Definition key_eqb (ip s : N) (e : N * N * N) : bool := (fst (fst e) =? ip) && (snd (fst e) =? s).
Fixpoint remove_first_id (id : N) (l : list mapping) : list mapping :=
  match l with
  | [] => []
  | m :: r => if m_id m =? id then r else m :: remove_first_id id r
  end.
Definition rev_add (v : variant) (ri : rindex) (k : N) (b : block) : rindex :=
  let id := r_next ri in
  let m := {| m_id := id; m_sub := k; m_blk := b |} in
  let old := find (key_eqb (b_ip b) (b_start b)) (r_byblock ri) in
  let byip := match old with
              | Some e => if v_replace v then remove_first_id (snd e) (r_byip ri) else r_byip ri
              | None => r_byip ri
              end in
  {| r_byblock := (b_ip b, b_start b, id) :: filter (fun e => negb (key_eqb (b_ip b) (b_start b) e)) (r_byblock ri);
     r_byip := byip ++ [m];
     r_next := id + 1 |}.
Definition rev_remove (ri : rindex) (ip s : N) : rindex :=
  match find (key_eqb ip s) (r_byblock ri) with
  | None => ri
  | Some e =>
      {| r_byblock := filter (fun e => negb (key_eqb ip s e)) (r_byblock ri);
         r_byip := remove_first_id (snd e) (r_byip ri);
         r_next := r_next ri |}
  end.
Definition covers (b : block) (ip port : N) : bool :=
  (b_ip b =? ip) && (b_start b <=? port) && (port <=? b_end b).
Definition rev_lookup (ri : rindex) (ip port : N) : option mapping :=
  find (fun m => covers (m_blk m) ip port) (r_byip ri).

(* ---------------------------------------------------------------- component call order (component.go) *)
(* A subscriber is (inside VRF, inside address), encoded as vrf * 2^32 + the 32-bit address.  Before the
   VRF fix (53e73c2) the component passed VRF 0 to every pool call it derives from a session. *)
Definition pk (v : variant) (k : N) : N := if v_vrfkey v then k else k mod two32.

(* cp_pend: activations whose dataplane add is still in flight: (session, pool key, block) *)
(* cp_deg: sessions whose mapping the degraded restore branch preserved (Component.preserved) *)
Record comp := { cp_pool : pool; cp_rev : rindex; cp_sess : list N; cp_pend : list (N * N * block);
                 cp_deg : list N }.
Definition sess_add (sid : N) (l : list N) : list N := if existsb (N.eqb sid) l then l else l ++ [sid].
Definition sess_del (sid : N) (l : list N) : list N := filter (fun x => negb (x =? sid)) l.
Definition pend_sid (e : N * N * block) : N := fst (fst e).
(* beginActivation: a committed session or an activation in flight makes the event a no-op *)
Definition busy (s : comp) (sid : N) : bool :=
  existsb (N.eqb sid) (cp_sess s) || existsb (fun e => pend_sid e =? sid) (cp_pend s).

(* Every event carries the outcome of the southbound calls it makes (the fault pattern).  Outcomes that the code
   ignores for its own pool / index state are still parameters, so that the theorems quantify over them. *)
Inductive cop :=
| CActivate (sid k : N) (dp_ok : bool) (obs : option block)
    (* handleSessionActivate -> handlePBAActivate; dp_ok = outcome of the dataplane add, known at once *)
| CActivateLate (sid k : N) (obs : option block)
    (* same, but the dataplane add stays in flight; CAddComplete delivers its outcome *)
| CAddComplete (sid : N) (ok : bool)
    (* the callback of an in-flight add runs *)
| CSynced (sid k mk : N) (mb : block) (dp_ok : bool) (obs : option block)
    (* activation with an HA-synced record (subscriber mk, block mb) waiting in opdb; dp_ok = outcome of the add *)
| CRelease (sid k : N) (del_ok : list bool)
    (* handleSessionRelease; del_ok = outcome of the dataplane delete of each mapping, whenever it completes *)
| CRestorePresent (sid mk : N) (mb : block) (bulk : N) (obs : option block)
    (* restoreFromOpDB, session present; bulk = 0 reprogram ok (commitRestoredPBA), 1 per-mapping error,
       2 transport error.  After a failed reprogram nothing is committed and scanNonPBASessions treats the session
       as a new activation (obs = the block that activation is given, if any) *)
| CRestoreDegraded (sid mk : N) (mb : block) (* restoreFromOpDB, session sid: cache miss but access record retained *)
| CComplete.                                 (* deferred dataplane delete callbacks fire (any order) *)

Definition commit_mapping (v : variant) (s : comp) (p : pool) (sid k : N) (b : block) : comp :=
  {| cp_pool := p; cp_rev := rev_add v (cp_rev s) k b; cp_sess := sess_add sid (cp_sess s); cp_pend := cp_pend s; cp_deg := cp_deg s |}.
Definition with_pool (s : comp) (p : pool) : comp :=
  {| cp_pool := p; cp_rev := cp_rev s; cp_sess := cp_sess s; cp_pend := cp_pend s; cp_deg := cp_deg s |}.

Definition pba_activate (v : variant) (c : cfg) (s : comp) (sid k : N) (dp_ok : bool) (obs : option block)
  : comp * out :=
  match step v c (cp_pool s) (OGoa k obs) with
  | (p', RBlock false b) => (commit_mapping v s p' sid k b, RBlock false b)
  | (p', RBlock true b) =>
      if dp_ok then (commit_mapping v s p' sid k b, RBlock true b)
      else (with_pool s (release c p' k), RBlock true b)
  | (p', o) => (with_pool s p', o)
  end.

Definition cstep (v : variant) (c : cfg) (s : comp) (o : cop) : comp * out :=
  match o with
  | CActivate sid k dp_ok obs =>
      if busy s sid then (s, ROk) else pba_activate v c s sid (pk v k) dp_ok obs
  | CActivateLate sid k obs =>
      if busy s sid then (s, ROk)
      else match step v c (cp_pool s) (OGoa (pk v k) obs) with
           | (p', RBlock false b) => (commit_mapping v s p' sid (pk v k) b, RBlock false b)
           | (p', RBlock true b) =>
               ({| cp_pool := p'; cp_rev := cp_rev s; cp_sess := cp_sess s;
                   cp_pend := cp_pend s ++ [(sid, pk v k, b)]; cp_deg := cp_deg s |}, RBlock true b)
           | (p', o) => (with_pool s p', o)
           end
  | CAddComplete sid ok =>
      match find (fun e => pend_sid e =? sid) (cp_pend s) with
      | None => (s, ROk)
      | Some e =>
          let k := snd (fst e) in
          let b := snd e in
          let s1 := {| cp_pool := cp_pool s; cp_rev := cp_rev s; cp_sess := cp_sess s;
                       cp_pend := filter (fun e => negb (pend_sid e =? sid)) (cp_pend s); cp_deg := cp_deg s |} in
          if ok then
            if v_late v && negb (existsb (block_eqb b) (blocks_of (cp_pool s) k)) then (s1, ROk)
            else (commit_mapping v s1 (cp_pool s) sid k b, ROk)
          else
            ({| cp_pool := release c (cp_pool s) k;
                cp_rev := if v_late v
                          then fold_left (fun ri b => rev_remove ri (b_ip b) (b_start b)) (blocks_of (cp_pool s) k) (cp_rev s)
                          else cp_rev s;
                cp_sess := cp_sess s1; cp_pend := cp_pend s1; cp_deg := cp_deg s |}, ROk)
      end
  | CSynced sid k mk mb dp_ok obs =>
      if busy s sid then (s, ROk)
      else match restore v c (cp_pool s) mk mb true with
           | Some p' =>
               if dp_ok then (commit_mapping v s p' sid mk mb, RBlock true mb)
               else
                 (* failure callback: ReleaseBlocks(mapping.InsideIP, VRF 0 before the VRF fix) *)
                 ({| cp_pool := release c p' (pk v mk);
                     cp_rev := if v_rollback v
                               then fold_left (fun ri b => rev_remove ri (b_ip b) (b_start b)) (blocks_of p' (pk v mk)) (cp_rev s)
                               else cp_rev s;
                     cp_sess := cp_sess s; cp_pend := cp_pend s; cp_deg := cp_deg s |}, RBlock true mb)
           | None => pba_activate v c s sid (pk v k) dp_ok obs
           end
  | CRelease sid k _ =>
      let pending := existsb (fun e => pend_sid e =? sid) (cp_pend s) in
      let preserved := existsb (N.eqb sid) (cp_deg s) in
      let deg' := if v_degrel v then sess_del sid (cp_deg s) else cp_deg s in
      if negb (existsb (N.eqb sid) (cp_sess s)) && negb (v_late v && pending) && negb (v_degrel v && preserved)
      then ({| cp_pool := cp_pool s; cp_rev := cp_rev s; cp_sess := cp_sess s; cp_pend := cp_pend s; cp_deg := deg' |}, ROk)
      else
        let bl := blocks_of (cp_pool s) (pk v k) in
        let pend' := if v_late v then filter (fun e => negb (pend_sid e =? sid)) (cp_pend s) else cp_pend s in
        match bl with
        | [] => ({| cp_pool := cp_pool s; cp_rev := cp_rev s; cp_sess := sess_del sid (cp_sess s);
                    cp_pend := pend'; cp_deg := deg' |}, ROk)
        | _ => ({| cp_pool := release c (cp_pool s) (pk v k);
                   cp_rev := fold_left (fun ri b => rev_remove ri (b_ip b) (b_start b)) bl (cp_rev s);
                   cp_sess := sess_del sid (cp_sess s); cp_pend := pend'; cp_deg := deg' |}, ROk)
        end
  | CRestorePresent sid mk mb bulk obs =>
      if negb (bulk =? 0) then
        if busy s sid then (s, ROk) else pba_activate v c s sid (pk v mk) true obs
      else
      match restore v c (cp_pool s) mk mb true with
      | Some p' => (commit_mapping v s p' sid mk mb, ROk)
      | None =>
          (* before 285c7b2: the error is only logged, the mapping is still indexed and the session recorded *)
          if v_validate v then (s, RRestoreErr) else (commit_mapping v s (cp_pool s) sid mk mb, RRestoreErr)
      end
  | CRestoreDegraded sid mk mb =>
      match restore v c (cp_pool s) mk mb true with
      | Some p' => ({| cp_pool := p'; cp_rev := rev_add v (cp_rev s) mk mb; cp_sess := cp_sess s;
                       cp_pend := cp_pend s; cp_deg := sess_add sid (cp_deg s) |}, ROk)
      | None => (s, RRestoreErr)
      end
  | CComplete => (s, ROk)
  end.
Definition crun (v : variant) (c : cfg) (s : comp) (ops : list cop) : comp :=
  fold_left (fun s o => fst (cstep v c s o)) ops s.
Definition comp_init (p : pool) : comp :=
  {| cp_pool := p; cp_rev := rev_empty; cp_sess := []; cp_pend := []; cp_deg := [] |}.
(* events whose dataplane add outcome is known before the next event *)
Definition sync_op (o : cop) : bool :=
  match o with CActivateLate _ _ _ | CAddComplete _ _ => false | _ => true end.

(* the property's reference for the reverse lookup, read off the pool *)
Definition owns (p : pool) (k : N) (b : block) : bool :=
  existsb (fun x => (fst x =? k) && block_eqb (snd x) b) (all_blocks p).
Definition covered (p : pool) (ip port : N) : bool :=
  existsb (fun x => covers (snd x) ip port) (all_blocks p).
(* the reverse lookup agrees with the pool on one (ip, port): the answer is a subscriber that owns a block covering
   the port, and there is an answer whenever some block covers it *)
Definition mon_trace (s : comp) (ip port : N) : bool :=
  match rev_lookup (cp_rev s) ip port with
  | Some m => owns (cp_pool s) (m_sub m) (m_blk m) && covers (m_blk m) ip port
  | None => negb (covered (cp_pool s) ip port)
  end.

(* ---------------------------------------------------------------- several pools on one PoolManager *)
(* pools are independent allocators; cgnat.Config.Validate (1fd8c60) rejects configurations in which two
   pools list a common outside address *)
Definition outside_set (r : rawcfg) : list N := flat_map expand (r_outside r).
Definition share_address (r1 r2 : rawcfg) : bool :=
  existsb (fun ip => existsb (N.eqb ip) (outside_set r2)) (outside_set r1).
Fixpoint pools_valid (rs : list rawcfg) : bool :=
  match rs with
  | [] => true
  | r :: rest => forallb (fun r2 => negb (share_address r r2)) rest && pools_valid rest
  end.
Fixpoint configure_all (v : variant) (rs : list rawcfg) : option (list (cfg * pool)) :=
  match rs with
  | [] => Some []
  | r :: rest =>
      match configure v r, configure_all v rest with
      | Some p, Some ps => Some ((effective r, p) :: ps)
      | _, _ => None
      end
  end.
(* None: the configuration is rejected (or ConfigurePool panics) *)
Definition mconfigure (v : variant) (rs : list rawcfg) : option (list (cfg * pool)) :=
  if v_xpool v && negb (pools_valid rs) then None
  else if v_cfgcheck v && negb (forallb pool_ok rs) then None
  else configure_all v rs.
Definition mstep (v : variant) (ps : list (cfg * pool)) (io : nat * op) : list (cfg * pool) :=
  upd_nth (fst io) (fun cp => (fst cp, fst (step v (fst cp) (snd cp) (snd io)))) ps.
Definition mrun (v : variant) (ps : list (cfg * pool)) (ops : list (nat * op)) : list (cfg * pool) :=
  fold_left (mstep v) ops ps.
Definition mblocks (ps : list (cfg * pool)) (i : nat) (k : N) : list block :=
  match nth_error ps i with Some cp => blocks_of (snd cp) k | None => [] end.
(* monitor: two holders that differ in pool or subscriber overlap *)
Definition mall_blocks (ps : list (cfg * pool)) : list (N * N * block) :=
  flat_map (fun ip => map (fun kb => (N.of_nat (fst ip), fst kb, snd kb)) (all_blocks (snd (snd ip))))
           (combine (seq 0 (length ps)) ps).
Definition mon_xdisjoint (ps : list (cfg * pool)) : bool :=
  forallb (fun x => forallb (fun y =>
      ((fst (fst x) =? fst (fst y)) && (snd (fst x) =? snd (fst y))) || negb (overlap (snd x) (snd y)))
    (mall_blocks ps)) (mall_blocks ps).

(* ---------------------------------------------------------------- event entry points and the restore-window queue *)
(* component.go: handleSessionLifecycle / handleSessionProgrammed / handleSessionRestored -> maybeEnqueue ->
   dispatchLifecycle / dispatchProgrammed / dispatchRestored, drainQueue.  Until drainQueue has run (Start: reconcile,
   restoreFromOpDB, then drainQueue) every event is queued, at most [queue_bound] of them; afterwards events are
   dispatched at once. *)
Inductive sstate := SActive | SReleased | SOtherState.
Inductive saccess := AIPoE | APPPoE | AOtherAccess.
Inductive ev :=
| ELifecycle (st : sstate) (acc : saccess) (sid k : N) (dl : list bool)   (* TopicSessionLifecycle *)
| EProgrammed (acc : saccess) (sid k : N) (dp_ok : bool)                   (* TopicSessionProgrammed *)
| ERestored (acc : saccess) (sid k : N) (dp_ok : bool)                     (* TopicSessionRestored *)
| EBadPayload.                                                             (* Data of another type *)
Definition pba_access (a : saccess) : bool := match a with AOtherAccess => false | _ => true end.

(* what one dispatched event does.  A lifecycle event in state Active never activates anything: IPoE and PPPoE are
   filtered (they are activated by the Programmed / Restored events) and other access types have no handler. *)
Definition dispatch (v : variant) (c : cfg) (s : comp) (e : ev) (obs : option block) : comp * out :=
  match e with
  | ELifecycle SReleased acc sid k dl => if pba_access acc then cstep v c s (CRelease sid k dl) else (s, ROk)
  | ELifecycle _ _ _ _ _ => (s, ROk)
  | EProgrammed acc sid k dp_ok => if pba_access acc then cstep v c s (CActivate sid k dp_ok obs) else (s, ROk)
  | ERestored acc sid k dp_ok => if pba_access acc then cstep v c s (CActivate sid k dp_ok obs) else (s, ROk)
  | EBadPayload => (s, ROk)
  end.

Definition queue_bound : nat := 4096.
Record ecomp := { e_comp : comp; e_drained : bool; e_queue : list ev; e_dropped : N }.
Definition ecomp_init (p : pool) : ecomp := {| e_comp := comp_init p; e_drained := false; e_queue := []; e_dropped := 0 |}.
Definition is_release (e : ev) : bool := match e with ELifecycle SReleased _ _ _ _ => true | _ => false end.

Inductive eop :=
| EvDeliver (e : ev) (obs : option block)      (* the bus hands e to the component *)
| EvDrain (obsl : list (option block))         (* drainQueue; obsl: one observed block per queued event *)
| EvDirect (o : cop).                          (* restoreFromOpDB records etc. *)

Fixpoint drain_all (v : variant) (c : cfg) (s : comp) (q : list ev) (obsl : list (option block)) : comp :=
  match q with
  | [] => s
  | e :: r => drain_all v c (fst (dispatch v c s e (hd None obsl))) r (tl obsl)
  end.

(* vq: a Released event is queued even when the queue is full (f92bf5a; vq = true is /repo HEAD) *)
Definition estep (vq : bool) (v : variant) (c : cfg) (s : ecomp) (o : eop) : ecomp :=
  match o with
  | EvDeliver e obs =>
      if e_drained s then
        {| e_comp := fst (dispatch v c (e_comp s) e obs); e_drained := true; e_queue := e_queue s; e_dropped := e_dropped s |}
      else if (queue_bound <=? length (e_queue s))%nat && negb (vq && is_release e) then
        {| e_comp := e_comp s; e_drained := false; e_queue := e_queue s; e_dropped := e_dropped s + 1 |}
      else
        {| e_comp := e_comp s; e_drained := false; e_queue := e_queue s ++ [e]; e_dropped := e_dropped s |}
  | EvDrain obsl =>
      {| e_comp := drain_all v c (e_comp s) (e_queue s) obsl; e_drained := true; e_queue := []; e_dropped := e_dropped s |}
  | EvDirect co =>
      {| e_comp := fst (cstep v c (e_comp s) co); e_drained := e_drained s; e_queue := e_queue s; e_dropped := e_dropped s |}
  end.
Definition erun (vq : bool) (v : variant) (c : cfg) (s : ecomp) (ops : list eop) : ecomp :=
  fold_left (estep vq v c) ops s.

(* ---------------------------------------------------------------- persisted mappings and process restart *)
(* opdb namespace cgnat_mappings: session id -> (subscriber, block), written by commitMapping (persist = true) and
   commitRestoredPBA, present for every record restoreFromOpDB is given, deleted by handleSessionRelease.  A restart
   is a fresh pool, reverse index and session books over the same store: restoreFromOpDB replays every record (all
   sessions present, reprogram ok), in the order the store lists them. *)
Definition pdb := list (N * (N * block)).
Definition db_put (sid : N) (kb : N * block) (d : pdb) : pdb := (sid, kb) :: filter (fun e => negb (fst e =? sid)) d.
Definition db_del (sid : N) (d : pdb) : pdb := filter (fun e => negb (fst e =? sid)) d.
Definition db_get (sid : N) (d : pdb) : option (N * block) :=
  match find (fun e => fst e =? sid) d with Some e => Some (snd e) | None => None end.

Definition db_step (v : variant) (c : cfg) (s : comp) (o : cop) (res : out) (d : pdb) : pdb :=
  match o with
  | CActivate sid k dp _ =>
      if busy s sid then d else match res with RBlock true b => if dp then db_put sid (pk v k, b) d else d | _ => d end
  | CActivateLate _ _ _ => d
  | CAddComplete sid ok =>
      match find (fun e => pend_sid e =? sid) (cp_pend s) with
      | Some e =>
          let k := snd (fst e) in
          let b := snd e in
          if ok && negb (v_late v && negb (existsb (block_eqb b) (blocks_of (cp_pool s) k))) then db_put sid (k, b) d else d
      | None => d
      end
  | CSynced sid k mk mb dp _ =>
      if busy s sid then d
      else match restore v c (cp_pool s) mk mb true with
           | Some _ => if dp then db_put sid (mk, mb) d else d
           | None => match res with RBlock true b => if dp then db_put sid (pk v k, b) d else d | _ => d end
           end
  | CRelease sid k _ =>
      let known := existsb (N.eqb sid) (cp_sess s)
                   || (v_late v && existsb (fun e => pend_sid e =? sid) (cp_pend s))
                   || (v_degrel v && existsb (N.eqb sid) (cp_deg s)) in
      if known then match blocks_of (cp_pool s) (pk v k) with [] => d | _ => db_del sid d end else d
  | CRestorePresent sid mk mb bulk _ =>
      let d1 := db_put sid (mk, mb) d in
      if negb (bulk =? 0) then
        if busy s sid then d1 else match res with RBlock true b => db_put sid (pk v mk, b) d1 | _ => d1 end
      else d1
  | CRestoreDegraded sid mk mb => db_put sid (mk, mb) d
  | CComplete => d
  end.

Record pcomp := { pc_comp : comp; pc_db : pdb }.
Inductive pop :=
| PEvent (o : cop)
| PRestart (order : list N).     (* the order in which the store lists the persisted session ids *)
Definition restart_ops (d : pdb) (order : list N) : list cop :=
  flat_map (fun sid => match db_get sid d with Some (k, b) => [CRestorePresent sid k b 0 None] | None => [] end) order.
Definition pstep (v : variant) (c : cfg) (p0 : pool) (s : pcomp) (o : pop) : pcomp :=
  match o with
  | PEvent co =>
      let r := cstep v c (pc_comp s) co in
      {| pc_comp := fst r; pc_db := db_step v c (pc_comp s) co (snd r) (pc_db s) |}
  | PRestart order =>
      (* every restored record is written back by commitRestoredPBA with the same subscriber and block *)
      {| pc_comp := crun v c (comp_init p0) (restart_ops (pc_db s) order); pc_db := pc_db s |}
  end.
Definition prun (v : variant) (c : cfg) (p0 : pool) (s : pcomp) (ops : list pop) : pcomp :=
  fold_left (pstep v c p0) ops s.
Definition pcomp_init (p0 : pool) : pcomp := {| pc_comp := comp_init p0; pc_db := [] |}.
