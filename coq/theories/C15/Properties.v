(* C15/Properties.v — the property theorems only. *)
From OV Require Import Common.Base C15.Model C15.Proofs.
Local Open Scope N_scope.

(* ---- what the unchanged code violates (variant [defective] = the code as it is today) ---- *)

(* RestoreMapping accepts an unaligned block overlapping subscriber 1's block; releasing the restored subscriber
   clears subscriber 1's bit; the allocator then hands subscriber 1's block to subscriber 4. *)
Theorem C15_disjoint_refuted :
  exists ops, let p := run defective ex_cfg (pool_of defective ex_raw) ops in
    mon_disjoint p = false /\ mon_range ex_cfg p = true.
Proof.
  exists [OAlloc 1 None; ORestore 3 {| b_ip := ex_base; b_start := 1030; b_end := 1045 |}; ORelease 3; OAlloc 4 None].
  vm_compute. split; reflexivity.
Qed.
Print Assumptions C15_disjoint_refuted.
