(* C15/Properties.v — the property theorems only.  Each is closed by [exact] of a lemma from Proofs.v.

   Reading guide.  [r] is the pool configuration as written (pkg/config/cgnat.Pool), [effective r] what the getters
   make of it, [configure v r] is ConfigurePool, [run v c p0 ops] the pool after any history of AllocateBlock /
   GetOrAllocate / ReleaseBlocks / RestoreMapping / RestoreMappingIfAbsent calls.  An allocation op may carry the
   block somebody else chose ([Some b]): it is granted only if admissible, so the theorems cover every allocation
   policy, the current first-free one included ([None]).  [blocks_of p k] are the blocks subscriber k holds.
   Variant [repaired] = /repo HEAD: all ten fixes/C15_*.patch are committed (285c7b2 restore validation, 7d1d0b3
   reverse Add replace, 3b1c45d outside-address dedup, 0cedd79 HA-synced rollback, 53e73c2 inside-VRF key, 1fd8c60
   cross-pool overlap rejected, 8d8ac1d late add completion reconciled, 0e7517a port geometry validated, 2953f22
   release frees a mapping preserved by the degraded restore, f92bf5a the restore-window queue keeps releases; the last
   one is the [vq] argument of [estep], vq = true is HEAD).  No C15 finding is open.  The [_refuted]
   theorems below are historical witnesses against the code before the named commit; [defective] = before all of
   them.
   [wf_range r]: port-range start <= end <= 65535 (not checked by cgnat.Config.Validate; listed as an assumption). *)
From OV Require Import Common.Base C15.Model C15.Proofs.
Local Open Scope N_scope.

(* two different subscribers never hold overlapping port ranges on one public address *)
Theorem C15_disjoint :
  forall r p0 ops, setup repaired r = Some p0 ->
  forall k1 k2 b1 b2, k1 <> k2 ->
    In b1 (blocks_of (run repaired (effective r) p0 ops) k1) ->
    In b2 (blocks_of (run repaired (effective r) p0 ops) k2) ->
    b_ip b1 = b_ip b2 -> b_end b1 < b_start b2 \/ b_end b2 < b_start b1.
Proof. intros r p0 ops Hs. exact (s_disjoint r p0 Hs ops). Qed.
Print Assumptions C15_disjoint.

(* every held block is on a configured, non-excluded public address, starts on a block boundary inside the port
   range, is exactly one block long and ends inside the range *)
Theorem C15_in_range_aligned_not_excluded :
  forall r p0 ops, setup repaired r = Some p0 ->
  forall k b, In b (blocks_of (run repaired (effective r) p0 ops) k) ->
    In (b_ip b) (flat_map expand (r_outside r)) /\ ~ In (b_ip b) (r_excluded r) /\
    c_pstart (effective r) <= b_start b /\ (b_start b - c_pstart (effective r)) mod c_bs (effective r) = 0 /\
    b_end b = b_start b + c_bs (effective r) - 1 /\ b_end b <= c_pend (effective r).
Proof. intros r p0 ops Hs. exact (s_in_range r p0 Hs ops). Qed.
Print Assumptions C15_in_range_aligned_not_excluded.

(* a subscriber never holds more blocks than max-blocks-per-subscriber *)
Theorem C15_limit :
  forall r p0 ops, setup repaired r = Some p0 ->
  forall k, N.of_nat (length (blocks_of (run repaired (effective r) p0 ops) k)) <= c_max (effective r).
Proof. intros r p0 ops Hs. exact (s_limit r p0 Hs ops). Qed.
Print Assumptions C15_limit.

(* with paired pooling all blocks of a subscriber are on one public address *)
Theorem C15_paired_single_ip :
  forall r p0 ops, setup repaired r = Some p0 ->
  forall k b1 b2, c_paired (effective r) = true ->
    In b1 (blocks_of (run repaired (effective r) p0 ops) k) ->
    In b2 (blocks_of (run repaired (effective r) p0 ops) k) -> b_ip b1 = b_ip b2.
Proof. intros r p0 ops Hs. exact (s_paired r p0 Hs ops). Qed.
Print Assumptions C15_paired_single_ip.

(* releasing a subscriber leaves it without blocks; none of its former blocks is held by anybody, and each of them
   can be granted again to any subscriber whose limit and pairing allow it *)
Theorem C15_release_frees_all :
  forall r p0 ops k, setup repaired r = Some p0 ->
  let c := effective r in
  let p := run repaired c p0 ops in
  let p' := fst (step repaired c p (ORelease k)) in
  blocks_of p' k = [] /\
  forall b, In b (blocks_of p k) ->
    (forall k', ~ In b (blocks_of p' k')) /\
    (forall k', limit_reached c p' k' = false ->
                (c_paired c = true -> forall b', In b' (blocks_of p' k') -> b_ip b' = b_ip b) ->
                exists p'', alloc_obs c p' k' b = Some p'').
Proof. intros r p0 ops k Hs. exact (s_release_frees_all r p0 Hs ops k). Qed.
Print Assumptions C15_release_frees_all.

(* the block the first-free algorithm of the code picks is admissible, and granting it through the admissibility
   check gives the same state: the theorems above cover the current policy *)
Theorem C15_first_free_admissible :
  forall r p0 ops k b p', setup repaired r = Some p0 ->
  alloc_literal (effective r) (run repaired (effective r) p0 ops) k = inr (b, p') ->
  alloc_obs (effective r) (run repaired (effective r) p0 ops) k b = Some p'.
Proof. intros r p0 ops k b p' Hs. exact (s_first_free r p0 Hs ops k b p'). Qed.
Print Assumptions C15_first_free_admissible.

(* ---- component level: the reverse index as maintained by component.go's call order ---- *)

(* Lookup of any (address, port) names exactly the subscriber holding the covering block; a covered port that gets no
   answer belongs to a block whose dataplane add is still in flight (and to nothing else).  [ops] ranges over ALL
   component histories: activation with the add outcome known at once (ok / failed) or left in flight and completed
   later in any order relative to every other event ([CActivateLate], [CAddComplete ok/failed]), activation with an
   HA-synced record, release (which cancels an activation in flight), both restore branches, late completion of
   dataplane deletes; every event carries the outcome of its southbound calls.  The reverse index follows the
   pool, not the dataplane outcome.
   Only hypothesis on the history, [forallb (keyed f) ops]: there is a function f from session ids to subscribers such
   that every in-flight activation and every release of session sid names subscriber f sid (a session is released
   with the inside VRF / address it was activated with).  Without it a release that names another address than the
   in-flight activation cancels the activation but releases the wrong subscriber's blocks. *)
Theorem C15_reverse_lookup_exact :
  forall r p0 f ops, setup repaired r = Some p0 -> forallb (keyed f) ops = true ->
  forall ip port,
  match rev_lookup (cp_rev (crun repaired (effective r) (comp_init p0) ops)) ip port with
  | Some m => In (m_blk m) (blocks_of (cp_pool (crun repaired (effective r) (comp_init p0) ops)) (m_sub m)) /\
              covers (m_blk m) ip port = true /\
              forall k b, In b (blocks_of (cp_pool (crun repaired (effective r) (comp_init p0) ops)) k) ->
                          covers b ip port = true -> k = m_sub m /\ b = m_blk m
  | None => forall k b, In b (blocks_of (cp_pool (crun repaired (effective r) (comp_init p0) ops)) k) ->
                        covers b ip port = true ->
                        exists sid, In (sid, k, b) (cp_pend (crun repaired (effective r) (comp_init p0) ops))
  end.
Proof. intros r p0 f ops Hs K ip port. exact (s_lookup_exact r p0 Hs f ops ip port K). Qed.
Print Assumptions C15_reverse_lookup_exact.

(* whenever no add is in flight, "no answer" means "no held block covers the port" *)
Theorem C15_reverse_lookup_exact_quiescent :
  forall r p0 f ops ip port, setup repaired r = Some p0 -> forallb (keyed f) ops = true ->
  cp_pend (crun repaired (effective r) (comp_init p0) ops) = [] ->
  rev_lookup (cp_rev (crun repaired (effective r) (comp_init p0) ops)) ip port = None ->
  forall k b, In b (blocks_of (cp_pool (crun repaired (effective r) (comp_init p0) ops)) k) -> covers b ip port = false.
Proof. intros r p0 f ops ip port Hs. exact (s_lookup_quiescent r p0 Hs f ops ip port). Qed.
Print Assumptions C15_reverse_lookup_exact_quiescent.

(* the pool inside the component: disjoint, in range / aligned / not excluded, limit, pairing -- for EVERY component
   history, dataplane adds completing late and in any order included (the component only ever performs pool
   operations: Proofs.crun_refines) *)
Theorem C15_component_pool_properties :
  forall r p0 ops, setup repaired r = Some p0 ->
  let c := effective r in
  let s := crun repaired c (comp_init p0) ops in
  (forall k1 k2 b1 b2, k1 <> k2 -> In b1 (blocks_of (cp_pool s) k1) -> In b2 (blocks_of (cp_pool s) k2) ->
     b_ip b1 = b_ip b2 -> b_end b1 < b_start b2 \/ b_end b2 < b_start b1) /\
  (forall k b, In b (blocks_of (cp_pool s) k) ->
     In (b_ip b) (flat_map expand (r_outside r)) /\ ~ In (b_ip b) (r_excluded r) /\
     c_pstart c <= b_start b /\ (b_start b - c_pstart c) mod c_bs c = 0 /\
     b_end b = b_start b + c_bs c - 1 /\ b_end b <= c_pend c) /\
  (forall k, N.of_nat (length (blocks_of (cp_pool s) k)) <= c_max c) /\
  (c_paired c = true -> forall k b1 b2, In b1 (blocks_of (cp_pool s) k) -> In b2 (blocks_of (cp_pool s) k) ->
     b_ip b1 = b_ip b2).
Proof. intros r p0 ops Hs. exact (s_comp_pool_props r p0 Hs ops). Qed.
Print Assumptions C15_component_pool_properties.

(* the component only ever performs pool operations: its pool is the result of some pool-level history *)
Theorem C15_component_refines_pool :
  forall v c ops s, exists pops, cp_pool (crun v c s ops) = run v c (cp_pool s) pops.
Proof. exact crun_refines. Qed.
Print Assumptions C15_component_refines_pool.

(* A subscriber is (inside VRF, inside address) -- the number k encodes both.  An activation that reports a block
   has given that block to this very subscriber; with C15_component_pool_properties, two different subscribers (the
   same inside address in two VRFs included) are never told overlapping blocks. *)
Theorem C15_activation_grants_own_block :
  forall c s sid k obs s' nw b,
  cstep repaired c s (CActivate sid k true obs) = (s', RBlock nw b) -> In b (blocks_of (cp_pool s') k).
Proof. exact activation_grants_own_block. Qed.
Print Assumptions C15_activation_grants_own_block.

(* several pools on one PoolManager, configuration accepted by Config.Validate (no outside address in two pools):
   two holders that differ in pool or in subscriber never overlap *)
Theorem C15_disjoint_across_pools :
  forall rs ps ops, mconfigure repaired rs = Some ps ->
  forall i j k1 k2 b1 b2, (i <> j \/ k1 <> k2) ->
    In b1 (mblocks (mrun repaired ps ops) i k1) -> In b2 (mblocks (mrun repaired ps ops) j k2) ->
    b_ip b1 = b_ip b2 -> b_end b1 < b_start b2 \/ b_end b2 < b_start b1.
Proof. exact mdisjoint. Qed.
Print Assumptions C15_disjoint_across_pools.

(* [setup repaired r = Some p0] -- the hypothesis of the theorems above -- is exactly "Config.Validate accepts the
   pool": an accepted pool never makes ConfigurePool panic, and its port range is well formed *)
Theorem C15_accepted_pool_is_configurable :
  forall r, pool_ok r = true -> (exists p0, setup repaired r = Some p0) /\ wf_range r.
Proof. intros r H. split; [exact (setup_total r H)|exact (pool_ok_wf r H)]. Qed.
Print Assumptions C15_accepted_pool_is_configurable.

(* Releasing a subscriber at component level.  For every component history (hypothesis [keyed f] as in
   C15_reverse_lookup_exact): a release event for a session the component knows -- committed, with its dataplane add
   still in flight, or preserved by the degraded restore branch -- leaves the session's subscriber [f sid] without
   blocks and without reverse entries, forgets the session in all three books, and every block the subscriber held
   can be granted again to anyone whose limit and pairing allow it.  (A release for a session the component has
   never seen is a no-op: nothing was installed for it.) *)
Theorem C15_component_release_frees_all :
  forall r p0 f ops sid dl, setup repaired r = Some p0 -> forallb (keyed f) ops = true ->
  let c := effective r in
  let s := crun repaired c (comp_init p0) ops in
  let k := f sid in
  existsb (N.eqb sid) (cp_sess s) || existsb (fun e => pend_sid e =? sid) (cp_pend s)
    || existsb (N.eqb sid) (cp_deg s) = true ->
  let s' := fst (cstep repaired c s (CRelease sid k dl)) in
  blocks_of (cp_pool s') k = [] /\
  (forall m, In m (r_byip (cp_rev s')) -> m_sub m <> k) /\
  existsb (N.eqb sid) (cp_sess s') = false /\
  existsb (fun e => pend_sid e =? sid) (cp_pend s') = false /\
  existsb (N.eqb sid) (cp_deg s') = false /\
  forall b, In b (blocks_of (cp_pool s) k) ->
    forall k', limit_reached c (cp_pool s') k' = false ->
               (c_paired c = true -> forall b', In b' (blocks_of (cp_pool s') k') -> b_ip b' = b_ip b) ->
               exists p'', alloc_obs c (cp_pool s') k' b = Some p''.
Proof. intros r p0 f ops sid dl Hs K. exact (s_comp_release_frees r p0 Hs f ops sid dl K). Qed.
Print Assumptions C15_component_release_frees_all.

(* allocateBlock (the literal word/bit scan) refuses exactly when every block index below TotalBlocks is taken; so the
   "block allocation failed" answer on a paired address means that address is really full.  (The "no free blocks"
   answer additionally goes through hasFreeBlock's popcount, which is tied to the code by correspondence only.) *)
Theorem C15_allocate_block_refuses_iff_full :
  forall a, (N.to_nat ((a_total a + 63) / 64) <= length (a_bits a))%nat ->
  (allocate_block a = None <-> forall idx, idx < a_total a -> test_bit (a_bits a) idx = true).
Proof. exact allocate_block_none_iff. Qed.
Print Assumptions C15_allocate_block_refuses_iff_full.

(* ---- event entry points and the restore-window queue (handleSessionLifecycle / Programmed / Restored, maybeEnqueue,
   dispatch*, drainQueue).  [erun vq v c (ecomp_init p0) ops]: any stream of delivered events, direct restore steps and
   drainQueue; vq = the queue never drops a release. ---- *)

(* whatever arrives through the entry points, queued in the restore window or dispatched at once, amounts to a
   sequence of component events of [cstep]; a keyed event stream gives a keyed sequence *)
Theorem C15_events_refine_component :
  forall vq v c f ops s, forallb (eop_keyed f) ops = true -> forallb (ev_keyed f) (e_queue s) = true ->
  exists cops, e_comp (erun vq v c s ops) = crun v c (e_comp s) cops /\ forallb (keyed f) cops = true.
Proof. exact erun_refines. Qed.
Print Assumptions C15_events_refine_component.

(* reverse exactness end to end over the entry points, for every keyed event stream (releases name the subscriber of
   their session), whatever was queued, in whatever order restore steps and the drain interleave *)
Theorem C15_event_level_reverse_lookup_exact :
  forall r p0 f ops ip port, setup repaired r = Some p0 -> forallb (eop_keyed f) ops = true ->
  let s := e_comp (erun true repaired (effective r) (ecomp_init p0) ops) in
  match rev_lookup (cp_rev s) ip port with
  | Some m => In (m_blk m) (blocks_of (cp_pool s) (m_sub m)) /\ covers (m_blk m) ip port = true /\
              forall k b, In b (blocks_of (cp_pool s) k) -> covers b ip port = true -> k = m_sub m /\ b = m_blk m
  | None => forall k b, In b (blocks_of (cp_pool s) k) -> covers b ip port = true -> exists sid, In (sid, k, b) (cp_pend s)
  end.
Proof. exact event_level_exact. Qed.
Print Assumptions C15_event_level_reverse_lookup_exact.

(* the four pool statements for every event stream, keyed or not, with or without the queue repair *)
Theorem C15_event_level_pool_properties :
  forall r p0 vq ops, setup repaired r = Some p0 ->
  let c := effective r in
  let s := e_comp (erun vq repaired c (ecomp_init p0) ops) in
  (forall k1 k2 b1 b2, k1 <> k2 -> In b1 (blocks_of (cp_pool s) k1) -> In b2 (blocks_of (cp_pool s) k2) ->
     b_ip b1 = b_ip b2 -> b_end b1 < b_start b2 \/ b_end b2 < b_start b1) /\
  (forall k b, In b (blocks_of (cp_pool s) k) ->
     In (b_ip b) (flat_map expand (r_outside r)) /\ ~ In (b_ip b) (r_excluded r) /\
     c_pstart c <= b_start b /\ (b_start b - c_pstart c) mod c_bs c = 0 /\
     b_end b = b_start b + c_bs c - 1 /\ b_end b <= c_pend c) /\
  (forall k, N.of_nat (length (blocks_of (cp_pool s) k)) <= c_max c) /\
  (c_paired c = true -> forall k b1 b2, In b1 (blocks_of (cp_pool s) k) -> In b2 (blocks_of (cp_pool s) k) ->
     b_ip b1 = b_ip b2).
Proof. exact event_level_pool_props. Qed.
Print Assumptions C15_event_level_pool_properties.

(* (f92bf5a) a release delivered in the restore window is queued whatever the length of the queue (and is then dispatched by
   drainQueue like any queued event: [estep] of [EvDrain]) *)
Theorem C15_release_event_never_dropped :
  forall v c s e obs, is_release e = true -> e_drained s = false ->
  let s' := estep true v c s (EvDeliver e obs) in
  e_queue s' = e_queue s ++ [e] /\ e_dropped s' = e_dropped s.
Proof. exact release_never_dropped. Qed.
Print Assumptions C15_release_event_never_dropped.

(* ---- persisted mappings (opdb cgnat_mappings) and process restart: [prun] interleaves component events with
   restarts; a restart is a fresh pool, index and session books over the same store, restoreFromOpDB replaying every
   record in the order the store lists them ---- *)

(* whatever mixture of events and restarts, the component is in a state that a history of component events reaches
   from the freshly configured pool (keyed histories give keyed ones): every theorem above survives restarts *)
Theorem C15_restarts_refine_component :
  forall v c p0 f ops s l, pc_comp s = crun v c (comp_init p0) l -> forallb (keyed f) l = true ->
  forallb (pop_keyed f) ops = true ->
  exists cops, pc_comp (prun v c p0 s ops) = crun v c (comp_init p0) cops /\ forallb (keyed f) cops = true.
Proof. exact prun_refines. Qed.
Print Assumptions C15_restarts_refine_component.

Theorem C15_restart_level_reverse_lookup_exact :
  forall r p0 f ops ip port, setup repaired r = Some p0 -> forallb (pop_keyed f) ops = true ->
  let s := pc_comp (prun repaired (effective r) p0 (pcomp_init p0) ops) in
  match rev_lookup (cp_rev s) ip port with
  | Some m => In (m_blk m) (blocks_of (cp_pool s) (m_sub m)) /\ covers (m_blk m) ip port = true /\
              forall k b, In b (blocks_of (cp_pool s) k) -> covers b ip port = true -> k = m_sub m /\ b = m_blk m
  | None => forall k b, In b (blocks_of (cp_pool s) k) -> covers b ip port = true -> exists sid, In (sid, k, b) (cp_pend s)
  end.
Proof. exact restart_level_exact. Qed.
Print Assumptions C15_restart_level_reverse_lookup_exact.

Theorem C15_restart_level_pool_properties :
  forall r p0 ops, setup repaired r = Some p0 ->
  let c := effective r in
  let s := pc_comp (prun repaired c p0 (pcomp_init p0) ops) in
  (forall k1 k2 b1 b2, k1 <> k2 -> In b1 (blocks_of (cp_pool s) k1) -> In b2 (blocks_of (cp_pool s) k2) ->
     b_ip b1 = b_ip b2 -> b_end b1 < b_start b2 \/ b_end b2 < b_start b1) /\
  (forall k b, In b (blocks_of (cp_pool s) k) ->
     In (b_ip b) (flat_map expand (r_outside r)) /\ ~ In (b_ip b) (r_excluded r) /\
     c_pstart c <= b_start b /\ (b_start b - c_pstart c) mod c_bs c = 0 /\
     b_end b = b_start b + c_bs c - 1 /\ b_end b <= c_pend c) /\
  (forall k, N.of_nat (length (blocks_of (cp_pool s) k)) <= c_max c) /\
  (c_paired c = true -> forall k b1 b2, In b1 (blocks_of (cp_pool s) k) -> In b2 (blocks_of (cp_pool s) k) ->
     b_ip b1 = b_ip b2).
Proof. exact restart_level_pool_props. Qed.
Print Assumptions C15_restart_level_pool_properties.

(* A restart reproduces the ownership the persisted store records.  [ps] = the component and its store after ANY
   history of events and earlier restarts; [store_sound ps]: the block of every persisted record is held by the
   record's subscriber.  Then after a restart that replays the records of the sessions in [order]: every such record
   is held again by the same subscriber and its session is committed again; nothing is held that the store (and the
   pool before the restart) did not hold; the store is unchanged.
   _partial: what is missing is the discharge of [store_sound] from a hypothesis on the history.  It is NOT an
   invariant of all histories: handleSessionRelease frees every block of the subscriber but deletes only the releasing
   session's record, so with two sessions on one subscriber key a stale record survives
   (C15_store_soundness_needs_one_session_per_key below); likewise a record the pool refused stays in the store.  The
   hypothesis that would make it an invariant is "one live session per (VRF, inside address)" (property C02) plus one
   record per session; it is checked by correspondence instead (record dumps `b` against pool dumps before and after
   every restart). *)
Theorem C15_restart_reproduces_ownership_partial :
  forall r p0 ops order, setup repaired r = Some p0 ->
  let c := effective r in
  let ps := prun repaired c p0 (pcomp_init p0) ops in
  store_sound ps ->
  let ps' := pstep repaired c p0 ps (PRestart order) in
  (forall sid k b, In sid order -> db_get sid (pc_db ps) = Some (k, b) ->
     In b (blocks_of (cp_pool (pc_comp ps')) k) /\ existsb (N.eqb sid) (cp_sess (pc_comp ps')) = true) /\
  (forall k b, In b (blocks_of (cp_pool (pc_comp ps')) k) ->
     exists sid, In sid order /\ db_get sid (pc_db ps) = Some (k, b) /\ In b (blocks_of (cp_pool (pc_comp ps)) k)) /\
  pc_db ps' = pc_db ps.
Proof. exact restart_restores_store. Qed.
Print Assumptions C15_restart_reproduces_ownership_partial.

(* why [store_sound] cannot simply be dropped: sessions 7 and 8 on the same subscriber; 7's record is restored, 8 is
   activated onto 7's block (nothing new is persisted), 8 is released (the block is freed, only record 8 would be
   deleted): record 7 is stale, and a restart gives subscriber 5 the block back although it was released *)
Theorem C15_store_soundness_needs_one_session_per_key :
  let ps := prun repaired (effective ex_raw1) (pool_of repaired ex_raw1) (pcomp_init (pool_of repaired ex_raw1))
              [PEvent (CRestorePresent 7 5 {| b_ip := 1681915905; b_start := 1024; b_end := 1039 |} 0 None);
               PEvent (CActivate 8 5 true None); PEvent (CRelease 8 5 [])] in
  blocks_of (cp_pool (pc_comp ps)) 5 = [] /\ db_get 7 (pc_db ps) <> None /\
  blocks_of (cp_pool (pc_comp (pstep repaired (effective ex_raw1) (pool_of repaired ex_raw1) ps (PRestart [7])))) 5 <> [].
Proof. vm_compute. repeat split; discriminate. Qed.
Print Assumptions C15_store_soundness_needs_one_session_per_key.

(* ---- what the code violated before the fixes now in /repo (variant [defective] or a single missing repair) ---- *)

(* Before 285c7b2: RestoreMapping accepts an unaligned block overlapping subscriber 1's block; releasing the restored subscriber
   clears subscriber 1's bit; the allocator then hands subscriber 1's block to subscriber 4. *)
Theorem C15_disjoint_refuted :
  exists ops b, let p := run defective ex_cfg (pool_of defective ex_raw) ops in
    In b (blocks_of p 1) /\ In b (blocks_of p 4).
Proof.
  exists [OAlloc 1 None; ORestore 3 {| b_ip := ex_base; b_start := 1030; b_end := 1045 |}; ORelease 3; OAlloc 4 None].
  exists {| b_ip := ex_base; b_start := 1024; b_end := 1039 |}.
  vm_compute. split; left; reflexivity.
Qed.
Print Assumptions C15_disjoint_refuted.

(* Before 7d1d0b3: degraded restore indexes subscriber 2's block; the session's activation finds the block through GetOrAllocate and
   commitMapping indexes it a second time; release removes one entry; subscriber 3 is then given the block, but the
   reverse lookup of port 1040 still names subscriber 2. *)
Theorem C15_reverse_lookup_refuted :
  exists ops m, let s := crun defective (effective ex_raw1) (comp_init (pool_of defective ex_raw1)) ops in
    rev_lookup (cp_rev s) 1681915905 1040 = Some m /\ m_sub m = 2 /\
    blocks_of (cp_pool s) 2 = [] /\ In (m_blk m) (blocks_of (cp_pool s) 3).
Proof.
  exists [CActivate 1 1 true None; CRestoreDegraded 90 2 {| b_ip := 1681915905; b_start := 1040; b_end := 1055 |};
          CActivate 6 2 true None; CRelease 6 2 [true]; CActivate 7 3 true None].
  eexists. vm_compute. split; [reflexivity|]. split; [reflexivity|]. split; [reflexivity|]. left; reflexivity.
Qed.
Print Assumptions C15_reverse_lookup_refuted.

(* Before 3b1c45d: an outside address listed twice gets two allocators: subscriber 3 is given the block subscriber 1 holds. *)
Theorem C15_duplicate_address_refuted :
  exists ops b, let p := run defective (effective ex_raw_dup) (pool_of defective ex_raw_dup) ops in
    In b (blocks_of p 1) /\ In b (blocks_of p 3).
Proof.
  exists [OAlloc 1 None; OAlloc 2 None; OAlloc 3 None]. exists {| b_ip := 1681915905; b_start := 1024; b_end := 1087 |}.
  vm_compute. split; left; reflexivity.
Qed.
Print Assumptions C15_duplicate_address_refuted.

(* Before 0cedd79: HA-synced activation whose dataplane add fails: the rollback releases every block of the subscriber but leaves
   the reverse entry that the earlier (degraded) restore created; port 1040 still names subscriber 2, who holds
   nothing.  Only the rollback repair is missing in this variant. *)
Definition only_rollback_missing : variant :=
  {| v_validate := true; v_replace := true; v_dedup := true; v_rollback := false; v_vrfkey := true; v_xpool := true;
     v_late := true; v_cfgcheck := true; v_degrel := true |}.
Theorem C15_synced_rollback_refuted :
  exists ops m, let s := crun only_rollback_missing (effective ex_raw1) (comp_init (pool_of repaired ex_raw1)) ops in
    rev_lookup (cp_rev s) 1681915905 1040 = Some m /\ m_sub m = 2 /\ blocks_of (cp_pool s) 2 = [].
Proof.
  exists [CRestoreDegraded 90 2 {| b_ip := 1681915905; b_start := 1040; b_end := 1055 |};
          CSynced 6 2 2 {| b_ip := 1681915905; b_start := 1040; b_end := 1055 |} false None].
  eexists. vm_compute. repeat split.
Qed.
Print Assumptions C15_synced_rollback_refuted.

(* ---- witnesses against the code before 53e73c2 / 1fd8c60 / 8d8ac1d (all fixed) ---- *)
Definition with_flags (vrf xp late : bool) : variant :=
  {| v_validate := true; v_replace := true; v_dedup := true; v_rollback := true; v_vrfkey := vrf; v_xpool := xp;
     v_late := late; v_cfgcheck := true; v_degrel := true |}.

(* Before 53e73c2 the component passed inside VRF 0 for every session: subscriber 5 (VRF 0, 0.0.0.5) and subscriber 4294967301
   (VRF 1, 0.0.0.5) are told the same block; when the first leaves, the second is left with a mapping the pool has
   already freed. *)
Theorem C15_vrf_sharing_refuted :
  let v := with_flags false true true in
  let c := effective ex_raw1 in
  let s0 := comp_init (pool_of v ex_raw1) in
  exists b, snd (cstep v c s0 (CActivate 1 5 true None)) = RBlock true b /\
            snd (cstep v c (fst (cstep v c s0 (CActivate 1 5 true None))) (CActivate 2 4294967301 true None)) = RBlock false b /\
            let s := crun v c s0 [CActivate 1 5 true None; CActivate 2 4294967301 true None; CRelease 1 5 []] in
            cp_sess s = [2] /\ blocks_of (cp_pool s) 5 = [] /\ blocks_of (cp_pool s) 4294967301 = [].
Proof. eexists. vm_compute. repeat split. Qed.
Print Assumptions C15_vrf_sharing_refuted.

(* Before 1fd8c60 two pools listing 100.64.0.1 were both accepted: subscriber 1 of pool 0 and subscriber 2 of pool 1 hold the same
   (address, port) block. *)
Definition ex_raw_p2 : rawcfg :=
  {| r_bs := 64; r_ratio := 0; r_range := Some (1024, 1151); r_max := 1; r_pooling := 1;
     r_outside := [OCidr 1681915904 30]; r_excluded := [1681915904] |}.
Theorem C15_pool_overlap_refuted :
  let v := with_flags true false true in
  exists ps b, mconfigure v [ex_raw_p2; ex_raw_dup] = Some ps /\
    let ps' := mrun v ps [(0%nat, OAlloc 1 None); (1%nat, OAlloc 2 None)] in
    In b (mblocks ps' 0 1) /\ In b (mblocks ps' 1 2).
Proof. eexists. exists {| b_ip := 1681915905; b_start := 1024; b_end := 1087 |}. vm_compute. repeat split; left; reflexivity. Qed.
Print Assumptions C15_pool_overlap_refuted.

(* Late completion of a dataplane add before 8d8ac1d.
   Schedule 1: the session is released while its add is in flight -- the release finds no committed mapping and does
   nothing, the completion then commits: the departed subscriber keeps its block and its session entry for ever.
   Schedule 2: a second session on the same subscriber key commits and releases the block, another subscriber is
   given it, then the first add completes: Lookup names subscriber 5 for a block subscriber 6 holds. *)
Theorem C15_late_completion_refuted :
  let v := with_flags true true false in
  let c := effective ex_raw1 in
  let s0 := comp_init (pool_of v ex_raw1) in
  (let s := crun v c s0 [CActivateLate 1 5 None; CRelease 1 5 []; CAddComplete 1 true] in
   cp_sess s = [1] /\ blocks_of (cp_pool s) 5 <> []) /\
  (let s := crun v c s0 [CActivateLate 1 5 None; CActivate 2 5 true None; CRelease 2 5 []; CActivate 3 6 true None;
                         CAddComplete 1 true] in
   exists m, rev_lookup (cp_rev s) 1681915905 1024 = Some m /\ m_sub m = 5 /\
             blocks_of (cp_pool s) 5 = [] /\ In (m_blk m) (blocks_of (cp_pool s) 6)).
Proof.
  vm_compute. split.
  - split; [reflexivity|discriminate].
  - eexists. repeat split. left; reflexivity.
Qed.
Print Assumptions C15_late_completion_refuted.

(* ---- witnesses against the code before 0e7517a / 2953f22 (both fixed) ---- *)
Definition before_v (cfgcheck degrel : bool) : variant :=
  {| v_validate := true; v_replace := true; v_dedup := true; v_rollback := true; v_vrfkey := true; v_xpool := true;
     v_late := true; v_cfgcheck := cfgcheck; v_degrel := degrel |}.

(* Before 0e7517a Config.Validate accepted port-range "2000-1000".  ConfigurePool then counts ~2^32 usable ports; with block size
   40000 the first three subscribers are given 2000-41999, 42000-16463 (the end wraps through uint16) and
   16464-56463: outside any reading of the range, and subscriber 3 overlaps subscriber 1. *)
Definition ex_raw_rev : rawcfg :=
  {| r_bs := 40000; r_ratio := 0; r_range := Some (2000, 1000); r_max := 2; r_pooling := 1;
     r_outside := [OIp 1681915905]; r_excluded := [] |}.
Theorem C15_in_range_refuted :
  exists p0, setup (before_v false true) ex_raw_rev = Some p0 /\
    let p := run (before_v false true) (effective ex_raw_rev) p0 [OAlloc 1 None; OAlloc 2 None; OAlloc 3 None] in
    blocks_of p 1 = [ {| b_ip := 1681915905; b_start := 2000; b_end := 41999 |} ] /\
    blocks_of p 2 = [ {| b_ip := 1681915905; b_start := 42000; b_end := 16463 |} ] /\
    blocks_of p 3 = [ {| b_ip := 1681915905; b_start := 16464; b_end := 56463 |} ] /\
    mon_disjoint p = false /\ mon_range (effective ex_raw_rev) p = false.
Proof. eexists. split; [vm_compute; reflexivity|]. vm_compute. repeat split. Qed.
Print Assumptions C15_in_range_refuted.

(* Before 0e7517a Config.Validate accepted block-size unset with subscriber-ratio 200 on a 128-port range: the derived block size is
   0 and ConfigurePool panics (integer divide by zero) -- [setup] has no result. *)
Definition ex_raw_bs0 : rawcfg :=
  {| r_bs := 0; r_ratio := 200; r_range := Some (1024, 1151); r_max := 1; r_pooling := 1;
     r_outside := [OIp 1681915905]; r_excluded := [] |}.
Theorem C15_config_panic_refuted :
  pool_ok ex_raw_bs0 = false /\ setup (before_v false true) ex_raw_bs0 = None /\ configure (before_v false true) ex_raw_bs0 = None.
Proof. vm_compute. repeat split. Qed.
Print Assumptions C15_config_panic_refuted.

(* Before 2953f22 the degraded restore branch preserved subscriber 2's mapping for session 90 without recording the
   session; the session's release found "no pool mapping" and does nothing: the block and its reverse entry stay. *)
Theorem C15_degraded_leak_refuted :
  let v := before_v true false in
  let s := crun v (effective ex_raw1) (comp_init (pool_of v ex_raw1))
             [CRestoreDegraded 90 2 {| b_ip := 1681915905; b_start := 1040; b_end := 1055 |}; CRelease 90 2 []] in
  blocks_of (cp_pool s) 2 = [ {| b_ip := 1681915905; b_start := 1040; b_end := 1055 |} ] /\
  option_map m_sub (rev_lookup (cp_rev s) 1681915905 1040) = Some 2.
Proof. vm_compute. split; reflexivity. Qed.
Print Assumptions C15_degraded_leak_refuted.

(* ---- witness against the code before f92bf5a: the restore-window queue dropped releases past its bound
   (vq = false; fixed) ---- *)
(* Session 3's mapping is restored, 4096 events fill the queue, session 3's release is dropped, drainQueue runs:
   subscriber 4 keeps the block and session 3 stays recorded; with the repair the same stream frees both. *)
Definition junk_events : list eop := repeat (EvDeliver (ELifecycle SActive AIPoE 0 0 []) None) 4096.
Definition overflow_stream : list eop :=
  EvDirect (CRestorePresent 3 4 {| b_ip := 1681915905; b_start := 1024; b_end := 1039 |} 0 None)
  :: junk_events ++ [EvDeliver (ELifecycle SReleased AIPoE 3 4 []) None; EvDrain []].
Theorem C15_queue_drop_refuted_before_f92bf5a :
  (let s := erun false repaired (effective ex_raw1) (ecomp_init (pool_of repaired ex_raw1)) overflow_stream in
   blocks_of (cp_pool (e_comp s)) 4 <> [] /\ cp_sess (e_comp s) = [3] /\ e_dropped s = 1) /\
  (let s := erun true repaired (effective ex_raw1) (ecomp_init (pool_of repaired ex_raw1)) overflow_stream in
   blocks_of (cp_pool (e_comp s)) 4 = [] /\ cp_sess (e_comp s) = [] /\ e_dropped s = 0).
Proof. vm_compute. repeat split; discriminate. Qed.
Print Assumptions C15_queue_drop_refuted_before_f92bf5a.

(* non-vacuity of the hypotheses: the same geometry, a history with allocations by two subscribers, a release, a
   valid restore and a refused (unaligned) restore, run on the repaired model *)
Example C15_nonvacuous :
  setup repaired ex_raw <> None /\
  let p := run repaired ex_cfg (pool_of repaired ex_raw)
             [OAlloc 1 None; OAlloc 1 None; OAlloc 2 None; ORelease 2;
              ORestore 3 {| b_ip := ex_base; b_start := 1030; b_end := 1045 |};
              ORestoreIfAbsent 3 {| b_ip := ex_base + 1; b_start := 1056; b_end := 1071 |}; OGoa 2 None] in
  blocks_of p 1 = [ {| b_ip := ex_base; b_start := 1024; b_end := 1039 |};
                    {| b_ip := ex_base; b_start := 1040; b_end := 1055 |} ] /\
  blocks_of p 2 = [ {| b_ip := ex_base; b_start := 1056; b_end := 1071 |} ] /\
  blocks_of p 3 = [ {| b_ip := ex_base + 1; b_start := 1056; b_end := 1071 |} ].
Proof. vm_compute. repeat split; try discriminate; intros H; discriminate. Qed.
Print Assumptions C15_nonvacuous.

(* component level non-vacuity: the history of the refuted witness on the repaired model, plus a refused restore, a
   restore whose reprogram fails (the session is then activated afresh), a release whose dataplane delete fails, a
   failed activation, a failed HA-synced activation, an activation cancelled by a release while its add is in flight
   (session 12, the late completion is ignored) and one whose add completes late (session 13); the lookups name the right owners and a released or rolled
   back port answers nothing *)
Example C15_component_nonvacuous :
  setup repaired ex_raw1 <> None /\
  let s := crun repaired (effective ex_raw1) (comp_init (pool_of repaired ex_raw1))
             [CActivate 1 1 true None; CRestoreDegraded 90 2 {| b_ip := 1681915905; b_start := 1040; b_end := 1055 |};
              CActivate 6 2 true None; CRestorePresent 8 4 {| b_ip := 1681915905; b_start := 1041; b_end := 1056 |} 0 None;
              CRestorePresent 10 4 {| b_ip := 1681915905; b_start := 1072; b_end := 1087 |} 1 None;
              CRelease 6 2 [false]; CComplete; CActivate 7 3 true None; CActivate 9 5 false None;
              CSynced 11 5 5 {| b_ip := 1681915905; b_start := 1088; b_end := 1103 |} false None;
              CActivateLate 12 6 None; CRelease 12 6 []; CAddComplete 12 true;
              CActivateLate 13 6 None; CAddComplete 13 true] in
  option_map m_sub (rev_lookup (cp_rev s) 1681915905 1030) = Some 1 /\
  option_map m_sub (rev_lookup (cp_rev s) 1681915905 1040) = Some 3 /\
  option_map m_sub (rev_lookup (cp_rev s) 1681915905 1056) = Some 4 /\
  option_map m_sub (rev_lookup (cp_rev s) 1681915905 1072) = Some 6 /\
  rev_lookup (cp_rev s) 1681915905 1088 = None /\
  blocks_of (cp_pool s) 4 = [ {| b_ip := 1681915905; b_start := 1056; b_end := 1071 |} ] /\
  blocks_of (cp_pool s) 5 = [] /\
  blocks_of (cp_pool s) 6 = [ {| b_ip := 1681915905; b_start := 1072; b_end := 1087 |} ] /\
  cp_sess s = [1; 10; 7; 13] /\ cp_pend s = [].
Proof. vm_compute. repeat split; try discriminate; intros H; discriminate. Qed.
Print Assumptions C15_component_nonvacuous.

(* the hypothesis of C15_reverse_lookup_exact is met by a history that contains in-flight activations and releases *)
Example C15_keyed_nonvacuous :
  forallb (keyed (fun sid => match sid with 12 | 13 => 6 | _ => 2 end))
    [CActivate 1 1 true None; CActivateLate 12 6 None; CRelease 12 6 []; CAddComplete 12 true;
     CRelease 6 2 [false]; CActivateLate 13 6 None; CAddComplete 13 false] = true.
Proof. reflexivity. Qed.
Print Assumptions C15_keyed_nonvacuous.

(* the hypotheses of the event-level theorems are met by a stream with queued activations and releases, a direct
   restore, foreign payloads, other access types and a drain *)
Example C15_event_level_nonvacuous :
  let ops := [EvDeliver (EProgrammed AIPoE 1 5 true) None; EvDeliver (ELifecycle SReleased AIPoE 9 7 []) None;
              EvDeliver (EProgrammed APPPoE 2 6 true) None; EvDeliver (ELifecycle SActive AIPoE 3 8 []) None;
              EvDeliver (EProgrammed AOtherAccess 4 9 true) None;
              EvDirect (CRestoreDegraded 7 7 {| b_ip := 1681915905; b_start := 1088; b_end := 1103 |});
              EvDeliver EBadPayload None; EvDrain [];
              EvDeliver (ELifecycle SReleased APPPoE 2 6 []) None; EvDeliver (ERestored AIPoE 8 10 true) None] in
  forallb (eop_keyed (fun sid => match sid with 9 => 7 | 2 => 6 | _ => 0 end)) ops = true /\
  let s := e_comp (erun true repaired (effective ex_raw1) (ecomp_init (pool_of repaired ex_raw1)) ops) in
  cp_sess s = [1; 8] /\ blocks_of (cp_pool s) 6 = [] /\
  blocks_of (cp_pool s) 7 = [ {| b_ip := 1681915905; b_start := 1088; b_end := 1103 |} ] /\
  option_map m_sub (rev_lookup (cp_rev s) 1681915905 1040) = Some 10.
Proof. vm_compute. repeat split. Qed.
Print Assumptions C15_event_level_nonvacuous.

(* restarts: two committed sessions, one activation in flight, a release, a restart (the in-flight block is not
   persisted and is gone, the released one stays released), more events, a second restart *)
Example C15_restart_nonvacuous :
  let ops := [PEvent (CActivate 1 5 true None); PEvent (CActivate 2 6 true None); PEvent (CActivateLate 4 9 None);
              PEvent (CRelease 2 6 []); PRestart [1; 2; 4]; PEvent (CActivate 11 12 true None);
              PEvent (CRelease 1 5 []); PRestart [11; 1]] in
  forallb (pop_keyed (fun sid => match sid with 2 => 6 | 1 => 5 | _ => 9 end)) ops = true /\
  let s := prun repaired (effective ex_raw1) (pool_of repaired ex_raw1) (pcomp_init (pool_of repaired ex_raw1)) ops in
  cp_sess (pc_comp s) = [11] /\ map fst (pc_db s) = [11] /\
  blocks_of (cp_pool (pc_comp s)) 12 = [ {| b_ip := 1681915905; b_start := 1040; b_end := 1055 |} ] /\
  blocks_of (cp_pool (pc_comp s)) 9 = [] /\ blocks_of (cp_pool (pc_comp s)) 5 = [].
Proof. vm_compute. repeat split. Qed.
Print Assumptions C15_restart_nonvacuous.

(* [store_sound] holds after an ordinary history (one session per subscriber), and the restart then reproduces the
   ownership: hypotheses of C15_restart_reproduces_ownership_partial are met *)
Example C15_restart_ownership_nonvacuous :
  let ps := prun repaired (effective ex_raw1) (pool_of repaired ex_raw1) (pcomp_init (pool_of repaired ex_raw1))
              [PEvent (CActivate 1 5 true None); PEvent (CActivate 2 6 true None); PEvent (CActivateLate 4 9 None);
               PEvent (CRelease 2 6 []); PEvent (CRestoreDegraded 7 7 {| b_ip := 1681915905; b_start := 1088; b_end := 1103 |})] in
  forallb (fun e => existsb (block_eqb (snd (snd e))) (blocks_of (cp_pool (pc_comp ps)) (fst (snd e)))) (pc_db ps) = true /\
  map fst (pc_db ps) = [7; 1] /\
  let ps' := pstep repaired (effective ex_raw1) (pool_of repaired ex_raw1) ps (PRestart [1; 7]) in
  blocks_of (cp_pool (pc_comp ps')) 5 = blocks_of (cp_pool (pc_comp ps)) 5 /\
  blocks_of (cp_pool (pc_comp ps')) 7 = blocks_of (cp_pool (pc_comp ps)) 7 /\
  blocks_of (cp_pool (pc_comp ps')) 9 = [] /\ cp_sess (pc_comp ps') = [1; 7].
Proof. vm_compute. repeat split. Qed.
Print Assumptions C15_restart_ownership_nonvacuous.
