From OV Require Import Common.Base C09.Model C09.Proofs.
Open Scope N_scope.
Definition rd (i a : N) : snap := Some [(i, C4 a a a a)].
Theorem C09_monotone_refuted :
  exists evs, lrun_wraps defective sst0 evs = false /\ no_prune evs = true /\
              nondecreasing c4z (outputs (snd (lrun defective sst0 evs))) = false.
Proof. exists [EActive 5; ETick (rd 5 1000) true; ETick (rd 5 5) true]. vm_compute. auto. Qed.
Print Assumptions C09_monotone_refuted.
