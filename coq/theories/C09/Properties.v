(* C09/Properties.v — the property theorems only.  Each is closed by [exact] of a lemma from Proofs.v
   and followed by Print Assumptions.

   Reading guide.  [lrun v sst0 evs] runs one session of the AAA component (variant v) from a fresh
   process over ANY list of notifications evs: lifecycle-active, restored, released, bucket ticks with any
   stats snapshot and any Accounting-Response outcome, process restarts, orphan prunes.  Its trace pairs every
   notification with the calls made to the auth provider (Start / Interim c ok / Stop c).
   [repaired] = the code with the three fixes of /verif/fixes/C09_*.patch; [defective] = the code as found.
   Hypotheses:  lrun_wraps = false  — the uint64 cumulative never wrapped ("true total < 2^64");
                no_prune = true     — the 5-minute orphan deadline never passed for the session.       *)
From OV Require Import Common.Base C09.Model C09.Proofs.
Open Scope N_scope.

(* Conformance to the bracket ledger (Model.mon_step), for all histories:
   first Active -> exactly one Start; Active/Restored again -> nothing; Restored never a Start;
   Released with accounting open -> exactly one Stop, whose counters are >= the last acknowledged report;
   Released otherwise -> nothing; a tick of an announced session -> exactly one Interim with counters >= the
   last acknowledged report (acknowledged = the send succeeded), nothing for a session not (yet) announced;
   restart keeps open accounting exactly when a checkpoint was written (Start or acknowledged Interim). *)
Theorem C09_bracket :
  forall g evs, lrun_wraps repaired g sst0 evs = false ->
  accepted (snd (lrun repaired g sst0 evs)) = true.
Proof. exact conforms. Qed.
Print Assumptions C09_bracket.

(* at most one Start per bracket, however often Active / Restored are repeated and across restarts *)
Theorem C09_start_once :
  forall g evs, lrun_wraps repaired g sst0 evs = false -> no_prune evs = true ->
  bracketed false (outputs (snd (lrun repaired g sst0 evs))) = true.
Proof. exact start_once. Qed.
Print Assumptions C09_start_once.

(* Stops only answer Released, at most one each, and never two without a new announcement in between *)
Theorem C09_stop_once :
  forall g evs, lrun_wraps repaired g sst0 evs = false ->
  stops_ok false (snd (lrun repaired g sst0 evs)) = true.
Proof. exact stop_once. Qed.
Print Assumptions C09_stop_once.

(* usage counters never go backwards: every Interim and the final Stop carry values pointwise >= the last
   acknowledged Interim of the bracket — for every sequence of readings (resets to any smaller value, missing
   readings, unavailable snapshots, renumbered interfaces) and every pattern of send failures and restarts *)
Theorem C09_monotone :
  forall g evs, lrun_wraps repaired g sst0 evs = false -> no_prune evs = true ->
  nondecreasing c4z (outputs (snd (lrun repaired g sst0 evs))) = true.
Proof. exact monotone. Qed.
Print Assumptions C09_monotone.

(* "provided the true total stays < 2^64", stated on the inputs only: if per counter the sum of all readings
   appearing in the history is below 2^64, nothing wraps, hence the counters never go backwards *)
Theorem C09_no_wrap_if_total_small :
  forall evs, c4_lt_W (total_readings evs) -> lrun_wraps repaired false sst0 evs = false.
Proof. exact no_wrap_if_total_small. Qed.
Print Assumptions C09_no_wrap_if_total_small.

Theorem C09_monotone_total :
  forall evs, c4_lt_W (total_readings evs) -> no_prune evs = true ->
  nondecreasing c4z (outputs (snd (lrun repaired false sst0 evs))) = true.
Proof. exact monotone_total. Qed.
Print Assumptions C09_monotone_total.

(* one report, any session state: the cumulative returned is never below the last reported values *)
Theorem C09_report_not_below_last :
  forall g tick e sn, report_wraps repaired g tick e sn = false -> c4_le (last e) (snd (report repaired g tick e sn)).
Proof. exact report_ge. Qed.
Print Assumptions C09_report_not_below_last.

(* repeated notifications are silent, from ANY component state s *)
Theorem C09_repeated_announce_silent :
  forall g s ev i h j k, (ev = EActive i h \/ ev = ERestored i h) ->
  let s' := fst (lstep repaired g s ev) in
  snd (lstep repaired g s' (EActive j k)) = [] /\ snd (lstep repaired g s' (ERestored j k)) = [].
Proof. exact after_announce_silent. Qed.
Print Assumptions C09_repeated_announce_silent.

Theorem C09_repeated_release_silent :
  forall g s sn sn',
  let s' := fst (lstep repaired g s (EReleased sn)) in
  s' = sst0 /\ snd (lstep repaired g s' (EReleased sn')) = [].
Proof. exact after_release_silent. Qed.
Print Assumptions C09_repeated_release_silent.

(* restoring never emits a Start — every variant, every state *)
Theorem C09_restore_never_starts :
  forall v g s i h, snd (lstep v g s (ERestored i h)) = [].
Proof. exact restore_never_starts. Qed.
Print Assumptions C09_restore_never_starts.

(* the component is the product of the per-session machines: after any component-level history the state
   of session j is the per-session run over the notifications addressed to j *)
Theorem C09_component_is_product :
  forall v bk tys evs g j s, nth_error g j = Some s ->
  nth_error (grun v bk tys g evs) j = Some (fst (lrun v (is_l2gw tys j) s (local_events bk j evs))).
Proof. exact component_is_product. Qed.
Print Assumptions C09_component_is_product.

(* ---------------- non-vacuity ---------------- *)
Definition rd (i a : N) : snaps := Snaps (Some [(i, C4 a (a / 2) (a / 100) (a / 200))]) None.
(* l2gw segment: entry i carries (a bytes, a/100 packets); interface table: index i carries 7 *)
Definition rdg (i a : N) : snaps := Snaps (Some [(i, C4 7 7 7 7)]) (Some [(i, (a, a / 100))]).
(* Start; 400; 1000; counter reset to 5; failed send; restart + renumbering; missing reading; release *)
Definition ex_hist : list sev :=
  [EActive 5 0; EActive 5 0; ETick (rd 5 400) true; ETick (rd 5 1000) true; ETick (rd 5 5) true;
   ETick (rd 5 20) false; ERestart; EPrune false; ERestored 6 0; ETick (rd 5 7) true; ETick (rd 6 3) true;
   EReleased (rd 6 9); EReleased (rd 6 9)].
Example C09_nonvacuous :
  lrun_wraps repaired false sst0 ex_hist = false /\ no_prune ex_hist = true /\
  c4_leb (total_readings ex_hist) (C4 (W - 1) (W - 1) (W - 1) (W - 1)) = true /\
  map rxb (flat_map (fun o => match o with Interim c _ => [c] | Stop c => [c] | Start => [] end)
                    (outputs (snd (lrun repaired false sst0 ex_hist)))) = [400; 1000; 1005; 1020; 1005; 1008; 1014] /\
  length (filter (fun o => match o with Start => true | _ => false end)
                 (outputs (snd (lrun repaired false sst0 ex_hist)))) = 1%nat /\
  length (filter (fun o => match o with Stop _ => true | _ => false end)
                 (outputs (snd (lrun repaired false sst0 ex_hist)))) = 1%nat.
Proof. vm_compute. repeat split. Qed.
Print Assumptions C09_nonvacuous.

(* ---- plugins/auth/radius/accounting.go: the counters on the RADIUS wire ----
   What an accounting server reconstructs from Acct-*-Octets + Acct-*-Gigawords (and Acct-*-Packets) of an
   Accounting-Request is exactly the value handed to the provider — for EVERY Acct-Status-Type st (Start, Interim,
   Stop), every octet counter < 2^64 and every packet counter < 2^32 (RADIUS cannot carry more). *)
Theorem C09_wire_roundtrip :
  forall st c, wire_range c = true -> decode_wire (encode_wire st c) = c.
Proof. exact wire_roundtrip. Qed.
Print Assumptions C09_wire_roundtrip.

(* hence the order of two reports is preserved on the wire, whatever their status types *)
Theorem C09_wire_monotone :
  forall st st' c c', wire_range c = true -> wire_range c' = true -> c4_le c c' ->
  c4_le (decode_wire (encode_wire st c)) (decode_wire (encode_wire st' c')).
Proof. exact wire_monotone. Qed.
Print Assumptions C09_wire_monotone.

(* end to end: the stream as decoded by the accounting server never goes backwards *)
Theorem C09_monotone_on_wire :
  forall g evs, lrun_wraps repaired g sst0 evs = false -> no_prune evs = true ->
  forallb (fun o => wire_range (counters_of o)) (outputs (snd (lrun repaired g sst0 evs))) = true ->
  nondecreasing c4z (map through_wire (outputs (snd (lrun repaired g sst0 evs)))) = true.
Proof. exact monotone_on_wire. Qed.
Print Assumptions C09_monotone_on_wire.

(* a Stop at 2^32 + 2000000 octets carries Gigawords 1; dropping the attribute would decode to 2000000 *)
Example C09_wire_nonvacuous :
  let c := C4 (W32 + 2000000) (2 * W32 + 9000) 4296967 (W32 - 1) in
  wire_range c = true /\ w_in_giga (encode_wire 2 c) = Some 1 /\ w_out_giga (encode_wire 2 c) = Some 2 /\
  w_in_oct (encode_wire 2 c) = 2000000 /\ decode_wire (encode_wire 2 c) = c /\
  w_in_giga (encode_wire 3 (C4 (W32 - 1) 0 0 0)) = None /\
  forallb (fun o => wire_range (counters_of o)) (outputs (snd (lrun repaired false sst0 ex_hist))) = true.
Proof. vm_compute. repeat split. Qed.
Print Assumptions C09_wire_nonvacuous.


(* an l2gw session: ticks read the l2gw stats segment (entries 3 = access, 4 = handoff), the segment restarts
   (900 -> 40), the handoff index is lost by a restart until the session is restored; the Stop reads the
   interface table at index 3 (value 7), as handleSessionRelease does for every access type *)
Definition ex_l2gw : list sev :=
  [EActive 3 4; ETick (Snaps None (Some [(3, (500, 5)); (4, (900, 9))])) true;
   ETick (Snaps None (Some [(3, (40, 1)); (4, (60, 2))])) true; ERestart; ERestored 3 4;
   ETick (Snaps None (Some [(4, (100, 3))])) true; EReleased (rdg 3 1)].
Example C09_nonvacuous_l2gw :
  lrun_wraps repaired true sst0 ex_l2gw = false /\ no_prune ex_l2gw = true /\
  map (fun c => (rxb c, txb c))
      (flat_map (fun o => match o with Interim c _ => [c] | Stop c => [c] | Start => [] end)
                (outputs (snd (lrun repaired true sst0 ex_l2gw)))) = [(500, 900); (540, 960); (540, 1060); (547, 1067)].
Proof. vm_compute. repeat split. Qed.
Print Assumptions C09_nonvacuous_l2gw.

(* the two hypotheses are needed: with a u64 wrap, or a restore after the orphan prune, even the repaired
   component reports a decrease *)
Example C09_wrap_hypothesis_needed :
  exists evs, no_prune evs = true /\ lrun_wraps repaired false sst0 evs = true /\
              nondecreasing c4z (outputs (snd (lrun repaired false sst0 evs))) = false.
Proof.
  exists [EActive 5 0; ETick (Snaps (Some [(5, C4 (W - 1) 0 0 0)]) None) true; ETick (Snaps (Some [(5, C4 7 0 0 0)]) None) true].
  vm_compute. auto.
Qed.
Print Assumptions C09_wrap_hypothesis_needed.

Example C09_prune_hypothesis_needed :
  exists evs, lrun_wraps repaired false sst0 evs = false /\ no_prune evs = false /\
              nondecreasing c4z (outputs (snd (lrun repaired false sst0 evs))) = false.
Proof.
  exists [EActive 5 0; ETick (rd 5 1000) true; ERestart; EPrune true; ERestored 5 0; ETick (rd 5 5) true].
  vm_compute. auto.
Qed.
Print Assumptions C09_prune_hypothesis_needed.

(* ---------------- the code as found violates the property ---------------- *)
(* readings 1000 then 5 are reported as 1000 then 5 *)
Theorem C09_monotone_refuted :
  exists evs, lrun_wraps defective false sst0 evs = false /\ no_prune evs = true /\
              nondecreasing c4z (outputs (snd (lrun defective false sst0 evs))) = false.
Proof. exists [EActive 5 0; ETick (rd 5 1000) true; ETick (rd 5 5) true]. vm_compute. auto. Qed.
Print Assumptions C09_monotone_refuted.

(* a repeated Released sends a second Stop; a Released with nothing open sends a Stop *)
Theorem C09_stop_once_refuted :
  exists evs, lrun_wraps defective false sst0 evs = false /\
              stops_ok false (snd (lrun defective false sst0 evs)) = false.
Proof. exists [EActive 5 0; EReleased (Snaps None None); EReleased (Snaps None None)]. vm_compute. auto. Qed.
Print Assumptions C09_stop_once_refuted.

(* after a restart, Active before Restored sends a second Start *)
Theorem C09_start_once_refuted :
  exists evs, lrun_wraps defective false sst0 evs = false /\ no_prune evs = true /\
              bracketed false (outputs (snd (lrun defective false sst0 evs))) = false.
Proof. exists [EActive 5 0; ERestart; EActive 5 0]. vm_compute. auto. Qed.
Print Assumptions C09_start_once_refuted.

Theorem C09_bracket_refuted :
  exists evs, lrun_wraps defective false sst0 evs = false /\ accepted (snd (lrun defective false sst0 evs)) = false.
Proof. exists [EReleased (Snaps None None)]. vm_compute. auto. Qed.
Print Assumptions C09_bracket_refuted.
