(* C09/Properties.v — the property theorems only.  Each is closed by [exact] of a lemma from Proofs.v
   and followed by Print Assumptions.

   Reading guide.  [lrun v g sst0 evs] runs one session (g: it is an l2gw session) of the AAA component, variant v,
   from a fresh process over ANY list of notifications evs: lifecycle-active, restored, released, bucket ticks with
   any stats snapshot and any Accounting-Response outcome, process restarts, orphan prunes.  Its trace pairs every
   notification with the provider calls ISSUED (Start / Interim c ok / Stop c).  [drun] adds asynchronous delivery:
   the calls that ARRIVE at the provider when Start calls may be delayed.
   Variants:  [V fs fo fl fp] = the code with the first three repairs and fix_ghost, plus any subset of fix_sent, fix_order,
              fix_l2stop, fix_prune;  [Vg ...] = the same without fix_ghost (historical);
              [Vq ...] = the same without fix_presend (historical);
              [Vt ...] = the same without fix_l2tp (historical);
              [head] = V true false true true = /repo HEAD (committed: 7e92d8e, e0693a6, d70a5ae, 9b87063, d95fed1, 7faf7f9,
              5478db8, 4de5a6b, a967234).  The one finding not repaired in /repo is fix_order (provider calls sent from
              unordered goroutines; no patch, RepairSpec.v is the specification of that repair).
              [repaired] = V true true true true;  [before_a967234], [before_4de5a6b], [before_5478db8], [before_7faf7f9], [before_9b87063], [defective]
              are historical.
   Hypotheses:  W  lrun_wraps = false — no uint64 cumulative wrapped; C09_no_wrap_if_total_small derives it from the
                   readings alone, for every variant and access type;
                P  no_prune = true — the 5-minute orphan deadline never passed for the session; only needed for variants
                   without fix_prune (the code before 7faf7f9), not at /repo HEAD.
   [ETick sn false] is "Interim sent, no Accounting-Response (yet)"; [EAck] is a response arriving late.       *)
From OV Require Import Common.Base C09.Model C09.Proofs.
Open Scope N_scope.

(* ================= uniform in fs fo fl fp: instantiate fs = fl fp = true, fo = false for /repo HEAD ================= *)

(* Conformance of the ISSUED calls to the bracket ledger (Model.mon_step), for all histories:
   first Active -> exactly one Start; Active/Restored again -> nothing; Restored never a Start;
   Released with accounting open -> exactly one Stop, >= the last acknowledged report (fs: and >= the last sent);
   Released otherwise -> nothing; a tick of an announced session -> exactly one Interim, same floor. *)
Theorem C09_bracket :
  forall fs fo fl fp g evs, lrun_wraps (V fs fo fl fp) g sst0 evs = false ->
  accepted fs fp (snd (lrun (V fs fo fl fp) g sst0 evs)) = true.
Proof. exact conforms. Qed.
Print Assumptions C09_bracket.

(* at most one Start per bracket, however often Active / Restored are repeated and across restarts *)
Theorem C09_start_once :
  forall fs fo fl fp g evs, lrun_wraps (V fs fo fl fp) g sst0 evs = false -> no_prune evs = true ->
  bracketed false (outputs (snd (lrun (V fs fo fl fp) g sst0 evs))) = true.
Proof. exact start_once. Qed.
Print Assumptions C09_start_once.

(* Stops only answer Released, at most one each, and never two without a new announcement in between *)
Theorem C09_stop_once :
  forall fs fo fl fp g evs, lrun_wraps (V fs fo fl fp) g sst0 evs = false ->
  stops_ok false (snd (lrun (V fs fo fl fp) g sst0 evs)) = true.
Proof. exact stop_once. Qed.
Print Assumptions C09_stop_once.

(* The bracket WITH restore, /repo HEAD (fix_sent): for every history - Active, restart, Restored, ticks, Released in any
   order and multiplicity - the calls are a prefix of (Start Interim* Stop | Interim* Stop)*, and a bracket without
   Start occurs only after a Restored notification (Model.strictT: BClosed / BQuiet / BOpen).  In particular a
   restore never produces a second Start inside a bracket, and no Interim or Stop is sent outside one. *)
Theorem C09_strict_bracket_with_restore :
  forall fo fl fp g evs, lrun_wraps (V true fo fl fp) g sst0 evs = false -> (fp = true \/ no_prune evs = true) ->
  strictT BClosed (snd (lrun (V true fo fl fp) g sst0 evs)) = true.
Proof. exact strict_restore. Qed.
Print Assumptions C09_strict_bracket_with_restore.

(* every Interim and the Stop are >= the last ACKNOWLEDGED report of the bracket (all readings, failures, restarts) *)
Theorem C09_monotone_acknowledged :
  forall fs fo fl fp g evs, lrun_wraps (V fs fo fl fp) g sst0 evs = false -> no_prune evs = true ->
  nondecreasing c4z (outputs (snd (lrun (V fs fo fl fp) g sst0 evs))) = true.
Proof. exact monotone. Qed.
Print Assumptions C09_monotone_acknowledged.

(* "from one report to the next" (every value SENT) without the sent floor (code before 9b87063): only as long as
   no Accounting-Response is lost *)
Theorem C09_monotone_sent_if_acknowledged :
  forall fs fo fl fp g evs, lrun_wraps (V fs fo fl fp) g sst0 evs = false -> no_prune evs = true ->
  all_acked evs = true ->
  nondecreasing_sent c4z (outputs (snd (lrun (V fs fo fl fp) g sst0 evs))) = true.
Proof. exact monotone_sent_if_acked. Qed.
Print Assumptions C09_monotone_sent_if_acknowledged.

(* hypothesis W from the inputs alone, for every variant (in particular /repo HEAD) and every access type: if per
   counter the sum of all readings occurring in the history (interface table and l2gw segment) is < 2^64, nothing wraps *)
Theorem C09_no_wrap_if_total_small :
  forall fs fo fl fp g evs, c4_lt_W (total_readings evs) -> lrun_wraps (V fs fo fl fp) g sst0 evs = false.
Proof. exact no_wrap_if_total_small. Qed.
Print Assumptions C09_no_wrap_if_total_small.

(* hence at /repo HEAD, with no hypothesis about the model's arithmetic: *)
Theorem C09_monotone_sent_total :
  forall fo fl fp g evs, c4_lt_W (total_readings evs) -> no_prune evs = true ->
  nondecreasing_sent c4z (outputs (snd (lrun (V true fo fl fp) g sst0 evs))) = true.
Proof. exact monotone_sent_total_noprune. Qed.
Print Assumptions C09_monotone_sent_total.

(* one report, any session state: never below the floor (last reported; with fix_sent also the last sent) *)
Theorem C09_report_not_below_floor :
  forall v g tick e sn, fix_counters v = true -> report_wraps v g tick e sn = false ->
  c4_le (floor v e) (snd (report v g tick e sn)).
Proof. exact report_ge_floor. Qed.
Print Assumptions C09_report_not_below_floor.

(* historical (code before 4de5a6b): it ran exactly like /repo HEAD on every history in which each Interim sent was answered -
   [EAck] or [ENack] right after [ETick _ false] - before any other notification *)
Theorem C09_before_4de5a6b_when_interims_are_answered :
  forall g evs, answered evs = true ->
  lrun before_4de5a6b g sst0 evs = lrun (V true false true true) g sst0 evs /\
  lrun_wraps before_4de5a6b g sst0 evs = lrun_wraps (V true false true true) g sst0 evs.
Proof. exact (fun g evs => lrun_answered true false true true g (length evs) evs sst0 (le_n _)). Qed.
Print Assumptions C09_before_4de5a6b_when_interims_are_answered.

(* historical (code before 5478db8): it behaved exactly like /repo HEAD on every history without a late
   Accounting-Response for a released session *)
Theorem C09_before_5478db8_without_late_response :
  forall g evs, no_late evs = true ->
  lrun before_5478db8 g sst0 evs = lrun (V true false true true) g sst0 evs /\
  lrun_wraps before_5478db8 g sst0 evs = lrun_wraps (V true false true true) g sst0 evs.
Proof. exact (fun g evs => lrun_no_late true false true true g evs sst0). Qed.
Print Assumptions C09_before_5478db8_without_late_response.

(* repeated notifications are silent, from ANY component state s *)
Theorem C09_repeated_announce_silent :
  forall fs fo fl fp g s ev i h j k, (ev = EActive i h \/ ev = ERestored i h) ->
  let s' := fst (lstep (V fs fo fl fp) g s ev) in
  snd (lstep (V fs fo fl fp) g s' (EActive j k)) = [] /\ snd (lstep (V fs fo fl fp) g s' (ERestored j k)) = [].
Proof. exact after_announce_silent. Qed.
Print Assumptions C09_repeated_announce_silent.

Theorem C09_repeated_release_silent :
  forall fs fo fl fp g s sn sn',
  let s' := fst (lstep (V fs fo fl fp) g s (EReleased sn)) in
  inb s' = false /\ cache s' = None /\ db s' = None /\ snd (lstep (V fs fo fl fp) g s' (EReleased sn')) = [].
Proof. exact after_release_silent. Qed.
Print Assumptions C09_repeated_release_silent.

(* restoring never emits a Start — every variant, every state *)
Theorem C09_restore_never_starts :
  forall v g s i h, snd (lstep v g s (ERestored i h)) = [].
Proof. exact restore_never_starts. Qed.
Print Assumptions C09_restore_never_starts.

(* the component is the product of the per-session machines *)
Theorem C09_component_is_product :
  forall v bk tys evs g j s, nth_error g j = Some s ->
  nth_error (grun v bk tys g evs) j = Some (fst (lrun v (is_l2gw tys j) s (local_events v bk tys j evs))).
Proof. exact component_is_product. Qed.
Print Assumptions C09_component_is_product.

(* ---- plugins/auth/radius/accounting.go: the counters on the RADIUS wire ---- *)
Theorem C09_wire_roundtrip :
  forall st c, wire_range c = true -> decode_wire (encode_wire st c) = c.
Proof. exact wire_roundtrip. Qed.
Print Assumptions C09_wire_roundtrip.

Theorem C09_wire_monotone :
  forall st st' c c', wire_range c = true -> wire_range c' = true -> c4_le c c' ->
  c4_le (decode_wire (encode_wire st c)) (decode_wire (encode_wire st' c')).
Proof. exact wire_monotone. Qed.
Print Assumptions C09_wire_monotone.

Theorem C09_monotone_on_wire :
  forall fs fo fl fp g evs, lrun_wraps (V fs fo fl fp) g sst0 evs = false -> no_prune evs = true ->
  forallb (fun o => wire_range (counters_of o)) (outputs (snd (lrun (V fs fo fl fp) g sst0 evs))) = true ->
  nondecreasing c4z (map through_wire (outputs (snd (lrun (V fs fo fl fp) g sst0 evs)))) = true.
Proof. exact monotone_on_wire. Qed.
Print Assumptions C09_monotone_on_wire.

(* ================= /repo HEAD (fs = true, fp = true) ================= *)

(* /repo HEAD: every Interim and the Stop are >= the last report SENT, acknowledged or not, in flight or not — all
   histories, including a release while an Interim is unanswered ([ETick _ false; EReleased _]) and late responses *)
Theorem C09_monotone_sent :
  forall fo fl fp g evs, lrun_wraps (V true fo fl fp) g sst0 evs = false -> no_prune evs = true ->
  nondecreasing_sent c4z (outputs (snd (lrun (V true fo fl fp) g sst0 evs))) = true.
Proof. exact monotone_sent. Qed.
Print Assumptions C09_monotone_sent.

(* /repo HEAD since 7faf7f9 (fix_prune): no hypothesis about pruning - a pruned orphan is closed with a Stop *)
Theorem C09_start_once_prune_closed :
  forall fs fo fl g evs, lrun_wraps (V fs fo fl true) g sst0 evs = false ->
  bracketed false (outputs (snd (lrun (V fs fo fl true) g sst0 evs))) = true.
Proof. exact start_once_p. Qed.
Print Assumptions C09_start_once_prune_closed.

Theorem C09_monotone_sent_prune_closed :
  forall fo fl g evs, c4_lt_W (total_readings evs) ->
  nondecreasing_sent c4z (outputs (snd (lrun (V true fo fl true) g sst0 evs))) = true.
Proof. exact monotone_sent_total. Qed.
Print Assumptions C09_monotone_sent_prune_closed.

(* Per counter, with no hypothesis at all (/repo HEAD, every history): each value sent is, counter by counter, not below the
   previous value sent in the bracket, except for a counter whose own true total reached 2^64 in that very report
   ([lstep_wraps4]: the other three counters are not excused by it); a pruned orphan is closed by a Stop at the floor. *)
Theorem C09_monotone_per_counter :
  forall fo fl g evs, mono4 c4z (lrun4 (V true fo fl true) g sst0 evs) = true.
Proof. exact monotone_per_counter. Qed.
Print Assumptions C09_monotone_per_counter.

(* hypothesis W of the session-level theorems is the disjunction of the per-counter flags (one definition) *)
Theorem C09_wrap_is_some_counter :
  forall v e st, apply_wraps v e st = b4_any (apply_wraps4 v e st).
Proof. exact apply_wraps_any. Qed.
Print Assumptions C09_wrap_is_some_counter.

(* ================= non-vacuity ================= *)
Definition rd (i a : N) : snaps := Snaps (Some [(i, C4 a (a / 2) (a / 100) (a / 200))]) None.
Definition rdg (i a : N) : snaps := Snaps (Some [(i, C4 7 7 7 7)]) (Some [(i, (a, a / 100))]).
Definition sent_rxb (l : list out) : list N :=
  map rxb (flat_map (fun o => match o with Interim c _ => [c] | Stop c => [c] | Start => [] end) l).
(* Start; 400; 1000; counter reset to 5; failed send; restart + renumbering; missing reading; release *)
Definition ex_hist : list sev :=
  [EActive 5 0; EActive 5 0; ETick (rd 5 400) true; ETick (rd 5 1000) true; ETick (rd 5 5) true;
   ETick (rd 5 20) false; ERestart; EPrune false; ERestored 6 0; ETick (rd 5 7) true; ETick (rd 6 3) true;
   EReleased (rd 6 9); EReleased (rd 6 9)].
Example C09_nonvacuous :
  lrun_wraps head false sst0 ex_hist = false /\ no_prune ex_hist = true /\
  c4_leb (total_readings ex_hist) (C4 (W - 1) (W - 1) (W - 1) (W - 1)) = true /\
  (* before 9b87063: 1020 was sent, not acknowledged; after the restart 1005 is sent *)
  sent_rxb (outputs (snd (lrun before_9b87063 false sst0 ex_hist))) = [400; 1000; 1005; 1020; 1005; 1008; 1014] /\
  (* /repo HEAD (sent high-water mark): never below 1020 again *)
  sent_rxb (outputs (snd (lrun head false sst0 ex_hist))) = [400; 1000; 1005; 1020; 1020; 1023; 1029] /\
  lrun_wraps before_9b87063 false sst0 ex_hist = false /\
  length (filter (fun o => match o with Start => true | _ => false end)
                 (outputs (snd (lrun head false sst0 ex_hist)))) = 1%nat /\
  length (filter (fun o => match o with Stop _ => true | _ => false end)
                 (outputs (snd (lrun head false sst0 ex_hist)))) = 1%nat.
Proof. vm_compute. repeat split. Qed.
Print Assumptions C09_nonvacuous.

Example C09_wire_nonvacuous :
  let c := C4 (W32 + 2000000) (2 * W32 + 9000) 4296967 (W32 - 1) in
  wire_range c = true /\ w_in_giga (encode_wire 2 c) = Some 1 /\ w_out_giga (encode_wire 2 c) = Some 2 /\
  w_in_oct (encode_wire 2 c) = 2000000 /\ decode_wire (encode_wire 2 c) = c /\
  w_in_giga (encode_wire 3 (C4 (W32 - 1) 0 0 0)) = None /\
  forallb (fun o => wire_range (counters_of o)) (outputs (snd (lrun head false sst0 ex_hist))) = true.
Proof. vm_compute. repeat split. Qed.
Print Assumptions C09_wire_nonvacuous.

(* an l2gw session: ticks read the l2gw segment (entries 3 = access, 4 = handoff), the segment restarts, the handoff
   index is lost by a restart until the session is restored; before d95fed1 the Stop read the INTERFACE table at
   index 3 (value 7) — /repo HEAD reads the segment (entry 3 = 1 byte) *)
Definition ex_l2gw : list sev :=
  [EActive 3 4; ETick (Snaps None (Some [(3, (500, 5)); (4, (900, 9))])) true;
   ETick (Snaps None (Some [(3, (40, 1)); (4, (60, 2))])) true; ERestart; ERestored 3 4;
   ETick (Snaps None (Some [(4, (100, 3))])) true; EReleased (rdg 3 1)].
Definition sent_io (l : list out) : list (N * N) :=
  map (fun c => (rxb c, txb c)) (flat_map (fun o => match o with Interim c _ => [c] | Stop c => [c] | Start => [] end) l).
Example C09_nonvacuous_l2gw :
  lrun_wraps head true sst0 ex_l2gw = false /\ no_prune ex_l2gw = true /\
  sent_io (outputs (snd (lrun before_9b87063 true sst0 ex_l2gw))) = [(500, 900); (540, 960); (540, 1060); (547, 1067)] /\
  sent_io (outputs (snd (lrun head true sst0 ex_l2gw))) = [(500, 900); (540, 960); (540, 1060); (541, 1060)].
Proof. vm_compute. repeat split. Qed.
Print Assumptions C09_nonvacuous_l2gw.

(* delayed Start, then tick and release, then the Start is let through *)
Definition ex_delay : list dev :=
  [DHold true; DEv (EActive 5 0); DEv (ETick (rd 5 400) true); DEv (EReleased (rd 5 500)); DRelease].
Example C09_nonvacuous_delivery :
  lrun_wraps head false sst0 (dev_events ex_delay) = false /\ never_restored (dev_events ex_delay) = true /\
  no_delay ex_delay = false /\
  map status_of (snd (drun head false dst0 ex_delay)) = [3; 2; 1] /\           (* HEAD: Interim, Stop, Start *)
  map status_of (snd (drun repaired false dst0 ex_delay)) = [1; 3; 2].         (* ordered: Start, Interim, Stop *)
Proof. vm_compute. repeat split. Qed.
Print Assumptions C09_nonvacuous_delivery.

(* the input octets wrap (2^64-1, then +7) while the packet counters go on: only the input-octet counter is flagged *)
Example C09_nonvacuous_per_counter :
  let evs := [EActive 5 0; ETick (Snaps (Some [(5, C4 (W - 1) 10 5 5)]) None) true;
              ETick (Snaps (Some [(5, C4 7 4 2 1)]) None) true; EReleased (Snaps (Some [(5, C4 9 9 9 9)]) None)] in
  map (fun x => snd x) (lrun4 head false sst0 evs) =
    [b4_none; b4_none; B4 true false false false; B4 true false false false] /\
  mono4 c4z (lrun4 head false sst0 evs) = true /\
  nondecreasing_sent c4z (outputs (snd (lrun head false sst0 evs))) = false.
Proof. vm_compute. repeat split. Qed.
Print Assumptions C09_nonvacuous_per_counter.

(* the hypotheses are needed *)
Example C09_wrap_hypothesis_needed :
  exists evs, no_prune evs = true /\ lrun_wraps repaired false sst0 evs = true /\
              nondecreasing c4z (outputs (snd (lrun repaired false sst0 evs))) = false.
Proof.
  exists [EActive 5 0; ETick (Snaps (Some [(5, C4 (W - 1) 0 0 0)]) None) true; ETick (Snaps (Some [(5, C4 7 0 0 0)]) None) true].
  vm_compute. auto.
Qed.
Print Assumptions C09_wrap_hypothesis_needed.

Example C09_prune_hypothesis_needed :
  exists evs, lrun_wraps before_7faf7f9 false sst0 evs = false /\ no_prune evs = false /\
              nondecreasing c4z (outputs (snd (lrun before_7faf7f9 false sst0 evs))) = false /\
              nondecreasing c4z (outputs (snd (lrun head false sst0 evs))) = true.
Proof.
  exists [EActive 5 0; ETick (rd 5 1000) true; ERestart; EPrune true; ERestored 5 0; ETick (rd 5 5) true].
  vm_compute. auto.
Qed.
Print Assumptions C09_prune_hypothesis_needed.

(* an Interim (1500000) is in flight - sent, no response yet - when the session is released with no dataplane reading:
   the Stop is not below it; the response arriving afterwards changes nothing for the stream *)
Definition ex_inflight : list sev :=
  [EActive 5 0; ETick (rd 5 500000) true; ETick (rd 5 1500000) false; EReleased (Snaps (Some []) None); EAck].
Example C09_nonvacuous_inflight :
  lrun_wraps head false sst0 ex_inflight = false /\ no_prune ex_inflight = true /\
  sent_rxb (outputs (snd (lrun head false sst0 ex_inflight))) = [500000; 1500000; 1500000] /\
  sent_rxb (outputs (snd (lrun before_9b87063 false sst0 ex_inflight))) = [500000; 1500000; 500000].
Proof. vm_compute. repeat split. Qed.
Print Assumptions C09_nonvacuous_inflight.

(* ================= /repo HEAD violates the property (the one finding still open) ================= *)
(* a delayed Start goroutine: the backend sees the Stop (or an Interim) before the Start *)
Theorem C09_delivered_strict_refuted :
  exists xs, lrun_wraps head false sst0 (dev_events xs) = false /\ no_prune (dev_events xs) = true /\
             never_restored (dev_events xs) = true /\
             strict false (snd (drun head false dst0 xs)) = false.
Proof. exists [DHold true; DEv (EActive 5 0); DEv (EReleased (rd 5 9)); DRelease]. vm_compute. auto. Qed.
Print Assumptions C09_delivered_strict_refuted.





(* ================= historical: fixed in /repo ================= *)
(* fixed in a967234 (handleSessionLifecycle-l2tp-payload-not-decoded): for a PPP-over-L2TP session the code read every lifecycle
   event - also the one with state released - as an announcement on interface 0: a Start, Interims with the counters of
   interface 0, and NO Stop when the session is released *)
Theorem C09_before_a967234_l2tp_refuted :
  let evs := [EActive 5 0; ETick (rd 5 100) true; EReleased (rd 5 200)] in
  outputs (snd (lrun before_a967234 false sst0 (map (l2tp_view before_a967234 true) evs))) = [Start; Interim c4z true] /\
  cache (fst (lrun before_a967234 false sst0 (map (l2tp_view before_a967234 true) evs))) <> None /\
  map status_of (outputs (snd (lrun head false sst0 (map (l2tp_view head true) evs)))) = [1; 3; 2].
Proof. vm_compute. repeat split; discriminate. Qed.
Print Assumptions C09_before_a967234_l2tp_refuted.
(* fixed in 4de5a6b (restart-while-interim-unanswered-forgets-last-sent): 100 is sent, the process restarts before the response,
   the session is restored and released with no dataplane reading: the Stop carried 7 *)
Theorem C09_before_4de5a6b_restart_refuted :
  exists evs, lrun_wraps before_4de5a6b false sst0 evs = false /\ no_prune evs = true /\
              nondecreasing_sent c4z (outputs (snd (lrun before_4de5a6b false sst0 evs))) = false /\
              nondecreasing_sent c4z (outputs (snd (lrun head false sst0 evs))) = true.
Proof.
  exists [EActive 5 0; ETick (rd 5 7) true; ETick (rd 5 100) false; ERestart; ERestored 5 0; EReleased (Snaps (Some []) None)].
  vm_compute. auto.
Qed.
Print Assumptions C09_before_4de5a6b_restart_refuted.
(* fixed in 5478db8 (late-accounting-response-recreates-checkpoint-of-released-session): an Interim is unanswered when the
   session was released (Stop, checkpoint deleted); its response - acknowledged or failed - arrived afterwards and
   sendAccountingUpdate wrote the checkpoint again; after a restart the ghost entry was pruned with a SECOND Stop
   (or a repeated Released sends one) *)
Theorem C09_before_5478db8_ghost_refuted :
  exists evs, lrun_wraps before_5478db8 false sst0 evs = false /\
              stops_ok false (snd (lrun before_5478db8 false sst0 evs)) = false /\
              strictT BClosed (snd (lrun before_5478db8 false sst0 evs)) = false /\
              stops_ok false (snd (lrun head false sst0 evs)) = true.
Proof.
  exists [EActive 5 0; ETick (rd 5 100) false; EReleased (Snaps (Some []) None); ELate true; ERestart; EPrune true].
  vm_compute. auto.
Qed.
Print Assumptions C09_before_5478db8_ghost_refuted.
(* fixed in 7faf7f9 (pruneOrphanedAcctEntries-drops-accounting-without-stop): the accounting of a session whose restore did
   not arrive within 5 minutes of a restart was dropped without a Stop; when the session is announced again the backend
   saw a second Start without Stop *)
Theorem C09_before_7faf7f9_prune_refuted :
  exists evs, lrun_wraps before_7faf7f9 false sst0 evs = false /\
              bracketed false (outputs (snd (lrun before_7faf7f9 false sst0 evs))) = false /\
              strictT BClosed (snd (lrun before_7faf7f9 false sst0 evs)) = false /\
              bracketed false (outputs (snd (lrun head false sst0 evs))) = true.
Proof. exists [EActive 5 0; ERestart; EPrune true; EActive 5 0]. vm_compute. auto. Qed.
Print Assumptions C09_before_7faf7f9_prune_refuted.
(* fixed in 9b87063: a report whose Accounting-Response was lost (2000) was followed by a smaller one (1005) *)
Theorem C09_before_9b87063_monotone_sent_refuted :
  exists evs, lrun_wraps before_9b87063 false sst0 evs = false /\ no_prune evs = true /\
              nondecreasing_sent c4z (outputs (snd (lrun before_9b87063 false sst0 evs))) = false.
Proof. exists [EActive 5 0; ETick (rd 5 1000) true; ETick (rd 5 2000) false; ETick (rd 5 5) true]. vm_compute. auto. Qed.
Print Assumptions C09_before_9b87063_monotone_sent_refuted.


(* the code as first found (fixed in 7e92d8e, e0693a6, d70a5ae) *)
Theorem C09_first_found_monotone_refuted :
  exists evs, lrun_wraps defective false sst0 evs = false /\ no_prune evs = true /\
              nondecreasing c4z (outputs (snd (lrun defective false sst0 evs))) = false.
Proof. exists [EActive 5 0; ETick (rd 5 1000) true; ETick (rd 5 5) true]. vm_compute. auto. Qed.
Print Assumptions C09_first_found_monotone_refuted.

Theorem C09_first_found_stop_once_refuted :
  exists evs, lrun_wraps defective false sst0 evs = false /\
              stops_ok false (snd (lrun defective false sst0 evs)) = false.
Proof. exists [EActive 5 0; EReleased (Snaps None None); EReleased (Snaps None None)]. vm_compute. auto. Qed.
Print Assumptions C09_first_found_stop_once_refuted.

Theorem C09_first_found_start_once_refuted :
  exists evs, lrun_wraps defective false sst0 evs = false /\ no_prune evs = true /\
              bracketed false (outputs (snd (lrun defective false sst0 evs))) = false.
Proof. exists [EActive 5 0; ERestart; EActive 5 0]. vm_compute. auto. Qed.
Print Assumptions C09_first_found_start_once_refuted.
