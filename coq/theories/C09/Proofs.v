From OV Require Import Common.Base C09.Model.
