(* C09/Proofs.v — invariants and lemmas for the accounting model. *)
From OV Require Import Common.Base C09.Model.
From Coq Require Import ZifyBool ZifyNat ZifyN.
Open Scope N_scope.

(* ---------- u64 arithmetic ---------- *)
Lemma W_pos : 0 < W. Proof. unfold W; lia. Qed.

Lemma sub64_zero a : a < W -> sub64 a 0 = a.
Proof.
  intros H. unfold sub64. rewrite N.sub_0_r.
  replace (a + W) with (a + 1 * W) by lia.
  rewrite N.mod_add by (unfold W; lia). apply N.mod_small; exact H.
Qed.

Lemma add64_small a b : a + b < W -> add64 a b = a + b.
Proof. intros H. unfold add64. apply N.mod_small; exact H. Qed.

(* ---------- c4 helpers ---------- *)
Definition c4_le (a b : c4) : Prop :=
  rxb a <= rxb b /\ txb a <= txb b /\ rxp a <= rxp b /\ txp a <= txp b.
Definition c4_lt_W (a : c4) : Prop := rxb a < W /\ txb a < W /\ rxp a < W /\ txp a < W.

Lemma c4_leb_spec a b : c4_leb a b = true <-> c4_le a b.
Proof. unfold c4_leb, c4_le. rewrite !andb_true_iff, !N.leb_le. tauto. Qed.

Lemma c4_leb_refl a : c4_leb a a = true.
Proof. apply c4_leb_spec. unfold c4_le. lia. Qed.

Lemma c4_any2_false f a b :
  c4_any2 f a b = false ->
  f (rxb a) (rxb b) = false /\ f (txb a) (txb b) = false /\
  f (rxp a) (rxp b) = false /\ f (txp a) (txp b) = false.
Proof.
  unfold c4_any2. intros H.
  apply orb_false_elim in H as [H H4]. apply orb_false_elim in H as [H H3].
  apply orb_false_elim in H as [H1 H2]. auto.
Qed.

Lemma c4_norm_lt a : c4_lt_W (c4_norm a).
Proof.
  unfold c4_lt_W, c4_norm; cbn [rxb txb rxp txp].
  repeat split; apply N.mod_lt; unfold W; lia.
Qed.

Lemma lookup_last_lt l i acc st :
  (forall c, acc = Some c -> c4_lt_W c) -> lookup_last l i acc = Some st -> c4_lt_W st.
Proof.
  revert acc. induction l as [|[j c] r IH]; intros acc Ha H; cbn [lookup_last] in H.
  - apply Ha; exact H.
  - eapply IH; [|exact H]. intros c0 Hc. destruct (N.eqb i j).
    + inversion Hc; subst. apply c4_norm_lt.
    + apply Ha; exact Hc.
Qed.

Lemma lookup_stats_lt sn i st : lookup_stats sn i = Some st -> c4_lt_W st.
Proof.
  unfold lookup_stats. destruct sn as [l|]; [|discriminate].
  apply lookup_last_lt. intros c H; discriminate.
Qed.

Lemma lookup_l2_last_lt l i : forall acc x,
  (forall y, acc = Some y -> fst y < W /\ snd y < W) -> lookup_l2_last l i acc = Some x -> fst x < W /\ snd x < W.
Proof.
  induction l as [|[j [b p]] r IH]; intros acc x Ha H; cbn [lookup_l2_last] in H.
  - apply Ha; exact H.
  - eapply IH; [|exact H]. intros y Hy. destruct (N.eqb i j).
    + inversion Hy; subst; cbn. split; apply N.mod_lt; unfold W; lia.
    + apply Ha; exact Hy.
Qed.

Lemma lookup_l2_lt sn i x : lookup_l2 sn i = Some x -> fst x < W /\ snd x < W.
Proof.
  unfold lookup_l2. destruct sn as [l|]; [|discriminate].
  apply lookup_l2_last_lt. intros y H; discriminate.
Qed.

Lemma reading_lt g tick e sn st : reading g tick e sn = Some st -> c4_lt_W st.
Proof.
  unfold reading. destruct (g && tick).
  - unfold l2_reading.
    destruct (lookup_l2 (l2 sn) (ifx e)) as [u|] eqn:U; destruct (lookup_l2 (l2 sn) (hfx e)) as [d|] eqn:D;
      intros H; inversion H; subst; unfold c4_lt_W; cbn [rxb txb rxp txp fst snd];
      try (pose proof (lookup_l2_lt _ _ _ U) as [? ?]); try (pose proof (lookup_l2_lt _ _ _ D) as [? ?]);
      pose proof W_pos; repeat split; auto.
  - apply lookup_stats_lt.
Qed.

(* ---------- applyVPPCounters (repaired): never below the last reported values ---------- *)
Lemma rebase_fields v e st :
  ifx (rebase v e st) = ifx e /\ last (rebase v e st) = last e /\ pending (rebase v e st) = pending e.
Proof. unfold rebase. destruct (regressed v e st); cbn; auto. Qed.

Lemma apply_ge e st :
  c4_lt_W st -> apply_wraps repaired e st = false ->
  c4_le (last e) (snd (apply repaired e st)).
Proof.
  intros (L1 & L2 & L3 & L4) Hw. unfold apply, apply_wraps in *. cbn [snd].
  unfold rebase in *. destruct (regressed repaired e st) eqn:R.
  - (* regress: cumulative = reading + last reported, which did not wrap *)
    apply orb_false_elim in Hw as [_ Hw].
    apply c4_any2_false in Hw as (H1 & H2 & H3 & H4).
    cbn [base prior c4_map2 rxb txb rxp txp c4z] in H1, H2, H3, H4.
    rewrite N.leb_gt, N.sub_0_r in H1, H2, H3, H4.
    unfold cum, c4_le; cbn [base prior last c4_map2 rxb txb rxp txp c4z].
    rewrite !sub64_zero by assumption. rewrite !add64_small by assumption. lia.
  - (* no regress: the test itself says cumulative >= last reported *)
    unfold regressed in R. apply orb_false_elim in R as [_ R].
    cbn [fix_counters repaired andb] in R.
    apply c4_any2_false in R as (H1 & H2 & H3 & H4).
    rewrite N.ltb_ge in H1, H2, H3, H4. unfold c4_le. auto.
Qed.

Lemma report_ge g tick e sn :
  report_wraps repaired g tick e sn = false -> c4_le (last e) (snd (report repaired g tick e sn)).
Proof.
  unfold report, report_wraps. destruct (reading g tick e sn) as [st|] eqn:L.
  - intros Hw. apply apply_ge; [eapply reading_lt; exact L | exact Hw].
  - intros _. cbn. unfold c4_le. lia.
Qed.

Lemma report_fields v g tick e sn :
  ifx (fst (report v g tick e sn)) = ifx e /\ last (fst (report v g tick e sn)) = last e /\
  pending (fst (report v g tick e sn)) = pending e.
Proof.
  unfold report. destruct (reading g tick e sn); cbn [fst apply]; [apply rebase_fields|auto].
Qed.

(* ---------- coupling between the component state and the monitor's ledger ---------- *)
Definition coupled (s : sst) (m : mst) : Prop :=
  match cache s with
  | None => db s = None /\ inb s = false /\ m = mst0
  | Some e =>
      m_open m = true /\ m_ack m = last e /\ m_pend m = pending e /\ inb s = negb (pending e) /\
      match db s with
      | Some d => m_pers m = true /\ last d = last e
      | None => m_pers m = false
      end
  end.

Lemma coupled_init : coupled sst0 mst0.
Proof. unfold coupled; cbn; auto. Qed.

Lemma step_conforms g s m ev :
  coupled s m -> lstep_wraps repaired g s ev = false ->
  exists m', mon_step m ev (snd (lstep repaired g s ev)) = Some m' /\ coupled (fst (lstep repaired g s ev)) m'.
Proof.
  intros C Hw. unfold coupled in C.
  destruct s as [ib ca d]. cbn [cache db inb] in C.
  destruct ca as [e|].
  - destruct C as (Ho & Ha & Hp & Hi & Hd). subst ib.
    destruct m as [mo mp mq ma]. cbn [m_open m_ack m_pend m_pers] in *. subst mo ma mq.
    destruct ev as [i h|i h|sn|sn ok| |past]; cbn [lstep lstep_wraps cache inb db] in *.
    + (* Active *)
      destruct (pending e) eqn:P; cbn [negb fix_active repaired fst snd mon_step m_open].
      * eexists; split; [reflexivity|]. unfold coupled, confirm; cbn. destruct d; cbn in *; repeat split; intuition auto.
      * eexists; split; [reflexivity|]. unfold coupled; cbn [cache db inb]. rewrite P.
        cbn. destruct d; cbn in *; repeat split; intuition auto.
    + (* Restored *)
      cbn [fst snd mon_step m_open]. eexists; split; [reflexivity|].
      unfold coupled, confirm; cbn. destruct d; cbn in *; repeat split; intuition auto.
    + (* Released *)
      cbn [fst snd mon_step m_open m_ack].
      pose proof (report_ge g false e sn Hw) as G. apply c4_leb_spec in G. rewrite G.
      eexists; split; [reflexivity|]. unfold coupled; cbn; repeat split; auto.
    + (* Tick *)
      destruct (pending e) eqn:P; cbn [negb] in *.
      * cbn [fst snd mon_step m_open m_pend andb negb]. eexists; split; [reflexivity|].
        unfold coupled; cbn [cache db inb]. rewrite P. cbn. destruct d; cbn in *; repeat split; intuition auto.
      * cbn [andb] in Hw.
        pose proof (report_ge g true e sn Hw) as G. apply c4_leb_spec in G.
        pose proof (report_fields repaired g true e sn) as (F1 & F2 & F3).
        destruct (report repaired g true e sn) as [e' c] eqn:RP. cbn [fst snd] in *.
        destruct ok; cbn [fst snd mon_step m_open m_pend m_ack andb negb Bool.eqb]; rewrite G.
        -- eexists; split; [reflexivity|]. unfold coupled; cbn. rewrite F3, P. cbn; repeat split; auto.
        -- eexists; split; [reflexivity|]. unfold coupled; cbn [cache db inb]. rewrite F2, F3, P.
           cbn. destruct d; cbn in *; repeat split; intuition auto.
    + (* Restart *)
      cbn [fst snd mon_step m_open andb]. destruct d as [dd|]; cbn in Hd.
      * destruct Hd as [Hd1 Hd2]. subst mp. eexists; split; [reflexivity|].
        unfold coupled; cbn; repeat split; auto.
      * subst mp. eexists; split; [reflexivity|]. unfold coupled; cbn; repeat split; auto.
    + (* Prune *)
      destruct (pending e) eqn:P; destruct past; cbn [andb negb fst snd mon_step m_open m_pend].
      * eexists; split; [reflexivity|]. unfold coupled; cbn; repeat split; auto.
      * eexists; split; [reflexivity|]. unfold coupled; cbn [cache db inb]. rewrite P. cbn.
        destruct d; cbn in *; repeat split; intuition auto.
      * eexists; split; [reflexivity|]. unfold coupled; cbn [cache db inb]. rewrite P. cbn.
        destruct d; cbn in *; repeat split; intuition auto.
      * eexists; split; [reflexivity|]. unfold coupled; cbn [cache db inb]. rewrite P. cbn.
        destruct d; cbn in *; repeat split; intuition auto.
  - destruct C as (Hd & Hi & Hm). subst d ib m.
    destruct ev as [i h|i h|sn|sn ok| |past]; cbn [lstep lstep_wraps cache inb db fst snd mon_step m_open mst0 fix_stop repaired andb];
      eexists; (split; [reflexivity|]); unfold coupled; cbn; repeat split; auto.
Qed.

Lemma run_conforms g evs : forall s m,
  coupled s m -> lrun_wraps repaired g s evs = false ->
  exists m', mon_run m (snd (lrun repaired g s evs)) = Some m'.
Proof.
  induction evs as [|ev r IH]; intros s m C Hw; cbn [lrun lrun_wraps] in *.
  - eexists; reflexivity.
  - apply orb_false_elim in Hw as [Hw1 Hw2].
    destruct (step_conforms g s m ev C Hw1) as (m1 & M1 & C1).
    destruct (lstep repaired g s ev) as [s1 o] eqn:E. cbn [fst snd] in *.
    destruct (IH s1 m1 C1 Hw2) as (m2 & M2).
    destruct (lrun repaired g s1 r) as [s2 t] eqn:E2. cbn [snd mon_run] in *.
    rewrite M1. eexists; exact M2.
Qed.

Lemma conforms g evs :
  lrun_wraps repaired g sst0 evs = false -> accepted (snd (lrun repaired g sst0 evs)) = true.
Proof.
  intros Hw. unfold accepted.
  destruct (run_conforms g evs sst0 mst0 coupled_init Hw) as (m' & M). rewrite M. reflexivity.
Qed.

(* ---------- what acceptance by the monitor means for the plain call stream ---------- *)
Lemma lrun_events v g evs : forall s, map fst (snd (lrun v g s evs)) = evs.
Proof.
  induction evs as [|ev r IH]; intros s; cbn [lrun]; [reflexivity|].
  destruct (lstep v g s ev) as [s1 o]. specialize (IH s1).
  destruct (lrun v g s1 r) as [s2 t]. cbn in *. f_equal. exact IH.
Qed.

(* a Start is only ever sent when the ledger is closed; inside => open and persisted *)
Lemma mon_bracketed t : forall m m' inside,
  mon_run m t = Some m' -> no_prune (map fst t) = true ->
  (inside = true -> m_open m = true /\ m_pers m = true) ->
  bracketed inside (outputs t) = true.
Proof.
  induction t as [|[ev o] r IH]; intros m m' inside M NP I; [reflexivity|].
  cbn [mon_run] in M. destruct (mon_step m ev o) as [m1|] eqn:S; [|discriminate].
  cbn [map fst no_prune forallb] in NP. apply andb_true_iff in NP as [NP1 NP2].
  unfold outputs in *. cbn [flat_map snd].
  destruct m as [mo mp mq ma].
  destruct ev as [i h|i h|sn|sn ok| |past]; cbn [mon_step m_open m_pers m_pend m_ack] in S.
  - destruct mo.
    + destruct o; [|discriminate]. inversion S; subst. cbn [app].
      eapply IH; [exact M|exact NP2|]. intros Hi. destruct (I Hi) as [_ Hp]. cbn in *. auto.
    + destruct o as [|[| |] [|]]; try discriminate. inversion S; subst. cbn [app bracketed].
      destruct inside; [destruct (I eq_refl); discriminate|].
      eapply IH; [exact M|exact NP2|]. cbn; auto.
  - destruct o; [|discriminate]. cbn [app]. destruct mo; inversion S; subst.
    + eapply IH; [exact M|exact NP2|]. intros Hi. destruct (I Hi). cbn in *; auto.
    + eapply IH; [exact M|exact NP2|]. intros Hi. destruct (I Hi). discriminate.
  - destruct mo.
    + destruct o as [|[| |c] [|]]; try discriminate. destruct (c4_leb ma c); [|discriminate].
      inversion S; subst. cbn [app bracketed]. eapply IH; [exact M|exact NP2|]. discriminate.
    + destruct o; [|discriminate]. inversion S; subst. cbn [app].
      eapply IH; [exact M|exact NP2|]. intros Hi. destruct (I Hi). discriminate.
  - destruct (mo && negb mq) eqn:G.
    + destruct o as [|[|c ok'|] [|]]; try discriminate.
      destruct (Bool.eqb ok ok' && c4_leb ma c); [|discriminate].
      cbn [app bracketed]. inversion S; subst.
      eapply IH; [exact M|exact NP2|]. intros Hi. destruct (I Hi). cbn in *. subst.
      destruct ok; cbn; auto.
    + destruct o; [|discriminate]. inversion S; subst. cbn [app].
      eapply IH; [exact M|exact NP2|exact I].
  - destruct o; [|discriminate]. cbn [app]. destruct (mo && mp) eqn:G; inversion S; subst.
    + eapply IH; [exact M|exact NP2|]. intros Hi. cbn. auto.
    + eapply IH; [exact M|exact NP2|]. intros Hi. destruct (I Hi). cbn in *. subst. discriminate.
  - destruct o; [|discriminate]. cbn [app]. destruct past; [discriminate|].
    rewrite andb_false_r in S. inversion S; subst.
    eapply IH; [exact M|exact NP2|exact I].
Qed.

(* Stops: not armed => the ledger is closed *)
Lemma mon_stops t : forall m m' armed,
  mon_run m t = Some m' -> (armed = false -> m_open m = false) -> stops_ok armed t = true.
Proof.
  induction t as [|[ev o] r IH]; intros m m' armed M A; [reflexivity|].
  cbn [mon_run] in M. destruct (mon_step m ev o) as [m1|] eqn:S; [|discriminate].
  cbn [stops_ok].
  destruct m as [mo mp mq ma].
  destruct ev as [i h|i h|sn|sn ok| |past]; cbn [mon_step m_open m_pers m_pend m_ack] in S.
  - destruct mo.
    + destruct o; [|discriminate]. inversion S; subst. cbn. eapply IH; [exact M|]. discriminate.
    + destruct o as [|[| |] [|]]; try discriminate. inversion S; subst. cbn.
      eapply IH; [exact M|]. discriminate.
  - destruct o; [|discriminate]. cbn. eapply IH; [exact M|]. discriminate.
  - destruct mo.
    + destruct o as [|[| |c] [|]]; try discriminate. destruct (c4_leb ma c); [|discriminate].
      inversion S; subst. cbn. destruct armed; [|specialize (A eq_refl); discriminate].
      cbn. eapply IH; [exact M|]. reflexivity.
    + destruct o; [|discriminate]. inversion S; subst. cbn.
      destruct armed; cbn; (eapply IH; [exact M|]); reflexivity.
  - destruct (mo && negb mq) eqn:G.
    + destruct o as [|[|c ok'|] [|]]; try discriminate.
      destruct (Bool.eqb ok ok' && c4_leb ma c); [|discriminate]. inversion S; subst. cbn.
      eapply IH; [exact M|]. intros Ha. specialize (A Ha). cbn in A. subst. discriminate.
    + destruct o; [|discriminate]. inversion S; subst. cbn. eapply IH; [exact M|exact A].
  - destruct o; [|discriminate]. cbn. destruct (mo && mp) eqn:G; inversion S; subst.
    + eapply IH; [exact M|]. intros Ha. specialize (A Ha). cbn in A. subst. discriminate.
    + eapply IH; [exact M|]. reflexivity.
  - destruct o; [|discriminate]. cbn. destruct (mo && mq && past) eqn:G; inversion S; subst.
    + eapply IH; [exact M|]. reflexivity.
    + eapply IH; [exact M|exact A].
Qed.

(* monotone: open => prev is the acknowledged value (zero while nothing is persisted); closed => prev = 0 *)
Definition mono_inv (m : mst) (prev : c4) : Prop :=
  if m_open m then prev = m_ack m /\ (m_pers m = false -> m_ack m = c4z) else prev = c4z.

Lemma mon_monotone t : forall m m' prev,
  mon_run m t = Some m' -> no_prune (map fst t) = true -> mono_inv m prev ->
  nondecreasing prev (outputs t) = true.
Proof.
  induction t as [|[ev o] r IH]; intros m m' prev M NP I; [reflexivity|].
  cbn [mon_run] in M. destruct (mon_step m ev o) as [m1|] eqn:S; [|discriminate].
  cbn [map fst no_prune forallb] in NP. apply andb_true_iff in NP as [NP1 NP2].
  unfold outputs in *. cbn [flat_map snd].
  destruct m as [mo mp mq ma]. unfold mono_inv in I. cbn [m_open m_ack m_pers] in I.
  destruct ev as [i h|i h|sn|sn ok| |past]; cbn [mon_step m_open m_pers m_pend m_ack] in S.
  - destruct mo.
    + destruct o; [|discriminate]. inversion S; subst. cbn [app].
      eapply IH; [exact M|exact NP2|]. unfold mono_inv; cbn; auto.
    + destruct o as [|[| |] [|]]; try discriminate. inversion S; subst. cbn [app nondecreasing].
      eapply IH; [exact M|exact NP2|]. unfold mono_inv; cbn. auto.
  - destruct o; [|discriminate]. cbn [app]. destruct mo; inversion S; subst.
    + eapply IH; [exact M|exact NP2|]. unfold mono_inv; cbn; auto.
    + eapply IH; [exact M|exact NP2|]. unfold mono_inv; cbn. auto.
  - destruct mo.
    + destruct o as [|[| |c] [|]]; try discriminate. destruct (c4_leb ma c) eqn:G; [|discriminate].
      inversion S; subst. cbn [app nondecreasing]. destruct I as [I1 I2]. subst prev. rewrite G. cbn [andb].
      eapply IH; [exact M|exact NP2|]. unfold mono_inv; cbn. reflexivity.
    + destruct o; [|discriminate]. inversion S; subst. cbn [app].
      eapply IH; [exact M|exact NP2|]. unfold mono_inv; cbn; auto.
  - destruct (mo && negb mq) eqn:G.
    + destruct o as [|[|c ok'|] [|]]; try discriminate.
      destruct (Bool.eqb ok ok') eqn:EQ; [|discriminate]. apply Bool.eqb_prop in EQ. subst ok'.
      destruct (c4_leb ma c) eqn:G2; [|discriminate]. cbn [andb] in S. inversion S; subst.
      apply andb_true_iff in G as [G _]. subst mo. destruct I as [I1 I2]. subst prev.
      cbn [app nondecreasing]. rewrite G2. cbn [andb].
      eapply IH; [exact M|exact NP2|]. destruct ok; unfold mono_inv; cbn; auto.
      split; [reflexivity|discriminate].
    + destruct o; [|discriminate]. inversion S; subst. cbn [app].
      eapply IH; [exact M|exact NP2|]. unfold mono_inv; cbn; auto.
  - destruct o; [|discriminate]. cbn [app]. destruct mo, mp; cbn [andb] in S; inversion S; subst.
    + eapply IH; [exact M|exact NP2|]. unfold mono_inv; cbn; auto.
    + eapply IH; [exact M|exact NP2|]. unfold mono_inv; cbn. destruct I as [I1 I2]. rewrite I1. auto.
    + eapply IH; [exact M|exact NP2|]. unfold mono_inv; cbn; auto.
    + eapply IH; [exact M|exact NP2|]. unfold mono_inv; cbn; auto.
  - destruct o; [|discriminate]. cbn [app]. destruct past; [discriminate|].
    rewrite andb_false_r in S. inversion S; subst.
    eapply IH; [exact M|exact NP2|]. unfold mono_inv; cbn; auto.
Qed.

(* ---------- the three plain statements for the repaired component ---------- *)
Lemma accepted_run t : accepted t = true -> exists m', mon_run mst0 t = Some m'.
Proof. unfold accepted. destruct (mon_run mst0 t); [eauto|discriminate]. Qed.

Lemma start_once g evs :
  lrun_wraps repaired g sst0 evs = false -> no_prune evs = true ->
  bracketed false (outputs (snd (lrun repaired g sst0 evs))) = true.
Proof.
  intros Hw NP. destruct (accepted_run _ (conforms g evs Hw)) as (m' & M).
  eapply mon_bracketed; [exact M| rewrite lrun_events; exact NP | discriminate].
Qed.

Lemma stop_once g evs :
  lrun_wraps repaired g sst0 evs = false ->
  stops_ok false (snd (lrun repaired g sst0 evs)) = true.
Proof.
  intros Hw. destruct (accepted_run _ (conforms g evs Hw)) as (m' & M).
  eapply mon_stops; [exact M | reflexivity].
Qed.

Lemma monotone g evs :
  lrun_wraps repaired g sst0 evs = false -> no_prune evs = true ->
  nondecreasing c4z (outputs (snd (lrun repaired g sst0 evs))) = true.
Proof.
  intros Hw NP. destruct (accepted_run _ (conforms g evs Hw)) as (m' & M).
  eapply mon_monotone; [exact M| rewrite lrun_events; exact NP | unfold mono_inv; cbn; reflexivity].
Qed.

(* ---------- repeated notifications are silent (any reachable or unreachable state) ---------- *)
Lemma after_announce_silent g s ev i h j k :
  (ev = EActive i h \/ ev = ERestored i h) ->
  let s' := fst (lstep repaired g s ev) in
  snd (lstep repaired g s' (EActive j k)) = [] /\ snd (lstep repaired g s' (ERestored j k)) = [].
Proof.
  intros [E|E]; subst ev; cbn [lstep].
  - destruct (inb s) eqn:IB.
    + cbn [fst]. cbn [lstep]. rewrite IB. split; [reflexivity|]. destruct (cache s); reflexivity.
    + destruct (cache s); cbn; auto.
  - destruct (cache s); cbn; auto.
Qed.

Lemma after_release_silent g s sn sn' :
  let s' := fst (lstep repaired g s (EReleased sn)) in
  s' = sst0 /\ snd (lstep repaired g s' (EReleased sn')) = [].
Proof. cbn [lstep]. destruct (cache s); cbn; auto. Qed.

Lemma restore_never_starts v g s i h : snd (lstep v g s (ERestored i h)) = [].
Proof. cbn [lstep]. destruct (cache s); reflexivity. Qed.

(* ---------- the component is the product of the per-session machines ---------- *)
Lemma gstep_from_nth v bk tys e : forall g j0 j s,
  nth_error g j = Some s ->
  nth_error (gstep_from v bk tys j0 g e) j =
  Some (lstep_opt v (is_l2gw tys (j0 + j)) s (project bk (j0 + j)%nat e)).
Proof.
  induction g as [|s0 r IH]; intros j0 j s H.
  - destruct j; discriminate.
  - destruct j as [|j]; cbn [nth_error gstep_from] in *.
    + inversion H; subst. rewrite Nat.add_0_r. reflexivity.
    + rewrite (IH (S j0) j s H). replace (S j0 + j)%nat with (j0 + S j)%nat by lia. reflexivity.
Qed.

Lemma gstep_nth v bk tys g e j s :
  nth_error g j = Some s ->
  nth_error (gstep v bk tys g e) j = Some (lstep_opt v (is_l2gw tys j) s (project bk j e)).
Proof. intros H. unfold gstep. rewrite (gstep_from_nth v bk tys e g 0 j s H). reflexivity. Qed.

Lemma gstep_length v bk tys e : forall g j0, length (gstep_from v bk tys j0 g e) = length g.
Proof. induction g; intros; cbn; auto. Qed.

(* component run: states after a list of component-level events, and session j's local run over the
   events addressed to it *)
Fixpoint grun (v : variant) (bk : list N) (tys : list bool) (g : list sst) (evs : list gev) : list sst :=
  match evs with
  | [] => g
  | e :: r => grun v bk tys (map fst (gstep v bk tys g e)) r
  end.
Fixpoint local_events (bk : list N) (j : nat) (evs : list gev) : list sev :=
  match evs with
  | [] => []
  | e :: r => match project bk j e with Some le => le :: local_events bk j r | None => local_events bk j r end
  end.

Lemma component_is_product v bk tys evs : forall g j s,
  nth_error g j = Some s ->
  nth_error (grun v bk tys g evs) j = Some (fst (lrun v (is_l2gw tys j) s (local_events bk j evs))).
Proof.
  induction evs as [|e r IH]; intros g j s H; cbn [grun local_events].
  - cbn. exact H.
  - pose proof (gstep_nth v bk tys g e j s H) as G.
    assert (H1 : nth_error (map fst (gstep v bk tys g e)) j = Some (fst (lstep_opt v (is_l2gw tys j) s (project bk j e)))).
    { rewrite nth_error_map, G. reflexivity. }
    rewrite (IH _ j _ H1).
    destruct (project bk j e) as [le|]; cbn [lstep_opt fst].
    + cbn [lrun]. destruct (lstep v (is_l2gw tys j) s le) as [s1 o]. cbn [fst].
      destruct (lrun v (is_l2gw tys j) s1 (local_events bk j r)); reflexivity.
    + reflexivity.
Qed.

(* ---------- an input-only sufficient condition for "no wrap" (sessions reading the interface table) ----------
   If, per counter, the sum of every reading that appears anywhere in the history is below 2^64, no
   cumulative ever wraps (each cumulative is bounded by the sum of the readings seen so far). *)
Definition c4_add (a b : c4) : c4 := c4_map2 N.add a b.
Fixpoint items_sum (l : list (N * c4)) : c4 :=
  match l with [] => c4z | (_, c) :: r => c4_add (c4_norm c) (items_sum r) end.
Definition snap_sum (sn : snap) : c4 := match sn with None => c4z | Some l => items_sum l end.
Definition ev_sum (ev : sev) : c4 :=
  match ev with EReleased sn => snap_sum (ifs sn) | ETick sn _ => snap_sum (ifs sn) | _ => c4z end.
Fixpoint total_readings (evs : list sev) : c4 :=
  match evs with [] => c4z | ev :: r => c4_add (ev_sum ev) (total_readings r) end.

Ltac c4crush :=
  unfold c4_le, c4_lt_W, c4_add, c4_map2, c4z in *; cbn [rxb txb rxp txp] in *; lia.

Lemma lookup_last_le l : forall i acc st X,
  (forall c, acc = Some c -> c4_le c X) -> lookup_last l i acc = Some st ->
  c4_le st (c4_add X (items_sum l)).
Proof.
  induction l as [|[j c] r IH]; intros i acc st X Ha H; cbn [lookup_last items_sum] in *.
  - specialize (Ha st H). c4crush.
  - assert (B : c4_le st (c4_add (c4_add X (c4_norm c)) (items_sum r))).
    { eapply IH; [|exact H]. intros c0 Hc. destruct (N.eqb i j).
      - inversion Hc; subst. c4crush.
      - specialize (Ha c0 Hc). c4crush. }
    c4crush.
Qed.

Lemma lookup_stats_le sn i st : lookup_stats sn i = Some st -> c4_le st (snap_sum sn).
Proof.
  unfold lookup_stats, snap_sum. destruct sn as [l|]; [|discriminate]. intros H.
  pose proof (lookup_last_le l i None st c4z) as B.
  assert (B' : c4_le st (c4_add c4z (items_sum l))) by (apply B; [intros c Hc; discriminate|exact H]).
  c4crush.
Qed.

Definition sinv (B : c4) (e : sess) : Prop :=
  base e = c4z /\ c4_le (prior e) (last e) /\ c4_le (last e) B.

Lemma sinv_mono B B' e : sinv B e -> c4_le B B' -> sinv B' e.
Proof. intros (H1 & H2 & H3) L. split; [exact H1|split; [exact H2|c4crush]]. Qed.

Lemma c4_any2_false_intro f a b :
  f (rxb a) (rxb b) = false -> f (txb a) (txb b) = false ->
  f (rxp a) (rxp b) = false -> f (txp a) (txp b) = false -> c4_any2 f a b = false.
Proof. intros H1 H2 H3 H4. unfold c4_any2. rewrite H1, H2, H3, H4. reflexivity. Qed.

Lemma apply_bound B T e st :
  sinv B e -> c4_lt_W st -> c4_le st T -> c4_lt_W (c4_add B T) ->
  apply_wraps repaired e st = false /\
  sinv (c4_add B T) (fst (apply repaired e st)) /\
  c4_le (prior (fst (apply repaired e st))) (snd (apply repaired e st)) /\
  c4_le (snd (apply repaired e st)) (c4_add B T).
Proof.
  intros (Hb & Hp & Hl) Lst LT LW.
  unfold apply, apply_wraps. cbn [fst snd].
  assert (E : base (rebase repaired e st) = c4z /\
              c4_le (prior (rebase repaired e st)) (last e) /\ last (rebase repaired e st) = last e).
  { unfold rebase. destruct (regressed repaired e st); cbn [base prior last]; (split; [|split]); auto; try c4crush. }
  destruct E as (E1 & E2 & E3).
  set (e' := rebase repaired e st) in *.
  assert (C : cum e' st = c4_add st (prior e')).
  { unfold cum. rewrite E1. destruct st as [a b c d], (prior e') as [pa pb pc pd] eqn:PE.
    destruct (last e) as [la lb lc ld], B as [ba bb bc bd], T as [ta tb tc td].
    unfold c4_le, c4_lt_W, c4_add, c4_map2, c4z in *; cbn [rxb txb rxp txp] in *.
    rewrite !sub64_zero by lia. rewrite !add64_small by lia. reflexivity. }
  split; [|split; [|split]].
  - rewrite E1.
    destruct st as [a b c d], (prior e') as [pa pb pc pd], (last e) as [la lb lc ld],
             B as [ba bb bc bd], T as [ta tb tc td].
    unfold c4_le, c4_lt_W, c4_add, c4_map2, c4z in *; cbn [rxb txb rxp txp] in *.
    apply orb_false_intro; apply c4_any2_false_intro; cbn [rxb txb rxp txp];
      try (apply N.ltb_ge; lia); apply N.leb_gt; lia.
  - unfold sinv. split; [exact E1|split].
    + rewrite E3. exact E2.
    + rewrite E3. c4crush.
  - rewrite C. c4crush.
  - rewrite C. c4crush.
Qed.

Lemma report_bound B T tick e sn :
  sinv B e -> c4_le (snap_sum (ifs sn)) T -> c4_lt_W (c4_add B T) ->
  report_wraps repaired false tick e sn = false /\
  sinv (c4_add B T) (fst (report repaired false tick e sn)) /\
  c4_le (prior (fst (report repaired false tick e sn))) (snd (report repaired false tick e sn)) /\
  c4_le (snd (report repaired false tick e sn)) (c4_add B T).
Proof.
  intros I LT LW. unfold report, report_wraps, reading. cbn [andb].
  destruct (lookup_stats (ifs sn) (ifx e)) as [st|] eqn:L.
  - apply apply_bound; auto.
    + eapply lookup_stats_lt; exact L.
    + pose proof (lookup_stats_le (ifs sn) (ifx e) st L). c4crush.
  - cbn [fst snd]. destruct I as (I1 & I2 & I3). split; [reflexivity|split; [|split]].
    + unfold sinv. split; [exact I1|split; [exact I2|c4crush]].
    + exact I2.
    + c4crush.
Qed.

Definition ginv (B : c4) (s : sst) : Prop :=
  (forall e, cache s = Some e -> sinv B e) /\ (forall d, db s = Some d -> sinv B d).

Lemma c4_le_refl a : c4_le a a. Proof. c4crush. Qed.

Lemma step_bound B s ev :
  ginv B s -> c4_lt_W (c4_add B (ev_sum ev)) ->
  lstep_wraps repaired false s ev = false /\ ginv (c4_add B (ev_sum ev)) (fst (lstep repaired false s ev)).
Proof.
  intros [Ic Id] LW.
  assert (MB : c4_le B (c4_add B (ev_sum ev))) by c4crush.
  assert (Ic' : forall e, cache s = Some e -> sinv (c4_add B (ev_sum ev)) e)
    by (intros e He; eapply sinv_mono; [apply Ic; exact He|exact MB]).
  assert (Id' : forall d, db s = Some d -> sinv (c4_add B (ev_sum ev)) d)
    by (intros d Hd; eapply sinv_mono; [apply Id; exact Hd|exact MB]).
  assert (F : forall i h, sinv (c4_add B (ev_sum ev)) (fresh i h))
    by (intros i h; unfold sinv, fresh; cbn [base prior last]; split; [reflexivity|split; c4crush]).
  destruct s as [ib ca d]. cbn [cache db] in *.
  destruct ev as [i h|i h|sn|sn ok| |past]; cbn [lstep lstep_wraps cache db inb ev_sum] in *.
  - split; [destruct ca; reflexivity|].
    destruct ib; [split; cbn; auto|].
    destruct ca as [e|]; cbn [fix_active repaired fst]; split; cbn [cache db]; intros x Hx; inversion Hx; subst; auto.
    specialize (Ic' e eq_refl). unfold sinv, confirm in *; cbn. exact Ic'.
  - split; [destruct ca; reflexivity|].
    destruct ca as [e|]; cbn [fst]; split; cbn [cache db]; intros x Hx; try (inversion Hx; subst); auto.
    specialize (Ic' e eq_refl). unfold sinv, confirm in *; cbn. exact Ic'.
  - destruct ca as [e|].
    + destruct (report_bound B (snap_sum (ifs sn)) false e sn (Ic e eq_refl) (c4_le_refl _) LW) as (R1 & _).
      split; [exact R1|]. cbn. split; intros x Hx; discriminate.
    + split; [reflexivity|]. cbn. split; intros x Hx; discriminate.
  - destruct ca as [e|].
    + destruct (report_bound B (snap_sum (ifs sn)) true e sn (Ic e eq_refl) (c4_le_refl _) LW) as (R1 & R2 & R3 & R4).
      destruct ib; cbn [andb].
      * split; [exact R1|].
        destruct (report repaired false true e sn) as [e' c] eqn:RP. cbn [fst snd] in *.
        destruct ok; cbn [fst]; split; cbn [cache db]; intros x Hx; try (inversion Hx; subst); auto;
          destruct R2 as (Q1 & Q2 & Q3); unfold sinv; cbn [base prior last]; (split; [|split]); auto.
      * split; [reflexivity|]. cbn. split; auto.
    + split; [destruct ib; reflexivity|]. destruct ib; cbn; split; auto.
  - split; [destruct ca; reflexivity|]. cbn [fst]. split; cbn [cache db]; [|exact Id'].
    intros x Hx. destruct d as [dd|]; [|discriminate]. inversion Hx; subst.
    specialize (Id' dd eq_refl). unfold sinv in *; cbn. exact Id'.
  - split; [destruct ca; reflexivity|].
    destruct ca as [e|]; [|cbn; split; auto].
    destruct (pending e && past); cbn; split; auto; intros x Hx; discriminate.
Qed.

Lemma run_bound evs : forall s B,
  ginv B s -> c4_lt_W (c4_add B (total_readings evs)) -> lrun_wraps repaired false s evs = false.
Proof.
  induction evs as [|ev r IH]; intros s B I LW; cbn [lrun_wraps total_readings] in *; [reflexivity|].
  assert (LW1 : c4_lt_W (c4_add B (ev_sum ev))) by c4crush.
  destruct (step_bound B s ev I LW1) as [S1 S2].
  rewrite S1. cbn [orb]. eapply IH; [exact S2|]. c4crush.
Qed.

Lemma no_wrap_if_total_small evs :
  c4_lt_W (total_readings evs) -> lrun_wraps repaired false sst0 evs = false.
Proof.
  intros H. apply (run_bound evs sst0 c4z).
  - split; intros x Hx; discriminate.
  - c4crush.
Qed.

Lemma monotone_total evs :
  c4_lt_W (total_readings evs) -> no_prune evs = true ->
  nondecreasing c4z (outputs (snd (lrun repaired false sst0 evs))) = true.
Proof. intros H NP. apply monotone; [apply no_wrap_if_total_small; exact H|exact NP]. Qed.

(* ---------- the RADIUS wire encoding of the counters ---------- *)
Lemma giga_roundtrip x : x < W -> giga_val (giga_attr x) * W32 + x mod W32 = x.
Proof.
  intros H. unfold giga_attr, giga_val.
  assert (D : x / W32 < W32).
  { apply N.div_lt_upper_bound; [unfold W32; lia|]. unfold W, W32 in *. lia. }
  rewrite (N.mod_small _ _ D).
  pose proof (N.div_mod x W32 ltac:(unfold W32; lia)) as E.
  destruct (N.ltb_spec 0 (x / W32)) as [P|P].
  - unfold W32 in *. lia.
  - apply N.le_0_r in P. rewrite P in E. rewrite N.mul_0_r in E. cbn [N.mul N.add]. rewrite N.add_0_l in *. symmetry; exact E.
Qed.

Lemma wire_roundtrip st c : wire_range c = true -> decode_wire (encode_wire st c) = c.
Proof.
  unfold wire_range. rewrite !andb_true_iff, !N.ltb_lt. intros [[[H1 H2] H3] H4].
  unfold decode_wire, encode_wire; cbn [w_in_oct w_out_oct w_in_giga w_out_giga w_in_pkt w_out_pkt].
  rewrite !giga_roundtrip by assumption. rewrite !N.mod_small by assumption.
  destruct c; reflexivity.
Qed.

Lemma wire_monotone st st' c c' :
  wire_range c = true -> wire_range c' = true -> c4_le c c' ->
  c4_le (decode_wire (encode_wire st c)) (decode_wire (encode_wire st' c')).
Proof. intros H H' L. rewrite !wire_roundtrip by assumption. exact L. Qed.

Lemma through_wire_id o : wire_range (counters_of o) = true -> through_wire o = o.
Proof.
  intros H. unfold through_wire. rewrite wire_roundtrip by exact H. destruct o; reflexivity.
Qed.

Lemma map_through_wire l :
  forallb (fun o => wire_range (counters_of o)) l = true -> map through_wire l = l.
Proof.
  induction l as [|o r IH]; cbn [forallb map]; [reflexivity|].
  rewrite andb_true_iff. intros [H1 H2]. rewrite through_wire_id by exact H1. rewrite IH by exact H2. reflexivity.
Qed.

Lemma monotone_on_wire g evs :
  lrun_wraps repaired g sst0 evs = false -> no_prune evs = true ->
  forallb (fun o => wire_range (counters_of o)) (outputs (snd (lrun repaired g sst0 evs))) = true ->
  nondecreasing c4z (map through_wire (outputs (snd (lrun repaired g sst0 evs)))) = true.
Proof. intros Hw NP R. rewrite map_through_wire by exact R. apply monotone; assumption. Qed.
