(* C09/Proofs.v — invariants and lemmas for the accounting model. *)
From OV Require Import Common.Base C09.Model.
From Coq Require Import ZifyBool ZifyNat ZifyN.
Open Scope N_scope.

(* ---------- u64 arithmetic ---------- *)
Lemma W_pos : 0 < W. Proof. unfold W; lia. Qed.

Lemma sub64_zero a : a < W -> sub64 a 0 = a.
Proof.
  intros H. unfold sub64. rewrite N.sub_0_r.
  replace (a + W) with (a + 1 * W) by lia.
  rewrite N.mod_add by (unfold W; lia). apply N.mod_small; exact H.
Qed.

Lemma add64_small a b : a + b < W -> add64 a b = a + b.
Proof. intros H. unfold add64. apply N.mod_small; exact H. Qed.

(* ---------- c4 helpers ---------- *)
Definition c4_le (a b : c4) : Prop :=
  rxb a <= rxb b /\ txb a <= txb b /\ rxp a <= rxp b /\ txp a <= txp b.
Definition c4_lt_W (a : c4) : Prop := rxb a < W /\ txb a < W /\ rxp a < W /\ txp a < W.

Lemma c4_leb_spec a b : c4_leb a b = true <-> c4_le a b.
Proof. unfold c4_leb, c4_le. rewrite !andb_true_iff, !N.leb_le. tauto. Qed.

Lemma c4_leb_refl a : c4_leb a a = true.
Proof. apply c4_leb_spec. unfold c4_le. lia. Qed.

Lemma c4_any2_false f a b :
  c4_any2 f a b = false ->
  f (rxb a) (rxb b) = false /\ f (txb a) (txb b) = false /\
  f (rxp a) (rxp b) = false /\ f (txp a) (txp b) = false.
Proof.
  unfold c4_any2. intros H.
  apply orb_false_elim in H as [H H4]. apply orb_false_elim in H as [H H3].
  apply orb_false_elim in H as [H1 H2]. auto.
Qed.

Lemma c4_norm_lt a : c4_lt_W (c4_norm a).
Proof.
  unfold c4_lt_W, c4_norm; cbn [rxb txb rxp txp].
  repeat split; apply N.mod_lt; unfold W; lia.
Qed.

Lemma lookup_last_lt l i acc st :
  (forall c, acc = Some c -> c4_lt_W c) -> lookup_last l i acc = Some st -> c4_lt_W st.
Proof.
  revert acc. induction l as [|[j c] r IH]; intros acc Ha H; cbn [lookup_last] in H.
  - apply Ha; exact H.
  - eapply IH; [|exact H]. intros c0 Hc. destruct (N.eqb i j).
    + inversion Hc; subst. apply c4_norm_lt.
    + apply Ha; exact Hc.
Qed.

Lemma lookup_stats_lt sn i st : lookup_stats sn i = Some st -> c4_lt_W st.
Proof.
  unfold lookup_stats. destruct sn as [l|]; [|discriminate].
  apply lookup_last_lt. intros c H; discriminate.
Qed.

Lemma lookup_l2_last_lt l i : forall acc x,
  (forall y, acc = Some y -> fst y < W /\ snd y < W) -> lookup_l2_last l i acc = Some x -> fst x < W /\ snd x < W.
Proof.
  induction l as [|[j [b p]] r IH]; intros acc x Ha H; cbn [lookup_l2_last] in H.
  - apply Ha; exact H.
  - eapply IH; [|exact H]. intros y Hy. destruct (N.eqb i j).
    + inversion Hy; subst; cbn. split; apply N.mod_lt; unfold W; lia.
    + apply Ha; exact Hy.
Qed.

Lemma lookup_l2_lt sn i x : lookup_l2 sn i = Some x -> fst x < W /\ snd x < W.
Proof.
  unfold lookup_l2. destruct sn as [l|]; [|discriminate].
  apply lookup_l2_last_lt. intros y H; discriminate.
Qed.

Lemma reading_lt v g tick e sn st : reading v g tick e sn = Some st -> c4_lt_W st.
Proof.
  unfold reading. destruct (g && (tick || fix_l2stop v)).
  - unfold l2_reading.
    destruct (lookup_l2 (l2 sn) (ifx e)) as [u|] eqn:U; destruct (lookup_l2 (l2 sn) (hfx e)) as [d|] eqn:D;
      intros H; inversion H; subst; unfold c4_lt_W; cbn [rxb txb rxp txp fst snd];
      try (pose proof (lookup_l2_lt _ _ _ U) as [? ?]); try (pose proof (lookup_l2_lt _ _ _ D) as [? ?]);
      pose proof W_pos; repeat split; auto.
  - apply lookup_stats_lt.
Qed.

(* ---------- applyVPPCounters: never below the floor (last reported; with fix_sent also last sent) ---------- *)
Lemma floor_ge_last v e : c4_le (last e) (floor v e).
Proof.
  unfold floor. destruct (fix_sent v); unfold c4_le, c4_max, c4_map2; cbn [rxb txb rxp txp]; lia.
Qed.
Lemma floor_ge_hw v e : fix_sent v = true -> c4_le (hw e) (floor v e).
Proof.
  intros H. unfold floor. rewrite H. unfold c4_le, c4_max, c4_map2; cbn [rxb txb rxp txp]; lia.
Qed.

Lemma rebase_fields v e st :
  ifx (rebase v e st) = ifx e /\ last (rebase v e st) = last e /\ pending (rebase v e st) = pending e /\
  hw (rebase v e st) = hw e /\ hfx (rebase v e st) = hfx e.
Proof. unfold rebase. destruct (regressed v e st); cbn; auto. Qed.

Lemma apply_ge v e st :
  fix_counters v = true -> c4_lt_W st -> apply_wraps v e st = false ->
  c4_le (floor v e) (snd (apply v e st)).
Proof.
  intros FC (L1 & L2 & L3 & L4) Hw. unfold apply, apply_wraps in *. cbn [snd].
  unfold rebase in *. destruct (regressed v e st) eqn:R.
  - (* regress: cumulative = reading + floor, which did not wrap *)
    apply orb_false_elim in Hw as [_ Hw].
    apply c4_any2_false in Hw as (H1 & H2 & H3 & H4).
    set (F := floor v e) in *.
    cbn [base prior c4_map2 rxb txb rxp txp c4z] in H1, H2, H3, H4.
    rewrite N.leb_gt, N.sub_0_r in H1, H2, H3, H4.
    unfold cum, c4_le; cbn [base prior c4_map2 rxb txb rxp txp c4z].
    rewrite !sub64_zero by assumption. rewrite !add64_small by assumption. lia.
  - (* no regress: the test itself says cumulative >= floor *)
    unfold regressed in R. apply orb_false_elim in R as [_ R].
    rewrite FC in R. cbn [andb] in R.
    apply c4_any2_false in R as (H1 & H2 & H3 & H4).
    rewrite N.ltb_ge in H1, H2, H3, H4. unfold c4_le. auto.
Qed.

Lemma c4_le_trans a b c : c4_le a b -> c4_le b c -> c4_le a c.
Proof. unfold c4_le. lia. Qed.

Lemma report_ge_floor v g tick e sn :
  fix_counters v = true -> report_wraps v g tick e sn = false ->
  c4_le (floor v e) (snd (report v g tick e sn)).
Proof.
  intros FC. unfold report, report_wraps. destruct (reading v g tick e sn) as [st|] eqn:L.
  - intros Hw. apply apply_ge; [exact FC | eapply reading_lt; exact L | exact Hw].
  - intros _. cbn. unfold c4_le. lia.
Qed.

Lemma report_ge v g tick e sn :
  fix_counters v = true -> report_wraps v g tick e sn = false ->
  c4_le (last e) (snd (report v g tick e sn)).
Proof.
  intros FC Hw. eapply c4_le_trans; [apply floor_ge_last | apply report_ge_floor; assumption].
Qed.

Lemma report_fields v g tick e sn :
  ifx (fst (report v g tick e sn)) = ifx e /\ last (fst (report v g tick e sn)) = last e /\
  pending (fst (report v g tick e sn)) = pending e /\ hw (fst (report v g tick e sn)) = hw e.
Proof.
  unfold report. destruct (reading v g tick e sn); cbn [fst apply].
  - destruct (rebase_fields v e c) as (A & B & C & D & _). auto.
  - auto.
Qed.

Lemma c4_le_refl' a : c4_le a a. Proof. unfold c4_le; lia. Qed.

(* ---------- coupling between the component state and the monitor's ledger ---------- *)
Section Conformance.
Variables fs fo fl fp : bool.
Local Notation vv := (V fs fo fl fp).

Definition coupled (s : sst) (m : mst) : Prop :=
  match cache s with
  | None => db s = None /\ inb s = false /\ m = mst0
  | Some e =>
      m_open m = true /\ m_ack m = last e /\ m_pend m = pending e /\ inb s = negb (pending e) /\
      (fs = true -> m_sent m = hw e) /\
      match db s with
      | Some d => m_pers m = true /\ last d = last e /\ hw d = hw e
      | None => m_pers m = false
      end
  end.

Lemma coupled_init : coupled sst0 mst0.
Proof. unfold coupled; cbn; auto. Qed.

Lemma ge_floor_intro m c e :
  m_ack m = last e -> (fs = true -> m_sent m = hw e) -> c4_le (floor vv e) c -> ge_floor fs m c = true.
Proof.
  intros A S F. unfold ge_floor. apply andb_true_iff; split.
  - rewrite A. apply c4_leb_spec. eapply c4_le_trans; [apply floor_ge_last|exact F].
  - destruct (negb fs) eqn:NF; [reflexivity|]. cbn [orb].
    assert (E : fs = true) by (apply negb_false_iff; exact NF).
    rewrite (S E). apply c4_leb_spec.
    eapply c4_le_trans; [apply (floor_ge_hw vv e); cbn; exact E | exact F].
Qed.

Ltac fin := cbn [cache db inb m_open m_ack m_pend m_pers m_sent last hw pending negb] in *; repeat split; intuition (try discriminate; auto).

Lemma step_conforms g s m ev :
  coupled s m -> lstep_wraps vv g s ev = false ->
  exists m', mon_step fs fp m ev (snd (lstep vv g s ev)) = Some m' /\ coupled (fst (lstep vv g s ev)) m'.
Proof.
  intros C Hw. unfold coupled in C.
  destruct s as [ib ca d oo]. cbn [cache db inb] in C.
  destruct ca as [e|].
  - destruct C as (Ho & Ha & Hp & Hi & Hs & Hd). subst ib.
    destruct m as [mo mp mq ma ms]. cbn [m_open m_ack m_pend m_pers m_sent] in *. subst mo ma mq.
    destruct ev as [i h|i h|sn|sn ok| | |lk| |past]; cbn [lstep lstep_wraps cache inb db] in *.
    + (* Active *)
      destruct (pending e) eqn:P; cbn [negb fix_active V fst snd mon_step m_open].
      * eexists; split; [reflexivity|]. unfold coupled, confirm; cbn. destruct d; fin.
      * eexists; split; [reflexivity|]. unfold coupled; cbn [cache db inb]. rewrite P. destruct d; fin.
    + (* Restored *)
      cbn [fst snd mon_step m_open]. eexists; split; [reflexivity|].
      unfold coupled, confirm; cbn. destruct d; fin.
    + (* Released *)
      cbn [fst snd mon_step m_open].
      pose proof (report_ge_floor vv g false e sn eq_refl Hw) as G.
      rewrite (ge_floor_intro (Mst true mp (pending e) (last e) ms) _ e eq_refl Hs G).
      eexists; split; [reflexivity|]. unfold coupled; cbn; auto.
    + (* Tick *)
      destruct (pending e) eqn:P; cbn [negb] in *.
      * cbn [fst snd mon_step m_open m_pend andb negb]. eexists; split; [reflexivity|].
        unfold coupled; cbn [cache db inb]. rewrite P. destruct d; fin.
      * cbn [andb] in Hw.
        pose proof (report_ge_floor vv g true e sn eq_refl Hw) as G.
        pose proof (report_fields vv g true e sn) as (F1 & F2 & F3 & F4).
        destruct (report vv g true e sn) as [e0 c] eqn:RP. cbn [fst snd] in *.
        pose proof (ge_floor_intro (Mst true mp false (last e) ms) c e eq_refl Hs G) as GF.
        cbn [fix_sent V].
        assert (EF : fs = true \/ fs = false) by (clear; destruct fs; auto).
        destruct ok; destruct EF as [EF|EF]; rewrite EF in *;
          cbn [fst snd mon_step m_open m_pend m_pers m_ack andb negb orb Bool.eqb]; rewrite GF;
          (eexists; split; [reflexivity|]); unfold coupled; rewrite ?EF; cbn;
          rewrite ?F2, ?F3, ?F4, ?P, ?orb_true_r, ?orb_false_r; cbn [negb]; try (destruct d; fin); fin.
    + (* late Accounting-Response *)
      cbn [fst snd mon_step m_open].
      assert (EF : fs = true \/ fs = false) by (clear; destruct fs; auto).
      destruct EF as [EF|EF]; rewrite EF in *; (eexists; split; [reflexivity|]);
        unfold coupled, floor; rewrite ?EF; cbn; try rewrite (Hs eq_refl); destruct d; fin.
    + (* the outstanding request failed: checkpoint of the cached session (fix_sent) *)
      cbn [fst snd mon_step m_open fix_sent V].
      assert (EF : fs = true \/ fs = false) by (clear; destruct fs; auto).
      destruct EF as [EF|EF]; rewrite EF in *; cbn [andb fst snd]; (eexists; split; [reflexivity|]);
        unfold coupled; rewrite ?EF; cbn; destruct d; fin.
    + (* late response for the detached object of an earlier release: with fix_ghost no checkpoint is written *)
      cbn [orph]. destruct oo; cbn [fix_ghost V fst snd mon_step];
        (eexists; split; [reflexivity|]); unfold coupled; cbn; destruct d; fin.
    + (* Restart *)
      cbn [fst snd mon_step m_open andb]. destruct d as [dd|]; cbn in Hd.
      * destruct Hd as (Hd1 & Hd2 & Hd3). subst mp. eexists; split; [reflexivity|].
        unfold coupled; cbn. repeat split; auto. intros E. rewrite Hd3. auto.
      * subst mp. eexists; split; [reflexivity|]. unfold coupled; cbn. auto.
    + (* Prune *)
      destruct (pending e) eqn:P; destruct past; cbn [andb negb fst snd mon_step m_open m_pend fix_prune V];
        try ((eexists; split; [reflexivity|]); unfold coupled; cbn [cache db inb]; rewrite ?P; try (destruct d; fin); fin).
      (* the orphan is dropped: with fix_prune a Stop at the floor closes it *)
      assert (EP : fp = true \/ fp = false) by (clear; destruct fp; auto).
      pose proof (ge_floor_intro (Mst true mp true (last e) ms) _ e eq_refl Hs (c4_le_refl' _)) as GF.
      destruct EP as [EP|EP]; rewrite EP in *; cbn [fst snd].
      * rewrite GF. eexists; split; [reflexivity|]. unfold coupled; cbn; auto.
      * eexists; split; [reflexivity|]. unfold coupled; cbn; auto.
  - destruct C as (Hd & Hi & Hm). subst d ib m.
    destruct ev as [i h|i h|sn|sn ok| | |lk| |past]; cbn [lstep lstep_wraps cache inb db orph fst snd mon_step m_open mst0 fix_stop fix_ghost V andb];
      try destruct oo; cbn [fst snd mon_step fix_ghost V];
      eexists; (split; [reflexivity|]); unfold coupled; cbn; repeat split; auto; discriminate.
Qed.

Lemma run_conforms g evs : forall s m,
  coupled s m -> lrun_wraps vv g s evs = false ->
  exists m', mon_run fs fp m (snd (lrun vv g s evs)) = Some m'.
Proof.
  induction evs as [|ev r IH]; intros s m C Hw; cbn [lrun lrun_wraps] in *.
  - eexists; reflexivity.
  - apply orb_false_elim in Hw as [Hw1 Hw2].
    destruct (step_conforms g s m ev C Hw1) as (m1 & M1 & C1).
    destruct (lstep vv g s ev) as [s1 o] eqn:E. cbn [fst snd] in *.
    destruct (IH s1 m1 C1 Hw2) as (m2 & M2).
    destruct (lrun vv g s1 r) as [s2 t] eqn:E2. cbn [snd mon_run] in *.
    rewrite M1. eexists; exact M2.
Qed.

Lemma conforms g evs :
  lrun_wraps vv g sst0 evs = false -> accepted fs fp (snd (lrun vv g sst0 evs)) = true.
Proof.
  intros Hw. unfold accepted.
  destruct (run_conforms g evs sst0 mst0 coupled_init Hw) as (m' & M). rewrite M. reflexivity.
Qed.
End Conformance.

Lemma lrun_events v g evs : forall s, map fst (snd (lrun v g s evs)) = evs.
Proof.
  induction evs as [|ev r IH]; intros s; cbn [lrun]; [reflexivity|].
  destruct (lstep v g s ev) as [s1 o]. specialize (IH s1).
  destruct (lrun v g s1 r) as [s2 t]. cbn in *. f_equal. exact IH.
Qed.

(* ---------- what acceptance by the monitor means for the plain call stream ---------- *)
Ltac break_if H :=
  repeat match type of H with
  | context [if ?x then _ else _] => let E := fresh "E" in destruct x eqn:E; try discriminate
  | context [match ?x with _ => _ end] => let E := fresh "E" in destruct x eqn:E; try discriminate
  end.

Ltac norm_hyps := repeat match goal with
  | H : _ && _ = true |- _ => apply andb_true_iff in H; destruct H
  | H : Bool.eqb _ _ = true |- _ => apply Bool.eqb_prop in H; subst
  | H : negb _ = true |- _ => apply negb_true_iff in H; subst
  end.

Lemma ge_floor_ack fs m c : ge_floor fs m c = true -> c4_leb (m_ack m) c = true.
Proof. unfold ge_floor. rewrite andb_true_iff. tauto. Qed.
Lemma ge_floor_sent m c : ge_floor true m c = true -> c4_leb (m_sent m) c = true.
Proof. unfold ge_floor. rewrite andb_true_iff. cbn. tauto. Qed.

Ltac mon_start t IH M NP Hi St :=
  induction t as [|[ev o] r IH]; intros m m' x M NP Hi; [reflexivity|];
  cbn [mon_run] in M; destruct (mon_step _ _ m ev o) as [m1|] eqn:St; [|discriminate];
  cbn [map fst no_prune never_restored forallb] in NP;
  unfold outputs in *; cbn [flat_map snd];
  destruct m as [mo mp mq ma ms];
  destruct ev as [i h|i h|sn|sn ok| | |lk| |past]; cbn [mon_step m_open m_pers m_pend m_ack m_sent] in St;
  break_if St; inversion St; subst; clear St.

Ltac no_prune_case :=
  try (match goal with H : (if ?p then false else true) = true |- _ => destruct p; [discriminate H|] end);
  try (match goal with H : _ && false = true |- _ => rewrite andb_false_r in H; discriminate H end).

(* a Start is only ever sent when the ledger is closed; inside => open and persisted *)
Lemma mon_bracketed fs fp t : forall m m' inside,
  mon_run fs fp m t = Some m' -> no_prune (map fst t) = true ->
  (inside = true -> m_open m = true /\ m_pers m = true) ->
  bracketed inside (outputs t) = true.
Proof.
  mon_start t IH HM NP Hi St; apply andb_true_iff in NP as [NP1 NP2]; try discriminate; no_prune_case;
  cbn [app bracketed];
  try (destruct x; [destruct (Hi eq_refl); discriminate|]);
  (eapply IH; [exact HM|exact NP2|]); cbn [m_open m_pers]; intros Hx; try discriminate;
  try (destruct (Hi Hx) as [I1 I2]; cbn [m_open m_pers] in I1, I2); subst;
  try discriminate; rewrite ?orb_true_l, ?orb_true_r; auto.
Qed.

(* Stops: not armed => the ledger is closed *)
Lemma mon_stops fs fp t : forall m m' armed,
  mon_run fs fp m t = Some m' -> True -> (armed = false -> m_open m = false) -> stops_ok armed t = true.
Proof.
  induction t as [|[ev o] r IH]; intros m m' x HM _ Hi; [reflexivity|].
  cbn [mon_run] in HM. destruct (mon_step _ _ m ev o) as [m1|] eqn:St; [|discriminate].
  cbn [stops_ok]. destruct m as [mo mp mq ma ms].
  destruct ev as [i h|i h|sn|sn ok| | |lk| |past]; cbn [mon_step m_open m_pers m_pend m_ack m_sent] in St;
  break_if St; inversion St; subst; clear St; norm_hyps; subst; cbn [filter length Nat.eqb Nat.leb andb];
  try (destruct x; [|specialize (Hi eq_refl); discriminate]); cbn [Nat.leb Nat.eqb andb];
  try (destruct x; cbn [Nat.leb Nat.eqb andb]);
  (eapply IH; [exact HM|exact I|]); cbn [m_open]; intros Hx; try discriminate; try reflexivity;
  try (specialize (Hi Hx); cbn [m_open] in Hi); subst; try discriminate; auto;
  try (match goal with H : true && _ = _ |- _ => cbn in H end); try discriminate.
Qed.

(* acknowledged floor: open => prev <= the acknowledged value (zero while nothing is persisted); closed => prev = 0 *)
Definition mono_inv (m : mst) (prev : c4) : Prop :=
  if m_open m then c4_le prev (m_ack m) /\ (m_pers m = false -> m_ack m = c4z) else prev = c4z.

Lemma c4_le_z x : c4_le x c4z -> x = c4z.
Proof. destruct x; unfold c4_le, c4z; cbn. intros (A & B & C & D). f_equal; lia. Qed.
Lemma c4_leb_le_trans x a c : c4_le x a -> c4_leb a c = true -> c4_leb x c = true.
Proof. intros H1 H2. apply c4_leb_spec in H2. apply c4_leb_spec. eapply c4_le_trans; eassumption. Qed.
Lemma c4_max_ge_l a b : c4_le a (c4_max a b).
Proof. unfold c4_le, c4_max, c4_map2; cbn [rxb txb rxp txp]; lia. Qed.
Lemma mon_monotone fs fp t : forall m m' prev,
  mon_run fs fp m t = Some m' -> no_prune (map fst t) = true -> mono_inv m prev ->
  nondecreasing prev (outputs t) = true.
Proof.
  mon_start t IH HM NP Hi St; apply andb_true_iff in NP as [NP1 NP2]; try discriminate; no_prune_case; norm_hyps;
  unfold mono_inv in Hi; cbn [m_open m_ack m_pers] in Hi;
  cbn [app nondecreasing];
  try (match goal with H : ge_floor _ _ _ = true |- _ => pose proof (ge_floor_ack _ _ _ H) as GA; cbn [m_ack] in GA end);
  try (match goal with |- c4_leb _ _ && _ = true =>
         let Hi1 := fresh "Hi1" in let Hi2 := fresh "Hi2" in
         pose proof Hi as [Hi1 Hi2]; rewrite (c4_leb_le_trans _ _ _ Hi1 GA); cbn [andb] end);
  (eapply IH; [exact HM|exact NP2|]); unfold mono_inv; cbn [m_open m_ack m_pers];
  repeat match goal with b : bool |- _ => destruct b end; cbn [orb andb] in *; try discriminate;
  try (destruct Hi as [Hi1 Hi2]);
  try reflexivity;
  try (split; [first [exact Hi1 | apply c4_le_refl' | eapply c4_le_trans; [exact Hi1|apply c4_max_ge_l]]
              | intros; try discriminate; auto]);
  try (apply c4_le_z; rewrite <- (Hi2 eq_refl); exact Hi1); auto.
Qed.

(* sent floor (fix_sent): open => prev is the last value sent (zero while nothing is persisted); closed => 0 *)
Definition sent_inv (m : mst) (prev : c4) : Prop :=
  if m_open m then prev = m_sent m /\ (m_pers m = false -> m_sent m = c4z) else prev = c4z.

Lemma mon_monotone_sent fp t : forall m m' prev,
  mon_run true fp m t = Some m' -> no_prune (map fst t) = true -> sent_inv m prev ->
  nondecreasing_sent prev (outputs t) = true.
Proof.
  mon_start t IH HM NP Hi St; apply andb_true_iff in NP as [NP1 NP2]; try discriminate; no_prune_case; norm_hyps;
  unfold sent_inv in Hi; cbn [m_open m_sent m_pers] in Hi;
  cbn [app nondecreasing_sent];
  try (match goal with H : ge_floor _ _ _ = true |- _ => pose proof (ge_floor_sent _ _ H) as GA; cbn [m_sent] in GA end);
  try (destruct Hi as [Hi1 Hi2]; subst x); rewrite ?GA; cbn [andb];
  (eapply IH; [exact HM|exact NP2|]); unfold sent_inv; cbn [m_open m_sent m_pers];
  repeat match goal with b : bool |- _ => destruct b end; cbn; auto; try discriminate;
  try (split; [reflexivity|intros; try discriminate; auto]);
  try (destruct Hi as [Hi1 Hi2]; rewrite Hi1; auto).
Qed.

(* a never-restored session: the stream is strictly bracketed; opened <-> the ledger is open (and then persisted) *)
Lemma mon_strict fs fp t : forall m m' opened,
  mon_run fs fp m t = Some m' -> no_prune (map fst t) && never_restored (map fst t) = true ->
  (opened = m_open m /\ (m_open m = true -> m_pers m = true)) ->
  strict opened (outputs t) = true.
Proof.
  induction t as [|[ev o] r IH]; intros m m' x HM NP Hi; [reflexivity|].
  cbn [mon_run] in HM. destruct (mon_step _ _ m ev o) as [m1|] eqn:St; [|discriminate].
  apply andb_true_iff in NP as [NPa NPb].
  cbn [map fst no_prune never_restored forallb] in NPa, NPb.
  apply andb_true_iff in NPa as [NP1 NPa]. apply andb_true_iff in NPb as [NR1 NPb].
  unfold outputs in *. cbn [flat_map snd]. destruct m as [mo mp mq ma ms].
  destruct Hi as [Hi1 Hi2]. cbn [m_open m_pers m_pend] in Hi1, Hi2. subst x.
  destruct ev as [i h|i h|sn|sn ok| | |lk| |past]; cbn [mon_step m_open m_pers m_pend m_ack m_sent] in St;
  try discriminate; break_if St; inversion St; subst; clear St; no_prune_case; norm_hyps;
  try (specialize (Hi2 eq_refl)); subst;
  cbn [app strict andb];
  try (match goal with H : true && _ = false |- _ => cbn [andb] in H end); try discriminate;
  try (match goal with H : ?a && ?b = false, H2 : ?a = true -> ?b = true |- _ =>
         destruct a; [rewrite (H2 eq_refl) in H; discriminate H|] end);
  (eapply IH; [exact HM| apply andb_true_iff; split; [exact NPa|exact NPb] |]); cbn [m_open m_pers m_pend];
  (split; [reflexivity| intros; try discriminate; rewrite ?orb_true_l, ?orb_true_r; auto]).
Qed.

(* ---------- the same with fix_prune: a pruned orphan is closed with a Stop, no hypothesis about pruning ---------- *)
Ltac mon_start0 t IH M Hi St :=
  induction t as [|[ev o] r IH]; intros m m' x M Hi; [reflexivity|];
  cbn [mon_run] in M; destruct (mon_step _ _ m ev o) as [m1|] eqn:St; [|discriminate];
  unfold outputs in *; cbn [flat_map snd];
  destruct m as [mo mp mq ma ms];
  destruct ev as [i h|i h|sn|sn ok| | |lk| |past]; cbn [mon_step m_open m_pers m_pend m_ack m_sent] in St;
  break_if St; inversion St; subst; clear St.

Lemma mon_bracketed_p fs t : forall m m' inside,
  mon_run fs true m t = Some m' ->
  (inside = true -> m_open m = true /\ m_pers m = true) ->
  bracketed inside (outputs t) = true.
Proof.
  mon_start0 t IH HM Hi St; try discriminate;
  cbn [app bracketed];
  try (destruct x; [destruct (Hi eq_refl); discriminate|]);
  (eapply IH; [exact HM|]); cbn [m_open m_pers]; intros Hx; try discriminate;
  try (destruct (Hi Hx) as [I1 I2]; cbn [m_open m_pers] in I1, I2); subst;
  try discriminate; rewrite ?orb_true_l, ?orb_true_r; auto.
Qed.

Lemma mon_monotone_sent_p t : forall m m' prev,
  mon_run true true m t = Some m' -> sent_inv m prev ->
  nondecreasing_sent prev (outputs t) = true.
Proof.
  mon_start0 t IH HM Hi St; try discriminate; norm_hyps; subst;
  unfold sent_inv in Hi; cbn [m_open m_sent m_pers] in Hi;
  cbn [app nondecreasing_sent];
  try (match goal with H : ge_floor _ _ _ = true |- _ => pose proof (ge_floor_sent _ _ H) as GA; cbn [m_sent] in GA end);
  try (destruct Hi as [Hi1 Hi2]; subst x); rewrite ?GA; cbn [andb];
  (eapply IH; [exact HM|]); unfold sent_inv; cbn [m_open m_sent m_pers];
  repeat match goal with b : bool |- _ => destruct b end; cbn; auto; try discriminate;
  try (split; [reflexivity|intros; try discriminate; auto]);
  try (destruct Hi as [Hi1 Hi2]; rewrite Hi1; auto).
Qed.

(* the bracket WITH restore (fix_sent): BOpen => ledger open and persisted; BClosed => ledger closed *)
Definition strict_inv (b : bstate) (m : mst) : Prop :=
  match b with
  | BOpen => m_open m = true /\ m_pers m = true
  | BClosed => m_open m = false
  | BQuiet => True
  end.

Lemma mon_strictT fp t : forall m m' b,
  mon_run true fp m t = Some m' -> (fp = true \/ no_prune (map fst t) = true) -> strict_inv b m ->
  strictT b t = true.
Proof.
  induction t as [|[ev o] r IH]; intros m m' b HM NPo Hi; [reflexivity|].
  cbn [mon_run] in HM. destruct (mon_step _ _ m ev o) as [m1|] eqn:St; [|discriminate].
  assert (NPr : fp = true \/ no_prune (map fst r) = true).
  { destruct NPo as [A|A]; [left; exact A|right]. cbn [map fst no_prune forallb] in A.
    apply andb_true_iff in A as [_ A]. exact A. }
  assert (NP1 : fp = true \/ match ev with EPrune true => false | _ => true end = true).
  { destruct NPo as [A|A]; [left; exact A|right]. cbn [map fst no_prune forallb] in A.
    apply andb_true_iff in A as [A _]. exact A. }
  cbn [strictT]. destruct m as [mo mp mq ma ms].
  destruct ev as [i h|i h|sn|sn ok| | |lk| |past]; cbn [mon_step m_open m_pers m_pend m_ack m_sent] in St;
  break_if St; inversion St; subst; clear St;
  destruct b; cbn [strict_inv m_open m_pers] in Hi;
  repeat match goal with x : bool |- _ => destruct x end;
  cbn [andb negb orb Bool.eqb] in *; try congruence;
  try (match type of Hi with _ /\ _ => destruct Hi as [Hi1 Hi2] end); try congruence;
  cbn [strict_calls];
  try (destruct NP1 as [NP1|NP1]; congruence);
  try reflexivity;
  (eapply IH; [exact HM|exact NPr|]); cbn [strict_inv m_open m_pers]; auto.
Qed.

(* ---------- the plain statements, uniform in fix_sent / fix_order / fix_l2stop (/repo HEAD = V true false true) ---------- *)
Lemma accepted_run fs fp t : accepted fs fp t = true -> exists m', mon_run fs fp mst0 t = Some m'.
Proof. unfold accepted. destruct (mon_run fs fp mst0 t); [eauto|discriminate]. Qed.

Section Plain.
Variables fs fo fl fp : bool.
Local Notation vv := (V fs fo fl fp).

Lemma start_once g evs :
  lrun_wraps vv g sst0 evs = false -> no_prune evs = true ->
  bracketed false (outputs (snd (lrun vv g sst0 evs))) = true.
Proof.
  intros Hw NP. destruct (accepted_run _ _ _ (conforms fs fo fl fp g evs Hw)) as (m' & M).
  eapply mon_bracketed; [exact M| rewrite lrun_events; exact NP | discriminate].
Qed.

Lemma stop_once g evs :
  lrun_wraps vv g sst0 evs = false ->
  stops_ok false (snd (lrun vv g sst0 evs)) = true.
Proof.
  intros Hw. destruct (accepted_run _ _ _ (conforms fs fo fl fp g evs Hw)) as (m' & M).
  eapply mon_stops; [exact M | exact I | reflexivity].
Qed.

Lemma monotone g evs :
  lrun_wraps vv g sst0 evs = false -> no_prune evs = true ->
  nondecreasing c4z (outputs (snd (lrun vv g sst0 evs))) = true.
Proof.
  intros Hw NP. destruct (accepted_run _ _ _ (conforms fs fo fl fp g evs Hw)) as (m' & M).
  eapply mon_monotone; [exact M| rewrite lrun_events; exact NP | unfold mono_inv; cbn; reflexivity].
Qed.

Lemma strict_issued g evs :
  lrun_wraps vv g sst0 evs = false -> no_prune evs = true -> never_restored evs = true ->
  strict false (outputs (snd (lrun vv g sst0 evs))) = true.
Proof.
  intros Hw NP NR. destruct (accepted_run _ _ _ (conforms fs fo fl fp g evs Hw)) as (m' & M).
  eapply mon_strict; [exact M| rewrite lrun_events, NP, NR; reflexivity | cbn; split; [reflexivity|discriminate]].
Qed.
End Plain.

(* the bracket WITH restore, at /repo HEAD (fix_sent); no hypothesis on pruning when orphans are closed with a Stop *)
Lemma strict_restore fo fl fp g evs :
  lrun_wraps (V true fo fl fp) g sst0 evs = false -> (fp = true \/ no_prune evs = true) ->
  strictT BClosed (snd (lrun (V true fo fl fp) g sst0 evs)) = true.
Proof.
  intros Hw NP. destruct (accepted_run _ _ _ (conforms true fo fl fp g evs Hw)) as (m' & M).
  eapply mon_strictT; [exact M| rewrite lrun_events; exact NP | reflexivity].
Qed.

Lemma start_once_p fs fo fl g evs :
  lrun_wraps (V fs fo fl true) g sst0 evs = false ->
  bracketed false (outputs (snd (lrun (V fs fo fl true) g sst0 evs))) = true.
Proof.
  intros Hw. destruct (accepted_run _ _ _ (conforms fs fo fl true g evs Hw)) as (m' & M).
  eapply mon_bracketed_p; [exact M | discriminate].
Qed.

Lemma monotone_sent_p fo fl g evs :
  lrun_wraps (V true fo fl true) g sst0 evs = false ->
  nondecreasing_sent c4z (outputs (snd (lrun (V true fo fl true) g sst0 evs))) = true.
Proof.
  intros Hw. destruct (accepted_run _ _ _ (conforms true fo fl true g evs Hw)) as (m' & M).
  eapply mon_monotone_sent_p; [exact M | unfold sent_inv; cbn; reflexivity].
Qed.

(* with the high-water mark of sent values: never below the last report SENT *)
Lemma monotone_sent fo fl fp g evs :
  lrun_wraps (V true fo fl fp) g sst0 evs = false -> no_prune evs = true ->
  nondecreasing_sent c4z (outputs (snd (lrun (V true fo fl fp) g sst0 evs))) = true.
Proof.
  intros Hw NP. destruct (accepted_run _ _ _ (conforms true fo fl fp g evs Hw)) as (m' & M).
  eapply mon_monotone_sent; [exact M| rewrite lrun_events; exact NP | unfold sent_inv; cbn; reflexivity].
Qed.

(* without it (HEAD): the same, as long as every Interim was acknowledged *)
Definition interims_acked (l : list out) : bool :=
  forallb (fun o => match o with Interim _ false => false | _ => true end) l.

Lemma sent_eq_acked l : forall prev,
  interims_acked l = true -> nondecreasing_sent prev l = nondecreasing prev l.
Proof.
  induction l as [|o r IH]; intros prev H; [reflexivity|].
  cbn [interims_acked forallb] in H. apply andb_true_iff in H as [H1 H2].
  destruct o as [|c k|c]; cbn [nondecreasing_sent nondecreasing].
  - apply IH; exact H2.
  - destruct k; [|discriminate]. rewrite (IH c H2). reflexivity.
  - rewrite (IH c4z H2). reflexivity.
Qed.

Lemma lstep_interims_acked v g s ev :
  match ev with ETick _ false => False | _ => True end -> interims_acked (snd (lstep v g s ev)) = true.
Proof.
  destruct ev as [i h|i h|sn|sn ok| | |lk| |past]; intros H; cbn [lstep].
  - destruct (inb s); [reflexivity|]. destruct (cache s); [destruct (fix_active v)|]; reflexivity.
  - destruct (cache s); reflexivity.
  - destruct (cache s); [reflexivity|]. destruct (fix_stop v); reflexivity.
  - destruct ok; [|contradiction]. destruct (inb s); [|reflexivity]. destruct (cache s) as [e|]; [|reflexivity].
    destruct (report v g true e sn). reflexivity.
  - destruct (cache s); reflexivity.
  - destruct (cache s); [destruct (fix_sent v)|]; reflexivity.
  - destruct (orph s); [destruct (fix_ghost v)|]; reflexivity.
  - reflexivity.
  - destruct (cache s) as [e|]; [|reflexivity]. destruct (pending e && past); [destruct (fix_prune v)|]; reflexivity.
Qed.

Lemma interims_acked_app a b : interims_acked (a ++ b) = interims_acked a && interims_acked b.
Proof. unfold interims_acked. apply forallb_app. Qed.

Lemma lrun_interims_acked v g evs : forall s,
  all_acked evs = true -> interims_acked (outputs (snd (lrun v g s evs))) = true.
Proof.
  induction evs as [|ev r IH]; intros s H; [reflexivity|].
  cbn [all_acked forallb] in H. apply andb_true_iff in H as [H1 H2].
  cbn [lrun]. pose proof (lstep_interims_acked v g s ev) as L.
  destruct (lstep v g s ev) as [s1 o]. specialize (IH s1 H2).
  destruct (lrun v g s1 r) as [s2 t]. unfold outputs in *. cbn [snd flat_map] in *.
  rewrite interims_acked_app, IH, andb_true_r. apply L.
  destruct ev as [| | |sn ok| | | | |]; auto. destruct ok; [auto|discriminate].
Qed.

Lemma monotone_sent_if_acked fs fo fl fp g evs :
  lrun_wraps (V fs fo fl fp) g sst0 evs = false -> no_prune evs = true -> all_acked evs = true ->
  nondecreasing_sent c4z (outputs (snd (lrun (V fs fo fl fp) g sst0 evs))) = true.
Proof.
  intros Hw NP AA. rewrite sent_eq_acked by (apply lrun_interims_acked; exact AA).
  apply monotone; assumption.
Qed.

(* ---------- asynchronous delivery ---------- *)
Lemma issue_ordered v hs : fix_order v = true -> forall os held,
  (held = [] -> snd (issue v hs held os) ++ fst (issue v hs held os) = os) /\
  (held <> [] -> snd (issue v hs held os) = [] /\ fst (issue v hs held os) = held ++ os).
Proof.
  intros FO. induction os as [|o r IH]; intros held; cbn [issue].
  - split; intros H; cbn; [subst; reflexivity | rewrite app_nil_r; auto].
  - unfold issue1. rewrite FO.
    destruct held as [|h0 hr].
    + cbn [is_nil negb orb]. destruct (delayed hs o).
      * destruct (IH ([] ++ [o])) as [_ B]. destruct (issue v hs ([] ++ [o]) r) as [h2 a2] eqn:E. cbn [fst snd] in *.
        destruct (B ltac:(discriminate)) as [B1 B2]. subst. split; [intros _; reflexivity | intros C; contradiction].
      * destruct (IH []) as [A _]. destruct (issue v hs [] r) as [h2 a2] eqn:E. cbn [fst snd] in *.
        split; [intros _; cbn; f_equal; apply A; reflexivity | intros C; contradiction].
    + cbn [is_nil negb orb].
      destruct (IH ((h0 :: hr) ++ [o])) as [_ B]. destruct (issue v hs ((h0 :: hr) ++ [o]) r) as [h2 a2] eqn:E.
      cbn [fst snd] in *. destruct (B ltac:(discriminate)) as [B1 B2]. subst.
      split; [intros C; discriminate | intros _; split; [reflexivity| rewrite <- app_assoc; reflexivity]].
Qed.

(* ordered delivery: what has arrived, followed by what is still held, is exactly what was issued, in order *)
Lemma drun_ordered v g : fix_order v = true -> forall xs d A0 I0,
  A0 ++ d_held d = I0 ->
  let '(d', iss, arr) := drun v g d xs in (A0 ++ arr) ++ d_held d' = I0 ++ iss.
Proof.
  intros FO. induction xs as [|x r IH]; intros d A0 I0 H; cbn [drun].
  - rewrite !app_nil_r. exact H.
  - destruct x as [ev|hs|]; cbn [dstep].
    + destruct (lstep v g (d_comp d) ev) as [s' os].
      pose proof (issue_ordered v (d_hs d) FO os (d_held d)) as [P1 P2].
      destruct (issue v (d_hs d) (d_held d) os) as [h' arr] eqn:E. cbn [fst snd] in *.
      specialize (IH (Dst s' (d_hs d) h') (A0 ++ arr) (I0 ++ os)).
      destruct (drun v g (Dst s' (d_hs d) h') r) as [[d2 i2] a2].
      rewrite !app_assoc. rewrite <- (app_assoc A0 arr a2). rewrite (app_assoc A0 arr a2).
      apply IH. cbn [d_held]. subst I0.
      destruct (d_held d) as [|h0 hr] eqn:EH.
      * rewrite app_nil_r. rewrite <- app_assoc. f_equal. apply P1; reflexivity.
      * destruct (P2 ltac:(discriminate)) as [Q1 Q2]. subst. rewrite app_nil_r, app_assoc. reflexivity.
    + specialize (IH (Dst (d_comp d) hs (d_held d)) A0 I0 H).
      destruct (drun v g (Dst (d_comp d) hs (d_held d)) r) as [[d2 i2] a2]. cbn [app]. exact IH.
    + specialize (IH (Dst (d_comp d) (d_hs d) []) (A0 ++ d_held d) I0).
      destruct (drun v g (Dst (d_comp d) (d_hs d) []) r) as [[d2 i2] a2]. cbn [app].
      rewrite app_assoc. apply IH. cbn [d_held]. rewrite app_nil_r. exact H.
Qed.

(* the calls issued do not depend on delivery *)
Lemma drun_issued v g : forall xs d,
  snd (fst (drun v g d xs)) = outputs (snd (lrun v g (d_comp d) (dev_events xs))).
Proof.
  induction xs as [|x r IH]; intros d; cbn [drun dev_events flat_map]; [reflexivity|].
  destruct x as [ev|hs|]; cbn [dstep app].
  - destruct (lstep v g (d_comp d) ev) as [s' os] eqn:E1.
    destruct (issue v (d_hs d) (d_held d) os) as [h' arr].
    specialize (IH (Dst s' (d_hs d) h')). cbn [d_comp] in IH.
    destruct (drun v g (Dst s' (d_hs d) h') r) as [[d2 i2] a2]. cbn [fst snd] in *.
    cbn [lrun app]. rewrite E1. unfold dev_events in *. destruct (lrun v g s' (flat_map _ r)) as [s2 t]. unfold outputs in *. cbn [snd flat_map] in *.
    rewrite IH. reflexivity.
  - specialize (IH (Dst (d_comp d) hs (d_held d))). cbn [d_comp] in IH.
    destruct (drun v g (Dst (d_comp d) hs (d_held d)) r) as [[d2 i2] a2]. cbn [fst snd app] in *. exact IH.
  - specialize (IH (Dst (d_comp d) (d_hs d) [])). cbn [d_comp] in IH.
    destruct (drun v g (Dst (d_comp d) (d_hs d) []) r) as [[d2 i2] a2]. cbn [fst snd app] in *. exact IH.
Qed.

Lemma strict_prefix a : forall b h, strict b (a ++ h) = true -> strict b a = true.
Proof.
  induction a as [|o r IH]; intros b h H; [reflexivity|]. cbn [app strict] in *.
  destruct o as [|c k|c].
  - destruct b; [discriminate|]. eapply IH; exact H.
  - apply andb_true_iff in H as [H1 H2]. rewrite H1. cbn. eapply IH; exact H2.
  - apply andb_true_iff in H as [H1 H2]. rewrite H1. cbn. eapply IH; exact H2.
Qed.

Lemma sent_prefix a : forall p h, nondecreasing_sent p (a ++ h) = true -> nondecreasing_sent p a = true.
Proof.
  induction a as [|o r IH]; intros p h H; [reflexivity|]. cbn [app nondecreasing_sent] in *.
  destruct o as [|c k|c].
  - eapply IH; exact H.
  - apply andb_true_iff in H as [H1 H2]. rewrite H1. cbn. eapply IH; exact H2.
  - apply andb_true_iff in H as [H1 H2]. rewrite H1. cbn. eapply IH; exact H2.
Qed.

(* with ordered delivery the stream ARRIVING at the provider is a prefix of the stream issued *)
Lemma arrived_prefix fs fl fp g xs :
  let '(d', iss, arr) := drun (V fs true fl fp) g dst0 xs in arr ++ d_held d' = iss.
Proof.
  pose proof (drun_ordered (V fs true fl fp) g eq_refl xs dst0 [] [] eq_refl) as H.
  destruct (drun (V fs true fl fp) g dst0 xs) as [[d' iss] arr]. cbn [app] in H. exact H.
Qed.

Lemma delivered_strict fs fl fp g xs :
  lrun_wraps (V fs true fl fp) g sst0 (dev_events xs) = false -> no_prune (dev_events xs) = true ->
  never_restored (dev_events xs) = true ->
  strict false (snd (drun (V fs true fl fp) g dst0 xs)) = true.
Proof.
  intros Hw NP NR. pose proof (arrived_prefix fs fl fp g xs) as P. pose proof (drun_issued (V fs true fl fp) g xs dst0) as Q.
  destruct (drun (V fs true fl fp) g dst0 xs) as [[d' iss] arr]. cbn [fst snd d_comp dst0] in *.
  apply (strict_prefix arr false (d_held d')). rewrite P, Q.
  apply strict_issued; assumption.
Qed.

Lemma delivered_monotone_sent fl fp g xs :
  lrun_wraps (V true true fl fp) g sst0 (dev_events xs) = false -> no_prune (dev_events xs) = true ->
  nondecreasing_sent c4z (snd (drun (V true true fl fp) g dst0 xs)) = true.
Proof.
  intros Hw NP. pose proof (arrived_prefix true fl fp g xs) as P. pose proof (drun_issued (V true true fl fp) g xs dst0) as Q.
  destruct (drun (V true true fl fp) g dst0 xs) as [[d' iss] arr]. cbn [fst snd d_comp dst0] in *.
  apply (sent_prefix arr c4z (d_held d')). rewrite P, Q.
  apply monotone_sent; assumption.
Qed.

(* HEAD: when no call is delayed, arrival order = issue order *)
Definition no_delay (xs : list dev) : bool :=
  forallb (fun x => match x with DHold true => false | _ => true end) xs.

Lemma issue_no_delay v os : fix_order v = false \/ True -> issue v false [] os = ([], os).
Proof.
  intros _. induction os as [|o r IH]; cbn [issue]; [reflexivity|].
  unfold issue1. cbn [is_nil negb orb]. replace (delayed false o) with false by (destruct o; reflexivity).
  destruct (fix_order v); rewrite IH; reflexivity.
Qed.

Lemma arrived_eq_issued v g : forall xs d,
  no_delay xs = true -> d_hs d = false -> d_held d = [] ->
  snd (drun v g d xs) = snd (fst (drun v g d xs)).
Proof.
  induction xs as [|x r IH]; intros d ND H1 H2; cbn [drun]; [reflexivity|].
  cbn [no_delay forallb] in ND. apply andb_true_iff in ND as [N1 N2].
  destruct x as [ev|hs|]; cbn [dstep].
  - destruct (lstep v g (d_comp d) ev) as [s' os]. rewrite H1, H2.
    rewrite (issue_no_delay v os (or_intror I)).
    specialize (IH (Dst s' false []) N2 eq_refl eq_refl).
    destruct (drun v g (Dst s' false []) r) as [[d2 i2] a2]. cbn [fst snd] in *. rewrite IH. reflexivity.
  - destruct hs; [discriminate|].
    specialize (IH (Dst (d_comp d) false (d_held d)) N2 eq_refl H2).
    destruct (drun v g (Dst (d_comp d) false (d_held d)) r) as [[d2 i2] a2]. cbn [fst snd app] in *. exact IH.
  - rewrite H2. specialize (IH (Dst (d_comp d) (d_hs d) []) N2 H1 eq_refl).
    destruct (drun v g (Dst (d_comp d) (d_hs d) []) r) as [[d2 i2] a2]. cbn [fst snd app] in *. exact IH.
Qed.
(* ---------- repeated notifications are silent (any reachable or unreachable state) ---------- *)
Lemma after_announce_silent fs fo fl fp g s ev i h j k :
  (ev = EActive i h \/ ev = ERestored i h) ->
  let s' := fst (lstep (V fs fo fl fp) g s ev) in
  snd (lstep (V fs fo fl fp) g s' (EActive j k)) = [] /\ snd (lstep (V fs fo fl fp) g s' (ERestored j k)) = [].
Proof.
  intros [E|E]; subst ev; cbn [lstep].
  - destruct (inb s) eqn:IB.
    + cbn [fst]. cbn [lstep]. rewrite IB. split; [reflexivity|]. destruct (cache s); reflexivity.
    + destruct (cache s); cbn; auto.
  - destruct (cache s); cbn; auto.
Qed.

Lemma after_release_silent fs fo fl fp g s sn sn' :
  let s' := fst (lstep (V fs fo fl fp) g s (EReleased sn)) in
  inb s' = false /\ cache s' = None /\ db s' = None /\ snd (lstep (V fs fo fl fp) g s' (EReleased sn')) = [].
Proof. cbn [lstep]. destruct (cache s); cbn; auto. Qed.

Lemma restore_never_starts v g s i h : snd (lstep v g s (ERestored i h)) = [].
Proof. cbn [lstep]. destruct (cache s); reflexivity. Qed.

(* ---------- the component is the product of the per-session machines ---------- *)
Lemma gstep_from_nth v bk tys e : forall g j0 j s,
  nth_error g j = Some s ->
  nth_error (gstep_from v bk tys j0 g e) j =
  Some (lstep_opt v (is_l2gw tys (j0 + j)) s (option_map (l2tp_view v (is_l2tp tys (j0 + j))) (project bk (j0 + j)%nat e))).
Proof.
  induction g as [|s0 r IH]; intros j0 j s H.
  - destruct j; discriminate.
  - destruct j as [|j]; cbn [nth_error gstep_from] in *.
    + inversion H; subst. rewrite Nat.add_0_r. reflexivity.
    + rewrite (IH (S j0) j s H). replace (S j0 + j)%nat with (j0 + S j)%nat by lia. reflexivity.
Qed.

Lemma gstep_nth v bk tys g e j s :
  nth_error g j = Some s ->
  nth_error (gstep v bk tys g e) j =
  Some (lstep_opt v (is_l2gw tys j) s (option_map (l2tp_view v (is_l2tp tys j)) (project bk j e))).
Proof. intros H. unfold gstep. rewrite (gstep_from_nth v bk tys e g 0 j s H). reflexivity. Qed.

Lemma gstep_length v bk tys e : forall g j0, length (gstep_from v bk tys j0 g e) = length g.
Proof. induction g; intros; cbn; auto. Qed.

(* component run: states after a list of component-level events, and session j's local run over the
   events addressed to it *)
Fixpoint grun (v : variant) (bk : list N) (tys : list N) (g : list sst) (evs : list gev) : list sst :=
  match evs with
  | [] => g
  | e :: r => grun v bk tys (map fst (gstep v bk tys g e)) r
  end.
Fixpoint local_events (v : variant) (bk : list N) (tys : list N) (j : nat) (evs : list gev) : list sev :=
  match evs with
  | [] => []
  | e :: r => match project bk j e with
              | Some le => l2tp_view v (is_l2tp tys j) le :: local_events v bk tys j r
              | None => local_events v bk tys j r end
  end.

Lemma component_is_product v bk tys evs : forall g j s,
  nth_error g j = Some s ->
  nth_error (grun v bk tys g evs) j = Some (fst (lrun v (is_l2gw tys j) s (local_events v bk tys j evs))).
Proof.
  induction evs as [|e r IH]; intros g j s H; cbn [grun local_events].
  - cbn. exact H.
  - pose proof (gstep_nth v bk tys g e j s H) as G.
    assert (H1 : nth_error (map fst (gstep v bk tys g e)) j =
                 Some (fst (lstep_opt v (is_l2gw tys j) s (option_map (l2tp_view v (is_l2tp tys j)) (project bk j e))))).
    { rewrite nth_error_map, G. reflexivity. }
    rewrite (IH _ j _ H1).
    destruct (project bk j e) as [le|]; cbn [lstep_opt option_map fst].
    + cbn [lrun]. destruct (lstep v (is_l2gw tys j) s (l2tp_view v (is_l2tp tys j) le)) as [s1 o]. cbn [fst].
      destruct (lrun v (is_l2gw tys j) s1 (local_events v bk tys j r)); reflexivity.
    + reflexivity.
Qed.

(* ---------- an input-only sufficient condition for "no wrap" (every variant V, every access type) ----------
   If, per counter, the sum of every reading that appears anywhere in the history (interface table and l2gw segment)
   is below 2^64, no cumulative ever wraps: each cumulative is bounded by the sum of the readings seen so far. *)
Definition c4_add (a b : c4) : c4 := c4_map2 N.add a b.
Fixpoint items_sum (l : list (N * c4)) : c4 :=
  match l with [] => c4z | (_, c) :: r => c4_add (c4_norm c) (items_sum r) end.
Definition snap_sum (sn : snap) : c4 := match sn with None => c4z | Some l => items_sum l end.
(* an l2gw entry (bytes, packets) may feed the input or the output counters *)
Fixpoint l2items_sum (l : list (N * (N * N))) : c4 :=
  match l with [] => c4z | (_, (b, p)) :: r => c4_add (C4 (b mod W) (b mod W) (p mod W) (p mod W)) (l2items_sum r) end.
Definition l2_sum (sn : l2snap) : c4 := match sn with None => c4z | Some l => l2items_sum l end.
Definition snaps_sum (sn : snaps) : c4 := c4_add (snap_sum (ifs sn)) (c4_add (l2_sum (l2 sn)) (l2_sum (l2 sn))).
Definition ev_sum (ev : sev) : c4 :=
  match ev with EReleased sn => snaps_sum sn | ETick sn _ => snaps_sum sn | _ => c4z end.
Fixpoint total_readings (evs : list sev) : c4 :=
  match evs with [] => c4z | ev :: r => c4_add (ev_sum ev) (total_readings r) end.

Ltac c4crush :=
  unfold c4_le, c4_lt_W, c4_add, c4_max, c4_map2, c4z in *; cbn [rxb txb rxp txp fst snd] in *; lia.

Lemma lookup_last_le l : forall i acc st X,
  (forall c, acc = Some c -> c4_le c X) -> lookup_last l i acc = Some st ->
  c4_le st (c4_add X (items_sum l)).
Proof.
  induction l as [|[j c] r IH]; intros i acc st X Ha H; cbn [lookup_last items_sum] in *.
  - specialize (Ha st H). c4crush.
  - assert (B : c4_le st (c4_add (c4_add X (c4_norm c)) (items_sum r))).
    { eapply IH; [|exact H]. intros c0 Hc. destruct (N.eqb i j).
      - inversion Hc; subst. c4crush.
      - specialize (Ha c0 Hc). c4crush. }
    c4crush.
Qed.

Lemma lookup_stats_le sn i st : lookup_stats sn i = Some st -> c4_le st (snap_sum sn).
Proof.
  unfold lookup_stats, snap_sum. destruct sn as [l|]; [|discriminate]. intros H.
  pose proof (lookup_last_le l i None st c4z) as B.
  assert (B' : c4_le st (c4_add c4z (items_sum l))) by (apply B; [intros c Hc; discriminate|exact H]).
  c4crush.
Qed.

Definition pair_le (x : N * N) (X : c4) : Prop := fst x <= rxb X /\ fst x <= txb X /\ snd x <= rxp X /\ snd x <= txp X.

Lemma lookup_l2_last_le l : forall i acc x X,
  (forall y, acc = Some y -> pair_le y X) -> lookup_l2_last l i acc = Some x ->
  pair_le x (c4_add X (l2items_sum l)).
Proof.
  induction l as [|[j [b p]] r IH]; intros i acc x X Ha H; cbn [lookup_l2_last l2items_sum] in *.
  - specialize (Ha x H). unfold pair_le in *. c4crush.
  - assert (B : pair_le x (c4_add (c4_add X (C4 (b mod W) (b mod W) (p mod W) (p mod W))) (l2items_sum r))).
    { eapply IH; [|exact H]. intros y Hy. destruct (N.eqb i j).
      - inversion Hy; subst. unfold pair_le. c4crush.
      - specialize (Ha y Hy). unfold pair_le in *. c4crush. }
    unfold pair_le in *. c4crush.
Qed.

Lemma lookup_l2_le sn i x : lookup_l2 sn i = Some x -> pair_le x (l2_sum sn).
Proof.
  unfold lookup_l2, l2_sum. destruct sn as [l|]; [|discriminate]. intros H.
  pose proof (lookup_l2_last_le l i None x c4z) as B.
  assert (B' : pair_le x (c4_add c4z (l2items_sum l))) by (apply B; [intros y Hy; discriminate|exact H]).
  unfold pair_le in *. c4crush.
Qed.

Lemma reading_le v g tick e sn st : reading v g tick e sn = Some st -> c4_le st (snaps_sum sn).
Proof.
  unfold reading, snaps_sum. destruct (g && (tick || fix_l2stop v)).
  - unfold l2_reading.
    destruct (lookup_l2 (l2 sn) (ifx e)) as [u|] eqn:U; destruct (lookup_l2 (l2 sn) (hfx e)) as [d|] eqn:D;
      intros H; inversion H; subst;
      try (pose proof (lookup_l2_le _ _ _ U) as PU); try (pose proof (lookup_l2_le _ _ _ D) as PD);
      unfold pair_le in *; c4crush.
  - intros H. pose proof (lookup_stats_le _ _ _ H). c4crush.
Qed.

(* base = 0, prior <= floor <= B *)
Definition sinv (v : variant) (B : c4) (e : sess) : Prop :=
  base e = c4z /\ c4_le (prior e) (floor v e) /\ c4_le (floor v e) B.

Lemma sinv_mono v B B' e : sinv v B e -> c4_le B B' -> sinv v B' e.
Proof. intros (H1 & H2 & H3) L. split; [exact H1|split; [exact H2|c4crush]]. Qed.

Lemma c4_any2_false_intro f a b :
  f (rxb a) (rxb b) = false -> f (txb a) (txb b) = false ->
  f (rxp a) (rxp b) = false -> f (txp a) (txp b) = false -> c4_any2 f a b = false.
Proof. intros H1 H2 H3 H4. unfold c4_any2. rewrite H1, H2, H3, H4. reflexivity. Qed.

Lemma floor_rebase v e st : floor v (rebase v e st) = floor v e.
Proof. unfold rebase. destruct (regressed v e st); reflexivity. Qed.

Lemma apply_bound v B T e st :
  sinv v B e -> c4_lt_W st -> c4_le st T -> c4_lt_W (c4_add B T) ->
  apply_wraps v e st = false /\
  base (fst (apply v e st)) = c4z /\
  c4_le (prior (fst (apply v e st))) (floor v e) /\
  c4_le (prior (fst (apply v e st))) (snd (apply v e st)) /\
  c4_le (snd (apply v e st)) (c4_add B T).
Proof.
  intros (Hb & Hp & Hl) Lst LT LW.
  unfold apply, apply_wraps. cbn [fst snd].
  assert (E : base (rebase v e st) = c4z /\ c4_le (prior (rebase v e st)) (floor v e)).
  { unfold rebase. destruct (regressed v e st); cbn [base prior]; split; auto. c4crush. }
  destruct E as (E1 & E2).
  set (e' := rebase v e st) in *.
  assert (C : cum e' st = c4_add st (prior e')).
  { unfold cum. rewrite E1. destruct st as [a b c d], (prior e') as [pa pb pc pd] eqn:PE.
    destruct (floor v e) as [la lb lc ld], B as [ba bb bc bd], T as [ta tb tc td].
    unfold c4_le, c4_lt_W, c4_add, c4_map2, c4z in *; cbn [rxb txb rxp txp] in *.
    rewrite !sub64_zero by lia. rewrite !add64_small by lia. reflexivity. }
  split; [|split; [|split; [|split]]].
  - rewrite E1.
    destruct st as [a b c d], (prior e') as [pa pb pc pd], (floor v e) as [la lb lc ld],
             B as [ba bb bc bd], T as [ta tb tc td].
    unfold c4_le, c4_lt_W, c4_add, c4_map2, c4z in *; cbn [rxb txb rxp txp] in *.
    apply orb_false_intro; apply c4_any2_false_intro; cbn [rxb txb rxp txp];
      try (apply N.ltb_ge; lia); apply N.leb_gt; lia.
  - exact E1.
  - exact E2.
  - rewrite C. c4crush.
  - rewrite C. c4crush.
Qed.

Lemma report_bound fs fo fl fp g tick B e sn :
  sinv (V fs fo fl fp) B e -> c4_lt_W (c4_add B (snaps_sum sn)) ->
  report_wraps (V fs fo fl fp) g tick e sn = false /\
  base (fst (report (V fs fo fl fp) g tick e sn)) = c4z /\
  c4_le (prior (fst (report (V fs fo fl fp) g tick e sn))) (floor (V fs fo fl fp) e) /\
  c4_le (floor (V fs fo fl fp) e) (snd (report (V fs fo fl fp) g tick e sn)) /\
  c4_le (snd (report (V fs fo fl fp) g tick e sn)) (c4_add B (snaps_sum sn)).
Proof.
  intros I LW.
  assert (R1 : report_wraps (V fs fo fl fp) g tick e sn = false /\
               base (fst (report (V fs fo fl fp) g tick e sn)) = c4z /\
               c4_le (prior (fst (report (V fs fo fl fp) g tick e sn))) (floor (V fs fo fl fp) e) /\
               c4_le (snd (report (V fs fo fl fp) g tick e sn)) (c4_add B (snaps_sum sn))).
  { unfold report, report_wraps. destruct (reading (V fs fo fl fp) g tick e sn) as [st|] eqn:L.
    - destruct (apply_bound (V fs fo fl fp) B (snaps_sum sn) e st I (reading_lt _ _ _ _ _ _ L) (reading_le _ _ _ _ _ _ L) LW)
        as (A1 & A2 & A3 & A4 & A5). auto.
    - cbn [fst snd]. destruct I as (I1 & I2 & I3). split; [reflexivity|split; [exact I1|split; [exact I2|c4crush]]]. }
  destruct R1 as (R1 & R2 & R3 & R4).
  split; [exact R1|split; [exact R2|split; [exact R3|split; [apply report_ge_floor; [reflexivity|exact R1]|exact R4]]]].
Qed.

Definition ginv (v : variant) (B : c4) (s : sst) : Prop :=
  (forall e, cache s = Some e -> sinv v B e) /\ (forall d, db s = Some d -> sinv v B d).

Lemma c4_le_refl a : c4_le a a. Proof. c4crush. Qed.

(* the session after a tick: floor and prior stay within the bound *)
Lemma tick_sinv fs fo fl fp B B' (e e0 : sess) (c : c4) (ok : bool) :
  sinv (V fs fo fl fp) B e -> c4_le B B' ->
  base e0 = c4z -> last e0 = last e -> hw e0 = hw e ->
  c4_le (prior e0) (floor (V fs fo fl fp) e) -> c4_le (floor (V fs fo fl fp) e) c -> c4_le c B' ->
  let e' := if fs then Sess (ifx e0) (hfx e0) (last e0) c (base e0) (prior e0) (pending e0) else e0 in
  sinv (V fs fo fl fp) B' e' /\
  sinv (V fs fo fl fp) B' (Sess (ifx e') (hfx e') (if ok then c else last e') (hw e') (base e') (prior e') (pending e')).
Proof.
  intros (I1 & I2 & I3) LB H1 H2 H3 H4 H5 H6.
  unfold sinv, floor in *. cbn [fix_sent V] in *.
  destruct fs, ok; cbn [base prior last hw]; rewrite ?H2, ?H3; repeat split; auto; c4crush.
Qed.

Lemma step_bound fs fo fl fp g B s ev :
  ginv (V fs fo fl fp) B s -> c4_lt_W (c4_add B (ev_sum ev)) ->
  lstep_wraps (V fs fo fl fp) g s ev = false /\ ginv (V fs fo fl fp) (c4_add B (ev_sum ev)) (fst (lstep (V fs fo fl fp) g s ev)).
Proof.
  intros [Ic Id] LW.
  set (v := V fs fo fl fp) in *.
  assert (MB : c4_le B (c4_add B (ev_sum ev))) by c4crush.
  assert (Ic' : forall e, cache s = Some e -> sinv v (c4_add B (ev_sum ev)) e)
    by (intros e He; eapply sinv_mono; [apply Ic; exact He|exact MB]).
  assert (Id' : forall d, db s = Some d -> sinv v (c4_add B (ev_sum ev)) d)
    by (intros d Hd; eapply sinv_mono; [apply Id; exact Hd|exact MB]).
  assert (F : forall i h, sinv v (c4_add B (ev_sum ev)) (fresh i h)).
  { intros i h. unfold sinv, floor, fresh. cbn [base prior last hw]. destruct (fix_sent v); repeat split; c4crush. }
  assert (CF : forall e i h, sinv v (c4_add B (ev_sum ev)) e -> sinv v (c4_add B (ev_sum ev)) (confirm e i h))
    by (intros e i h H; exact H).
  destruct s as [ib ca d oo]. cbn [cache db] in *.
  destruct ev as [i h|i h|sn|sn ok| | |lk| |past]; cbn [lstep lstep_wraps cache db inb ev_sum] in *.
  - split; [destruct ca; reflexivity|].
    destruct ib; [split; cbn; auto|].
    destruct ca as [e|]; subst v; cbn [fix_active V fst]; split; cbn [cache db]; intros x Hx; inversion Hx; subst; auto.
  - split; [destruct ca; reflexivity|].
    destruct ca as [e|]; cbn [fst]; split; cbn [cache db]; intros x Hx; try (inversion Hx; subst); auto.
  - destruct ca as [e|].
    + destruct (report_bound fs fo fl fp g false B e sn (Ic e eq_refl) LW) as (R1 & _). fold v in R1.
      split; [exact R1|]. cbn. split; intros x Hx; discriminate.
    + split; [reflexivity|]. cbn. split; intros x Hx; discriminate.
  - destruct ca as [e|].
    + destruct (report_bound fs fo fl fp g true B e sn (Ic e eq_refl) LW) as (R1 & R2 & R3 & R4 & R5). fold v in R1, R2, R3, R4, R5.
      destruct ib; cbn [andb].
      * split; [exact R1|].
        pose proof (report_fields v g true e sn) as (F1 & F2 & F3 & F4).
        destruct (report v g true e sn) as [e0 c] eqn:RP. cbn [fst snd] in *.
        destruct (tick_sinv fs fo fl fp B (c4_add B (snaps_sum sn)) e e0 c ok (Ic e eq_refl) MB R2 F2 F4 R3 R4 R5) as [T1 T2].
        subst v. cbn [fix_sent V] in *.
        destruct ok, fs; cbn [fst]; split; cbn [cache db]; intros x Hx; try (injection Hx as <-);
          first [exact T1 | exact T2 | apply Id'; exact Hx | auto].
      * split; [reflexivity|]. cbn. split; auto.
    + split; [destruct ib; reflexivity|]. destruct ib; cbn; split; auto.
  - split; [destruct ca; reflexivity|]. destruct ca as [e|]; [|cbn; split; auto].
    cbn [fst]. specialize (Ic' e eq_refl). destruct Ic' as (J1 & J2 & J3).
    assert (S' : sinv v (c4_add B c4z) (Sess (ifx e) (hfx e) (floor v e) (hw e) (base e) (prior e) (pending e))).
    { unfold sinv, floor in *. cbn [base prior last hw]. destruct (fix_sent v); repeat split; auto; c4crush. }
    split; cbn [cache db]; intros x Hx; inversion Hx; subst; exact S'.
  - split; [destruct ca; reflexivity|]. destruct ca as [e|]; [|cbn; split; auto].
    specialize (Ic' e eq_refl). destruct (fix_sent v); cbn [fst]; split; cbn [cache db]; auto;
      intros x Hx; inversion Hx; subst; exact Ic'.
  - split; [destruct ca; reflexivity|]. cbn [orph]. destruct oo; subst v; cbn [fix_ghost V fst]; split; cbn [cache db]; auto.
  - split; [destruct ca; reflexivity|]. cbn [fst]. split; cbn [cache db]; [|exact Id'].
    intros x Hx. destruct d as [dd|]; [|discriminate]. inversion Hx; subst.
    specialize (Id' dd eq_refl). unfold sinv, floor in *; cbn [base prior last hw]. exact Id'.
  - split; [destruct ca; reflexivity|].
    destruct ca as [e|]; [|cbn; split; auto].
    destruct (pending e && past); cbn; split; auto; intros x Hx; discriminate.
Qed.

Lemma run_bound fs fo fl fp g evs : forall s B,
  ginv (V fs fo fl fp) B s -> c4_lt_W (c4_add B (total_readings evs)) -> lrun_wraps (V fs fo fl fp) g s evs = false.
Proof.
  induction evs as [|ev r IH]; intros s B I LW; cbn [lrun_wraps total_readings] in *; [reflexivity|].
  assert (LW1 : c4_lt_W (c4_add B (ev_sum ev))) by c4crush.
  destruct (step_bound fs fo fl fp g B s ev I LW1) as [S1 S2].
  rewrite S1. cbn [orb]. eapply IH; [exact S2|]. c4crush.
Qed.

Lemma no_wrap_if_total_small fs fo fl fp g evs :
  c4_lt_W (total_readings evs) -> lrun_wraps (V fs fo fl fp) g sst0 evs = false.
Proof.
  intros H. apply (run_bound fs fo fl fp g evs sst0 c4z).
  - split; intros x Hx; discriminate.
  - c4crush.
Qed.

Lemma monotone_sent_total fo fl g evs :
  c4_lt_W (total_readings evs) ->
  nondecreasing_sent c4z (outputs (snd (lrun (V true fo fl true) g sst0 evs))) = true.
Proof. intros H. apply monotone_sent_p. apply no_wrap_if_total_small; exact H. Qed.

Lemma monotone_sent_total_noprune fo fl fp g evs :
  c4_lt_W (total_readings evs) -> no_prune evs = true ->
  nondecreasing_sent c4z (outputs (snd (lrun (V true fo fl fp) g sst0 evs))) = true.
Proof. intros H NP. apply monotone_sent; [apply no_wrap_if_total_small; exact H|exact NP]. Qed.

(* ---------- the RADIUS wire encoding of the counters ---------- *)
Lemma giga_roundtrip x : x < W -> giga_val (giga_attr x) * W32 + x mod W32 = x.
Proof.
  intros H. unfold giga_attr, giga_val.
  assert (D : x / W32 < W32).
  { apply N.div_lt_upper_bound; [unfold W32; lia|]. unfold W, W32 in *. lia. }
  rewrite (N.mod_small _ _ D).
  pose proof (N.div_mod x W32 ltac:(unfold W32; lia)) as E.
  destruct (N.ltb_spec 0 (x / W32)) as [P|P].
  - unfold W32 in *. lia.
  - apply N.le_0_r in P. rewrite P in E. rewrite N.mul_0_r in E. cbn [N.mul N.add]. rewrite N.add_0_l in *. symmetry; exact E.
Qed.

Lemma wire_roundtrip st c : wire_range c = true -> decode_wire (encode_wire st c) = c.
Proof.
  unfold wire_range. rewrite !andb_true_iff, !N.ltb_lt. intros [[[H1 H2] H3] H4].
  unfold decode_wire, encode_wire; cbn [w_in_oct w_out_oct w_in_giga w_out_giga w_in_pkt w_out_pkt].
  rewrite !giga_roundtrip by assumption. rewrite !N.mod_small by assumption.
  destruct c; reflexivity.
Qed.

Lemma wire_monotone st st' c c' :
  wire_range c = true -> wire_range c' = true -> c4_le c c' ->
  c4_le (decode_wire (encode_wire st c)) (decode_wire (encode_wire st' c')).
Proof. intros H H' L. rewrite !wire_roundtrip by assumption. exact L. Qed.

Lemma through_wire_id o : wire_range (counters_of o) = true -> through_wire o = o.
Proof.
  intros H. unfold through_wire. rewrite wire_roundtrip by exact H. destruct o; reflexivity.
Qed.

Lemma map_through_wire l :
  forallb (fun o => wire_range (counters_of o)) l = true -> map through_wire l = l.
Proof.
  induction l as [|o r IH]; cbn [forallb map]; [reflexivity|].
  rewrite andb_true_iff. intros [H1 H2]. rewrite through_wire_id by exact H1. rewrite IH by exact H2. reflexivity.
Qed.

Lemma monotone_on_wire fs fo fl fp g evs :
  lrun_wraps (V fs fo fl fp) g sst0 evs = false -> no_prune evs = true ->
  forallb (fun o => wire_range (counters_of o)) (outputs (snd (lrun (V fs fo fl fp) g sst0 evs))) = true ->
  nondecreasing c4z (map through_wire (outputs (snd (lrun (V fs fo fl fp) g sst0 evs)))) = true.
Proof. intros Hw NP R. rewrite map_through_wire by exact R. apply monotone; assumption. Qed.

(* ---------- without fix_ghost: identical as long as no late response arrives for a released session ---------- *)
Lemma lstep_no_late s o l p g st ev :
  match ev with ELate _ => False | _ => True end ->
  lstep (Vg s o l p) g st ev = lstep (V s o l p) g st ev /\
  lstep_wraps (Vg s o l p) g st ev = lstep_wraps (V s o l p) g st ev.
Proof. destruct ev; intros H; try contradiction; split; reflexivity. Qed.

Lemma lrun_no_late s o l p g evs : forall st,
  no_late evs = true ->
  lrun (Vg s o l p) g st evs = lrun (V s o l p) g st evs /\
  lrun_wraps (Vg s o l p) g st evs = lrun_wraps (V s o l p) g st evs.
Proof.
  induction evs as [|ev r IH]; intros st H; [split; reflexivity|].
  cbn [no_late forallb] in H. apply andb_true_iff in H as [H1 H2].
  assert (NL : match ev with ELate _ => False | _ => True end) by (destruct ev; auto; discriminate).
  destruct (lstep_no_late s o l p g st ev NL) as [E1 E2].
  cbn [lrun lrun_wraps]. rewrite E1, E2.
  destruct (lstep (V s o l p) g st ev) as [s1 out]. cbn [fst].
  destruct (IH s1 H2) as [I1 I2]. rewrite I1, I2. split; reflexivity.
Qed.

(* ---------- without fix_presend (/repo HEAD): identical as long as every Interim is answered - acknowledged or failed -
   before anything else happens to the session (in particular before a restart) ---------- *)
Fixpoint answered (evs : list sev) : bool :=
  match evs with
  | [] => true
  | ETick _ false :: r =>
      match r with
      | ENack :: r' => answered r'
      | EAck :: r' => answered r'
      | _ => false
      end
  | _ :: r => answered r
  end.

Lemma lstep_q_other s o l p g st ev :
  match ev with ETick _ false => False | _ => True end ->
  lstep (Vq s o l p) g st ev = lstep (V s o l p) g st ev /\
  lstep_wraps (Vq s o l p) g st ev = lstep_wraps (V s o l p) g st ev.
Proof. destruct ev as [| | |sn ok| | | | |]; intros H; try (destruct ok; try contradiction); split; reflexivity. Qed.

Lemma lstep_q_answered s o l p g st sn ev :
  ev = ENack \/ ev = EAck ->
  let a := lstep (Vq s o l p) g st (ETick sn false) in
  let b := lstep (V s o l p) g st (ETick sn false) in
  snd a = snd b /\
  lstep (Vq s o l p) g (fst a) ev = lstep (V s o l p) g (fst b) ev /\
  lstep_wraps (Vq s o l p) g st (ETick sn false) = lstep_wraps (V s o l p) g st (ETick sn false) /\
  lstep_wraps (Vq s o l p) g (fst a) ev = lstep_wraps (V s o l p) g (fst b) ev.
Proof.
  intros E. cbn [lstep]. destruct (inb st); [|destruct E; subst; repeat split; reflexivity].
  destruct (cache st) as [e|]; [|destruct E; subst; repeat split; reflexivity].
  change (report (Vq s o l p) g true e sn) with (report (V s o l p) g true e sn).
  destruct (report (V s o l p) g true e sn) as [e0 c].
  destruct s; destruct E; subst; cbn; repeat split; reflexivity.
Qed.

Lemma lrun_answered s o l p g : forall n evs st, (length evs <= n)%nat ->
  answered evs = true ->
  lrun (Vq s o l p) g st evs = lrun (V s o l p) g st evs /\
  lrun_wraps (Vq s o l p) g st evs = lrun_wraps (V s o l p) g st evs.
Proof.
  induction n as [|n IH]; intros evs st L A.
  - destruct evs; [split; reflexivity|cbn in L; lia].
  - destruct evs as [|ev r]; [split; reflexivity|].
    assert (D : (exists sn, ev = ETick sn false) \/ match ev with ETick _ false => False | _ => True end).
    { destruct ev as [| | |sn ok| | | | |]; auto. destruct ok; auto. left; eexists; reflexivity. }
    destruct D as [[sn E]|D].
    + subst ev. cbn [answered] in A.
      destruct r as [|ev2 r2]; [discriminate|].
      assert (E2 : ev2 = ENack \/ ev2 = EAck) by (destruct ev2; try discriminate; auto).
      assert (A2 : answered r2 = true) by (destruct E2; subst; exact A).
      destruct (lstep_q_answered s o l p g st sn ev2 E2) as (Q1 & Q2 & Q3 & Q4).
      cbn [lrun lrun_wraps]. cbn zeta in Q1, Q2, Q3, Q4.
      rewrite Q3.
      destruct (lstep (Vq s o l p) g st (ETick sn false)) as [sa oa].
      destruct (lstep (V s o l p) g st (ETick sn false)) as [sb ob]. cbn [fst snd] in *. subst oa.
      rewrite Q4, Q2.
      destruct (lstep (V s o l p) g sb ev2) as [s2 o2]. cbn [fst].
      assert (L2 : (length r2 <= n)%nat) by (cbn in L; lia).
      destruct (IH r2 s2 L2 A2) as [I1 I2]. rewrite I1, I2. split; reflexivity.
    + assert (A2 : answered r = true) by (destruct ev as [| | |sn ok| | | | |]; try exact A; destruct ok; [exact A|contradiction]).
      destruct (lstep_q_other s o l p g st ev D) as [E1 E2].
      cbn [lrun lrun_wraps]. rewrite E1, E2.
      destruct (lstep (V s o l p) g st ev) as [s1 o1]. cbn [fst].
      assert (L2 : (length r <= n)%nat) by (cbn in L; lia).
      destruct (IH r s1 L2 A2) as [I1 I2]. rewrite I1, I2. split; reflexivity.
Qed.

(* ---------- per counter: a report is not below the floor in every counter that did not itself wrap ---------- *)
Lemma c4_leb_w_le w a b c : c4_le a b -> c4_leb_w w b c = true -> c4_leb_w w a c = true.
Proof.
  unfold c4_le, c4_leb_w. intros (A & B & C & D). rewrite !andb_true_iff, !orb_true_iff, !N.leb_le. intuition lia.
Qed.
Lemma c4_leb_w_of_le w a b : c4_le a b -> c4_leb_w w a b = true.
Proof.
  unfold c4_le, c4_leb_w. intros (A & B & C & D). rewrite !andb_true_iff, !orb_true_iff, !N.leb_le. intuition lia.
Qed.

Lemma wrap1_ge st fl : st < W -> wrap1 st 0 fl = false -> fl <= add64 (sub64 st 0) fl.
Proof.
  intros L H. unfold wrap1 in H. apply orb_false_elim in H as [_ H]. rewrite N.leb_gt, N.sub_0_r in H.
  rewrite sub64_zero by exact L. rewrite add64_small by exact H. lia.
Qed.

Lemma apply_ge4 v e st :
  fix_counters v = true -> c4_lt_W st ->
  c4_leb_w (apply_wraps4 v e st) (floor v e) (snd (apply v e st)) = true.
Proof.
  intros FC (L1 & L2 & L3 & L4). unfold apply, apply_wraps4. cbn [snd]. unfold rebase.
  destruct (regressed v e st) eqn:R.
  - set (F := floor v e). unfold c4_leb_w, cum. cbn [base prior c4_map2 rxb txb rxp txp c4z w_rxb w_txb w_rxp w_txp].
    rewrite !andb_true_iff, !orb_true_iff, !N.leb_le.
    repeat split;
      match goal with |- wrap1 ?s 0 ?f = true \/ _ =>
        destruct (wrap1 s 0 f) eqn:Wk; [left; reflexivity|right; apply wrap1_ge; assumption] end.
  - unfold regressed in R. apply orb_false_elim in R as [_ R]. rewrite FC in R. cbn [andb] in R.
    apply c4_any2_false in R as (H1 & H2 & H3 & H4). rewrite N.ltb_ge in H1, H2, H3, H4.
    apply c4_leb_w_of_le. unfold c4_le. auto.
Qed.

Lemma report_ge4 v g tick e sn :
  fix_counters v = true ->
  c4_leb_w (report_wraps4 v g tick e sn) (floor v e) (snd (report v g tick e sn)) = true.
Proof.
  intros FC. unfold report, report_wraps4. destruct (reading v g tick e sn) as [st|] eqn:L.
  - apply apply_ge4; [exact FC|eapply reading_lt; exact L].
  - cbn. apply c4_leb_w_of_le. apply c4_le_refl'.
Qed.

(* the state keeps, in LastSent, exactly the value last sent in the bracket - also across restarts *)
Definition hinv (s : sst) (prev : c4) : Prop :=
  match cache s with
  | Some e => hw e = prev /\ match db s with Some d => hw d = hw e | None => hw e = c4z end
  | None => prev = c4z /\ db s = None
  end.

Lemma step_mono4 fo fl g s prev ev :
  hinv s prev ->
  let v := V true fo fl true in
  fst (mono_outs (lstep_wraps4 v g s ev) prev (snd (lstep v g s ev))) = true /\
  hinv (fst (lstep v g s ev)) (snd (mono_outs (lstep_wraps4 v g s ev) prev (snd (lstep v g s ev)))).
Proof.
  intros H v. unfold hinv in H. destruct s as [ib ca d oo]. cbn [cache db] in H.
  destruct ev as [i h|i h|sn|sn ok| | |lk| |past]; cbn [lstep lstep_wraps4 cache inb db orph].
  - (* Active *)
    destruct ib; [cbn [snd fst mono_outs]; split; [reflexivity|exact H]|].
    destruct ca as [e|]; cbn [fix_active v V snd fst mono_outs].
    + split; [reflexivity|]. unfold hinv, confirm; cbn. exact H.
    + destruct H as [H1 H2]. split; [reflexivity|]. unfold hinv; cbn. auto.
  - (* Restored *)
    destruct ca as [e|]; cbn [snd fst mono_outs]; (split; [reflexivity|]); unfold hinv, confirm; cbn.
    + exact H.
    + destruct H as [H1 H2]. subst. cbn. auto.
  - (* Released *)
    destruct ca as [e|]; cbn [fix_stop v V snd fst mono_outs].
    + destruct H as [H1 H2]. subst prev.
      pose proof (report_ge4 v g false e sn eq_refl) as G.
      rewrite (c4_leb_w_le _ _ _ _ (floor_ge_hw v e eq_refl) G). cbn. split; [reflexivity|]. unfold hinv; cbn. auto.
    + split; [reflexivity|]. unfold hinv; cbn. destruct H; split; auto.
  - (* Tick *)
    destruct ib; [|cbn [snd fst mono_outs]; split; [reflexivity|exact H]].
    destruct ca as [e|]; [|cbn [snd fst mono_outs]; split; [reflexivity|exact H]].
    destruct H as [H1 H2]. subst prev.
    pose proof (report_ge4 v g true e sn eq_refl) as G.
    pose proof (report_fields v g true e sn) as (F1 & F2 & F3 & F4).
    destruct (report v g true e sn) as [e0 c] eqn:RP. cbn [fst snd] in *.
    pose proof (c4_leb_w_le _ _ _ _ (floor_ge_hw v e eq_refl) G) as G'.
    cbn [fix_sent fix_presend v V andb].
    destruct ok; cbn [snd fst mono_outs]; rewrite G'; cbn; (split; [reflexivity|]); unfold hinv; cbn; auto.
  - (* EAck *)
    destruct ca as [e|]; cbn [snd fst mono_outs]; (split; [reflexivity|]); unfold hinv; cbn; [|exact H].
    destruct H as [H1 H2]. auto.
  - (* ENack *)
    destruct ca as [e|]; cbn [fix_sent v V snd fst mono_outs]; (split; [reflexivity|]); unfold hinv; cbn; [|exact H].
    destruct H as [H1 H2]. auto.
  - (* ELate *)
    destruct oo; cbn [fix_ghost v V snd fst mono_outs]; (split; [reflexivity|]); unfold hinv; cbn; exact H.
  - (* Restart *)
    cbn [snd fst mono_outs]. split; [reflexivity|]. unfold hinv; cbn.
    destruct ca as [e|], d as [dd|]; cbn in *.
    + destruct H as [H1 H2]. split; [congruence|reflexivity].
    + destruct H as [H1 H2]. split; [congruence|reflexivity].
    + destruct H as [H1 H2]. discriminate.
    + exact H.
  - (* Prune *)
    destruct ca as [e|]; [|cbn [snd fst mono_outs]; split; [reflexivity|exact H]].
    destruct (pending e && past); cbn [fix_prune v V snd fst mono_outs]; [|split; [reflexivity|exact H]].
    destruct H as [H1 H2]. subst prev.
    rewrite (c4_leb_w_of_le b4_none _ _ (floor_ge_hw v e eq_refl)). cbn. split; [reflexivity|]. unfold hinv; cbn. auto.
Qed.

Lemma run_mono4 fo fl g evs : forall s prev,
  hinv s prev -> mono4 prev (lrun4 (V true fo fl true) g s evs) = true.
Proof.
  induction evs as [|ev r IH]; intros s prev H; [reflexivity|].
  cbn [lrun4 mono4]. destruct (step_mono4 fo fl g s prev ev H) as [A B].
  destruct (mono_outs (lstep_wraps4 (V true fo fl true) g s ev) prev (snd (lstep (V true fo fl true) g s ev))) as [ok p].
  cbn [fst snd] in *. subst ok. cbn [andb]. apply IH. exact B.
Qed.

Lemma monotone_per_counter fo fl g evs : mono4 c4z (lrun4 (V true fo fl true) g sst0 evs) = true.
Proof. apply run_mono4. unfold hinv; cbn. auto. Qed.

(* the session-level wrap flag is the disjunction of the per-counter ones (one definition for theorem and driver) *)
Lemma apply_wraps_any v e st : apply_wraps v e st = b4_any (apply_wraps4 v e st).
Proof.
  unfold apply_wraps, apply_wraps4, b4_any, c4_any2, wrap1. cbn [w_rxb w_txb w_rxp w_txp c4_map2 rxb txb rxp txp].
  set (e' := rebase v e st).
  destruct (rxb st <? rxb (base e')), (txb st <? txb (base e')), (rxp st <? rxp (base e')), (txp st <? txp (base e'));
    cbn [orb]; try reflexivity;
    destruct (W <=? rxb st - rxb (base e') + rxb (prior e')), (W <=? txb st - txb (base e') + txb (prior e')),
             (W <=? rxp st - rxp (base e') + rxp (prior e')), (W <=? txp st - txp (base e') + txp (prior e')); reflexivity.
Qed.
