(* C09/RepairSpec.v — NOT property obligations.  Specification of the repair that does not exist yet for the known
   finding `start-stop-interim-sent-from-unordered-goroutines`: the provider calls of one session must reach the
   provider in the order they were issued ([fix_order] in Model.issue1 is a FIFO by definition).  No code and no patch
   implement it; a real ordered send queue would also compute the counters at dequeue time, which this model does not
   describe.  The lemmas below only say what such a repair would buy; they are kept out of Properties.v so that they
   are not counted as discharged obligations about /repo. *)
From OV Require Import Common.Base C09.Model C09.Proofs.
Open Scope N_scope.

(* whatever is delayed, arrived ++ held = issued, in issue order *)
Lemma spec_arrival_is_prefix_of_issue :
  forall fs fl fp g xs,
  let '(d', iss, arr) := drun (V fs true fl fp) g dst0 xs in arr ++ d_held d' = iss.
Proof. exact arrived_prefix. Qed.
Print Assumptions spec_arrival_is_prefix_of_issue.

Lemma spec_delivered_strict :
  forall fs fl fp g xs,
  lrun_wraps (V fs true fl fp) g sst0 (dev_events xs) = false -> no_prune (dev_events xs) = true ->
  never_restored (dev_events xs) = true ->
  strict false (snd (drun (V fs true fl fp) g dst0 xs)) = true.
Proof. exact delivered_strict. Qed.
Print Assumptions spec_delivered_strict.

Lemma spec_delivered_monotone_sent :
  forall fl fp g xs,
  lrun_wraps (V true true fl fp) g sst0 (dev_events xs) = false -> no_prune (dev_events xs) = true ->
  nondecreasing_sent c4z (snd (drun (V true true fl fp) g dst0 xs)) = true.
Proof. exact delivered_monotone_sent. Qed.
Print Assumptions spec_delivered_monotone_sent.

(* the regime of the sequential correspondence harness: nothing delayed => arrival order = issue order (any variant;
   immediate from the definition of [issue1]) *)
Lemma spec_arrival_is_issue_when_no_delay :
  forall v g xs d, no_delay xs = true -> d_hs d = false -> d_held d = [] ->
  snd (drun v g d xs) = snd (fst (drun v g d xs)).
Proof. exact arrived_eq_issued. Qed.
Print Assumptions spec_arrival_is_issue_when_no_delay.
