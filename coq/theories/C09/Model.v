(* C09/Model.v — executable model of the accounting path of internal/aaa
     accounting.go   applyVPPCounters, advanceLastReported, checkpointAcctSession, deleteAcctCheckpoint,
                     loadAcctSessions, pruneOrphanedAcctEntries
     component.go    handleSessionLifecycle, handleSessionRestored, handleSessionRelease,
                     placeSessionInBucket, ProcessAccountingBucket, sendAccountingUpdate, fetchInterfaceStats
   Definitions only; proofs are in Proofs.v.

   Counters are Go uint64: every addition / subtraction is written with its wrap (mod 2^64).

   The component keeps three things per session id: membership in the session's (deterministic) interim
   bucket, the acctCache entry, and the opdb checkpoint.  Different session ids never interact (each map is
   keyed by the id; a bucket tick visits every id of that bucket independently), so the model is a per-session
   machine [lstep] and the component is the indexed product [gstep] of those machines; [project] says which
   sessions a component-level event addresses. *)
From OV Require Import Common.Base.
Open Scope N_scope.

Definition W : N := 18446744073709551616.                 (* 2^64 *)
Definition add64 (a b : N) : N := (a + b) mod W.
Definition sub64 (a b : N) : N := (a + W - b) mod W.      (* a, b < 2^64 *)

(* the four RADIUS usage counters: in-octets, out-octets, in-packets, out-packets *)
Record c4 := C4 { rxb : N; txb : N; rxp : N; txp : N }.
Definition c4z : c4 := C4 0 0 0 0.
Definition c4_map2 (f : N -> N -> N) (a b : c4) : c4 :=
  C4 (f (rxb a) (rxb b)) (f (txb a) (txb b)) (f (rxp a) (rxp b)) (f (txp a) (txp b)).
Definition c4_any2 (f : N -> N -> bool) (a b : c4) : bool :=
  f (rxb a) (rxb b) || f (txb a) (txb b) || f (rxp a) (rxp b) || f (txp a) (txp b).
Definition c4_norm (a : c4) : c4 := C4 (rxb a mod W) (txb a mod W) (rxp a mod W) (txp a mod W).
Definition c4_leb (a b : c4) : bool :=
  N.leb (rxb a) (rxb b) && N.leb (txb a) (txb b) && N.leb (rxp a) (rxp b) && N.leb (txp a) (txp b).
Definition c4_eqb (a b : c4) : bool :=
  N.eqb (rxb a) (rxb b) && N.eqb (txb a) (txb b) && N.eqb (rxp a) (rxp b) && N.eqb (txp a) (txp b).

Definition c4_max (a b : c4) : c4 := c4_map2 N.max a b.

(* Which repairs are applied.  Committed in /repo: fix_counters (7e92d8e), fix_stop (e0693a6), fix_active (d70a5ae),
   fix_sent (9b87063), fix_l2stop (d95fed1), fix_prune (7faf7f9), fix_ghost (5478db8), fix_presend (4de5a6b), fix_l2tp (a967234).
   Not in /repo: fix_order (known finding, no patch). *)
Record variant := Variant {
  fix_counters : bool;   (* applyVPPCounters also treats "cumulative < last reported" as a regress *)
  fix_stop : bool;       (* handleSessionRelease sends Stop only when it removed an acctCache entry *)
  fix_active : bool;     (* handleSessionLifecycle adopts a checkpoint-restored entry instead of overwriting it *)
  fix_sent : bool;       (* a high-water mark of every value SENT (acknowledged or not) is kept, checkpointed, and
                            used as the floor of the next report *)
  fix_order : bool;      (* the provider calls of one session reach the provider in the order they were issued *)
  fix_l2stop : bool;     (* the Stop of an l2gw session reads the l2gw stats segment like its Interims *)
  fix_prune : bool;      (* pruning an orphaned accounting entry closes it at the backend with a Stop *)
  fix_l2tp : bool;       (* handleSessionLifecycle reads state / interface / identity of a PPP-over-L2TP payload too *)
  fix_presend : bool;    (* LastSent is persisted BEFORE the Interim request leaves (not only with its outcome) *)
  fix_ghost : bool       (* a late Accounting-Response - or a checkpoint write that was already on its way - leaves nothing
                            durable for a session released meanwhile (released flag: early return + delete after the write) *)
}.
(* V s o l: the first three repairs plus any subset of the later three (the proofs are uniform in s, o, l) *)
Definition V (s o l p : bool) : variant := Variant true true true s o l p true true true.
(* without fix_l2tp: lifecycle events of access type l2tp are not decoded *)
Definition Vt (s o l p : bool) : variant := Variant true true true s o l p false true true.
(* without fix_presend: LastSent reaches the checkpoint only with the outcome of the request *)
Definition Vq (s o l p : bool) : variant := Variant true true true s o l p true false true.
Definition Vg (s o l p : bool) : variant := Variant true true true s o l p true true false.   (* without fix_ghost *)
Definition head : variant := V true false true true.    (* /repo HEAD *)
Definition before_a967234 : variant := Vt true false true true.   (* HEAD before l2tp lifecycle events were decoded *)
Definition before_4de5a6b : variant := Vq true false true true.   (* HEAD before LastSent was persisted pre-send *)
Definition before_5478db8 : variant := Vg true false true true.   (* HEAD before the ghost-checkpoint fix *)
Definition before_7faf7f9 : variant := V true false true false.   (* HEAD before the stop-on-prune fix *)
Definition repaired : variant := V true true true true.
Definition before_9b87063 : variant := V false false false false.   (* HEAD before the sent-floor and l2gw-stop fixes *)
Definition defective : variant := Variant false false false false false false false false false false.   (* the code as first found *)

(* AccountingSession: the fields the property depends on *)
Record sess := Sess {
  ifx : N;            (* swIfIndex (for an l2gw session: the access-direction stats entry index) *)
  hfx : N;            (* l2gwHandoffIndex (handoff-direction stats entry index; not checkpointed) *)
  last : c4;          (* lastReported*      *)
  hw : c4;            (* lastSent* (since 9b87063, fix_sent): the values of the most recent request sent; zero without fix_sent *)
  base : c4;          (* currentBaseline*   *)
  prior : c4;         (* priorDelta*        *)
  pending : bool      (* pendingSessionConfirm *)
}.
Definition fresh (i h : N) : sess := Sess i h c4z c4z c4z c4z false.
(* the floor of the next report *)
Definition floor (v : variant) (e : sess) : c4 := if fix_sent v then c4_max (last e) (hw e) else last e.

(* applyVPPCounters, first half: regress detection and re-baselining *)
Definition cum (e : sess) (st : c4) : c4 := c4_map2 add64 (c4_map2 sub64 st (base e)) (prior e).
Definition regressed (v : variant) (e : sess) (st : c4) : bool :=
  c4_any2 N.ltb st (base e) || (fix_counters v && c4_any2 N.ltb (cum e st) (floor v e)).
Definition rebase (v : variant) (e : sess) (st : c4) : sess :=
  if regressed v e st then Sess (ifx e) (hfx e) (last e) (hw e) c4z (floor v e) (pending e) else e.
(* applyVPPCounters: new session state and the cumulative values returned *)
Definition apply (v : variant) (e : sess) (st : c4) : sess * c4 :=
  let e' := rebase v e st in (e', cum e' st).

(* the u64 arithmetic of this call wrapped: the cumulative returned is not the true total *)
Definition apply_wraps (v : variant) (e : sess) (st : c4) : bool :=
  let e' := rebase v e st in
  c4_any2 N.ltb st (base e') ||
  c4_any2 (fun a b => N.leb W (a + b)) (c4_map2 N.sub st (base e')) (prior e').

(* fetchInterfaceStats: None = snapshot unavailable; the Go map keeps the last entry of an index *)
Definition snap := option (list (N * c4)).
Fixpoint lookup_last (l : list (N * c4)) (i : N) (acc : option c4) : option c4 :=
  match l with
  | [] => acc
  | (j, c) :: r => lookup_last r i (if N.eqb i j then Some (c4_norm c) else acc)
  end.
Definition lookup_stats (sn : snap) (i : N) : option c4 :=
  match sn with None => None | Some l => lookup_last l i None end.

(* GetL2GWStats: per stats-segment entry index (bytes, packets); None = unavailable *)
Definition l2snap := option (list (N * (N * N))).
Fixpoint lookup_l2_last (l : list (N * (N * N))) (i : N) (acc : option (N * N)) : option (N * N) :=
  match l with
  | [] => acc
  | (j, (b, p)) :: r => lookup_l2_last r i (if N.eqb i j then Some (b mod W, p mod W) else acc)
  end.
Definition lookup_l2 (sn : l2snap) (i : N) : option (N * N) :=
  match sn with None => None | Some l => lookup_l2_last l i None end.
(* what the dataplane shows at one instant: the interface table and the l2gw stats segment *)
Record snaps := Snaps { ifs : snap; l2 : l2snap }.

(* the reading a report is computed from.  g = the session's access type is l2gw.
   An l2gw session reads the access entry (upstream = input) and the handoff entry (downstream = output) of the l2gw
   segment, present if either entry is — on a tick (sendAccountingUpdate) and, since d95fed1 (fix_l2stop), also for
   the Stop (handleSessionRelease / fetchReleaseStats); before that the Stop read the interface table at swIfIndex for
   every access type.  Every other session reads the interface table at swIfIndex. *)
Definition l2_reading (e : sess) (sn : l2snap) : option c4 :=
  match lookup_l2 sn (ifx e), lookup_l2 sn (hfx e) with
  | None, None => None
  | u, d =>
      let ub := match u with Some x => x | None => (0, 0) end in
      let db := match d with Some x => x | None => (0, 0) end in
      Some (C4 (fst ub) (fst db) (snd ub) (snd db))
  end.
Definition reading (v : variant) (g tick : bool) (e : sess) (sn : snaps) : option c4 :=
  if g && (tick || fix_l2stop v) then l2_reading e (l2 sn) else lookup_stats (ifs sn) (ifx e).

(* sendAccountingUpdate / handleSessionRelease: last-reported unless a reading is present *)
Definition report (v : variant) (g tick : bool) (e : sess) (sn : snaps) : sess * c4 :=
  match reading v g tick e sn with
  | Some st => apply v e st
  | None => (e, floor v e)
  end.
Definition report_wraps (v : variant) (g tick : bool) (e : sess) (sn : snaps) : bool :=
  match reading v g tick e sn with
  | Some st => apply_wraps v e st
  | None => false
  end.

(* per-session state of the component *)
Record sst := Sst {
  inb : bool;               (* the id is in its interim bucket *)
  cache : option sess;      (* acctCache[id] *)
  db : option sess;         (* opdb checkpoint (pending flag unused) *)
  orph : option sess        (* the AccountingSession object detached by the last release: a sendAccountingUpdate goroutine
                               whose Accounting-Response is still outstanding keeps a pointer to it *)
}.
Definition sst0 : sst := Sst false None None None.

(* notifications addressed to one session *)
Inductive sev :=
| EActive (i h : N)               (* TopicSessionLifecycle, state <> released, IfIndex i (l2gw: entry indexes i, h) *)
| ERestored (i h : N)             (* TopicSessionRestored, IfIndex i *)
| EReleased (sn : snaps)          (* TopicSessionLifecycle, state released; sn = stats snapshot at that time *)
| ETick (sn : snaps) (ok : bool)  (* the session's bucket fires; ok = Accounting-Response received *)
| EAck                            (* the Accounting-Response of an Interim sent earlier ([ETick _ false] = "no response
                                     yet") arrives late: advanceLastReported to the value sent, checkpoint *)
| ENack                           (* the request of an Interim sent earlier ([ETick _ false]) fails for good (timeout / error
                                     returned): checkpointAcctSession of the cached session (since 9b87063) *)
| ELate (ok : bool)               (* the Accounting-Response (ok / failed) of an Interim whose session was RELEASED while it
                                     was outstanding arrives: sendAccountingUpdate finishes on the detached object and
                                     calls checkpointAcctSession *)
| ERestart                        (* process restart: new component, loadAcctSessions *)
| EPrune (past : bool).           (* pruneOrphanedAcctEntries; past = now is after the confirm deadline *)

(* calls reaching the auth provider *)
Inductive out :=
| Start
| Interim (c : c4) (ok : bool)
| Stop (c : c4).

Definition confirm (e : sess) (i h : N) : sess := Sess i h (last e) (hw e) (base e) (prior e) false.

Definition lstep (v : variant) (g : bool) (s : sst) (ev : sev) : sst * list out :=
  match ev with
  | EActive i h =>
      if inb s then (s, [])                                   (* alreadyPresent *)
      else match cache s with
           | Some e =>
               if fix_active v then (Sst true (Some (confirm e i h)) (db s) (orph s), [])
               else (Sst true (Some (fresh i h)) (Some (fresh i h)) (orph s), [Start])
           | None => (Sst true (Some (fresh i h)) (Some (fresh i h)) (orph s), [Start])
           end
  | ERestored i h =>
      match cache s with
      | Some e => (Sst true (Some (confirm e i h)) (db s) (orph s), [])
      | None => (Sst true (Some (fresh i h)) (db s) (orph s), [])       (* seeded, not checkpointed *)
      end
  | EReleased sn =>
      match cache s with
      | Some e => (Sst false None None (Some (fst (report v g false e sn))), [Stop (snd (report v g false e sn))])
      | None => (Sst false None None (orph s), if fix_stop v then [] else [Stop c4z])
      end
  | ETick sn ok =>
      if inb s then
        match cache s with
        | Some e =>
            let (e0, c) := report v g true e sn in
            (* fix_sent (9b87063): noteSent - lastSent := c BEFORE the provider call; the checkpoint follows the call's outcome *)
            let e' := if fix_sent v then Sess (ifx e0) (hfx e0) (last e0) c (base e0) (prior e0) (pending e0) else e0 in
            if ok then
              let e'' := Sess (ifx e') (hfx e') c (hw e') (base e') (prior e') (pending e') in   (* advanceLastReported *)
              (Sst true (Some e'') (Some e'') (orph s), [Interim c true])              (* + checkpoint *)
            else (* no Accounting-Response (yet): the checkpoint is written now only with fix_presend; a FAILED response
                    writes it when it arrives ([ENack]) *)
                 (Sst true (Some e') (if fix_sent v && fix_presend v then Some e' else db s) (orph s), [Interim c false])
        | None => (s, [])
        end
      else (s, [])
  | EAck =>
      match cache s with
      | Some e => let e'' := Sess (ifx e) (hfx e) (floor v e) (hw e) (base e) (prior e) (pending e) in
                  (Sst (inb s) (Some e'') (Some e'') (orph s), [])
      | None => (s, [])
      end
  | ENack =>
      match cache s with
      | Some e => if fix_sent v then (Sst (inb s) (Some e) (Some e) (orph s), []) else (s, [])
      | None => (s, [])
      end
  | ELate ok =>
      match orph s with
      | Some o =>
          if fix_ghost v then (Sst (inb s) (cache s) (db s) None, [])     (* released: no checkpoint *)
          else let o' := if ok then Sess (ifx o) (hfx o) (floor v o) (hw o) (base o) (prior o) (pending o) else o in
               (Sst (inb s) (cache s) (Some o') None, [])                 (* the deleted checkpoint is written again *)
      | None => (s, [])
      end
  | ERestart =>
      (Sst false
           (match db s with
            | Some d => Some (Sess (ifx d) 0 (last d) (hw d) (base d) (prior d) true)   (* the handoff index is not in the checkpoint *)
            | None => None end)
           (db s) None, [])   (* the old process and its goroutines are gone *)
  | EPrune past =>
      match cache s with
      | Some e => if pending e && past
                  then (Sst (inb s) None None (orph s), if fix_prune v then [Stop (floor v e)] else [])
                  else (s, [])
      | None => (s, [])
      end
  end.

(* did the u64 arithmetic of this step wrap? *)
Definition lstep_wraps (v : variant) (g : bool) (s : sst) (ev : sev) : bool :=
  match ev, cache s with
  | EReleased sn, Some e => report_wraps v g false e sn
  | ETick sn _, Some e => inb s && report_wraps v g true e sn
  | _, _ => false
  end.

(* run: the trace pairs every notification with the calls it caused *)
Fixpoint lrun (v : variant) (g : bool) (s : sst) (evs : list sev) : sst * list (sev * list out) :=
  match evs with
  | [] => (s, [])
  | ev :: r =>
      let (s1, o) := lstep v g s ev in
      let (s2, t) := lrun v g s1 r in
      (s2, (ev, o) :: t)
  end.
Fixpoint lrun_wraps (v : variant) (g : bool) (s : sst) (evs : list sev) : bool :=
  match evs with
  | [] => false
  | ev :: r => lstep_wraps v g s ev || lrun_wraps v g (fst (lstep v g s ev)) r
  end.
Definition outputs (t : list (sev * list out)) : list out := flat_map snd t.

(* ------------------------------------------------------------------ *)
(* The component: sessions 0..k-1, session j has interim bucket (nth j bk). *)
Inductive gev :=
| GActive (j : nat) (i h : N)
| GRestored (j : nat) (i h : N)
| GReleased (j : nat) (sn : snaps)
| GTick (b : N) (fails : list nat) (sn : snaps)     (* ProcessAccountingBucket b *)
| GAck (j : nat)                                     (* late Accounting-Response for session j's Interim *)
| GNack (j : nat)                                    (* the outstanding Interim request of session j failed *)
| GLate (j : nat) (ok : bool)                        (* late response for session j's detached object *)
| GRestart
| GPrune (past : bool).

Definition mem_nat (j : nat) (l : list nat) : bool := existsb (Nat.eqb j) l.

Definition project (bk : list N) (j : nat) (g : gev) : option sev :=
  match g with
  | GActive k i h => if Nat.eqb j k then Some (EActive i h) else None
  | GRestored k i h => if Nat.eqb j k then Some (ERestored i h) else None
  | GReleased k sn => if Nat.eqb j k then Some (EReleased sn) else None
  | GTick b fails sn =>
      match nth_error bk j with
      | Some bj => if N.eqb bj b then Some (ETick sn (negb (mem_nat j fails))) else None
      | None => None
      end
  | GAck k => if Nat.eqb j k then Some EAck else None
  | GNack k => if Nat.eqb j k then Some ENack else None
  | GLate k ok => if Nat.eqb j k then Some (ELate ok) else None
  | GRestart => Some ERestart
  | GPrune past => Some (EPrune past)
  end.

Definition lstep_opt (v : variant) (g : bool) (s : sst) (e : option sev) : sst * list out :=
  match e with Some ev => lstep v g s ev | None => (s, []) end.

(* tys: access type of session j: 1 = l2gw, 2 = PPP over L2TP (LNS), anything else = IPoE / PPPoE *)
Definition is_l2gw (tys : list N) (j : nat) : bool := N.eqb (nth j tys 0) 1.
Definition is_l2tp (tys : list N) (j : nat) : bool := N.eqb (nth j tys 0) 2.
(* What handleSessionLifecycle makes of a lifecycle event of access type l2tp without fix_l2tp: its switch has no case for
   *models.PPPoL2TPSession, so state, interface index and identity stay zero - EVERY such event, also one with state
   released, is an announcement of a session on interface 0 *)
Definition l2tp_view (v : variant) (t : bool) (ev : sev) : sev :=
  if t && negb (fix_l2tp v) then
    match ev with EActive _ _ => EActive 0 0 | EReleased _ => EActive 0 0 | e => e end
  else ev.
Fixpoint gstep_from (v : variant) (bk : list N) (tys : list N) (j : nat) (g : list sst) (e : gev) : list (sst * list out) :=
  match g with
  | [] => []
  | s :: r => lstep_opt v (is_l2gw tys j) s (option_map (l2tp_view v (is_l2tp tys j)) (project bk j e))
              :: gstep_from v bk tys (S j) r e
  end.
Definition gstep (v : variant) (bk : list N) (tys : list N) (g : list sst) (e : gev) : list (sst * list out) :=
  gstep_from v bk tys 0 g e.

(* ------------------------------------------------------------------ *)
(* The property as an executable monitor over the observable trace (notification, calls).  It does not
   look at the component state: it keeps its own ledger of what the AAA backend has been told.
     m_open  accounting for the session is open (a Start was sent, or the session was restored)
     m_pers  the open accounting survives a process restart (a checkpoint was written for it)
     m_pend  restored from a checkpoint by a restart and not yet re-announced
     m_ack   the cumulative values last acknowledged by the backend *)
Record mst := Mst { m_open : bool; m_pers : bool; m_pend : bool; m_ack : c4; m_sent : c4 }.
Definition mst0 : mst := Mst false false false c4z c4z.

(* fs = the component keeps (and persists) a high-water mark of every value sent (variant fix_sent): then every
   report must also be >= the last value SENT, and a sent Interim makes the accounting survive a restart *)
Definition ge_floor (fs : bool) (m : mst) (c : c4) : bool :=
  c4_leb (m_ack m) c && (negb fs || c4_leb (m_sent m) c).

Definition mon_step (fs fp : bool) (m : mst) (ev : sev) (o : list out) : option mst :=
  match ev with
  | EActive _ _ =>
      if m_open m then
        match o with [] => Some (Mst true (m_pers m) false (m_ack m) (m_sent m)) | _ => None end   (* never a second Start *)
      else match o with [Start] => Some (Mst true true false c4z c4z) | _ => None end             (* first Active: one Start *)
  | ERestored _ _ =>
      match o with
      | [] => if m_open m then Some (Mst true (m_pers m) false (m_ack m) (m_sent m))
              else Some (Mst true false false c4z c4z)                                            (* restore never sends Start *)
      | _ => None
      end
  | EReleased _ =>
      if m_open m then
        match o with
        | [Stop c] => if ge_floor fs m c then Some mst0 else None        (* exactly one Stop, not below the last report *)
        | _ => None
        end
      else match o with [] => Some mst0 | _ => None end                  (* nothing to stop: no Stop *)
  | ETick _ ok =>
      if m_open m && negb (m_pend m) then
        match o with
        | [Interim c ok'] =>
            if Bool.eqb ok ok' && ge_floor fs m c
            then Some (Mst true (m_pers m || ok || fs) false (if ok then c else m_ack m) c) else None
        | _ => None
        end
      else match o with [] => Some m | _ => None end
  | EAck =>
      match o with
      | [] => if m_open m then Some (Mst true true (m_pend m) (if fs then c4_max (m_ack m) (m_sent m) else m_ack m) (m_sent m))
              else Some m
      | _ => None
      end
  | ENack => match o with
             | [] => if m_open m && fs then Some (Mst true true (m_pend m) (m_ack m) (m_sent m)) else Some m
             | _ => None end
  | ELate _ => match o with [] => Some m | _ => None end
  | ERestart =>
      match o with
      | [] => if m_open m && m_pers m then Some (Mst true true true (m_ack m) (m_sent m)) else Some mst0
      | _ => None
      end
  | EPrune past =>
      if m_open m && m_pend m && past then
        (* the orphaned accounting is dropped: fp = it is closed at the backend with a Stop at the floor *)
        if fp then match o with [Stop c] => if ge_floor fs m c then Some mst0 else None | _ => None end
        else match o with [] => Some mst0 | _ => None end
      else match o with [] => Some m | _ => None end
  end.

Fixpoint mon_run (fs fp : bool) (m : mst) (t : list (sev * list out)) : option mst :=
  match t with
  | [] => Some m
  | (ev, o) :: r => match mon_step fs fp m ev o with Some m' => mon_run fs fp m' r | None => None end
  end.
Definition accepted (fs fp : bool) (t : list (sev * list out)) : bool :=
  match mon_run fs fp mst0 t with Some _ => true | None => false end.

(* ------------------------------------------------------------------ *)
(* Plain statements over the call stream, independent of the monitor. *)

(* at most one Start per bracket: after a Start no further Start may follow until a Stop;
   inside = "a Start has been sent since the last Stop" *)
Fixpoint bracketed (inside : bool) (l : list out) : bool :=
  match l with
  | [] => true
  | Start :: r => if inside then false else bracketed true r
  | Interim _ _ :: r => bracketed inside r
  | Stop _ :: r => bracketed false r
  end.

(* every Stop in the trace answers a Released notification (or closes a pruned orphan), and between two Stops the session was
   announced again (Active or Restored): armed = announced since the last Stop *)
Fixpoint stops_ok (armed : bool) (t : list (sev * list out)) : bool :=
  match t with
  | [] => true
  | (ev, o) :: r =>
      let nstops := length (filter (fun x => match x with Stop _ => true | _ => false end) o) in
      match ev with
      | EReleased _ => (if armed then Nat.leb nstops 1 else Nat.eqb nstops 0) && stops_ok false r
      | EPrune _ => (if armed then Nat.leb nstops 1 else Nat.eqb nstops 0) && stops_ok (armed && Nat.eqb nstops 0) r
      | EActive _ _ | ERestored _ _ => Nat.eqb nstops 0 && stops_ok true r
      | _ => Nat.eqb nstops 0 && stops_ok armed r
      end
  end.

(* every Interim and the Stop carry values not below the last acknowledged report (successful Interim) of the
   same bracket; a Start or a Stop begins a new series at zero *)
Fixpoint nondecreasing (prev : c4) (l : list out) : bool :=
  match l with
  | [] => true
  | Start :: r => nondecreasing c4z r
  | Interim c ok :: r => c4_leb prev c && nondecreasing (if ok then c else prev) r
  | Stop c :: r => c4_leb prev c && nondecreasing c4z r
  end.

(* the orphan-prune deadline never passes in this history *)
Definition no_prune (evs : list sev) : bool :=
  forallb (fun ev => match ev with EPrune true => false | _ => true end) evs.

(* ------------------------------------------------------------------ *)
(* plugins/auth/radius/accounting.go sendAccounting: how the four counters of an Accounting-Request go on the wire.
   Octets: attribute 42/43 = uint32(x) and, only when uint32(x >> 32) > 0, attribute 52/53 (Gigawords) — for
   every Acct-Status-Type.  Packets: attribute 47/48 = uint32(x); RADIUS has no packet gigawords. *)
Definition W32 : N := 4294967296.
Record wire := Wire {
  w_status : N;                  (* 40: 1 Start, 2 Stop, 3 Interim-Update *)
  w_in_oct : N;  w_out_oct : N;  (* 42, 43 *)
  w_in_giga : option N;  w_out_giga : option N;   (* 52, 53: None = attribute absent *)
  w_in_pkt : N;  w_out_pkt : N   (* 47, 48 *)
}.
Definition giga_attr (x : N) : option N :=
  let g := (x / W32) mod W32 in if N.ltb 0 g then Some g else None.
Definition encode_wire (status : N) (c : c4) : wire :=
  Wire status (rxb c mod W32) (txb c mod W32) (giga_attr (rxb c)) (giga_attr (txb c))
       (rxp c mod W32) (txp c mod W32).
(* what an accounting server reconstructs (RFC 2869): Gigawords * 2^32 + Octets, absent Gigawords = 0 *)
Definition giga_val (g : option N) : N := match g with Some x => x | None => 0 end.
Definition decode_wire (w : wire) : c4 :=
  C4 (giga_val (w_in_giga w) * W32 + w_in_oct w) (giga_val (w_out_giga w) * W32 + w_out_oct w)
     (w_in_pkt w) (w_out_pkt w).

Definition status_of (o : out) : N := match o with Start => 1 | Stop _ => 2 | Interim _ _ => 3 end.
Definition counters_of (o : out) : c4 := match o with Start => c4z | Stop c => c | Interim c _ => c end.
(* the call as the accounting server sees it after the wire *)
Definition through_wire (o : out) : out :=
  let c := decode_wire (encode_wire (status_of o) (counters_of o)) in
  match o with Start => Start | Stop _ => Stop c | Interim _ ok => Interim c ok end.
(* octets are u64 by type; packet counters above 2^32 cannot be represented in RADIUS *)
Definition wire_range (c : c4) : bool :=
  N.ltb (rxb c) W && N.ltb (txb c) W && N.ltb (rxp c) W32 && N.ltb (txp c) W32.

(* "from one report to the next": every Interim and the Stop carry values not below the last report SENT in the
   bracket, acknowledged or not (a send that failed may still have been received) *)
Fixpoint nondecreasing_sent (prev : c4) (l : list out) : bool :=
  match l with
  | [] => true
  | Start :: r => nondecreasing_sent c4z r
  | Interim c _ :: r => c4_leb prev c && nondecreasing_sent c r
  | Stop c :: r => c4_leb prev c && nondecreasing_sent c4z r
  end.
Definition all_acked (evs : list sev) : bool :=
  forallb (fun ev => match ev with ETick _ false => false | _ => true end) evs.

(* the stream of a session that is never restored: a prefix of (Start Interim* Stop)*; opened = inside a bracket *)
Fixpoint strict (opened : bool) (l : list out) : bool :=
  match l with
  | [] => true
  | Start :: r => if opened then false else strict true r
  | Interim _ _ :: r => opened && strict true r
  | Stop _ :: r => opened && strict false r
  end.
Definition never_restored (evs : list sev) : bool :=
  forallb (fun ev => match ev with ERestored _ _ => false | _ => true end) evs.

(* ------------------------------------------------------------------ *)
(* Asynchronous delivery.  Every provider call is made from its own goroutine (go StartAccounting,
   go sendAccountingUpdate, go StopAccounting): the order in which calls are ISSUED by the handlers and the order in
   which they ARRIVE at the provider may differ.  A delayed call sits in [held]; hs = "Start calls are being delayed"
   (the scheduler / a slow backend; the harness forces it with a gate in the provider fake).
   HEAD: a delayed call delays nothing else.  fix_order: a call queues behind every earlier call of its session. *)
Definition delayed (hs : bool) (o : out) : bool := match o with Start => hs | _ => false end.
Definition is_nil {A} (l : list A) : bool := match l with [] => true | _ => false end.
Definition issue1 (v : variant) (hs : bool) (held : list out) (o : out) : list out * list out :=
  if (if fix_order v then negb (is_nil held) || delayed hs o else delayed hs o)
  then (held ++ [o], []) else (held, [o]).
Fixpoint issue (v : variant) (hs : bool) (held : list out) (os : list out) : list out * list out :=
  match os with
  | [] => (held, [])
  | o :: r => let (h1, a1) := issue1 v hs held o in
              let (h2, a2) := issue v hs h1 r in (h2, a1 ++ a2)
  end.
Inductive dev := DEv (ev : sev) | DHold (hs : bool) | DRelease.
Record dst := Dst { d_comp : sst; d_hs : bool; d_held : list out }.
Definition dst0 : dst := Dst sst0 false [].
(* one step: new state, calls issued, calls arrived *)
Definition dstep (v : variant) (g : bool) (d : dst) (x : dev) : dst * list out * list out :=
  match x with
  | DEv ev => let (s', os) := lstep v g (d_comp d) ev in
              let (h', arr) := issue v (d_hs d) (d_held d) os in
              (Dst s' (d_hs d) h', os, arr)
  | DHold hs => (Dst (d_comp d) hs (d_held d), [], [])
  | DRelease => (Dst (d_comp d) (d_hs d) [], [], d_held d)
  end.
Fixpoint drun (v : variant) (g : bool) (d : dst) (xs : list dev) : dst * list out * list out :=
  match xs with
  | [] => (d, [], [])
  | x :: r => let '(d1, i1, a1) := dstep v g d x in
              let '(d2, i2, a2) := drun v g d1 r in (d2, i1 ++ i2, a1 ++ a2)
  end.
Definition dev_events (xs : list dev) : list sev :=
  flat_map (fun x => match x with DEv ev => [ev] | _ => [] end) xs.

(* The bracket WITH restore.  What the backend may see for one session, given the notifications: a prefix of
   (Start Interim* Stop | Interim* Stop)* where a bracket without Start is only legitimate after a Restored notification:
     BClosed  no accounting open at the backend
     BQuiet   the session was restored and nothing has been sent for it yet (a Start, an Interim or a Stop may follow)
     BOpen    a bracket is open (Interim or Stop may follow, never a Start) *)
Inductive bstate := BClosed | BQuiet | BOpen.
Fixpoint strict_calls (b : bstate) (l : list out) : option bstate :=
  match l with
  | [] => Some b
  | Start :: r => match b with BOpen => None | _ => strict_calls BOpen r end
  | Interim _ _ :: r => match b with BClosed => None | _ => strict_calls BOpen r end
  | Stop _ :: r => match b with BClosed => None | _ => strict_calls BClosed r end
  end.
Fixpoint strictT (b : bstate) (t : list (sev * list out)) : bool :=
  match t with
  | [] => true
  | (ev, o) :: r =>
      let b1 := match ev, b with ERestored _ _, BClosed => BQuiet | _, _ => b end in
      match strict_calls b1 o with Some b2 => strictT b2 r | None => false end
  end.

(* no Accounting-Response arrives for a session released while it was outstanding *)
Definition no_late (evs : list sev) : bool :=
  forallb (fun ev => match ev with ELate _ => false | _ => true end) evs.

(* ------------------------------------------------------------------ *)
(* Per counter.  The monotonicity clause is per counter, and so is its domain: only the counter whose own true total
   reaches 2^64 in a report is outside it, the other three are not. *)
Record b4 := B4 { w_rxb : bool; w_txb : bool; w_rxp : bool; w_txp : bool }.
Definition b4_none : b4 := B4 false false false false.
Definition b4_any (w : b4) : bool := w_rxb w || w_txb w || w_rxp w || w_txp w.
Definition b4_or (a b : b4) : b4 := B4 (w_rxb a || w_rxb b) (w_txb a || w_txb b) (w_rxp a || w_rxp b) (w_txp a || w_txp b).
(* counter k of this report wrapped: reading below the baseline, or (reading - baseline) + prior >= 2^64 *)
Definition wrap1 (st bs pr : N) : bool := N.ltb st bs || N.leb W ((st - bs) + pr).
Definition apply_wraps4 (v : variant) (e : sess) (st : c4) : b4 :=
  let e' := rebase v e st in
  B4 (wrap1 (rxb st) (rxb (base e')) (rxb (prior e'))) (wrap1 (txb st) (txb (base e')) (txb (prior e')))
     (wrap1 (rxp st) (rxp (base e')) (rxp (prior e'))) (wrap1 (txp st) (txp (base e')) (txp (prior e'))).
Definition report_wraps4 (v : variant) (g tick : bool) (e : sess) (sn : snaps) : b4 :=
  match reading v g tick e sn with Some st => apply_wraps4 v e st | None => b4_none end.
Definition lstep_wraps4 (v : variant) (g : bool) (s : sst) (ev : sev) : b4 :=
  match ev, cache s with
  | EReleased sn, Some e => report_wraps4 v g false e sn
  | ETick sn _, Some e => if inb s then report_wraps4 v g true e sn else b4_none
  | _, _ => b4_none
  end.
(* the trace with, for every step, the counters that wrapped in it *)
Fixpoint lrun4 (v : variant) (g : bool) (s : sst) (evs : list sev) : list (sev * list out * b4) :=
  match evs with
  | [] => []
  | ev :: r => (ev, snd (lstep v g s ev), lstep_wraps4 v g s ev) :: lrun4 v g (fst (lstep v g s ev)) r
  end.
Fixpoint lrun_wraps4 (v : variant) (g : bool) (s : sst) (evs : list sev) : b4 :=
  match evs with
  | [] => b4_none
  | ev :: r => b4_or (lstep_wraps4 v g s ev) (lrun_wraps4 v g (fst (lstep v g s ev)) r)
  end.

(* every value SENT is, counter by counter, not below the previous value sent in the bracket - except for a counter
   that wrapped in that very report *)
Definition c4_leb_w (w : b4) (a b : c4) : bool :=
  (w_rxb w || N.leb (rxb a) (rxb b)) && (w_txb w || N.leb (txb a) (txb b)) &&
  (w_rxp w || N.leb (rxp a) (rxp b)) && (w_txp w || N.leb (txp a) (txp b)).
Fixpoint mono_outs (w : b4) (prev : c4) (l : list out) : bool * c4 :=
  match l with
  | [] => (true, prev)
  | Start :: r => mono_outs w c4z r
  | Interim c _ :: r => let (ok, p) := mono_outs w c r in (c4_leb_w w prev c && ok, p)
  | Stop c :: r => let (ok, p) := mono_outs w c4z r in (c4_leb_w w prev c && ok, p)
  end.
Fixpoint mono4 (prev : c4) (t : list (sev * list out * b4)) : bool :=
  match t with
  | [] => true
  | (_, o, w) :: r => let (ok, p) := mono_outs w prev o in ok && mono4 p r
  end.
