From Coq Require Import Extraction ExtrOcamlBasic.
From OV Require Import Common.Base C09.Model.
Extraction Language OCaml.
Extraction "C09_model.ml" gstep project sst0 lrun lrun_wraps accepted bracketed stops_ok nondecreasing outputs no_prune c4z l2tp_view lstep_wraps4 mono_outs strict strictT nondecreasing_sent issue never_restored all_acked no_late encode_wire decode_wire through_wire wire_range.
