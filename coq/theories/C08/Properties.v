(* placeholder until Proofs.v is written *)
From OV Require Import Common.Base C08.Model.
Example C08_placeholder : f_reply repaired = true.
Proof. reflexivity. Qed.
Print Assumptions C08_placeholder.
