(* C08/Properties.v — RADIUS messages take effect only when authenticated with the shared secret.
   Every theorem quantifies over the hash function [md5raw] (MD5 is an argument, not an axiom), over all
   datagrams, configurations and histories.  Flag records: [repaired] = every repair in place; [head] = what
   /repo HEAD implements (the six committed C08 fixes; NOT the Event-Timestamp requirement of
   fixes/C08_require_event_timestamp.patch — the one finding still recorded as known).  Theorems that do not depend on that requirement are
   stated for every flag record with the relevant repair on, so they cover both.  Each [_refuted] lemma shows
   that the statement fails when the named repair is off. *)
From OV Require Import Common.Base C08.Model C08.Proofs.
Import ListNotations.
Local Open Scope list_scope.
Local Open Scope N_scope.

(* ---------------------------------------------------------------------------------------------
   1. Replies (radiusConn.exchange / readLoop).  For every sequence of sends, received datagrams and
   timeouts on one client socket: whenever a datagram is handed to a waiting exchange, a request with
   that identifier is outstanding (sent, not yet answered, not timed out), the datagram carries that
   identifier, its Response Authenticator verifies against the authenticator of THAT request under the
   server secret, and its Message-Authenticator verifies when present.  Since [awaiting] becomes None
   after a delivery, at most one datagram is accepted per request. *)
Theorem C08_reply_authentic :
  forall md5raw fl, f_reply fl = true ->
  forall secret ops st outs,
    Forall op_wf ops ->
    crun md5raw fl secret pending0 ops = (st, outs) ->
    deliveries_authentic md5raw secret (rev (events ops outs)).
Proof. exact reply_authentic. Qed.
Print Assumptions C08_reply_authentic.

(* the same with unforgeability as an explicit premise about the world: if only datagrams issued by the
   key holder for a given request authenticator verify, only issued datagrams are ever acted upon *)
Theorem C08_forged_not_acted_on :
  forall md5raw fl secret (issued : bytes -> bytes -> Prop),
    f_reply fl = true ->
    (forall reqauth d, resp_auth_ok md5raw secret reqauth d = true -> issued reqauth d) ->
    forall ops st outs,
      Forall op_wf ops ->
      crun md5raw fl secret pending0 ops = (st, outs) ->
      deliveries_issued issued (rev (events ops outs)).
Proof. exact forged_not_acted_on. Qed.
Print Assumptions C08_forged_not_acted_on.

(* The decision of one read-loop iteration, both halves: a datagram is handed over to identifier i iff it parses,
   carries i, a request is outstanding on i and the datagram verifies against THAT request.  Hence a datagram
   that does not verify is ignored; [awaiting] is unchanged by ignored datagrams (EvRecv _ None), so ... *)
Theorem C08_reply_decision :
  forall md5raw fl, f_reply fl = true ->
  forall secret st h d i,
    cinv st h ->
    (snd (cstep md5raw fl secret st (CRecv d)) = Some i <->
     exists p req, parse d = Some p /\ p_id p = i /\ awaiting h i = Some req /\
                   resp_auth_ok md5raw secret (sub 4 16 req) (truncate d) = true /\
                   ma_resp_ok md5raw secret (sub 4 16 req) (truncate d) = true).
Proof. exact crecv_decision. Qed.
Print Assumptions C08_reply_decision.

(* ... the positive half of "at most one delivery per request": after ANY history in which the request is still
   outstanding — whatever forged, stale, malformed or replayed datagrams arrived since it was sent — the reply
   that verifies against it IS handed over.  A forged datagram cannot consume the slot of the genuine reply. *)
Theorem C08_genuine_reply_delivered :
  forall md5raw fl, f_reply fl = true ->
  forall secret ops st outs d p req,
    Forall op_wf ops ->
    crun md5raw fl secret pending0 ops = (st, outs) ->
    parse d = Some p ->
    awaiting (rev (events ops outs)) (p_id p) = Some req ->
    resp_auth_ok md5raw secret (sub 4 16 req) (truncate d) = true ->
    ma_resp_ok md5raw secret (sub 4 16 req) (truncate d) = true ->
    snd (cstep md5raw fl secret st (CRecv d)) = Some (p_id p).
Proof. exact genuine_reply_delivered. Qed.
Print Assumptions C08_genuine_reply_delivered.

(* Admissible choice.  The property constrains acceptance ("only if"); an implementation may refuse MORE.  The model
   leaves open exactly one such refusal: a datagram whose Message-Authenticator is irregular (attribute 80 of a length
   other than 18, or more than one attribute 80 — [ma_irregular]) may be ignored although everything that is checked
   verifies.  [cstep_g]/[crun_g] take the implementation's answer per datagram.  The authenticity theorem holds for
   every history AND every sequence of such answers, ... *)
Theorem C08_reply_authentic_any_policy :
  forall md5raw fl, f_reply fl = true ->
  forall secret (ops : list (cop * bool)) st outs,
    Forall op_wf (map fst ops) ->
    crun_g md5raw fl secret pending0 ops = (st, outs) ->
    deliveries_authentic md5raw secret (rev (events (map fst ops) outs)).
Proof. exact reply_authentic_g. Qed.
Print Assumptions C08_reply_authentic_any_policy.

(* ... and the positive half is demanded only of REGULAR datagrams, where no choice exists: under every policy a
   regular datagram that verifies against the outstanding request is handed over. *)
Theorem C08_regular_genuine_reply_delivered_any_policy :
  forall md5raw fl, f_reply fl = true ->
  forall secret (ops : list (cop * bool)) st outs rej d p req,
    Forall op_wf (map fst ops) ->
    crun_g md5raw fl secret pending0 ops = (st, outs) ->
    parse d = Some p ->
    awaiting (rev (events (map fst ops) outs)) (p_id p) = Some req ->
    resp_auth_ok md5raw secret (sub 4 16 req) (truncate d) = true ->
    ma_resp_ok md5raw secret (sub 4 16 req) (truncate d) = true ->
    ma_irregular (truncate d) = false ->
    snd (cstep_g md5raw fl rej secret st (CRecv d)) = Some (p_id p).
Proof. exact regular_genuine_reply_delivered. Qed.
Print Assumptions C08_regular_genuine_reply_delivered_any_policy.

(* Provider.Authenticate (one server, one try): whatever it returns other than an error was decided by a
   datagram that is among those received, carries the identifier of the request, has the matching code
   (Access-Accept for Allowed — with exactly the attributes extracted from THAT datagram — Access-Reject for
   denied) and verifies against the authenticator of the request that was sent. *)
Theorem C08_authenticate_authentic :
  forall md5raw fl, f_reply fl = true ->
  forall secret extract req dgs,
    match authenticate md5raw fl secret extract req dgs with
    | AAllowed attrs => decided_by md5raw secret req dgs 2 (fun p => attrs = extract (p_attrs p))
    | ADenied => decided_by md5raw secret req dgs 3 (fun _ => True)
    | AError => True
    end.
Proof. exact authenticate_authentic. Qed.
Print Assumptions C08_authenticate_authentic.

(* Fail-over (sendAuthWithFailover / sendAcctWithFailover, one try per server): every server has its own socket
   and its own secret.  Whatever Authenticate returns other than an error was decided on ONE server of the list,
   all servers before it handed nothing over, and the deciding datagram arrived on THAT server's socket, answers
   the request written to THAT socket and verifies under THAT server's secret — never under another server's. *)
Theorem C08_failover_reply_under_own_secret :
  forall md5raw fl, f_reply fl = true ->
  forall extract servers,
    match authenticate_failover md5raw fl extract servers with
    | AAllowed attrs =>
      exists pre s post d p, servers = pre ++ s :: post /\
        Forall (fun s' => try_server md5raw fl s' = None) pre /\
        verified_on md5raw s d /\ parse d = Some p /\ p_code p = 2 /\ attrs = extract (p_attrs p)
    | ADenied =>
      exists pre s post d p, servers = pre ++ s :: post /\
        Forall (fun s' => try_server md5raw fl s' = None) pre /\
        verified_on md5raw s d /\ parse d = Some p /\ p_code p = 3
    | AError => True
    end.
Proof. exact authenticate_failover_authentic. Qed.
Print Assumptions C08_failover_reply_under_own_secret.

(* ... and under EVERY policy [rej] of ignoring verifying datagrams with an irregular Message-Authenticator (the admissible
   choice of cstep_g, per datagram): the deciding datagram still verifies under the deciding server's own secret.  A single
   server is the one-element list. *)
Theorem C08_failover_authentic_any_policy :
  forall md5raw fl, f_reply fl = true ->
  forall (rej : bytes -> bool) extract servers,
    match authenticate_failover_g md5raw fl rej extract servers with
    | AAllowed attrs =>
      exists pre s post d p, servers = pre ++ s :: post /\
        Forall (fun s' => try_server_g md5raw fl rej s' = None) pre /\
        verified_on md5raw s d /\ parse d = Some p /\ p_code p = 2 /\ attrs = extract (p_attrs p)
    | ADenied =>
      exists pre s post d p, servers = pre ++ s :: post /\
        Forall (fun s' => try_server_g md5raw fl rej s' = None) pre /\
        verified_on md5raw s d /\ parse d = Some p /\ p_code p = 3
    | AError => True
    end.
Proof. exact authenticate_failover_g_authentic. Qed.
Print Assumptions C08_failover_authentic_any_policy.

(* toy hash used only for concrete witnesses (the theorems hold for every function) *)
Definition toy (l : bytes) : bytes := [fold_left (fun a x => (a * 31 + x + 7) mod 256) l 1].
Definition ex_secret : bytes := [115; 51].
Definition ex_req : bytes := [1; 7; 0; 20] ++ repeat 17 16.
Definition ex_forged : bytes := [2; 7; 0; 20] ++ repeat 1 16.
Definition ex_genuine : bytes :=
  [2; 7; 0; 20] ++ md5 toy ([2; 7; 0; 20] ++ repeat 17 16 ++ ex_secret).

Example C08_reply_authentic_nonvacuous :
  crun toy repaired ex_secret pending0 [CSend 7 ex_req; CRecv ex_forged; CRecv ex_genuine; CRecv ex_genuine]
  = (pending0, [None; None; Some 7; None]).
Proof. vm_compute. reflexivity. Qed.
Print Assumptions C08_reply_authentic_nonvacuous.

Definition ex_reject : bytes :=
  [3; 7; 0; 20] ++ md5 toy ([3; 7; 0; 20] ++ repeat 17 16 ++ ex_secret).
Example C08_authenticate_authentic_nonvacuous :
  authenticate toy head ex_secret (fun _ => []) ex_req [ex_forged; ex_genuine; ex_reject] = AAllowed [] /\
  authenticate toy head ex_secret (fun _ => []) ex_req [ex_forged; ex_reject; ex_genuine] = ADenied /\
  authenticate toy head ex_secret (fun _ => []) ex_req [ex_forged] = AError /\
  authenticate toy defective ex_secret (fun _ => []) ex_req [ex_forged; ex_reject] = AAllowed [].
Proof. vm_compute. repeat split; reflexivity. Qed.
Print Assumptions C08_authenticate_authentic_nonvacuous.

(* server A (secret ex_secret) silent, server B (secret [66]) receives a reply signed with A's secret, then its own *)
Definition ex_genuine_B : bytes :=
  [2; 7; 0; 20] ++ md5 toy ([2; 7; 0; 20] ++ repeat 17 16 ++ [66]).
Example C08_failover_nonvacuous :
  authenticate_failover toy head (fun _ => []) [(ex_secret, ex_req, []); ([66], ex_req, [ex_genuine; ex_genuine_B])] = AAllowed [] /\
  try_server toy head ([66], ex_req, [ex_genuine]) = None /\
  try_server toy head ([66], ex_req, [ex_genuine; ex_genuine_B]) = Some ex_genuine_B /\
  (* forged first, genuine second: the genuine one is still delivered *)
  snd (crun toy head ex_secret pending0 [CSend 7 ex_req; CRecv ex_forged; CRecv ex_forged; CRecv ex_genuine]) = [None; None; None; Some 7].
Proof. vm_compute. repeat split; reflexivity. Qed.
Print Assumptions C08_failover_nonvacuous.

(* before commit 7e62e2a (f_reply off): the forged datagram is delivered although its authenticator does not verify *)
Lemma C08_reply_authentic_refuted :
  exists md5raw secret ops st outs,
    Forall op_wf ops /\
    crun md5raw defective secret pending0 ops = (st, outs) /\
    ~ deliveries_authentic md5raw secret (rev (events ops outs)).
Proof.
  exists toy, ex_secret, [CSend 7 ex_req; CRecv ex_forged], pending0, [None; Some 7].
  split; [repeat constructor; reflexivity|]. split; [vm_compute; reflexivity|].
  intros [[req (Ha & _ & Hr & _)] _]. vm_compute in Ha. inversion Ha; subst.
  vm_compute in Hr. discriminate.
Qed.
Print Assumptions C08_reply_authentic_refuted.

(* ---------------------------------------------------------------------------------------------
   2. CoA / Disconnect admission.  A datagram makes the listener publish a mutation or terminate event
   only if its source lies in a configured client net (the first one that contains it), its Request
   Authenticator verifies under THAT client's secret, its Message-Authenticator verifies when present,
   and — unless the operator disabled replay protection (window <= 0) — it carries a usable (4-octet,
   non-zero) Event-Timestamp that lies within the replay window of the local clock.  [repaired] includes the
   Event-Timestamp requirement of fixes/C08_require_event_timestamp.patch. *)
Theorem C08_coa_admission :
  forall md5raw cfg now src bus raw e,
    effect (coa_step md5raw repaired cfg now src bus raw) = Some e ->
    exists cl c p,
      nth_error (clients cfg) cl = Some c /\ contains c src = true /\
      (forall j c', (j < cl)%nat -> nth_error (clients cfg) j = Some c' -> contains c' src = false) /\
      parse raw = Some p /\
      req_auth_ok md5raw (c_secret c) (truncate raw) = true /\
      ma_req_ok_rfc md5raw (c_secret c) (truncate raw) = true /\
      ((window cfg <= 0)%Z \/
       (event_ts (p_attrs p) <> 0 /\
        (- window cfg <= now - Z.of_N (event_ts (p_attrs p)) <= window cfg)%Z)) /\
      nasid_ok (nasid cfg) (p_attrs p) = true /\
      match e with EvMutation _ _ => p_code p = 43 | EvTerminate _ => p_code p = 40 end.
Proof. exact coa_admission_thm. Qed.
Print Assumptions C08_coa_admission.

Definition ex_clients : list client := [{| c_addr := 2130706434; c_plen := 32; c_secret := [107] |}].
Definition ex_cfg : coacfg := {| window := 300; nasid := []; maps := []; clients := ex_clients |}.
Definition sign_req (secret hdr body : bytes) : bytes := hdr ++ md5 toy (hdr ++ zeros16 ++ body ++ secret) ++ body.
(* CoA-Request id 9: Acct-Session-Id "s1", Session-Timeout 3600, Event-Timestamp 1000 *)
Definition ex_coa_body : bytes := [44; 4; 115; 49; 27; 6; 0; 0; 14; 16; 55; 6; 0; 0; 3; 232].
Definition ex_coa : bytes := sign_req [107] [43; 9; 0; 36] ex_coa_body.
(* Disconnect-Request id 9: Acct-Session-Id "s1", Event-Timestamp 1000 *)
Definition ex_dm_body : bytes := [44; 4; 115; 49; 55; 6; 0; 0; 3; 232].
Definition ex_dm : bytes := sign_req [107] [40; 9; 0; 30] ex_dm_body.

Example C08_coa_admission_nonvacuous :
  effect (coa_step toy repaired ex_cfg 1100 2130706434 0 ex_coa)
  = Some (EvMutation (1, [115; 49]) [(k_session_timeout, [51; 54; 48; 48])]) /\
  effect (coa_step toy repaired ex_cfg 1100 2130706434 0 ex_dm) = Some (EvTerminate (1, [115; 49])) /\
  effect (coa_step toy repaired ex_cfg 1301 2130706434 0 ex_coa) = None /\     (* outside the window *)
  effect (coa_step toy repaired ex_cfg 1301 2130706434 0 ex_dm) = None /\
  effect (coa_step toy repaired ex_cfg 1100 2130706435 0 ex_coa) = None.       (* unconfigured source *)
Proof. vm_compute. repeat split; reflexivity. Qed.
Print Assumptions C08_coa_admission_nonvacuous.

(* What /repo HEAD guarantees (Event-Timestamp not required; the finding is recorded as known, not fixed): everything above, but the window is
   enforced only on requests that carry a usable Event-Timestamp. *)
Theorem C08_coa_admission_head_window_only_if_timestamped :
  forall md5raw cfg now src bus raw e,
    effect (coa_step md5raw head cfg now src bus raw) = Some e ->
    exists cl c p,
      nth_error (clients cfg) cl = Some c /\ contains c src = true /\
      (forall j c', (j < cl)%nat -> nth_error (clients cfg) j = Some c' -> contains c' src = false) /\
      parse raw = Some p /\
      req_auth_ok md5raw (c_secret c) (truncate raw) = true /\
      ma_req_ok_rfc md5raw (c_secret c) (truncate raw) = true /\
      ((window cfg <= 0)%Z \/ event_ts (p_attrs p) = 0 \/
       (- window cfg <= now - Z.of_N (event_ts (p_attrs p)) <= window cfg)%Z) /\
      nasid_ok (nasid cfg) (p_attrs p) = true /\
      match e with EvMutation _ _ => p_code p = 43 | EvTerminate _ => p_code p = 40 end.
Proof. exact coa_admission_head_thm. Qed.
Print Assumptions C08_coa_admission_head_window_only_if_timestamped.

(* ... and that this is strictly weaker: on HEAD a correctly signed Disconnect-Request WITHOUT Event-Timestamp
   takes effect at any time although the window is enabled (known finding
   coa-without-event-timestamp-bypasses-window) *)
Definition ex_dm_nots : bytes := sign_req [107] [40; 9; 0; 24] [44; 4; 115; 49].
Lemma C08_coa_missing_timestamp_refuted :
  exists md5raw cfg src bus raw p t,
    (0 < window cfg)%Z /\ parse raw = Some p /\ event_ts (p_attrs p) = 0 /\
    forall now, effect (coa_step md5raw head cfg now src bus raw) = Some (EvTerminate t).
Proof.
  exists toy, ex_cfg, 2130706434, 0, ex_dm_nots. eexists. exists (1, [115; 49]).
  split; [reflexivity|]. split; [vm_compute; reflexivity|]. split; [vm_compute; reflexivity|].
  intros now. unfold coa_step.
  replace (find_client 0 (clients ex_cfg) 2130706434) with (Some (0%nat, {| c_addr := 2130706434; c_plen := 32; c_secret := [107] |}))
    by (vm_compute; reflexivity).
  cbv beta iota. vm_compute. reflexivity.
Qed.
Print Assumptions C08_coa_missing_timestamp_refuted.

(* Replays, part 1: the window bounds them.  If one datagram takes effect at two instants they are at most
   2*window apart (timestamps up to window seconds AHEAD of the clock are admitted too, hence 2*window, not
   window).  Part 2 — that a copy inside the window is not executed again — is C08_coa_single_execution below. *)
Theorem C08_coa_replay_span_bounded :
  forall md5raw cfg src raw now1 bus1 e1 now2 bus2 e2,
    (0 < window cfg)%Z ->
    effect (coa_step md5raw repaired cfg now1 src bus1 raw) = Some e1 ->
    effect (coa_step md5raw repaired cfg now2 src bus2 raw) = Some e2 ->
    (Z.abs (now1 - now2) <= 2 * window cfg)%Z.
Proof. exact coa_replay_span_bounded. Qed.
Print Assumptions C08_coa_replay_span_bounded.

(* The same bound on /repo HEAD: it holds for every request that carries a usable Event-Timestamp ... *)
Theorem C08_coa_replay_span_bounded_head :
  forall md5raw cfg src raw p now1 bus1 e1 now2 bus2 e2,
    (0 < window cfg)%Z ->
    parse raw = Some p -> event_ts (p_attrs p) <> 0 ->
    effect (coa_step md5raw head cfg now1 src bus1 raw) = Some e1 ->
    effect (coa_step md5raw head cfg now2 src bus2 raw) = Some e2 ->
    (Z.abs (now1 - now2) <= 2 * window cfg)%Z.
Proof. exact coa_replay_span_bounded_head. Qed.
Print Assumptions C08_coa_replay_span_bounded_head.

(* ... and this is EXACTLY what HEAD admits without one: the whole decision (reply, statistics, event) of a
   request without a usable Event-Timestamp does not depend on the clock — no bound at all (known finding
   coa-without-event-timestamp-bypasses-window; witness C08_coa_missing_timestamp_refuted). *)
Theorem C08_head_untimestamped_request_ignores_clock :
  forall md5raw cfg now1 now2 src bus raw p,
    parse raw = Some p -> event_ts (p_attrs p) = 0 ->
    coa_step md5raw head cfg now1 src bus raw = coa_step md5raw head cfg now2 src bus raw.
Proof. exact head_untimestamped_clock_independent. Qed.
Print Assumptions C08_head_untimestamped_request_ignores_clock.

Example C08_coa_replay_span_nonvacuous :
  effect (coa_step toy repaired ex_cfg 700 2130706434 0 ex_dm) = Some (EvTerminate (1, [115; 49])) /\
  effect (coa_step toy repaired ex_cfg 1300 2130706434 0 ex_dm) = Some (EvTerminate (1, [115; 49])) /\
  effect (coa_step toy repaired ex_cfg 1100 2130706434 0 ex_dm_nots) = None.
Proof. vm_compute. repeat split; reflexivity. Qed.
Print Assumptions C08_coa_replay_span_nonvacuous.

(* before commit db29b2a (f_coaauth off): a Disconnect-Request with an all-zero authenticator and no Message-Authenticator takes effect *)
Lemma C08_coa_unauthenticated_request_refuted :
  exists md5raw cfg now src bus raw e,
    effect (coa_step md5raw defective cfg now src bus raw) = Some e /\
    forall c, In c (clients cfg) -> req_auth_ok md5raw (c_secret c) (truncate raw) = false.
Proof.
  exists toy, ex_cfg, 1100%Z, 2130706434, 0, ([40; 9; 0; 24] ++ zeros16 ++ [44; 4; 115; 49]), (EvTerminate (1, [115; 49])).
  split; [vm_compute; reflexivity|].
  intros c [<-|[]]. vm_compute. reflexivity.
Qed.
Print Assumptions C08_coa_unauthenticated_request_refuted.

(* before commit 331235d (f_dmwin off): the replay window is not applied to Disconnect-Request *)
Lemma C08_disconnect_window_refuted :
  exists md5raw cfg now src bus raw p t,
    effect (coa_step md5raw {| f_reply := true; f_coaauth := true; f_dmwin := false; f_white := true; f_tsreq := true; f_dedup := true; f_ttl := true |}
                     cfg now src bus raw) = Some (EvTerminate t) /\
    parse raw = Some p /\ window_ok (window cfg) now (p_attrs p) = false.
Proof.
  exists toy, ex_cfg, 100000%Z, 2130706434, 0, ex_dm.
  eexists. exists (1, [115; 49]).
  split; [vm_compute; reflexivity|]. split; [vm_compute; reflexivity|]. vm_compute. reflexivity.
Qed.
Print Assumptions C08_disconnect_window_refuted.

(* The listener with the same admissible choice ([coa_step_g]: an authenticated request with an irregular
   Message-Authenticator may be dropped as invalid).  Whatever the choice, nothing takes effect that would not take effect
   without it — so C08_coa_admission, C08_coa_mutable_only and the replay bounds carry over to every policy — and on a
   request with a regular Message-Authenticator the choice does not exist. *)
Theorem C08_coa_any_policy_only_restricts :
  forall md5raw fl rej orep cfg now src bus raw e,
    effect (coa_step_g md5raw fl rej orep cfg now src bus raw) = Some e ->
    effect (coa_step md5raw fl cfg now src bus raw) = Some e.
Proof. exact coa_step_g_effect_any. Qed.
Print Assumptions C08_coa_any_policy_only_restricts.

Theorem C08_coa_policy_irrelevant_for_regular_ma :
  forall md5raw fl rej cfg now src bus raw,
    ma_irregular (truncate raw) = false ->
    coa_step_g md5raw fl rej None cfg now src bus raw = coa_step md5raw fl cfg now src bus raw.
Proof. exact coa_step_g_regular. Qed.
Print Assumptions C08_coa_policy_irrelevant_for_regular_ma.

(* a correctly signed Disconnect-Request carrying an attribute 80 of length 5: HEAD's policy (accept) and the stricter one
   (drop as invalid) are both admissible; a regular request is unaffected *)
Definition ex_dm_badma : bytes := sign_req [107] [40; 9; 0; 35] [44; 4; 115; 49; 55; 6; 0; 0; 3; 232; 80; 5; 1; 2; 3].
Example C08_admissible_choice_nonvacuous :
  ma_irregular ex_dm_badma = true /\ ma_irregular ex_dm = false /\
  effect (coa_step_g toy head false None ex_cfg 1100 2130706434 0 ex_dm_badma) = Some (EvTerminate (1, [115; 49])) /\
  coa_step_g toy head true None ex_cfg 1100 2130706434 0 ex_dm_badma = ODropInvalid 0 [SInvalid] /\
  effect (coa_step_g toy head true None ex_cfg 1100 2130706434 0 ex_dm) = Some (EvTerminate (1, [115; 49])).
Proof. vm_compute. repeat split; reflexivity. Qed.
Print Assumptions C08_admissible_choice_nonvacuous.

(* Single execution (duplicate detection, committed in 3a9d01d; [f_dedup] — true in [head] and [repaired]).  Over any history of
   datagrams reaching the listener and any sequence of admissible choices (the [rej] component of an input): two datagrams with the same key — same client secret, same code, identifier,
   length and Request Authenticator, i.e. byte-identical requests unless MD5 collides — do not both take
   effect; the later one is answered with the cached reply. *)
Theorem C08_coa_single_execution :
  forall md5raw fl, f_dedup fl = true ->
  forall cfg ins seen j1 j2 i1 i2 o1 o2 key,
    (j1 < j2)%nat ->
    nth_error ins j1 = Some i1 -> nth_error ins j2 = Some i2 ->
    key_of cfg i1 = Some key -> key_of cfg i2 = Some key ->
    nth_error (coa_run md5raw fl cfg seen ins) j1 = Some o1 ->
    nth_error (coa_run md5raw fl cfg seen ins) j2 = Some o2 ->
    effect o1 <> None -> effect o2 = None.
Proof. exact single_execution. Qed.
Print Assumptions C08_coa_single_execution.

(* Disconnect-Request by User-Name "al", CoA-Requests setting Session-Timeout 3600 and 60; all with Event-Timestamp 1000 *)
Definition ex_dm_user : bytes := sign_req [107] [40; 5; 0; 30] [1; 4; 97; 108; 55; 6; 0; 0; 3; 232].
Definition ex_coa_a : bytes := sign_req [107] [43; 6; 0; 36] [1; 4; 97; 108; 27; 6; 0; 0; 14; 16; 55; 6; 0; 0; 3; 232].
Definition ex_coa_b : bytes := sign_req [107] [43; 7; 0; 36] [1; 4; 97; 108; 27; 6; 0; 0; 0; 60; 55; 6; 0; 0; 3; 232].
Definition inp (now : Z) (raw : bytes) : coa_input := (now, 2130706434, 0, raw, false, None).

Example C08_coa_single_execution_nonvacuous :
  f_dedup head = true /\
  map effect (coa_run toy head ex_cfg [] [inp 1100 ex_dm_user; inp 1200 ex_dm_user])
  = [Some (EvTerminate (3, [97; 108])); None] /\
  map effect (coa_run toy repaired ex_cfg [] [inp 1100 ex_dm_user; inp 1200 ex_dm_user])
  = [Some (EvTerminate (3, [97; 108])); None] /\
  map effect (coa_run toy repaired ex_cfg [] [inp 1100 ex_coa_a; inp 1150 ex_coa_b; inp 1200 ex_coa_a])
  = [Some (EvMutation (3, [97; 108]) [(k_session_timeout, [51; 54; 48; 48])]);
     Some (EvMutation (3, [97; 108]) [(k_session_timeout, [54; 48])]); None].
Proof. vm_compute. repeat split; reflexivity. Qed.
Print Assumptions C08_coa_single_execution_nonvacuous.

(* The duplicate cache has a LIFETIME and a CAPACITY (replayCache, coa.go; [coa_step_t] with wall-clock milliseconds).
   With the corrected lifetime 2*window + 1 s ([f_ttl]) an entry never expires while its request could still pass the
   window: a timestamped request that took effect never takes effect again when replayed against the cache it left
   behind, at whatever later instant and second it arrives (t0 / T milliseconds, now0 / nowT the seconds they fall in). *)
Theorem C08_timed_cache_replay_suppressed :
  forall md5raw tsr (max : nat) rej1 orep1 rej2 orep2 cfg now0 t0 nowT T src bus1 bus2 raw p o1 c1 e,
    (0 < max)%nat -> (0 < window cfg)%Z ->
    parse raw = Some p -> event_ts (p_attrs p) <> 0 ->
    (1000 * now0 <= t0)%Z -> (T < 1000 * (nowT + 1))%Z ->
    coa_step_t md5raw max (flt tsr true true) rej1 orep1 cfg now0 t0 src bus1 raw rcache0 = (o1, c1) ->
    effect o1 = Some e ->
    effect (fst (coa_step_t md5raw max (flt tsr true true) rej2 orep2 cfg nowT T src bus2 raw c1)) = None.
Proof. intros md5raw tsr max. intros. eapply (timed_replay_suppressed md5raw tsr true); eauto. Qed.
Print Assumptions C08_timed_cache_replay_suppressed.

Theorem C08_cache_entry_outlives_window :
  forall fl w ts now0 t0 nowT T,
    f_ttl fl = true -> (0 < w)%Z ->
    (1000 * now0 <= t0)%Z -> (T < 1000 * (nowT + 1))%Z ->
    (- w <= now0 - ts)%Z -> (nowT - ts <= w)%Z ->
    (T < t0 + cache_ttl fl w)%Z.
Proof. exact ttl_outlives_window. Qed.
Print Assumptions C08_cache_entry_outlives_window.

(* Before commit 2b1fb34 ([pre_ttl]) an entry was kept for exactly 2*window.  A request stamped `window` seconds AHEAD of the clock, executed at
   t0 (second 700, stamp 1000, window 300), is still inside the window during the whole second 1300, but its entry expired
   at t0 + 600 s: replayed in the rest of that second it was executed again (finding
   coa-duplicate-cache-expires-inside-window, fixed in 2b1fb34: one more second of lifetime). *)
Lemma C08_cache_expiry_inside_window_before_2b1fb34_refuted :
  exists o1 c1,
    coa_step_t toy cache_max pre_ttl false None ex_cfg 700 700100 2130706434 0 ex_dm_user rcache0 = (o1, c1) /\
    effect o1 = Some (EvTerminate (3, [97; 108])) /\
    effect (fst (coa_step_t toy cache_max pre_ttl false None ex_cfg 1300 1300400 2130706434 0 ex_dm_user c1))
    = Some (EvTerminate (3, [97; 108])) /\
    effect (fst (coa_step_t toy cache_max pre_ttl false None ex_cfg 1300 1300050 2130706434 0 ex_dm_user c1)) = None.
Proof. eexists. eexists. split; [vm_compute; reflexivity|]. vm_compute. repeat split; reflexivity. Qed.
Print Assumptions C08_cache_expiry_inside_window_before_2b1fb34_refuted.

(* the same history with the corrected lifetime, and the capacity limit (observation, both variants: with a capacity of 2
   a third distinct request evicts the first, whose replay inside the window is then executed again — with the real
   capacity this needs 4096 newer authenticated requests inside 2*window) *)
Example C08_timed_cache_nonvacuous :
  f_ttl head = true /\
  (let '(o1, c1) := coa_step_t toy cache_max head false None ex_cfg 700 700100 2130706434 0 ex_dm_user rcache0 in
   effect o1 = Some (EvTerminate (3, [97; 108])) /\
   effect (fst (coa_step_t toy cache_max head false None ex_cfg 1300 1300400 2130706434 0 ex_dm_user c1)) = None) /\
  (let '(o1, c1) := coa_step_t toy cache_max repaired false None ex_cfg 700 700100 2130706434 0 ex_dm_user rcache0 in
   effect o1 = Some (EvTerminate (3, [97; 108])) /\
   effect (fst (coa_step_t toy cache_max repaired false None ex_cfg 1300 1300400 2130706434 0 ex_dm_user c1)) = None) /\
  (let '(_, c1) := coa_step_t toy 2 repaired false None ex_cfg 1000 1000100 2130706434 0 ex_dm_user rcache0 in
   let '(_, c2) := coa_step_t toy 2 repaired false None ex_cfg 1000 1000200 2130706434 0 ex_coa_a c1 in
   let '(_, c3) := coa_step_t toy 2 repaired false None ex_cfg 1000 1000300 2130706434 0 ex_coa_b c2 in
   effect (fst (coa_step_t toy 2 repaired false None ex_cfg 1000 1000400 2130706434 0 ex_coa_b c3)) = None /\
   effect (fst (coa_step_t toy 2 repaired false None ex_cfg 1000 1000400 2130706434 0 ex_dm_user c3))
   = Some (EvTerminate (3, [97; 108]))).
Proof. vm_compute. repeat split; reflexivity. Qed.
Print Assumptions C08_timed_cache_nonvacuous.

(* Before commit 3a9d01d the listener had no duplicate detection ([pre_dedup]; finding coa-duplicate-request-reexecuted,
   fixed).  Two consequences that were NOT idempotent: (a) a Disconnect-Request that names the subscriber by User-Name (or Framed-IP-Address),
   replayed inside the window, publishes a second terminate event for that name — whatever session carries
   the name by then, e.g. the subscriber's NEW session, is torn down; (b) an older CoA replayed after a newer
   one publishes the older delta again and thereby reverts the newer change. *)
Lemma C08_replayed_disconnect_reexecuted_refuted :
  map effect (coa_run toy pre_dedup ex_cfg [] [inp 1100 ex_dm_user; inp 1200 ex_dm_user])
  = [Some (EvTerminate (3, [97; 108])); Some (EvTerminate (3, [97; 108]))].
Proof. vm_compute. reflexivity. Qed.
Print Assumptions C08_replayed_disconnect_reexecuted_refuted.

Lemma C08_replayed_older_coa_reverts_newer_refuted :
  map effect (coa_run toy pre_dedup ex_cfg [] [inp 1100 ex_coa_a; inp 1150 ex_coa_b; inp 1200 ex_coa_a])
  = [Some (EvMutation (3, [97; 108]) [(k_session_timeout, [51; 54; 48; 48])]);
     Some (EvMutation (3, [97; 108]) [(k_session_timeout, [54; 48])]);
     Some (EvMutation (3, [97; 108]) [(k_session_timeout, [51; 54; 48; 48])])].
Proof. vm_compute. reflexivity. Qed.
Print Assumptions C08_replayed_older_coa_reverts_newer_refuted.

(* ---------------------------------------------------------------------------------------------
   3. A CoA changes only documented mutable attributes.  The attribute delta of a published mutation is
   non-empty, every key is in the documented mutable set (internal/subscriber/mutation.go
   allowedMutationAttrs) and none is an identity/addressing attribute of the strip list; the target is
   resolved from the identification attributes of the packet alone.  A Disconnect takes effect only when the
   packet carries nothing but identification attributes. *)
Theorem C08_coa_mutable_only :
  forall md5raw tsr dd tt cfg now src bus raw e,   (* flt true true true = repaired, flt false true true = head *)
    effect (coa_step md5raw (flt tsr dd tt) cfg now src bus raw) = Some e ->
    exists p, parse raw = Some p /\
      match e with
      | EvMutation t delta =>
        resolve_target (p_attrs p) = Some t /\ delta <> [] /\
        forall k v, In (k, v) delta -> mem k allowed_list = true /\ mem k strip_list = false
      | EvTerminate t =>
        resolve_target (p_attrs p) = Some t /\ has_non_ident (p_attrs p) = false
      end.
Proof. exact coa_mutable_only_thm. Qed.
Print Assumptions C08_coa_mutable_only.

Theorem C08_mutable_set_excludes_identity :
  forallb (fun k => negb (mem k strip_list)) allowed_list = true.
Proof. exact allowed_disjoint_strip. Qed.
Print Assumptions C08_mutable_set_excludes_identity.

(* before commit 6f22cf3 (f_white off): CoA carrying the osvbng VSA 1 (l2gw.handoff-group = "g"), correctly signed *)
Definition ex_l2gw_body : bytes := [44; 4; 115; 49; 26; 9; 0; 0; 126; 217; 1; 3; 103; 55; 6; 0; 0; 3; 232].
Definition ex_l2gw : bytes := sign_req [107] [43; 9; 0; 39] ex_l2gw_body.
Lemma C08_coa_mutable_only_refuted :
  exists md5raw cfg now src bus raw t delta,
    effect (coa_step md5raw {| f_reply := true; f_coaauth := true; f_dmwin := true; f_white := false; f_tsreq := true; f_dedup := true; f_ttl := true |}
                     cfg now src bus raw) = Some (EvMutation t delta) /\
    all_allowed delta = false.
Proof.
  exists toy, ex_cfg, 1100%Z, 2130706434, 0, ex_l2gw, (1, [115; 49]), [(k_l2gw_handoff_group, [103])].
  split; vm_compute; reflexivity.
Qed.
Print Assumptions C08_coa_mutable_only_refuted.

(* ---------------------------------------------------------------------------------------------
   4. The BNG's own CoA/Disconnect ACK/NAK carry valid authenticators: for every request of at least 20
   octets, every reply code and Error-Cause, the Response Authenticator of the reply verifies against
   the request authenticator under the client's secret, the Message-Authenticator verifies (it is
   present whenever the request carried one).  This pins the order MA-then-Response-Authenticator. *)
Theorem C08_own_replies_verify :
  forall md5raw fl secret reqraw p code cause,
    f_coaauth fl = true ->
    (20 <= length reqraw)%nat ->
    let reply := build_coa_reply md5raw fl secret reqraw p code cause in
    resp_auth_ok md5raw secret (sub 4 16 reqraw) reply = true /\
    ma_resp_ok md5raw secret (sub 4 16 reqraw) reply = true /\
    (find_attr80 reqraw <> None -> find_attr80 reply <> None).
Proof. exact own_replies_verify. Qed.
Print Assumptions C08_own_replies_verify.

(* The ORDER of the attributes of a reply is a free choice (the property only asks that the reply verifies).  The
   signing algorithm is order-independent: for ANY attribute list with the Message-Authenticator placeholder at ANY
   position (no Message-Authenticator-like attribute before it), and for any list without one, the reply verifies. *)
Theorem C08_reply_in_any_attribute_order_verifies :
  forall md5raw secret reqauth code id,
    length reqauth = 16%nat ->
    (forall pre post, Forall (fun a => ma_like a = false) pre ->
       let reply := sign_reply md5raw secret reqauth code id (pre ++ (80, zeros16) :: post) in
       resp_auth_ok md5raw secret reqauth reply = true /\ ma_resp_ok md5raw secret reqauth reply = true /\
       find_attr80 reply = Some (20 + length (enc_attrs pre) + 2)%nat) /\
    (forall attrs, Forall (fun a => ma_like a = false) attrs ->
       let reply := sign_reply md5raw secret reqauth code id attrs in
       resp_auth_ok md5raw secret reqauth reply = true /\ ma_resp_ok md5raw secret reqauth reply = true).
Proof.
  intros md5raw secret reqauth code id H. split.
  - intros pre post Hp. exact (sign_reply_with_ma_verifies md5raw secret reqauth code id pre post H Hp).
  - intros attrs Hp. exact (sign_reply_without_ma_verifies md5raw secret reqauth code id attrs H Hp).
Qed.
Print Assumptions C08_reply_in_any_attribute_order_verifies.

(* In the correspondence the model takes the reply the implementation sent ([orep]) when it is the model's reply up to
   attribute order.  Whatever reply the generalised listener step emits is either the model's own (which verifies:
   C08_own_replies_verify) or one that verifies and has a regular Message-Authenticator. *)
Theorem C08_emitted_reply_verifies_any_order :
  forall md5raw fl rej orep cfg now src bus raw cl st r ev,
    coa_step_g md5raw fl rej orep cfg now src bus raw = OReply cl st r ev ->
    exists m, coa_step md5raw fl cfg now src bus raw = OReply cl st m ev /\
      (r = m \/ exists i c, find_client 0 (clients cfg) src = Some (i, c) /\
                             resp_auth_ok md5raw (c_secret c) (sub 4 16 raw) r = true /\
                             ma_resp_ok md5raw (c_secret c) (sub 4 16 raw) r = true /\
                             ma_irregular r = false).
Proof. exact coa_step_g_reply_verifies. Qed.
Print Assumptions C08_emitted_reply_verifies_any_order.


(* request with a Message-Authenticator attribute and a Proxy-State *)
Definition ex_ma_req : bytes := [40; 9; 0; 46] ++ repeat 5 16 ++ [44; 4; 115; 49; 33; 4; 9; 9; 80; 18] ++ repeat 3 16.
Example C08_own_replies_verify_nonvacuous :
  exists p, parse ex_ma_req = Some p /\
    let reply := build_coa_reply toy repaired [107] ex_ma_req p 41 201 in
    find_attr80 reply = Some 32%nat /\ length reply = 48%nat.
Proof. eexists. split; [vm_compute; reflexivity|]. vm_compute. split; reflexivity. Qed.
Print Assumptions C08_own_replies_verify_nonvacuous.

(* HEAD's order (Proxy-State, Error-Cause, Message-Authenticator) and the reverse (Message-Authenticator first) are both
   admissible: the second is accepted in place of the first by the generalised step, a reply with a flipped
   authenticator octet is not *)
Definition ex_ma_first : bytes := sign_reply toy [107] (repeat 5 16) 41 9 [(80, zeros16); (33, [9; 9]); (101, [0; 0; 0; 201])].
Example C08_reply_order_nonvacuous :
  exists p, parse ex_ma_req = Some p /\
    let m := build_coa_reply toy head [107] ex_ma_req p 41 201 in
    m <> ex_ma_first /\
    reply_equiv toy [107] (repeat 5 16) m ex_ma_first = true /\
    reply_equiv toy [107] (repeat 5 16) m (set_at 4 ex_ma_first [1]) = false.
Proof. eexists. split; [vm_compute; reflexivity|]. vm_compute. repeat split; try reflexivity. discriminate. Qed.
Print Assumptions C08_reply_order_nonvacuous.

(* before commit db29b2a (f_coaauth off): sendResponse — neither authenticator of the reply to a request with MA verifies *)
Lemma C08_own_replies_verify_refuted :
  exists md5raw secret reqraw p code cause,
    parse reqraw = Some p /\
    let reply := build_coa_reply md5raw defective secret reqraw p code cause in
    resp_auth_ok md5raw secret (sub 4 16 reqraw) reply = false /\
    ma_resp_ok md5raw secret (sub 4 16 reqraw) reply = false.
Proof.
  exists toy, [107], ex_ma_req. eexists. exists 41, 201.
  split; [vm_compute; reflexivity|]. vm_compute. split; reflexivity.
Qed.
Print Assumptions C08_own_replies_verify_refuted.

(* ---------------------------------------------------------------------------------------------
   5. The requests the BNG itself sends are verifiable by the server ("the request that was actually sent"):
   an Access-Request built by Authenticate/exchange keeps its authenticator and carries a valid
   Message-Authenticator (RFC 3579); an Accounting-Request carries a valid Request Authenticator (RFC 2866). *)
Theorem C08_access_request_ma_valid :
  forall md5raw secret id auth pre post,
    length auth = 16%nat -> Forall (fun a => ma_like a = false) pre ->
    exists req,
      build_request md5raw secret 1 id auth (pre ++ (80, zeros16) :: post) = Some req /\
      sub 4 16 req = auth /\ ma_ok_asis md5raw secret req = true.
Proof. exact access_request_ma_valid. Qed.
Print Assumptions C08_access_request_ma_valid.

Theorem C08_accounting_request_auth_valid :
  forall md5raw secret id auth attrs,
    Forall (fun a => ma_like a = false) attrs ->
    exists req, build_request md5raw secret 4 id auth attrs = Some req /\ req_auth_ok md5raw secret req = true.
Proof. exact accounting_request_auth_valid. Qed.
Print Assumptions C08_accounting_request_auth_valid.

Example C08_requests_nonvacuous :
  Forall (fun a => ma_like a = false) [(1, [97; 98]); (80, [1; 2; 3])] /\
  exists req, build_request toy ex_secret 1 7 (repeat 17 16) ([(1, [97; 98]); (80, [1; 2; 3])] ++ (80, zeros16) :: [(55, [0; 0; 0; 1])]) = Some req
              /\ find_attr80 req = Some 31%nat /\ length req = 53%nat.
Proof. split; [repeat constructor|]. eexists. split; [vm_compute; reflexivity|]. vm_compute. split; reflexivity. Qed.
Print Assumptions C08_requests_nonvacuous.
