(* C08/Proofs.v — lemmas and invariants for the RADIUS authenticity model. *)
From Coq Require Import String Ascii.
From OV Require Import Common.Base C08.Model.
From Coq Require Import ZifyBool ZifyNat ZifyN.
Import ListNotations.
Local Open Scope list_scope.
Local Open Scope N_scope.

(* ------------------------------------------------------------------ generic list facts *)
Lemma beq_refl (a : bytes) : beq a a = true.
Proof. induction a; simpl; [reflexivity|]. rewrite N.eqb_refl. exact IHa. Qed.

Lemma beq_eq (a b : bytes) : beq a b = true -> a = b.
Proof.
  revert b; induction a as [|x a IH]; destruct b as [|y b]; simpl; try discriminate; auto.
  intros H. apply andb_true_iff in H as [H1 H2]. apply N.eqb_eq in H1. f_equal; auto.
Qed.

Lemma nth_upd {A} (i j : nat) (v d : A) (l : list A) :
  nth j (upd i v l) d = if ((j =? i)%nat && (i <? length l)%nat)%bool then v else nth j l d.
Proof.
  revert i j; induction l as [|x l IH]; intros i j; simpl.
  - destruct i, j; simpl; rewrite ?andb_false_r; reflexivity.
  - destruct i, j; simpl; try reflexivity.
    rewrite IH. reflexivity.
Qed.

Lemma upd_length {A} (i : nat) (v : A) (l : list A) : length (upd i v l) = length l.
Proof. revert i; induction l; intros [|i]; simpl; auto. Qed.

(* ------------------------------------------------------------------ history of one client socket *)
Inductive ev :=
| EvSend (id : N) (req : bytes)
| EvTimeout (id : N)
| EvRecv (d : bytes) (delivered_to : option N).

Definition ev_of (o : cop) (out : option N) : ev :=
  match o with
  | CSend i r => EvSend i r
  | CTimeout i => EvTimeout i
  | CRecv d => EvRecv d out
  end.

(* events in chronological order *)
Fixpoint events (ops : list cop) (outs : list (option N)) : list ev :=
  match ops, outs with
  | o :: r, x :: xs => ev_of o x :: events r xs
  | _, _ => []
  end.

(* the request that is outstanding on identifier [id] after history [h] (newest event first):
   the most recent request sent with that identifier, unless it has since been answered or abandoned *)
Fixpoint awaiting (h : list ev) (id : N) : option bytes :=
  match h with
  | [] => None
  | EvSend i r :: t => if i =? id then Some r else awaiting t id
  | EvTimeout i :: t => if i =? id then None else awaiting t id
  | EvRecv _ (Some i) :: t => if i =? id then None else awaiting t id
  | EvRecv _ None :: t => awaiting t id
  end.

Definition op_wf (o : cop) : Prop :=
  match o with CSend i _ => i < 256 | CTimeout i => i < 256 | CRecv _ => True end.

Section P.
Variable md5raw : bytes -> bytes.
(* any flag combination in which the reply check of transport.go is in place (repaired and head) *)
Variable fl : flags.
Hypothesis Hfl : f_reply fl = true.
Notation md5 := (md5 md5raw).
Notation hmac := (hmac md5raw).

(* every delivery in the history (newest first) answers the request then outstanding on its identifier,
   carries that identifier, and verifies under the secret against that request's authenticator *)
Fixpoint deliveries_authentic (secret : bytes) (h : list ev) : Prop :=
  match h with
  | [] => True
  | EvRecv d (Some id) :: t =>
    (exists req, awaiting t id = Some req /\ nth 1 d 0 = id /\
                 resp_auth_ok md5raw secret (sub 4 16 req) (truncate d) = true /\
                 ma_resp_ok md5raw secret (sub 4 16 req) (truncate d) = true)
    /\ deliveries_authentic secret t
  | _ :: t => deliveries_authentic secret t
  end.

Definition cinv (st : pending) (h : list ev) : Prop :=
  length st = 256%nat /\ forall id, nth (N.to_nat id) st None = awaiting h id.

Lemma cinv_init : cinv pending0 [].
Proof.
  split; [reflexivity|]. intros id. simpl.
  unfold pending0. destruct (nth_in_or_default (N.to_nat id) (repeat (@None bytes) 256) None) as [H|H]; auto.
  apply repeat_spec in H. exact H.
Qed.

Lemma parse_id (d : bytes) (p : packet) : parse d = Some p -> p_id p = nth 1 d 0.
Proof.
  unfold parse. destruct (length d <? 20)%nat; [discriminate|].
  destruct (_ || _ || _)%bool; [discriminate|].
  destruct (parse_attrs _ _); [|discriminate]. intros H; inversion H; reflexivity.
Qed.

Lemma cstep_inv (secret : bytes) (st : pending) (h : list ev) (o : cop) :
  op_wf o -> cinv st h -> deliveries_authentic secret h ->
  let '(st', out) := cstep md5raw fl secret st o in
  cinv st' (ev_of o out :: h) /\ deliveries_authentic secret (ev_of o out :: h).
Proof.
  intros Hwf [Hlen Hst] Hgood. destruct o as [i r|d|i]; simpl in *.
  - split; [|exact Hgood]. split; [rewrite upd_length; exact Hlen|].
    intros id. simpl. rewrite nth_upd, Hlen, Hst.
    destruct (N.eqb_spec i id) as [->|Hne].
    + rewrite Nat.eqb_refl. simpl. replace (N.to_nat id <? 256)%nat with true by lia. reflexivity.
    + replace (N.to_nat id =? N.to_nat i)%nat with false by lia. reflexivity.
  - destruct (parse d) as [p|] eqn:Hp; [|simpl; split; [split; auto|exact Hgood]].
    destruct (nth (N.to_nat (p_id p)) st None) as [req|] eqn:Hn; [|simpl; split; [split; auto|exact Hgood]].
    destruct (reply_ok md5raw fl secret req d) eqn:Hok; [|simpl; split; [split; auto|exact Hgood]].
    simpl. split.
    + split; [rewrite upd_length; exact Hlen|].
      intros id. simpl. rewrite nth_upd, Hlen, Hst.
      assert (Hlt : (N.to_nat (p_id p) < 256)%nat).
      { destruct (Nat.ltb_spec (N.to_nat (p_id p)) 256); auto.
        rewrite nth_overflow in Hn by (rewrite Hlen; lia). discriminate. }
      destruct (N.eqb_spec (p_id p) id) as [He|Hne].
      * rewrite <- He, Nat.eqb_refl. replace (N.to_nat (p_id p) <? 256)%nat with true by lia. reflexivity.
      * replace (N.to_nat id =? N.to_nat (p_id p))%nat with false by lia. reflexivity.
    + split; [|exact Hgood]. exists req. rewrite <- Hst. split; [exact Hn|].
      split; [symmetry; apply parse_id; exact Hp|].
      unfold reply_ok in Hok. rewrite Hfl in Hok. apply andb_true_iff in Hok. exact Hok.
  - split; [|exact Hgood]. split; [rewrite upd_length; exact Hlen|].
    intros id. simpl. rewrite nth_upd, Hlen, Hst.
    destruct (N.eqb_spec i id) as [->|Hne].
    + rewrite Nat.eqb_refl. simpl. replace (N.to_nat id <? 256)%nat with true by lia. reflexivity.
    + replace (N.to_nat id =? N.to_nat i)%nat with false by lia. reflexivity.
Qed.

Lemma crun_inv (secret : bytes) (ops : list cop) :
  Forall op_wf ops -> forall st h st' outs,
  cinv st h -> deliveries_authentic secret h ->
  crun md5raw fl secret st ops = (st', outs) ->
  cinv st' (rev (events ops outs) ++ h) /\ deliveries_authentic secret (rev (events ops outs) ++ h).
Proof.
  induction 1 as [|o ops Ho Hops IH]; intros st h st' outs Hi Hg Hr; simpl in Hr.
  - inversion Hr; subst. simpl. auto.
  - destruct (cstep md5raw fl secret st o) as [st1 out] eqn:Hs.
    destruct (crun md5raw fl secret st1 ops) as [st2 outs2] eqn:Hr2.
    inversion Hr; subst. simpl.
    pose proof (cstep_inv secret st h o Ho Hi Hg) as Hstep. rewrite Hs in Hstep. destruct Hstep as [Hi1 Hg1].
    specialize (IH st1 (ev_of o out :: h) st' outs2 Hi1 Hg1 Hr2).
    rewrite <- app_assoc. simpl. exact IH.
Qed.

Lemma reply_authentic (secret : bytes) (ops : list cop) st outs :
  Forall op_wf ops ->
  crun md5raw fl secret pending0 ops = (st, outs) ->
  deliveries_authentic secret (rev (events ops outs)).
Proof.
  intros Hwf Hr. pose proof (crun_inv secret ops Hwf pending0 [] st outs cinv_init I Hr) as [_ H].
  rewrite app_nil_r in H. exact H.
Qed.

(* Both halves of the decision of one read-loop iteration, in terms of the history: the datagram is handed
   over to identifier i iff it parses, carries i, a request is outstanding on i, and it verifies against THAT
   request.  In particular a datagram that does not verify is ignored (and, [awaiting] being transparent for
   ignored datagrams, leaves every outstanding request outstanding). *)
Lemma crecv_decision (secret : bytes) (st : pending) (h : list ev) (d : bytes) (i : N) :
  cinv st h ->
  (snd (cstep md5raw fl secret st (CRecv d)) = Some i <->
   exists p req, parse d = Some p /\ p_id p = i /\ awaiting h i = Some req /\
                 resp_auth_ok md5raw secret (sub 4 16 req) (truncate d) = true /\
                 ma_resp_ok md5raw secret (sub 4 16 req) (truncate d) = true).
Proof.
  intros [Hlen Hst]. unfold cstep.
  destruct (parse d) as [p|] eqn:Hp.
  2:{ split; [discriminate|]. intros (p & req & Hx & _). discriminate. }
  rewrite Hst.
  destruct (awaiting h (p_id p)) as [req|] eqn:Ha.
  2:{ split; [discriminate|]. intros (p' & req & Hp' & Hi & Ha' & _). inversion Hp'; subst. congruence. }
  unfold reply_ok. rewrite Hfl.
  destruct (resp_auth_ok md5raw secret (sub 4 16 req) (truncate d) && ma_resp_ok md5raw secret (sub 4 16 req) (truncate d))%bool eqn:Hok; simpl.
  - apply andb_true_iff in Hok as [H1 H2]. split.
    + intros Hi; inversion Hi; subst. exists p, req. auto.
    + intros (p' & req' & Hp' & Hi & _). inversion Hp'; subst. reflexivity.
  - split; [discriminate|]. intros (p' & req' & Hp' & Hi & Ha' & H1 & H2). inversion Hp'; subst p'. subst i.
    rewrite Ha in Ha'. inversion Ha'; subst req'. rewrite H1, H2 in Hok. discriminate.
Qed.

(* positive half over histories: whatever happened before — in particular any number of forged, stale or
   malformed datagrams since the request was sent — a datagram that verifies against the outstanding request
   is handed over *)
Lemma genuine_reply_delivered (secret : bytes) (ops : list cop) st outs (d : bytes) (p : packet) (req : bytes) :
  Forall op_wf ops ->
  crun md5raw fl secret pending0 ops = (st, outs) ->
  parse d = Some p ->
  awaiting (rev (events ops outs)) (p_id p) = Some req ->
  resp_auth_ok md5raw secret (sub 4 16 req) (truncate d) = true ->
  ma_resp_ok md5raw secret (sub 4 16 req) (truncate d) = true ->
  snd (cstep md5raw fl secret st (CRecv d)) = Some (p_id p).
Proof.
  intros Hwf Hr Hp Ha H1 H2.
  pose proof (crun_inv secret ops Hwf pending0 [] st outs cinv_init I Hr) as [Hi _].
  rewrite app_nil_r in Hi. apply (crecv_decision secret st _ d (p_id p) Hi).
  exists p, req. auto.
Qed.

(* ---- the same with the admissible choice (a verifying datagram with an irregular Message-Authenticator may be
   ignored): every history of the generalised read loop, for every sequence of choices *)
Lemma cstep_g_inv (rej : bool) (secret : bytes) (st : pending) (h : list ev) (o : cop) :
  op_wf o -> cinv st h -> deliveries_authentic secret h ->
  let '(st', out) := cstep_g md5raw fl rej secret st o in
  cinv st' (ev_of o out :: h) /\ deliveries_authentic secret (ev_of o out :: h).
Proof.
  intros Hwf Hi Hg. unfold cstep_g. destruct o as [i r|d|i]; try (apply cstep_inv; auto).
  destruct (rej && ma_irregular (truncate d))%bool; [|apply cstep_inv; auto].
  simpl. split; [|exact Hg]. destruct Hi as [Hl Hs]. split; auto.
Qed.

Lemma crun_g_inv (secret : bytes) (ops : list (cop * bool)) :
  Forall op_wf (map fst ops) -> forall st h st' outs,
  cinv st h -> deliveries_authentic secret h ->
  crun_g md5raw fl secret st ops = (st', outs) ->
  cinv st' (rev (events (map fst ops) outs) ++ h) /\
  deliveries_authentic secret (rev (events (map fst ops) outs) ++ h).
Proof.
  induction ops as [|[o rej] ops IH]; intros Hwf st h st' outs Hi Hg Hr; simpl in Hr.
  - inversion Hr; subst. simpl. auto.
  - simpl in Hwf. inversion Hwf as [|? ? Ho Hops]; subst.
    destruct (cstep_g md5raw fl rej secret st o) as [st1 out] eqn:Hs.
    destruct (crun_g md5raw fl secret st1 ops) as [st2 outs2] eqn:Hr2.
    inversion Hr; subst. simpl.
    pose proof (cstep_g_inv rej secret st h o Ho Hi Hg) as Hstep. rewrite Hs in Hstep. destruct Hstep as [Hi1 Hg1].
    specialize (IH Hops st1 (ev_of o out :: h) st' outs2 Hi1 Hg1 Hr2).
    rewrite <- app_assoc. simpl. exact IH.
Qed.

Lemma reply_authentic_g (secret : bytes) (ops : list (cop * bool)) st outs :
  Forall op_wf (map fst ops) ->
  crun_g md5raw fl secret pending0 ops = (st, outs) ->
  deliveries_authentic secret (rev (events (map fst ops) outs)).
Proof.
  intros Hwf Hr. pose proof (crun_g_inv secret ops Hwf pending0 [] st outs cinv_init I Hr) as [_ H].
  rewrite app_nil_r in H. exact H.
Qed.

(* positive half under every policy: a REGULAR datagram that verifies against the outstanding request is handed over *)
Lemma regular_genuine_reply_delivered (secret : bytes) (ops : list (cop * bool)) st outs (rej : bool)
      (d : bytes) (p : packet) (req : bytes) :
  Forall op_wf (map fst ops) ->
  crun_g md5raw fl secret pending0 ops = (st, outs) ->
  parse d = Some p ->
  awaiting (rev (events (map fst ops) outs)) (p_id p) = Some req ->
  resp_auth_ok md5raw secret (sub 4 16 req) (truncate d) = true ->
  ma_resp_ok md5raw secret (sub 4 16 req) (truncate d) = true ->
  ma_irregular (truncate d) = false ->
  snd (cstep_g md5raw fl rej secret st (CRecv d)) = Some (p_id p).
Proof.
  intros Hwf Hr Hp Ha H1 H2 Hreg.
  pose proof (crun_g_inv secret ops Hwf pending0 [] st outs cinv_init I Hr) as [Hi _].
  rewrite app_nil_r in Hi. unfold cstep_g. rewrite Hreg, andb_false_r.
  apply (crecv_decision secret st _ d (p_id p) Hi). exists p, req. auto.
Qed.

End P.

(* ------------------------------------------------------------------ CoA / Disconnect admission *)
Definition effect (o : coa_out) : option cevent :=
  match o with OReply _ _ _ e => e | _ => None end.

Lemma find_client_spec (l : list client) : forall i src k c,
  find_client i l src = Some (k, c) ->
  (i <= k)%nat /\ nth_error l (k - i) = Some c /\ contains c src = true /\
  forall j c', (j < k - i)%nat -> nth_error l j = Some c' -> contains c' src = false.
Proof.
  induction l as [|x l IH]; intros i src k c H; simpl in H; [discriminate|].
  destruct (contains x src) eqn:Hc.
  - inversion H; subst. rewrite Nat.sub_diag. simpl. repeat split; auto. intros j c' Hj; lia.
  - apply IH in H as (H1 & H2 & H3 & H4).
    split; [lia|]. replace (k - i)%nat with (S (k - S i)) by lia. simpl.
    split; [exact H2|]. split; [exact H3|].
    intros [|j] c' Hj Hn; simpl in Hn.
    + inversion Hn; subst; exact Hc.
    + apply (H4 j c'); [lia|exact Hn].
Qed.

Lemma window_ok_spec (w now : Z) (attrs : list attr) :
  window_ok w now attrs = true <->
  ((w <= 0)%Z \/ event_ts attrs = 0 \/ (- w <= now - Z.of_N (event_ts attrs) <= w)%Z).
Proof.
  unfold window_ok.
  destruct (Z.ltb_spec 0 w); [|split; auto; intros; lia].
  destruct (N.ltb_spec 0 (event_ts attrs)); [|split; auto; intros; lia].
  split; intros Hx; lia.
Qed.

(* all four committed repairs in place; the Event-Timestamp requirement on (= repaired) or off (= head) *)
Definition flt (ts dd tt : bool) : flags :=
  {| f_reply := true; f_coaauth := true; f_dmwin := true; f_white := true; f_tsreq := ts; f_dedup := dd; f_ttl := tt |}.

Lemma window_ok_req_spec (w now : Z) (attrs : list attr) :
  window_ok_req w now attrs = true <->
  ((w <= 0)%Z \/ (event_ts attrs <> 0 /\ (- w <= now - Z.of_N (event_ts attrs) <= w)%Z)).
Proof.
  unfold window_ok_req.
  destruct (Z.ltb_spec 0 w); [|split; auto; intros; lia].
  destruct (N.ltb_spec 0 (event_ts attrs)); simpl; [|split; [discriminate|intros; lia]].
  split; intros Hx; lia.
Qed.

Section Q.
Variable md5raw : bytes -> bytes.
Variable tsr : bool.
Variable ddp : bool.
Variable ttp : bool.

Lemma nak_effect fl cl secret raw p code cause st : effect (nak md5raw fl cl secret raw p code cause st) = None.
Proof. reflexivity. Qed.

Lemma handle_coa_effect cfg now bus cl secret raw p e :
  effect (handle_coa md5raw (flt tsr ddp ttp) cfg now bus cl secret raw p) = Some e ->
  window_check (flt tsr ddp ttp) (window cfg) now (p_attrs p) = true /\
  exists t delta, e = EvMutation t delta /\ resolve_target (p_attrs p) = Some t /\
    nasid_ok (nasid cfg) (p_attrs p) = true /\ has_service_type (p_attrs p) 8 = false /\
    delta = strip_non_mutable (extract_attributes (maps cfg) (p_attrs p)) /\ delta <> [] /\
    all_allowed delta = true.
Proof.
  unfold handle_coa.
  destruct (has_service_type (p_attrs p) 8) eqn:Hs; [rewrite nak_effect; discriminate|].
  destruct (window_check (flt tsr ddp ttp) (window cfg) now (p_attrs p)) eqn:Hw; simpl negb; cbv iota; [|discriminate].
  destruct (resolve_target (p_attrs p)) as [t|] eqn:Ht; [|rewrite nak_effect; discriminate].
  destruct (nasid_ok (nasid cfg) (p_attrs p)) eqn:Hn; simpl negb; cbv iota; [|rewrite nak_effect; discriminate].
  destruct (strip_non_mutable (extract_attributes (maps cfg) (p_attrs p))) as [|kv delta] eqn:Hd;
    [rewrite nak_effect; discriminate|].
  destruct (all_allowed (kv :: delta)) eqn:Ha; simpl f_white; simpl negb; simpl andb; cbv iota;
    [|rewrite nak_effect; discriminate].
  intros He. split; [reflexivity|]. exists t, (kv :: delta).
  assert (e = EvMutation t (kv :: delta)).
  { destruct (bus =? 0); [|destruct (bus =? 1); [|destruct (bus =? 2)]]; simpl in He; inversion He; reflexivity. }
  repeat split; auto. discriminate.
Qed.

Lemma handle_dm_effect cfg now cl secret raw p e :
  effect (handle_dm md5raw (flt tsr ddp ttp) cfg now cl secret raw p) = Some e ->
  window_check (flt tsr ddp ttp) (window cfg) now (p_attrs p) = true /\
  exists t, e = EvTerminate t /\ resolve_target (p_attrs p) = Some t /\
    nasid_ok (nasid cfg) (p_attrs p) = true /\ has_non_ident (p_attrs p) = false.
Proof.
  unfold handle_dm.
  destruct (has_non_ident (p_attrs p)) eqn:Hs; [rewrite nak_effect; discriminate|].
  destruct (window_check (flt tsr ddp ttp) (window cfg) now (p_attrs p)) eqn:Hw; simpl f_dmwin; simpl negb; simpl andb; cbv iota; [|discriminate].
  destruct (resolve_target (p_attrs p)) as [t|] eqn:Ht; [|rewrite nak_effect; discriminate].
  destruct (nasid_ok (nasid cfg) (p_attrs p)) eqn:Hn; simpl negb; cbv iota; [|rewrite nak_effect; discriminate].
  simpl. intros He; inversion He; subst. split; [reflexivity|]. exists t. auto.
Qed.

Lemma coa_admission cfg now src bus raw e :
  effect (coa_step md5raw (flt tsr ddp ttp) cfg now src bus raw) = Some e ->
  exists cl c p,
    find_client 0 (clients cfg) src = Some (cl, c) /\ parse raw = Some p /\
    req_auth_ok md5raw (c_secret c) (truncate raw) = true /\
    ma_req_ok_rfc md5raw (c_secret c) (truncate raw) = true /\
    window_check (flt tsr ddp ttp) (window cfg) now (p_attrs p) = true /\
    match e with
    | EvMutation t delta =>
      p_code p = 43 /\ resolve_target (p_attrs p) = Some t /\ nasid_ok (nasid cfg) (p_attrs p) = true /\
      has_service_type (p_attrs p) 8 = false /\
      delta = strip_non_mutable (extract_attributes (maps cfg) (p_attrs p)) /\ delta <> [] /\
      all_allowed delta = true
    | EvTerminate t =>
      p_code p = 40 /\ resolve_target (p_attrs p) = Some t /\ nasid_ok (nasid cfg) (p_attrs p) = true /\
      has_non_ident (p_attrs p) = false
    end.
Proof.
  unfold coa_step.
  destruct (find_client 0 (clients cfg) src) as [[cl c]|] eqn:Hc; [|discriminate].
  destruct (parse raw) as [p|] eqn:Hp; [|discriminate].
  simpl f_coaauth. cbv iota.
  destruct (req_auth_ok md5raw (c_secret c) (truncate raw)) eqn:Hra; simpl andb; [|discriminate].
  destruct (ma_req_ok_rfc md5raw (c_secret c) (truncate raw)) eqn:Hma; simpl negb; cbv iota; [|discriminate].
  destruct (N.eqb_spec (p_code p) 43) as [H43|H43].
  - intros He. apply handle_coa_effect in He. destruct He as (Hw & t & delta & Heq & H). subst e.
    exists cl, c, p. repeat split; auto; apply H.
  - destruct (N.eqb_spec (p_code p) 40) as [H40|H40]; [|discriminate].
    intros He. apply handle_dm_effect in He. destruct He as (Hw & t & Heq & H). subst e.
    exists cl, c, p. repeat split; auto; apply H.
Qed.

End Q.

Lemma all_allowed_spec (delta : amap) :
  all_allowed delta = true -> forall k v, In (k, v) delta -> mem k allowed_list = true.
Proof. unfold all_allowed. rewrite forallb_forall. intros H k v Hi. apply (H (k, v) Hi). Qed.

Lemma strip_spec (m : amap) k v : In (k, v) (strip_non_mutable m) -> mem k strip_list = false.
Proof.
  unfold strip_non_mutable. rewrite filter_In. intros [_ H]. cbn [fst] in H.
  apply negb_true_iff in H. exact H.
Qed.

Lemma allowed_disjoint_strip : forallb (fun k => negb (mem k strip_list)) allowed_list = true.
Proof. vm_compute. reflexivity. Qed.

(* ------------------------------------------------------------------ the BNG's own replies verify *)
Lemma firstn_app_exact {A} (a b : list A) n : length a = n -> firstn n (a ++ b) = a.
Proof. intros <-. rewrite firstn_app, Nat.sub_diag, firstn_all. simpl. apply app_nil_r. Qed.
Lemma skipn_app_exact {A} (a b : list A) n : length a = n -> skipn n (a ++ b) = b.
Proof. intros <-. rewrite skipn_app, Nat.sub_diag, skipn_all. reflexivity. Qed.
Lemma skipn_app_plus {A} (a b : list A) n k : length a = n -> skipn (n + k) (a ++ b) = skipn k b.
Proof.
  intros <-. rewrite skipn_app. replace (length a + k - length a)%nat with k by lia.
  rewrite skipn_all2 by lia. reflexivity.
Qed.

Lemma set_at_app (a v v' c : bytes) off :
  length a = off -> length v = length v' -> set_at off (a ++ v ++ c) v' = a ++ v' ++ c.
Proof.
  intros Ha Hv. unfold set_at. rewrite (firstn_app_exact a _ off Ha).
  rewrite (skipn_app_plus a _ off _ Ha), <- Hv, (skipn_app_exact v c _ eq_refl). reflexivity.
Qed.
Lemma sub_app (a v c : bytes) off n : length a = off -> length v = n -> sub off n (a ++ v ++ c) = v.
Proof. intros Ha Hv. unfold sub. rewrite (skipn_app_exact a _ off Ha). apply firstn_app_exact. exact Hv. Qed.

Definition ma_like (a : attr) : bool := (fst a =? 80) && (length (snd a) =? 16)%nat.

Lemma fa80_fuel : forall f1 f2 l off,
  (length l <= f1)%nat -> (length l <= f2)%nat -> fa80 f1 off l = fa80 f2 off l.
Proof.
  induction f1 as [|f1 IH]; intros f2 l off H1 H2.
  - destruct l; [|simpl in H1; lia]. destruct f2; reflexivity.
  - destruct f2 as [|f2].
    + destruct l; [reflexivity|simpl in H2; lia].
    + simpl. destruct l as [|t [|len r]]; try reflexivity.
      destruct ((N.to_nat len <? 2)%nat || (length (t :: len :: r) <? N.to_nat len)%nat)%bool eqn:Hc; [reflexivity|].
      destruct ((t =? 80) && (N.to_nat len =? 18)%nat)%bool; [reflexivity|].
      apply IH; rewrite skipn_length; simpl length in *; lia.
Qed.

Lemma enc_attrs_app a b : enc_attrs (a ++ b) = enc_attrs a ++ enc_attrs b.
Proof. unfold enc_attrs. apply flat_map_app. Qed.

Lemma fa80_enc (pre : list attr) : forall rest f off,
  Forall (fun a => ma_like a = false) pre ->
  (length (enc_attrs pre ++ rest) <= f)%nat ->
  fa80 f off (enc_attrs pre ++ rest) = fa80 (length rest) (off + length (enc_attrs pre)) rest.
Proof.
  induction pre as [|[t v] pre IH]; intros rest f off Hf Hl.
  - simpl. rewrite Nat.add_0_r. apply fa80_fuel; simpl in *; lia.
  - inversion Hf as [|? ? Ha Hf']; subst.
    change (enc_attrs ((t, v) :: pre)) with (t :: N.of_nat (length v + 2) :: v ++ enc_attrs pre) in *.
    destruct f as [|f]; [simpl in Hl; lia|].
    cbn [fa80 app]. rewrite Nnat.Nat2N.id.
    replace (length v + 2 <? 2)%nat with false by lia.
    replace (length (t :: N.of_nat (length v + 2) :: (v ++ enc_attrs pre) ++ rest) <? length v + 2)%nat with false
      by (simpl length; rewrite !app_length; lia).
    unfold ma_like in Ha. cbn [fst snd] in Ha.
    replace ((t =? 80) && (length v + 2 =? 18)%nat)%bool with false
      by (destruct (t =? 80); simpl in *; [lia|reflexivity]).
    simpl orb. cbv iota.
    replace (skipn (length v + 2) (t :: N.of_nat (length v + 2) :: (v ++ enc_attrs pre) ++ rest))
      with (enc_attrs pre ++ rest).
    2:{ replace (length v + 2)%nat with (S (S (length v))) by lia. cbn [skipn].
        rewrite <- app_assoc. symmetry. apply skipn_app_exact. reflexivity. }
    rewrite IH; auto.
    + f_equal. simpl length. rewrite !app_length. lia.
    + simpl length in Hl. rewrite !app_length in *. lia.
Qed.

Lemma find80_ma (h : bytes) (pre : list attr) (v post : bytes) :
  length h = 20%nat -> Forall (fun a => ma_like a = false) pre -> length v = 16%nat ->
  find_attr80 (h ++ enc_attrs pre ++ [80; 18] ++ v ++ post) = Some (20 + length (enc_attrs pre) + 2)%nat.
Proof.
  intros Hh Hp Hv. unfold find_attr80.
  replace (length (h ++ enc_attrs pre ++ [80; 18]%N ++ v ++ post) <? 20)%nat with false
    by (rewrite app_length; lia).
  rewrite (skipn_app_exact h _ 20 Hh).
  rewrite fa80_enc; auto; [|rewrite !app_length; lia].
  cbn [app length fa80]. change (N.to_nat 18) with 18%nat.
  assert (Hl : (S (S (length (v ++ post))) <? 18)%nat = false) by (rewrite app_length; lia).
  rewrite Hl. reflexivity.
Qed.

Lemma find80_none (h : bytes) (pre : list attr) :
  length h = 20%nat -> Forall (fun a => ma_like a = false) pre -> find_attr80 (h ++ enc_attrs pre) = None.
Proof.
  intros Hh Hp. unfold find_attr80.
  replace (length (h ++ enc_attrs pre) <? 20)%nat with false by (rewrite app_length; lia).
  rewrite (skipn_app_exact h _ 20 Hh).
  rewrite <- (app_nil_r (enc_attrs pre)) at 2. rewrite fa80_enc; [reflexivity|exact Hp|].
  rewrite !app_length. simpl. lia.
Qed.

Section R.
Variable md5raw : bytes -> bytes.
Notation md5 := (md5 md5raw).
Notation hmac := (hmac md5raw).

Lemma md5_length x : length (md5 x) = 16%nat.
Proof. unfold Model.md5. rewrite firstn_length, app_length. unfold zeros16, zeros. rewrite repeat_length. lia. Qed.
Lemma hmac_length k m : length (hmac k m) = 16%nat.
Proof. unfold Model.hmac. apply md5_length. Qed.

Lemma reply_pre_ok (p : packet) (cause : N) :
  Forall (fun a => ma_like a = false)
         (filter (fun a => fst a =? 33) (p_attrs p) ++ (if 0 <? cause then [(101, put32 cause)] else [])).
Proof.
  apply Forall_app. split.
  - apply Forall_forall. intros a Ha. apply filter_In in Ha as [_ Ha]. unfold ma_like.
    apply N.eqb_eq in Ha. rewrite Ha. reflexivity.
  - destruct (0 <? cause); constructor; [reflexivity|constructor].
Qed.

Lemma own_replies_verify (fl : flags) (secret reqraw : bytes) (p : packet) (code cause : N) :
  f_coaauth fl = true -> (20 <= length reqraw)%nat ->
  let reply := build_coa_reply md5raw fl secret reqraw p code cause in
  let reqauth := sub 4 16 reqraw in
  resp_auth_ok md5raw secret reqauth reply = true /\
  ma_resp_ok md5raw secret reqauth reply = true /\
  (find_attr80 reqraw <> None -> find_attr80 reply <> None).
Proof.
  intros Hfl Hlen reply reqauth.
  assert (Hra : length reqauth = 16%nat).
  { unfold reqauth, sub. rewrite firstn_length, skipn_length. lia. }
  set (pre := filter (fun a => fst a =? 33) (p_attrs p) ++ (if 0 <? cause then [(101, put32 cause)] else [])).
  pose proof (reply_pre_ok p cause) as Hpre. fold pre in Hpre.
  assert (Hattrs_ma : enc_attrs (reply_attrs p cause true) = enc_attrs pre ++ [80; 18] ++ zeros16 ++ []).
  { unfold reply_attrs. rewrite (app_assoc (filter _ _)). fold pre. rewrite enc_attrs_app. reflexivity. }
  assert (Hattrs_no : enc_attrs (reply_attrs p cause false) = enc_attrs pre).
  { unfold reply_attrs. rewrite app_nil_r. reflexivity. }
  unfold reply, build_coa_reply. rewrite Hfl.
  destruct (find_attr80 reqraw) as [o|] eqn:Hreq; cbv zeta iota beta; fold reqauth.
  - (* request carried a Message-Authenticator *)
    rewrite Hattrs_ma.
    set (hdr := [code; p_id p] ++ put16 (N.of_nat (20 + length (enc_attrs pre ++ [80; 18] ++ zeros16 ++ [])))).
    assert (Hhdr : length hdr = 4%nat) by reflexivity.
    set (off := (20 + length (enc_attrs pre) + 2)%nat).
    assert (Hh20 : forall a, length a = 16%nat -> length (hdr ++ a) = 20%nat)
      by (intros a Ha; rewrite app_length; lia).
    (* shape of the packet with authenticator field [a] and MA value [v] *)
    pose (pk := fun a v : bytes => (hdr ++ a) ++ enc_attrs pre ++ [80; 18] ++ v ++ []).
    assert (Hfind : forall a v, length a = 16%nat -> length v = 16%nat -> find_attr80 (pk a v) = Some off).
    { intros a v Ha Hv. unfold pk. apply find80_ma; auto. }
    assert (Hsetv : forall a v v', length v = 16%nat -> length v' = 16%nat -> length a = 16%nat ->
                                   set_at off (pk a v) v' = pk a v').
    { intros a v v' Hv Hv' Ha. unfold pk.
      replace ((hdr ++ a) ++ enc_attrs pre ++ [80; 18] ++ v ++ [])
        with (((hdr ++ a) ++ enc_attrs pre ++ [80; 18]) ++ v ++ []) by (rewrite <- !app_assoc; reflexivity).
      rewrite set_at_app; [rewrite <- !app_assoc; reflexivity| |lia].
      rewrite !app_length. rewrite Hhdr, Ha. simpl length. unfold off. lia. }
    assert (Hseta : forall a a' v, length a = 16%nat -> length a' = 16%nat -> set_at 4 (pk a v) a' = pk a' v).
    { intros a a' v Ha Ha'. unfold pk. rewrite <- !app_assoc.
      rewrite set_at_app; [reflexivity|exact Hhdr|lia]. }
    assert (Hsubv : forall a v, length a = 16%nat -> length v = 16%nat -> sub off 16 (pk a v) = v).
    { intros a v Ha Hv. unfold pk.
      replace ((hdr ++ a) ++ enc_attrs pre ++ [80; 18] ++ v ++ [])
        with (((hdr ++ a) ++ enc_attrs pre ++ [80; 18]) ++ v ++ []) by (rewrite <- !app_assoc; reflexivity).
      apply sub_app; [|exact Hv]. rewrite !app_length. rewrite Hhdr, Ha. simpl length. unfold off. lia. }
    assert (He1 : hdr ++ reqauth ++ enc_attrs pre ++ [80; 18] ++ zeros16 ++ [] = pk reqauth zeros16)
      by (unfold pk; rewrite <- !app_assoc; reflexivity).
    rewrite He1, (Hfind reqauth zeros16 Hra eq_refl).
    rewrite (Hsetv reqauth zeros16 zeros16 eq_refl eq_refl Hra).
    set (mac := hmac secret (pk reqauth zeros16)).
    assert (Hmac : length mac = 16%nat) by apply hmac_length.
    rewrite (Hsetv reqauth zeros16 mac eq_refl Hmac Hra).
    set (ra := md5 (pk reqauth mac ++ secret)).
    assert (Hral : length ra = 16%nat) by apply md5_length.
    rewrite (Hseta reqauth ra mac Hra Hral).
    split; [|split].
    + unfold resp_auth_ok.
      replace (firstn 4 (pk ra mac)) with hdr
        by (unfold pk; rewrite <- !app_assoc; symmetry; apply firstn_app_exact; exact Hhdr).
      replace (skipn 20 (pk ra mac)) with (enc_attrs pre ++ [80; 18] ++ mac ++ [])
        by (unfold pk; symmetry; apply skipn_app_exact; apply Hh20; exact Hral).
      replace (sub 4 16 (pk ra mac)) with ra
        by (unfold pk; rewrite <- !app_assoc; symmetry; apply sub_app; [exact Hhdr|exact Hral]).
      unfold ra, pk. rewrite <- !app_assoc. apply beq_refl.
    + unfold ma_resp_ok. rewrite (Hfind ra mac Hral Hmac).
      rewrite (Hsetv ra mac zeros16 Hmac eq_refl Hral), (Hseta ra reqauth zeros16 Hral Hra).
      rewrite (Hsubv ra mac Hral Hmac). apply beq_refl.
    + intros _. rewrite (Hfind ra mac Hral Hmac). discriminate.
  - (* no Message-Authenticator in the request: none in the reply *)
    rewrite Hattrs_no.
    set (hdr := [code; p_id p] ++ put16 (N.of_nat (20 + length (enc_attrs pre)))).
    assert (Hhdr : length hdr = 4%nat) by reflexivity.
    set (ra := md5 ((hdr ++ reqauth ++ enc_attrs pre) ++ secret)).
    assert (Hral : length ra = 16%nat) by apply md5_length.
    replace (set_at 4 (hdr ++ reqauth ++ enc_attrs pre) ra) with (hdr ++ ra ++ enc_attrs pre)
      by (symmetry; apply set_at_app; [exact Hhdr|lia]).
    split; [|split].
    + unfold resp_auth_ok.
      rewrite (firstn_app_exact hdr _ 4 Hhdr).
      replace (skipn 20 (hdr ++ ra ++ enc_attrs pre)) with (enc_attrs pre)
        by (rewrite app_assoc; symmetry; apply skipn_app_exact; rewrite app_length; lia).
      rewrite (sub_app hdr ra _ 4 16 Hhdr Hral).
      unfold ra. rewrite <- !app_assoc. apply beq_refl.
    + unfold ma_resp_ok. rewrite app_assoc, find80_none; auto. rewrite app_length; lia.
    + intros H; exfalso; apply H; reflexivity.
Qed.

End R.

(* ------------------------------------------------------------------ statements used by Properties.v *)
Fixpoint deliveries_issued (issued : bytes -> bytes -> Prop) (h : list ev) : Prop :=
  match h with
  | [] => True
  | EvRecv d (Some id) :: t =>
    (exists req, awaiting t id = Some req /\ issued (sub 4 16 req) (truncate d)) /\ deliveries_issued issued t
  | _ :: t => deliveries_issued issued t
  end.
Lemma forged_not_acted_on :
  forall md5raw fl secret (issued : bytes -> bytes -> Prop),
    f_reply fl = true ->
    (forall reqauth d, resp_auth_ok md5raw secret reqauth d = true -> issued reqauth d) ->
    forall ops st outs,
      Forall op_wf ops ->
      crun md5raw fl secret pending0 ops = (st, outs) ->
      deliveries_issued issued (rev (events ops outs)).
Proof.
  intros md5raw fl secret issued Hfl Hunf ops st outs Hwf Hr.
  pose proof (reply_authentic md5raw fl Hfl secret ops st outs Hwf Hr) as H.
  induction (rev (events ops outs)) as [|e h IH]; simpl in *; auto.
  destruct e as [| |d [id|]]; auto.
  destruct H as [[req (Ha & _ & Hra & _)] Ht]. split; auto. exists req; auto.
Qed.

Definition admitted_by (md5raw : bytes -> bytes) (cfg : coacfg) (src : N) (raw : bytes) (e : cevent)
           (window_clause : packet -> Prop) : Prop :=
  exists cl c p,
    nth_error (clients cfg) cl = Some c /\ contains c src = true /\
    (forall j c', (j < cl)%nat -> nth_error (clients cfg) j = Some c' -> contains c' src = false) /\
    parse raw = Some p /\
    req_auth_ok md5raw (c_secret c) (truncate raw) = true /\
    ma_req_ok_rfc md5raw (c_secret c) (truncate raw) = true /\
    window_clause p /\
    nasid_ok (nasid cfg) (p_attrs p) = true /\
    match e with EvMutation _ _ => p_code p = 43 | EvTerminate _ => p_code p = 40 end.

Lemma coa_admission_gen :
  forall md5raw tsr ddp ttp cfg now src bus raw e,
    effect (coa_step md5raw (flt tsr ddp ttp) cfg now src bus raw) = Some e ->
    admitted_by md5raw cfg src raw e (fun p => window_check (flt tsr ddp ttp) (window cfg) now (p_attrs p) = true).
Proof.
  intros md5raw tsr ddp ttp cfg now src bus raw e He.
  destruct (coa_admission md5raw tsr ddp ttp cfg now src bus raw e He) as (cl & c & p & Hc & Hp & Hra & Hma & Hw & Hm).
  apply find_client_spec in Hc as (_ & Hn & Hcs & Hfirst). rewrite Nat.sub_0_r in *.
  exists cl, c, p. repeat split; auto.
  - destruct e; apply Hm.
  - destruct e; apply Hm.
Qed.

(* repaired: while the window is enabled the request carries a usable Event-Timestamp inside it *)
Lemma coa_admission_thm :
  forall md5raw cfg now src bus raw e,
    effect (coa_step md5raw repaired cfg now src bus raw) = Some e ->
    admitted_by md5raw cfg src raw e
      (fun p => (window cfg <= 0)%Z \/
                (event_ts (p_attrs p) <> 0 /\
                 (- window cfg <= now - Z.of_N (event_ts (p_attrs p)) <= window cfg)%Z)).
Proof.
  intros md5raw cfg now src bus raw e He.
  destruct (coa_admission_gen md5raw true true true cfg now src bus raw e He) as (cl & c & p & H).
  exists cl, c, p. intuition. apply window_ok_req_spec. assumption.
Qed.

(* /repo HEAD (Event-Timestamp not required): the window is enforced only on requests that carry one *)
Lemma coa_admission_head_thm :
  forall md5raw cfg now src bus raw e,
    effect (coa_step md5raw head cfg now src bus raw) = Some e ->
    admitted_by md5raw cfg src raw e
      (fun p => (window cfg <= 0)%Z \/ event_ts (p_attrs p) = 0 \/
                (- window cfg <= now - Z.of_N (event_ts (p_attrs p)) <= window cfg)%Z).
Proof.
  intros md5raw cfg now src bus raw e He.
  destruct (coa_admission_gen md5raw false true true cfg now src bus raw e He) as (cl & c & p & H).
  exists cl, c, p. intuition. apply window_ok_spec. assumption.
Qed.

(* a captured request can be replayed only for a bounded time: if the same datagram takes effect at two
   instants while the window is enabled, they are at most 2*window seconds apart *)
Lemma coa_replay_span_bounded :
  forall md5raw cfg src raw now1 bus1 e1 now2 bus2 e2,
    (0 < window cfg)%Z ->
    effect (coa_step md5raw repaired cfg now1 src bus1 raw) = Some e1 ->
    effect (coa_step md5raw repaired cfg now2 src bus2 raw) = Some e2 ->
    (Z.abs (now1 - now2) <= 2 * window cfg)%Z.
Proof.
  intros md5raw cfg src raw now1 bus1 e1 now2 bus2 e2 Hw H1 H2.
  destruct (coa_admission_thm _ _ _ _ _ _ _ H1) as (? & ? & p1 & _ & _ & _ & Hp1 & _ & _ & Hw1 & _).
  destruct (coa_admission_thm _ _ _ _ _ _ _ H2) as (? & ? & p2 & _ & _ & _ & Hp2 & _ & _ & Hw2 & _).
  rewrite Hp1 in Hp2. inversion Hp2; subst p2. lia.
Qed.

Lemma coa_mutable_only_thm :
  forall md5raw tsr ddp ttp cfg now src bus raw e,
    effect (coa_step md5raw (flt tsr ddp ttp) cfg now src bus raw) = Some e ->
    exists p, parse raw = Some p /\
      match e with
      | EvMutation t delta =>
        resolve_target (p_attrs p) = Some t /\ delta <> [] /\
        forall k v, In (k, v) delta -> mem k allowed_list = true /\ mem k strip_list = false
      | EvTerminate t =>
        resolve_target (p_attrs p) = Some t /\ has_non_ident (p_attrs p) = false
      end.
Proof.
  intros md5raw tsr ddp ttp cfg now src bus raw e He.
  destruct (coa_admission md5raw tsr ddp ttp cfg now src bus raw e He) as (cl & c & p & _ & Hp & _ & _ & _ & Hm).
  exists p. split; [exact Hp|]. destruct e as [t delta|t].
  - destruct Hm as (_ & Ht & _ & _ & Hd & Hne & Ha). repeat split; auto.
    + eapply all_allowed_spec; eauto.
    + rewrite Hd in H. eapply strip_spec; eauto.
  - destruct Hm as (_ & Ht & _ & Hi). auto.
Qed.

(* ------------------------------------------------------------------ requests the BNG sends *)
Section T.
Variable md5raw : bytes -> bytes.
Notation md5 := (md5 md5raw).
Notation hmac := (hmac md5raw).

(* Access-Request (code 1) as built by Authenticate + exchange: the Message-Authenticator placeholder is
   filled with HMAC-MD5 over the packet as sent (RFC 3579 section 3.2), the authenticator is kept *)
Lemma access_request_ma_valid (secret : bytes) (id : N) (auth : bytes) (pre post : list attr) :
  length auth = 16%nat -> Forall (fun a => ma_like a = false) pre ->
  exists req,
    build_request md5raw secret 1 id auth (pre ++ (80, zeros16) :: post) = Some req /\
    sub 4 16 req = auth /\ ma_ok_asis md5raw secret req = true.
Proof.
  intros Ha Hpre. unfold build_request. simpl orb. cbv iota.
  rewrite enc_attrs_app.
  change (enc_attrs ((80, zeros16) :: post)) with ([80; 18] ++ zeros16 ++ enc_attrs post).
  set (hdr := [1; id] ++ put16 (N.of_nat (20 + length (enc_attrs pre ++ [80; 18] ++ zeros16 ++ enc_attrs post)))).
  assert (Hhdr : length hdr = 4%nat) by reflexivity.
  set (off := (20 + length (enc_attrs pre) + 2)%nat).
  pose (pk := fun v : bytes => (hdr ++ auth) ++ enc_attrs pre ++ [80; 18] ++ v ++ enc_attrs post).
  assert (Hh20 : length (hdr ++ auth) = 20%nat) by (rewrite app_length; lia).
  assert (Hfind : forall v, length v = 16%nat -> find_attr80 (pk v) = Some off)
    by (intros v Hv; unfold pk; apply find80_ma; auto).
  assert (Hassoc : forall v, pk v = ((hdr ++ auth) ++ enc_attrs pre ++ [80; 18]) ++ v ++ enc_attrs post)
    by (intros v; unfold pk; rewrite <- !app_assoc; reflexivity).
  assert (Hoff : length ((hdr ++ auth) ++ enc_attrs pre ++ [80; 18]) = off)
    by (rewrite !app_length; rewrite Hhdr, Ha; simpl length; unfold off; lia).
  assert (Hset : forall v v', length v = 16%nat -> length v' = 16%nat -> set_at off (pk v) v' = pk v').
  { intros v v' Hv Hv'. rewrite !Hassoc. apply set_at_app; [exact Hoff|lia]. }
  assert (He : hdr ++ auth ++ enc_attrs pre ++ [80; 18] ++ zeros16 ++ enc_attrs post = pk zeros16)
    by (unfold pk; rewrite <- !app_assoc; reflexivity).
  rewrite He, (Hfind zeros16 eq_refl).
  set (mac := hmac secret (pk zeros16)).
  assert (Hmac : length mac = 16%nat) by apply hmac_length.
  rewrite (Hset zeros16 mac eq_refl Hmac).
  eexists. split; [reflexivity|]. split.
  - unfold pk. rewrite <- !app_assoc. apply sub_app; [exact Hhdr|exact Ha].
  - unfold ma_ok_asis. rewrite (Hfind mac Hmac), (Hset mac zeros16 Hmac eq_refl).
    rewrite (Hassoc mac). rewrite (sub_app _ mac _ off 16 Hoff Hmac). apply beq_refl.
Qed.

(* Accounting-Request (code 4) without Message-Authenticator: the Request Authenticator verifies (RFC 2866) *)
Lemma accounting_request_auth_valid (secret : bytes) (id : N) (auth : bytes) (attrs : list attr) :
  Forall (fun a => ma_like a = false) attrs ->
  exists req, build_request md5raw secret 4 id auth attrs = Some req /\ req_auth_ok md5raw secret req = true.
Proof.
  intros Hpre. unfold build_request. simpl orb. cbv iota.
  set (hdr := [4; id] ++ put16 (N.of_nat (20 + length (enc_attrs attrs)))).
  assert (Hhdr : length hdr = 4%nat) by reflexivity.
  set (ra := md5 (hdr ++ zeros16 ++ enc_attrs attrs ++ secret)).
  assert (Hral : length ra = 16%nat) by apply md5_length.
  rewrite app_assoc, find80_none; auto; [|rewrite app_length; lia].
  eexists. split; [reflexivity|]. unfold req_auth_ok. rewrite <- app_assoc.
  rewrite (firstn_app_exact hdr _ 4 Hhdr).
  replace (skipn 20 (hdr ++ ra ++ enc_attrs attrs)) with (enc_attrs attrs)
    by (rewrite app_assoc; symmetry; apply skipn_app_exact; rewrite app_length; lia).
  rewrite (sub_app hdr ra _ 4 16 Hhdr Hral). apply beq_refl.
Qed.

End T.

(* ------------------------------------------------------------------ Provider.Authenticate *)
Section U.
Variable md5raw : bytes -> bytes.
Variable fl : flags.
Hypothesis Hfl : f_reply fl = true.

Lemma pending0_nth j : nth j pending0 None = None.
Proof.
  unfold pending0. destruct (nth_in_or_default j (repeat (@None bytes) 256) None) as [H|H]; auto.
  apply repeat_spec in H. exact H.
Qed.

Lemma first_delivered_spec secret st : forall dgs d,
  first_delivered md5raw fl secret st dgs = Some d ->
  In d dgs /\ exists p req, parse d = Some p /\ nth (N.to_nat (p_id p)) st None = Some req /\
                            reply_ok md5raw fl secret req d = true.
Proof.
  induction dgs as [|d0 r IH]; intros d H; simpl in H; [discriminate|].
  unfold cstep in H.
  destruct (parse d0) as [p|] eqn:Hp.
  2:{ apply IH in H as [Hi He]. split; [right; exact Hi|exact He]. }
  destruct (nth (N.to_nat (p_id p)) st None) as [req|] eqn:Hn.
  2:{ apply IH in H as [Hi He]. split; [right; exact Hi|exact He]. }
  destruct (reply_ok md5raw fl secret req d0) eqn:Hok.
  - inversion H; subst. split; [left; reflexivity|]. exists p, req. auto.
  - apply IH in H as [Hi He]. split; [right; exact Hi|exact He].
Qed.

(* observable-level statement: whatever Authenticate returns other than an error was decided by a datagram
   that is in the list received, has the identifier of the request, the matching code, and verifies against
   the authenticator of the request that was sent *)
Definition decided_by (secret req : bytes) (dgs : list bytes) (code : N) (k : packet -> Prop) : Prop :=
  exists d p, In d dgs /\ parse d = Some p /\ p_code p = code /\ p_id p = nth 1 req 0 /\
              resp_auth_ok md5raw secret (sub 4 16 req) (truncate d) = true /\
              ma_resp_ok md5raw secret (sub 4 16 req) (truncate d) = true /\ k p.

Lemma authenticate_authentic secret extract req dgs :
  match authenticate md5raw fl secret extract req dgs with
  | AAllowed attrs => decided_by secret req dgs 2 (fun p => attrs = extract (p_attrs p))
  | ADenied => decided_by secret req dgs 3 (fun _ => True)
  | AError => True
  end.
Proof.
  unfold authenticate.
  set (st := fst (cstep md5raw fl secret pending0 (CSend (nth 1 req 0) req))).
  assert (Hst : st = upd (N.to_nat (nth 1 req 0)) (Some req) pending0) by reflexivity.
  destruct (first_delivered md5raw fl secret st dgs) as [d|] eqn:Hf; [|exact I].
  apply first_delivered_spec in Hf as (Hin & p & req' & Hp & Hn & Hok).
  rewrite Hst, nth_upd in Hn.
  destruct (Nat.eqb_spec (N.to_nat (p_id p)) (N.to_nat (nth 1 req 0))) as [Hc|Hc]; simpl andb in Hn.
  2:{ rewrite pending0_nth in Hn; discriminate. }
  match type of Hn with (if ?b then _ else _) = _ => destruct b end; [|rewrite pending0_nth in Hn; discriminate].
  inversion Hn; subst req'.
  assert (Hpid : p_id p = nth 1 req 0) by lia.
  unfold reply_ok in Hok. rewrite Hfl in Hok. apply andb_true_iff in Hok as [Hra Hma].
  unfold auth_outcome. rewrite Hp.
  destruct (N.eqb_spec (p_code p) 2) as [H2|H2].
  - exists d, p. repeat split; auto.
  - destruct (N.eqb_spec (p_code p) 3) as [H3|H3]; [|exact I].
    exists d, p. repeat split; auto.
Qed.

(* one server of a fail-over sequence: what it hands over arrived on ITS socket, carries the identifier of the
   request written to ITS socket and verifies under ITS secret against that request *)
Definition verified_on (s : server_try) (d : bytes) : Prop :=
  let '(secret, req, dgs) := s in
  In d dgs /\ exists p, parse d = Some p /\ p_id p = nth 1 req 0 /\
    resp_auth_ok md5raw secret (sub 4 16 req) (truncate d) = true /\
    ma_resp_ok md5raw secret (sub 4 16 req) (truncate d) = true.

Lemma try_server_decided (s : server_try) (d : bytes) : try_server md5raw fl s = Some d -> verified_on s d.
Proof.
  destruct s as [[secret req] dgs]. unfold try_server, verified_on.
  set (st := fst (cstep md5raw fl secret pending0 (CSend (nth 1 req 0) req))).
  assert (Hst : st = upd (N.to_nat (nth 1 req 0)) (Some req) pending0) by reflexivity.
  intros Hf. apply first_delivered_spec in Hf as (Hin & p & req' & Hp & Hn & Hok).
  rewrite Hst, nth_upd in Hn.
  destruct (Nat.eqb_spec (N.to_nat (p_id p)) (N.to_nat (nth 1 req 0))) as [Hc|Hc]; simpl andb in Hn.
  2:{ rewrite pending0_nth in Hn; discriminate. }
  match type of Hn with (if ?b then _ else _) = _ => destruct b end; [|rewrite pending0_nth in Hn; discriminate].
  inversion Hn; subst req'.
  unfold reply_ok in Hok. rewrite Hfl in Hok. apply andb_true_iff in Hok as [Hra Hma].
  split; [exact Hin|]. exists p. repeat split; auto. lia.
Qed.

Lemma failover_decided (servers : list server_try) (d : bytes) :
  failover md5raw fl servers = Some d ->
  exists pre s post, servers = pre ++ s :: post /\
    Forall (fun s' => try_server md5raw fl s' = None) pre /\ verified_on s d.
Proof.
  induction servers as [|s r IH]; simpl; [discriminate|].
  destruct (try_server md5raw fl s) as [d'|] eqn:Ht.
  - intros Hd; inversion Hd; subst d'. exists [], s, r. repeat split; auto. apply try_server_decided; exact Ht.
  - intros Hd. destruct (IH Hd) as (pre & s' & post & -> & Hpre & Hv).
    exists (s :: pre), s', post. repeat split; auto.
Qed.

Lemma authenticate_failover_authentic extract servers :
  match authenticate_failover md5raw fl extract servers with
  | AAllowed attrs =>
    exists pre s post d p, servers = pre ++ s :: post /\ Forall (fun s' => try_server md5raw fl s' = None) pre /\
      verified_on s d /\ parse d = Some p /\ p_code p = 2 /\ attrs = extract (p_attrs p)
  | ADenied =>
    exists pre s post d p, servers = pre ++ s :: post /\ Forall (fun s' => try_server md5raw fl s' = None) pre /\
      verified_on s d /\ parse d = Some p /\ p_code p = 3
  | AError => True
  end.
Proof.
  unfold authenticate_failover.
  destruct (failover md5raw fl servers) as [d|] eqn:Hf; [|exact I].
  destruct (failover_decided servers d Hf) as (pre & s & post & Hs & Hpre & Hv).
  unfold auth_outcome. destruct (parse d) as [p|] eqn:Hp; [|exact I].
  destruct (N.eqb_spec (p_code p) 2) as [H2|H2].
  - exists pre, s, post, d, p. auto 10.
  - destruct (N.eqb_spec (p_code p) 3) as [H3|H3]; [|exact I].
    exists pre, s, post, d, p. auto 10.
Qed.

(* ---- the same under every policy of ignoring verifying datagrams with an irregular Message-Authenticator *)
Lemma first_delivered_g_spec rej secret st : forall dgs d,
  first_delivered_g md5raw fl rej secret st dgs = Some d ->
  In d dgs /\ exists p req, parse d = Some p /\ nth (N.to_nat (p_id p)) st None = Some req /\
                            reply_ok md5raw fl secret req d = true.
Proof.
  induction dgs as [|d0 r IH]; intros d H; simpl in H; [discriminate|].
  unfold cstep_g in H.
  destruct (rej d0 && ma_irregular (truncate d0))%bool.
  { apply IH in H as [Hi He]. split; [right; exact Hi|exact He]. }
  unfold cstep in H.
  destruct (parse d0) as [p|] eqn:Hp.
  2:{ apply IH in H as [Hi He]. split; [right; exact Hi|exact He]. }
  destruct (nth (N.to_nat (p_id p)) st None) as [req|] eqn:Hn.
  2:{ apply IH in H as [Hi He]. split; [right; exact Hi|exact He]. }
  destruct (reply_ok md5raw fl secret req d0) eqn:Hok.
  - inversion H; subst. split; [left; reflexivity|]. exists p, req. auto.
  - apply IH in H as [Hi He]. split; [right; exact Hi|exact He].
Qed.

Lemma try_server_g_decided rej (s : server_try) (d : bytes) : try_server_g md5raw fl rej s = Some d -> verified_on s d.
Proof.
  destruct s as [[secret req] dgs]. unfold try_server_g, verified_on.
  set (st := fst (cstep md5raw fl secret pending0 (CSend (nth 1 req 0) req))).
  assert (Hst : st = upd (N.to_nat (nth 1 req 0)) (Some req) pending0) by reflexivity.
  intros Hf. apply first_delivered_g_spec in Hf as (Hin & p & req' & Hp & Hn & Hok).
  rewrite Hst, nth_upd in Hn.
  destruct (Nat.eqb_spec (N.to_nat (p_id p)) (N.to_nat (nth 1 req 0))) as [Hc|Hc]; simpl andb in Hn.
  2:{ rewrite pending0_nth in Hn; discriminate. }
  match type of Hn with (if ?b then _ else _) = _ => destruct b end; [|rewrite pending0_nth in Hn; discriminate].
  inversion Hn; subst req'.
  unfold reply_ok in Hok. rewrite Hfl in Hok. apply andb_true_iff in Hok as [Hra Hma].
  split; [exact Hin|]. exists p. repeat split; auto. lia.
Qed.

Lemma failover_g_decided rej (servers : list server_try) (d : bytes) :
  failover_g md5raw fl rej servers = Some d ->
  exists pre s post, servers = pre ++ s :: post /\
    Forall (fun s' => try_server_g md5raw fl rej s' = None) pre /\ verified_on s d.
Proof.
  induction servers as [|s r IH]; simpl; [discriminate|].
  destruct (try_server_g md5raw fl rej s) as [d'|] eqn:Ht.
  - intros Hd; inversion Hd; subst d'. exists [], s, r. repeat split; auto. apply (try_server_g_decided rej); exact Ht.
  - intros Hd. destruct (IH Hd) as (pre & s' & post & -> & Hpre & Hv).
    exists (s :: pre), s', post. repeat split; auto.
Qed.

Lemma authenticate_failover_g_authentic rej extract servers :
  match authenticate_failover_g md5raw fl rej extract servers with
  | AAllowed attrs =>
    exists pre s post d p, servers = pre ++ s :: post /\ Forall (fun s' => try_server_g md5raw fl rej s' = None) pre /\
      verified_on s d /\ parse d = Some p /\ p_code p = 2 /\ attrs = extract (p_attrs p)
  | ADenied =>
    exists pre s post d p, servers = pre ++ s :: post /\ Forall (fun s' => try_server_g md5raw fl rej s' = None) pre /\
      verified_on s d /\ parse d = Some p /\ p_code p = 3
  | AError => True
  end.
Proof.
  unfold authenticate_failover_g.
  destruct (failover_g md5raw fl rej servers) as [d|] eqn:Hf; [|exact I].
  destruct (failover_g_decided rej servers d Hf) as (pre & s & post & Hs & Hpre & Hv).
  unfold auth_outcome. destruct (parse d) as [p|] eqn:Hp; [|exact I].
  destruct (N.eqb_spec (p_code p) 2) as [H2|H2].
  - exists pre, s, post, d, p. auto 10.
  - destruct (N.eqb_spec (p_code p) 3) as [H3|H3]; [|exact I].
    exists pre, s, post, d, p. auto 10.
Qed.

End U.

(* ------------------------------------------------------------------ /repo HEAD and the replay window *)
Section V.
Variable md5raw : bytes -> bytes.

Lemma window_ok_no_ts (w now : Z) (attrs : list attr) : event_ts attrs = 0 -> window_ok w now attrs = true.
Proof. intros H. unfold window_ok. rewrite H. destruct (0 <? w)%Z; reflexivity. Qed.

(* the clock enters coa_step only through the window test *)
Lemma coa_step_now_indep fl cfg now1 now2 src bus raw :
  (forall p, parse raw = Some p ->
             window_check fl (window cfg) now1 (p_attrs p) = window_check fl (window cfg) now2 (p_attrs p)) ->
  coa_step md5raw fl cfg now1 src bus raw = coa_step md5raw fl cfg now2 src bus raw.
Proof.
  intros H. unfold coa_step.
  destruct (find_client 0 (clients cfg) src) as [[cl c]|]; [|reflexivity].
  destruct (parse raw) as [p|] eqn:Hp; [|reflexivity].
  specialize (H p eq_refl).
  unfold handle_coa, handle_dm. rewrite H. reflexivity.
Qed.

(* EXACTLY what HEAD admits without a usable Event-Timestamp: the decision does not depend on the clock at all *)
Lemma head_untimestamped_clock_independent cfg now1 now2 src bus raw p :
  parse raw = Some p -> event_ts (p_attrs p) = 0 ->
  coa_step md5raw head cfg now1 src bus raw = coa_step md5raw head cfg now2 src bus raw.
Proof.
  intros Hp Hts. apply coa_step_now_indep. intros p' Hp'. rewrite Hp in Hp'. inversion Hp'; subst p'.
  unfold window_check. simpl f_tsreq. cbv iota. rewrite !window_ok_no_ts; auto.
Qed.

(* HEAD: the span bound holds for every request that carries a usable Event-Timestamp *)
Lemma coa_replay_span_bounded_head :
  forall cfg src raw p now1 bus1 e1 now2 bus2 e2,
    (0 < window cfg)%Z ->
    parse raw = Some p -> event_ts (p_attrs p) <> 0 ->
    effect (coa_step md5raw head cfg now1 src bus1 raw) = Some e1 ->
    effect (coa_step md5raw head cfg now2 src bus2 raw) = Some e2 ->
    (Z.abs (now1 - now2) <= 2 * window cfg)%Z.
Proof.
  intros cfg src raw p now1 bus1 e1 now2 bus2 e2 Hw Hp Hts H1 H2.
  destruct (coa_admission_head_thm _ _ _ _ _ _ _ H1) as (? & ? & p1 & _ & _ & _ & Hp1 & _ & _ & Hw1 & _).
  destruct (coa_admission_head_thm _ _ _ _ _ _ _ H2) as (? & ? & p2 & _ & _ & _ & Hp2 & _ & _ & Hw2 & _).
  rewrite Hp in Hp1, Hp2. inversion Hp1; subst p1. inversion Hp2; subst p2. lia.
Qed.

End V.

(* ------------------------------------------------------------------ duplicate detection over histories *)
Section W.
Variable md5raw : bytes -> bytes.
Variable fl : flags.
Hypothesis Hdd : f_dedup fl = true.

Lemma effect_reached o e : effect o = Some e -> reached_worker o = true.
Proof. destruct o; simpl; try discriminate; auto. Qed.

Lemma effect_is_reply o e : effect o = Some e -> exists cl st r, o = OReply cl st r (Some e).
Proof. destruct o; simpl; try discriminate. intros ->. eauto. Qed.

Lemma coa_step_g_effect rej orep cfg now src bus raw e :
  effect (coa_step_g md5raw fl rej orep cfg now src bus raw) = Some e ->
  effect (coa_step md5raw fl cfg now src bus raw) = Some e.
Proof.
  unfold coa_step_g. destruct (rej && ma_irregular (truncate raw) && reached_worker _)%bool.
  - destruct (coa_step md5raw fl cfg now src bus raw); simpl; discriminate.
  - destruct (coa_step md5raw fl cfg now src bus raw) as [|cl st|cl|cl st m ev]; auto.
    destruct orep as [r|]; auto. destruct (find_client 0 (clients cfg) src) as [[i c]|]; auto.
    destruct (reply_equiv md5raw (c_secret c) (sub 4 16 raw) m r); auto.
Qed.

Lemma effect_has_key rej orep cfg now src bus raw e :
  effect (coa_step_g md5raw fl rej orep cfg now src bus raw) = Some e -> exists k, dedup_key cfg src raw = Some k.
Proof.
  intros H. apply coa_step_g_effect in H. revert H.
  unfold coa_step, dedup_key. destruct (find_client 0 (clients cfg) src) as [[cl c]|]; [eauto|discriminate].
Qed.

(* a known key takes no effect *)
Lemma step_known_no_effect rej orep cfg now src bus raw seen sec k r :
  dedup_key cfg src raw = Some (sec, k) -> cache_find sec k seen = Some r ->
  effect (fst (coa_step_st md5raw fl rej orep cfg now src bus raw seen)) = None.
Proof.
  intros Hk Hf. unfold coa_step_st. rewrite Hdd, Hk, Hf. simpl andb.
  destruct (reached_worker (coa_step_g md5raw fl rej orep cfg now src bus raw)) eqn:Hr.
  - destruct (coa_step_g md5raw fl rej orep cfg now src bus raw); reflexivity.
  - simpl. destruct (effect (coa_step_g md5raw fl rej orep cfg now src bus raw)) eqn:He; [|reflexivity].
    apply effect_reached in He. congruence.
Qed.

Lemma cache_find_cons sec k c sec' k' r' :
  cache_find sec k c <> None -> cache_find sec k ((sec', k', r') :: c) <> None.
Proof. simpl. destruct (beq sec sec' && beq k k')%bool; [discriminate|auto]. Qed.

(* the cache only grows *)
Lemma step_monotone rej orep cfg now src bus raw seen sec k :
  cache_find sec k seen <> None ->
  cache_find sec k (snd (coa_step_st md5raw fl rej orep cfg now src bus raw seen)) <> None.
Proof.
  intros H. unfold coa_step_st. destruct (f_dedup fl && reached_worker _)%bool; [|exact H].
  destruct (dedup_key cfg src raw) as [[s1 k1]|]; [|exact H].
  destruct (cache_find s1 k1 seen); [exact H|].
  destruct (coa_step_g md5raw fl rej orep cfg now src bus raw); try exact H. simpl snd. apply cache_find_cons; exact H.
Qed.

(* a step that takes effect leaves its key in the cache *)
Lemma step_effect_remembered rej orep cfg now src bus raw seen e sec k :
  effect (fst (coa_step_st md5raw fl rej orep cfg now src bus raw seen)) = Some e ->
  dedup_key cfg src raw = Some (sec, k) ->
  cache_find sec k (snd (coa_step_st md5raw fl rej orep cfg now src bus raw seen)) <> None.
Proof.
  unfold coa_step_st. rewrite Hdd. simpl andb. intros He Hk. rewrite Hk in *.
  destruct (reached_worker (coa_step_g md5raw fl rej orep cfg now src bus raw)) eqn:Hr.
  - destruct (cache_find sec k seen) as [c|] eqn:Hf.
    + exfalso. destruct (coa_step_g md5raw fl rej orep cfg now src bus raw); simpl in He; discriminate.
    + destruct (coa_step_g md5raw fl rej orep cfg now src bus raw) eqn:Ho; simpl in He; try discriminate.
      simpl snd. simpl. rewrite !beq_refl. discriminate.
  - simpl in He. apply effect_reached in He. congruence.
Qed.

Definition key_of (cfg : coacfg) (i : coa_input) : option (bytes * bytes) :=
  let '(_, src, _, raw, _, _) := i in dedup_key cfg src raw.

(* once a key is in the cache, no later datagram with that key takes effect *)
Lemma run_known_no_effect cfg : forall ins seen sec k j i,
  cache_find sec k seen <> None ->
  nth_error ins j = Some i -> key_of cfg i = Some (sec, k) ->
  forall o, nth_error (coa_run md5raw fl cfg seen ins) j = Some o -> effect o = None.
Proof.
  induction ins as [|[[[[[now src] bus] raw] rej] orep] r IH]; intros seen sec k j i Hs Hn Hk o Ho; [destruct j; discriminate|].
  simpl in Ho. destruct (coa_step_st md5raw fl rej orep cfg now src bus raw seen) as [o1 seen1] eqn:Hst.
  destruct j as [|j]; simpl in Hn, Ho.
  - inversion Hn; subst i. inversion Ho; subst o. simpl in Hk.
    destruct (cache_find sec k seen) as [c|] eqn:Hf; [|congruence].
    pose proof (step_known_no_effect rej orep cfg now src bus raw seen sec k c Hk Hf) as H. rewrite Hst in H. exact H.
  - eapply (IH seen1 sec k j i); eauto.
    pose proof (step_monotone rej orep cfg now src bus raw seen sec k Hs) as H. rewrite Hst in H. exact H.
Qed.

(* single execution: in any history of datagrams, two datagrams with the same key (same client secret, same
   code/identifier/length/Request Authenticator) do not both take effect *)
Lemma single_execution cfg : forall ins seen j1 j2 i1 i2 o1 o2 key,
  (j1 < j2)%nat ->
  nth_error ins j1 = Some i1 -> nth_error ins j2 = Some i2 ->
  key_of cfg i1 = Some key -> key_of cfg i2 = Some key ->
  nth_error (coa_run md5raw fl cfg seen ins) j1 = Some o1 ->
  nth_error (coa_run md5raw fl cfg seen ins) j2 = Some o2 ->
  effect o1 <> None -> effect o2 = None.
Proof.
  induction ins as [|[[[[[now src] bus] raw] rej] orep] r IH]; intros seen j1 j2 i1 i2 o1 o2 [sec k] Hlt H1 H2 K1 K2 O1 O2 He;
    [destruct j1; discriminate|].
  simpl in O1, O2. destruct (coa_step_st md5raw fl rej orep cfg now src bus raw seen) as [oo seen1] eqn:Hst.
  destruct j2 as [|j2]; [lia|]. simpl in H2, O2.
  destruct j1 as [|j1]; simpl in H1, O1.
  - inversion H1; subst i1. inversion O1; subst oo. simpl in K1.
    destruct (effect o1) as [e|] eqn:Heo; [|congruence].
    pose proof (step_effect_remembered rej orep cfg now src bus raw seen e sec k) as Hr. rewrite Hst in Hr.
    specialize (Hr Heo K1).
    eapply (run_known_no_effect cfg r seen1 sec k j2 i2); eauto.
  - eapply (IH seen1 j1 j2 i1 i2 o1 o2 (sec, k)); eauto. lia.
Qed.

End W.

(* ------------------------------------------------------------------ admissible rejections never add effects *)
Section X.
Variable md5raw : bytes -> bytes.
Lemma coa_step_g_effect_any fl rej orep cfg now src bus raw e :
  effect (coa_step_g md5raw fl rej orep cfg now src bus raw) = Some e ->
  effect (coa_step md5raw fl cfg now src bus raw) = Some e.
Proof.
  unfold coa_step_g. destruct (rej && ma_irregular (truncate raw) && reached_worker _)%bool.
  - destruct (coa_step md5raw fl cfg now src bus raw); simpl; discriminate.
  - destruct (coa_step md5raw fl cfg now src bus raw) as [|cl st|cl|cl st m ev]; auto.
    destruct orep as [r|]; auto. destruct (find_client 0 (clients cfg) src) as [[i c]|]; auto.
    destruct (reply_equiv md5raw (c_secret c) (sub 4 16 raw) m r); auto.
Qed.
(* ... and on a request with a regular Message-Authenticator the refusal choice does not exist *)
Lemma coa_step_g_regular fl rej cfg now src bus raw :
  ma_irregular (truncate raw) = false ->
  coa_step_g md5raw fl rej None cfg now src bus raw = coa_step md5raw fl cfg now src bus raw.
Proof.
  intros H. unfold coa_step_g. rewrite H, andb_false_r. simpl.
  destruct (coa_step md5raw fl cfg now src bus raw); reflexivity.
Qed.
(* whatever reply the generalised step emits verifies, provided the model's own reply does: a substituted reply was
   accepted by [reply_equiv], which includes both verifications and regularity *)
Lemma coa_step_g_reply_verifies fl rej orep cfg now src bus raw cl st r ev :
  coa_step_g md5raw fl rej orep cfg now src bus raw = OReply cl st r ev ->
  (exists m, coa_step md5raw fl cfg now src bus raw = OReply cl st m ev /\
             (r = m \/ exists i c, find_client 0 (clients cfg) src = Some (i, c) /\
                                    resp_auth_ok md5raw (c_secret c) (sub 4 16 raw) r = true /\
                                    ma_resp_ok md5raw (c_secret c) (sub 4 16 raw) r = true /\
                                    ma_irregular r = false)).
Proof.
  unfold coa_step_g. destruct (rej && ma_irregular (truncate raw) && reached_worker _)%bool.
  - destruct (coa_step md5raw fl cfg now src bus raw); discriminate.
  - destruct (coa_step md5raw fl cfg now src bus raw) as [|cl' st'|cl'|cl' st' m ev'] eqn:Ho; try discriminate.
    destruct orep as [r'|]; [|intros H; inversion H; subst; eauto].
    destruct (find_client 0 (clients cfg) src) as [[i c]|] eqn:Hc; [|intros H; inversion H; subst; eauto].
    destruct (reply_equiv md5raw (c_secret c) (sub 4 16 raw) m r') eqn:He; [|intros H; inversion H; subst; eauto].
    intros H; inversion H; subst. exists m. split; [reflexivity|]. right. exists i, c. split; [reflexivity|].
    unfold reply_equiv in He. destruct (parse m); [|discriminate]. destruct (parse r); [|discriminate].
    repeat (apply andb_true_iff in He; destruct He as [He ?]).
    repeat split; auto. apply negb_true_iff. assumption.
Qed.
End X.

(* ------------------------------------------------------------------ replies in ANY attribute order verify *)
Section Y.
Variable md5raw : bytes -> bytes.
Notation md5 := (md5 md5raw).
Notation hmac := (hmac md5raw).

Lemma sign_reply_with_ma_verifies (secret reqauth : bytes) (code id : N) (pre post : list attr) :
  length reqauth = 16%nat -> Forall (fun a => ma_like a = false) pre ->
  let reply := sign_reply md5raw secret reqauth code id (pre ++ (80, zeros16) :: post) in
  resp_auth_ok md5raw secret reqauth reply = true /\
  ma_resp_ok md5raw secret reqauth reply = true /\
  find_attr80 reply = Some (20 + length (enc_attrs pre) + 2)%nat.
Proof.
  intros Hra Hpre reply. unfold reply, sign_reply.
  rewrite enc_attrs_app.
  change (enc_attrs ((80, zeros16) :: post)) with ([80; 18] ++ zeros16 ++ enc_attrs post).
  set (hdr := [code; id] ++ put16 (N.of_nat (20 + length (enc_attrs pre ++ [80; 18] ++ zeros16 ++ enc_attrs post)))).
  assert (Hhdr : length hdr = 4%nat) by reflexivity.
  set (off := (20 + length (enc_attrs pre) + 2)%nat).
  pose (pk := fun a v : bytes => (hdr ++ a) ++ enc_attrs pre ++ [80; 18] ++ v ++ enc_attrs post).
  assert (Hh20 : forall a, length a = 16%nat -> length (hdr ++ a) = 20%nat) by (intros a Ha; rewrite app_length; lia).
  assert (Hfind : forall a v, length a = 16%nat -> length v = 16%nat -> find_attr80 (pk a v) = Some off)
    by (intros a v Ha Hv; unfold pk; apply find80_ma; auto).
  assert (Hassoc : forall a v, pk a v = ((hdr ++ a) ++ enc_attrs pre ++ [80; 18]) ++ v ++ enc_attrs post)
    by (intros a v; unfold pk; rewrite <- !app_assoc; reflexivity).
  assert (Hoff : forall a, length a = 16%nat -> length ((hdr ++ a) ++ enc_attrs pre ++ [80; 18]) = off)
    by (intros a Ha; rewrite !app_length; rewrite Hhdr, Ha; simpl length; unfold off; lia).
  assert (Hsetv : forall a v v', length v = 16%nat -> length v' = 16%nat -> length a = 16%nat ->
                                 set_at off (pk a v) v' = pk a v').
  { intros a v v' Hv Hv' Ha. rewrite !Hassoc. apply set_at_app; [apply Hoff; exact Ha|lia]. }
  assert (Hseta : forall a a' v, length a = 16%nat -> length a' = 16%nat -> set_at 4 (pk a v) a' = pk a' v).
  { intros a a' v Ha Ha'. unfold pk. rewrite <- !app_assoc. rewrite set_at_app; [reflexivity|exact Hhdr|lia]. }
  assert (Hsubv : forall a v, length a = 16%nat -> length v = 16%nat -> sub off 16 (pk a v) = v).
  { intros a v Ha Hv. rewrite Hassoc. apply sub_app; [apply Hoff; exact Ha|exact Hv]. }
  assert (He1 : hdr ++ reqauth ++ enc_attrs pre ++ [80; 18] ++ zeros16 ++ enc_attrs post = pk reqauth zeros16)
    by (unfold pk; rewrite <- !app_assoc; reflexivity).
  rewrite He1, (Hfind reqauth zeros16 Hra eq_refl).
  rewrite (Hsetv reqauth zeros16 zeros16 eq_refl eq_refl Hra).
  set (mac := hmac secret (pk reqauth zeros16)).
  assert (Hmac : length mac = 16%nat) by apply hmac_length.
  rewrite (Hsetv reqauth zeros16 mac eq_refl Hmac Hra).
  set (ra := md5 (pk reqauth mac ++ secret)).
  assert (Hral : length ra = 16%nat) by apply md5_length.
  rewrite (Hseta reqauth ra mac Hra Hral).
  split; [|split].
  - unfold resp_auth_ok.
    replace (firstn 4 (pk ra mac)) with hdr
      by (unfold pk; rewrite <- !app_assoc; symmetry; apply firstn_app_exact; exact Hhdr).
    replace (skipn 20 (pk ra mac)) with (enc_attrs pre ++ [80; 18] ++ mac ++ enc_attrs post)
      by (unfold pk; symmetry; apply skipn_app_exact; apply Hh20; exact Hral).
    replace (sub 4 16 (pk ra mac)) with ra
      by (unfold pk; rewrite <- !app_assoc; symmetry; apply sub_app; [exact Hhdr|exact Hral]).
    unfold ra, pk. rewrite <- !app_assoc. apply beq_refl.
  - unfold ma_resp_ok. rewrite (Hfind ra mac Hral Hmac).
    rewrite (Hsetv ra mac zeros16 Hmac eq_refl Hral), (Hseta ra reqauth zeros16 Hral Hra).
    rewrite (Hsubv ra mac Hral Hmac). apply beq_refl.
  - apply Hfind; auto.
Qed.

Lemma sign_reply_without_ma_verifies (secret reqauth : bytes) (code id : N) (attrs : list attr) :
  length reqauth = 16%nat -> Forall (fun a => ma_like a = false) attrs ->
  let reply := sign_reply md5raw secret reqauth code id attrs in
  resp_auth_ok md5raw secret reqauth reply = true /\ ma_resp_ok md5raw secret reqauth reply = true.
Proof.
  intros Hra Hpre reply. unfold reply, sign_reply.
  set (hdr := [code; id] ++ put16 (N.of_nat (20 + length (enc_attrs attrs)))).
  assert (Hhdr : length hdr = 4%nat) by reflexivity.
  rewrite (app_assoc hdr reqauth), find80_none; auto; [|rewrite app_length; lia].
  rewrite <- app_assoc.
  set (ra := md5 ((hdr ++ reqauth ++ enc_attrs attrs) ++ secret)).
  assert (Hral : length ra = 16%nat) by apply md5_length.
  replace (set_at 4 (hdr ++ reqauth ++ enc_attrs attrs) ra) with (hdr ++ ra ++ enc_attrs attrs)
    by (symmetry; apply set_at_app; [exact Hhdr|lia]).
  split.
  - unfold resp_auth_ok. rewrite (firstn_app_exact hdr _ 4 Hhdr).
    replace (skipn 20 (hdr ++ ra ++ enc_attrs attrs)) with (enc_attrs attrs)
      by (rewrite app_assoc; symmetry; apply skipn_app_exact; rewrite app_length; lia).
    rewrite (sub_app hdr ra _ 4 16 Hhdr Hral). unfold ra. rewrite <- !app_assoc. apply beq_refl.
  - unfold ma_resp_ok. rewrite app_assoc, find80_none; auto. rewrite app_length; lia.
Qed.

End Y.

(* ------------------------------------------------------------------ the duplicate cache with lifetime and capacity *)
Lemma window_check_in_range fl w now attrs :
  window_check fl w now attrs = true -> (0 < w)%Z -> event_ts attrs <> 0 ->
  (- w <= now - Z.of_N (event_ts attrs) <= w)%Z.
Proof.
  unfold window_check. intros H Hw Hts. destruct (f_tsreq fl).
  - apply window_ok_req_spec in H. lia.
  - apply window_ok_spec in H. lia.
Qed.

(* with the corrected lifetime an entry never expires while its request could still pass the window: a request
   admitted at t0 (second now0) whose timestamp is still inside the window at T (second nowT) has T < t0 + ttl *)
Lemma ttl_outlives_window fl w ts now0 t0 nowT T :
  f_ttl fl = true -> (0 < w)%Z ->
  (1000 * now0 <= t0)%Z -> (T < 1000 * (nowT + 1))%Z ->
  (- w <= now0 - ts)%Z -> (nowT - ts <= w)%Z ->
  (T < t0 + cache_ttl fl w)%Z.
Proof.
  intros Hf Hw H0 HT Ha Hb. unfold cache_ttl. rewrite Hf.
  replace (0 <? w)%Z with true by lia. lia.
Qed.

Section Z1.
Variable md5raw : bytes -> bytes.
Variables tsr ttp : bool.
Notation fl := (flt tsr true ttp).

Lemma coa_step_g_window rej orep cfg now src bus raw e p :
  effect (coa_step_g md5raw fl rej orep cfg now src bus raw) = Some e -> parse raw = Some p ->
  window_check fl (window cfg) now (p_attrs p) = true.
Proof.
  intros He Hp. apply coa_step_g_effect_any in He.
  destruct (coa_admission md5raw tsr true ttp cfg now src bus raw e He) as (cl & c & p' & _ & Hp' & _ & _ & Hw & _).
  rewrite Hp in Hp'. inversion Hp'; subst. exact Hw.
Qed.

(* replay of an executed, timestamped request against the cache it left behind: with the corrected lifetime it never
   takes effect again, at whatever later instant it arrives *)
Lemma timed_replay_suppressed (max : nat) rej1 orep1 rej2 orep2 cfg now0 t0 nowT T src bus1 bus2 raw p o1 c1 e :
  ttp = true -> (0 < max)%nat -> (0 < window cfg)%Z ->
  parse raw = Some p -> event_ts (p_attrs p) <> 0 ->
  (1000 * now0 <= t0)%Z -> (T < 1000 * (nowT + 1))%Z ->
  coa_step_t md5raw max fl rej1 orep1 cfg now0 t0 src bus1 raw rcache0 = (o1, c1) ->
  effect o1 = Some e ->
  effect (fst (coa_step_t md5raw max fl rej2 orep2 cfg nowT T src bus2 raw c1)) = None.
Proof.
  intros Htt Hmax Hw Hp Hts H0 HT H1 He.
  destruct max as [|max']; [lia|].
  unfold coa_step_t in H1. simpl f_dedup in H1. cbv iota in H1.
  destruct (reached_worker (coa_step_g md5raw fl rej1 orep1 cfg now0 src bus1 raw)) eqn:Hr1.
  2:{ simpl in H1. inversion H1; subst. apply effect_reached in He. congruence. }
  simpl andb in H1. cbv iota in H1.
  destruct (dedup_key cfg src raw) as [k|] eqn:Hk.
  2:{ inversion H1; subst o1. destruct (effect_has_key md5raw fl rej1 orep1 cfg now0 src bus1 raw e He) as [k Hk']. congruence. }
  unfold cache_begin in H1. simpl in H1.
  destruct (coa_step_g md5raw fl rej1 orep1 cfg now0 src bus1 raw) as [|cl st|cl|cl st r ev] eqn:Ho1;
    try (inversion H1; subst; simpl in He; discriminate).
  inversion H1; subst o1 c1. clear H1. simpl in He. subst ev.
  assert (Hw1 : window_check fl (window cfg) now0 (p_attrs p) = true).
  { apply (coa_step_g_window rej1 orep1 cfg now0 src bus1 raw e p); [rewrite Ho1; reflexivity|exact Hp]. }
  (* second step *)
  unfold coa_step_t. simpl f_dedup. cbv iota. rewrite Hk.
  destruct (reached_worker (coa_step_g md5raw fl rej2 orep2 cfg nowT src bus2 raw)) eqn:Hr2.
  2:{ simpl. destruct (effect (coa_step_g md5raw fl rej2 orep2 cfg nowT src bus2 raw)) eqn:He2; [|reflexivity].
      apply effect_reached in He2. congruence. }
  simpl andb. cbv iota.
  unfold cache_begin, cache_finish. simpl.
  assert (Hkk : ckey_eqb k k = true) by (unfold ckey_eqb; rewrite !beq_refl; reflexivity).
  repeat (rewrite Hkk; simpl).
  destruct (T <? t0 + cache_ttl fl (window cfg))%Z eqn:Hexp.
  - unfold ent_set. cbn [rc_entries ent_find]. rewrite Hkk. destruct (coa_step_g md5raw fl rej2 orep2 cfg nowT src bus2 raw); reflexivity.
  - (* the entry has expired: then the window no longer admits the request *)
    simpl. destruct (effect (coa_step_g md5raw fl rej2 orep2 cfg nowT src bus2 raw)) as [e2|] eqn:He2.
    + exfalso.
      pose proof (coa_step_g_window rej2 orep2 cfg nowT src bus2 raw e2 p He2 Hp) as Hw2.
      apply window_check_in_range in Hw1; auto. apply window_check_in_range in Hw2; auto.
      assert (T < t0 + cache_ttl fl (window cfg))%Z.
      { apply (ttl_outlives_window fl (window cfg) (Z.of_N (event_ts (p_attrs p))) now0 t0 nowT T); auto; try lia; simpl; exact Htt. }
      lia.
    + destruct (coa_step_g md5raw fl rej2 orep2 cfg nowT src bus2 raw) as [|cl2 st2|cl2|cl2 st2 r2 ev2]; simpl in *; auto.
Qed.

End Z1.
