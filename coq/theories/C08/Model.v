(* C08/Model.v — executable model of the RADIUS authenticity paths of osvbng
   (plugins/auth/radius/{transport.go,coa.go,provider.go}, layeh.com/radius Parse/Encode).

   Executable definitions only.  MD5 is NOT axiomatised: every definition that hashes takes the
   hash as an ordinary function argument [md5raw] (a Section variable, generalised when the
   Section closes).  The OCaml driver passes OCaml's Digest (MD5); the theorems hold for every
   function.  HMAC-MD5 is defined here from it (RFC 2104, block size 64).

   The model carries seven repair flags (true = repaired behaviour).  Six of them describe fixes that are
   committed in /repo (7e62e2a, db29b2a, 331235d, 6f22cf3, 3a9d01d, 2b1fb34); their [false] branches are kept only for the historical
   [_refuted] witnesses in Properties.v and are not used by the correspondence check:
     f_reply    transport.go readLoop verifies Response Authenticator + Message-Authenticator
     f_coaauth  coa.go verifies the Request Authenticator, computes the request MA per RFC 5176
                (zero authenticator field), and builds its replies MA first, authenticator second
     f_dmwin    the Event-Timestamp replay window also applies to Disconnect-Request
     f_white    a CoA whose attribute delta leaves the documented mutable set is NAKed (401)
     f_dedup    an authenticated request is executed once; a byte-identical copy gets the cached reply (3a9d01d)
   One describes the finding still recorded as known (not fixed in /repo):
     f_tsreq    while the replay window is enabled a request without a usable Event-Timestamp is discarded
                (coa-without-event-timestamp-bypasses-window)
   and, among the fixed ones, f_ttl: a duplicate-cache entry outlives the replay window of its request (lifetime
   2*window + 1 s instead of 2*window, 2b1fb34).
   [repaired] = all true (full theorems); [head] = /repo HEAD = all true except f_tsreq. *)
From Coq Require Import String Ascii.
From OV Require Import Common.Base.
Import ListNotations.
Local Open Scope list_scope.
Local Open Scope N_scope.

Definition bytes := list N.

Record flags := { f_reply : bool; f_coaauth : bool; f_dmwin : bool; f_white : bool; f_tsreq : bool; f_dedup : bool; f_ttl : bool }.
Definition repaired : flags := {| f_reply := true; f_coaauth := true; f_dmwin := true; f_white := true; f_tsreq := true; f_dedup := true; f_ttl := true |}.
(* what /repo HEAD implements after the six C08 fix commits: everything but the Event-Timestamp requirement *)
Definition head : flags := {| f_reply := true; f_coaauth := true; f_dmwin := true; f_white := true; f_tsreq := false; f_dedup := true; f_ttl := true |}.
(* the listener before commit 3a9d01d (no duplicate detection) and before commit 2b1fb34 (cache lifetime exactly 2*window),
   everything else as on HEAD: historical witnesses only *)
Definition pre_dedup : flags := {| f_reply := true; f_coaauth := true; f_dmwin := true; f_white := true; f_tsreq := false; f_dedup := false; f_ttl := false |}.
Definition pre_ttl : flags := {| f_reply := true; f_coaauth := true; f_dmwin := true; f_white := true; f_tsreq := false; f_dedup := true; f_ttl := false |}.
Definition defective : flags := {| f_reply := false; f_coaauth := false; f_dmwin := false; f_white := false; f_tsreq := false; f_dedup := false; f_ttl := false |}.

(* ------------------------------------------------------------------ byte helpers *)
Fixpoint beq (a b : bytes) : bool :=
  match a, b with
  | [], [] => true
  | x :: a', y :: b' => (x =? y) && beq a' b'
  | _, _ => false
  end.

Definition zeros (n : nat) : bytes := repeat 0 n.
Definition zeros16 : bytes := zeros 16.

(* Go: copy(l[off:off+len(v)], v) *)
Definition set_at (off : nat) (l v : bytes) : bytes :=
  firstn off l ++ v ++ skipn (off + length v) l.
Definition sub (off n : nat) (l : bytes) : bytes := firstn n (skipn off l).

Definition be16_at (l : bytes) (i : nat) : N := nth i l 0 * 256 + nth (S i) l 0.
Definition be32_of (v : bytes) : N :=
  match v with [a; b; c; d] => be32 a b c d | _ => 0 end.

Definition str (s : String.string) : bytes :=
  map (fun c => N.of_nat (nat_of_ascii c)) (String.list_ascii_of_string s).

(* decimal rendering (fmt.Sprintf("%d", uint32)) *)
Fixpoint dec_aux (fuel : nat) (n : N) (acc : bytes) : bytes :=
  match fuel with
  | O => acc
  | S f => let acc' := (48 + n mod 10) :: acc in
           if n / 10 =? 0 then acc' else dec_aux f (n / 10) acc'
  end.
Definition dec_bytes (n : N) : bytes := dec_aux 12 n [].

(* internal attribute names (pkg/aaa/attributes.go) as byte strings; computed here so that Coq's
   string type does not reach the extracted code *)
Definition k_ipv4_address : bytes := Eval compute in str "ipv4_address".
Definition k_ipv4_netmask : bytes := Eval compute in str "ipv4_netmask".
Definition k_routed_prefix : bytes := Eval compute in str "routed_prefix".
Definition k_session_timeout : bytes := Eval compute in str "session_timeout".
Definition k_idle_timeout : bytes := Eval compute in str "idle_timeout".
Definition k_acct_interim_interval : bytes := Eval compute in str "acct_interim_interval".
Definition k_pool : bytes := Eval compute in str "pool".
Definition k_ipv6_wan_prefix : bytes := Eval compute in str "ipv6_wan_prefix".
Definition k_iana_pool : bytes := Eval compute in str "iana_pool".
Definition k_ipv6_prefix : bytes := Eval compute in str "ipv6_prefix".
Definition k_ipv6_address : bytes := Eval compute in str "ipv6_address".
Definition k_pd_pool : bytes := Eval compute in str "pd_pool".
Definition k_l2gw_handoff_group : bytes := Eval compute in str "l2gw.handoff-group".
Definition k_l2gw_svlan : bytes := Eval compute in str "l2gw.svlan".
Definition k_l2gw_cvlan : bytes := Eval compute in str "l2gw.cvlan".
Definition k_dns_primary : bytes := Eval compute in str "dns_primary".
Definition k_dns_secondary : bytes := Eval compute in str "dns_secondary".
Definition k_vrf : bytes := Eval compute in str "vrf".
Definition k_unnumbered : bytes := Eval compute in str "unnumbered".
Definition k_urpf : bytes := Eval compute in str "urpf".
Definition k_username : bytes := Eval compute in str "username".
Definition k_password : bytes := Eval compute in str "password".
Definition k_acl_ingress : bytes := Eval compute in str "acl.ingress".
Definition k_acl_egress : bytes := Eval compute in str "acl.egress".
Definition k_qos_ingress_policy : bytes := Eval compute in str "qos.ingress-policy".
Definition k_qos_egress_policy : bytes := Eval compute in str "qos.egress-policy".
Definition k_qos_upload_rate : bytes := Eval compute in str "qos.upload-rate".
Definition k_qos_download_rate : bytes := Eval compute in str "qos.download-rate".
Definition k_rate_limit_up : bytes := Eval compute in str "rate_limit_up".
Definition k_rate_limit_down : bytes := Eval compute in str "rate_limit_down".

(* ------------------------------------------------------------------ wire format (layeh.com/radius) *)
Definition attr := (N * bytes)%type.

(* radius.ParseAttributes *)
Fixpoint parse_attrs (fuel : nat) (b : bytes) : option (list attr) :=
  match b with
  | [] => Some []
  | _ =>
    match fuel with
    | O => None
    | S f =>
      match b with
      | t :: len :: _ =>
        let n := N.to_nat len in
        if (length b <? n)%nat || (n <? 2)%nat then None
        else match parse_attrs f (skipn n b) with
             | Some r => Some ((t, sub 2 (n - 2) b) :: r)
             | None => None
             end
      | _ => None
      end
    end
  end.

Record packet := { p_code : N; p_id : N; p_auth : bytes; p_attrs : list attr }.

Definition declared_len (b : bytes) : nat := N.to_nat (be16_at b 2).

(* radius.Parse *)
Definition parse (b : bytes) : option packet :=
  if (length b <? 20)%nat then None else
  let len := declared_len b in
  if (len <? 20)%nat || (4096 <? len)%nat || (length b <? len)%nat then None else
  match parse_attrs (S len) (sub 20 (len - 20) b) with
  | None => None
  | Some attrs => Some {| p_code := nth 0 b 0; p_id := nth 1 b 0; p_auth := sub 4 16 b; p_attrs := attrs |}
  end.

Definition enc_attr (a : attr) : bytes := fst a :: N.of_nat (length (snd a) + 2) :: snd a.
Definition enc_attrs (l : list attr) : bytes := flat_map enc_attr l.

(* transport.go findAttr80: walks the WHOLE buffer from offset 20 (not only the declared length);
   returns the offset of the 16 value bytes of the first attribute 80 of length 18 *)
Fixpoint fa80 (fuel off : nat) (l : bytes) : option nat :=
  match fuel with
  | O => None
  | S f =>
    match l with
    | t :: len :: _ =>
      let n := N.to_nat len in
      if (n <? 2)%nat || (length l <? n)%nat then None
      else if (t =? 80) && (n =? 18)%nat then Some (off + 2)%nat
      else fa80 f (off + n)%nat (skipn n l)
    | _ => None
    end
  end.
Definition find_attr80 (raw : bytes) : option nat :=
  if (length raw <? 20)%nat then None else fa80 (length raw) 20 (skipn 20 raw).

Definition truncate (raw : bytes) : bytes := firstn (declared_len raw) raw.

(* A datagram (cut to its declared length) whose Message-Authenticator is IRREGULAR: an attribute 80 whose
   length is not 18, or more than one attribute 80 (RFC 3579 section 3.2 forbids both).  The property only says
   when a message may take effect ("only if ..."), so an implementation is free to refuse such a message even
   when everything it does check verifies.  The model leaves exactly this choice open: the generalised steps
   below take the implementation's answer [rej] for such a message (true = it refused), and every theorem that
   speaks about acceptance is proved for both answers. *)
Definition ma_irregular (d : bytes) : bool :=
  match parse d with
  | Some p =>
    let l := filter (fun a => fst a =? 80) (p_attrs p) in
    existsb (fun a => negb (length (snd a) =? 16)%nat) l || (2 <=? length l)%nat
  | None => false
  end.

Section Crypto.
Variable md5raw : bytes -> bytes.

(* the code always copies exactly 16 digest bytes; forcing the length here keeps the model total
   for an arbitrary hash argument and is the identity for MD5 *)
Definition md5 (x : bytes) : bytes := firstn 16 (md5raw x ++ zeros16).

Definition hmac (key msg : bytes) : bytes :=
  let k0 := if (64 <? length key)%nat then md5 key else key in
  let k := k0 ++ zeros (64 - length k0) in
  md5 (map (N.lxor 92) k ++ md5 (map (N.lxor 54) k ++ msg)).

(* ---------------- verification predicates (on a datagram already cut to its declared length) *)
(* RFC 2865 Response Authenticator = MD5(Code+ID+Length+RequestAuth+Attributes+Secret) *)
Definition resp_auth_ok (secret reqauth d : bytes) : bool :=
  beq (md5 (firstn 4 d ++ reqauth ++ skipn 20 d ++ secret)) (sub 4 16 d).
(* RFC 3579/5176 Message-Authenticator of a reply: HMAC over the packet with the REQUEST authenticator
   in the authenticator field and the attribute value zeroed *)
Definition ma_resp_ok (secret reqauth d : bytes) : bool :=
  match find_attr80 d with
  | None => true
  | Some off => beq (hmac secret (set_at 4 (set_at off d zeros16) reqauth)) (sub off 16 d)
  end.
(* RFC 2866/5176 Request Authenticator = MD5(Code+ID+Length+16 zero octets+Attributes+Secret) *)
Definition req_auth_ok (secret d : bytes) : bool :=
  beq (md5 (firstn 4 d ++ zeros16 ++ skipn 20 d ++ secret)) (sub 4 16 d).
(* RFC 5176: request MA over the packet with a zero authenticator field *)
Definition ma_req_ok_rfc (secret d : bytes) : bool :=
  match find_attr80 d with
  | None => true
  | Some off => beq (hmac secret (set_at 4 (set_at off d zeros16) zeros16)) (sub off 16 d)
  end.
(* coa.go validateMessageAuthenticator as it stands: HMAC over the datagram as received, MA zeroed *)
Definition ma_ok_asis (secret raw : bytes) : bool :=
  match find_attr80 raw with
  | None => true
  | Some off => beq (hmac secret (set_at off raw zeros16)) (sub off 16 raw)
  end.

(* ------------------------------------------------------------------ client side: exchange + readLoop *)
(* packet.Encode() followed by the Message-Authenticator fill-in of radiusConn.exchange *)
Definition build_request (secret : bytes) (code id : N) (auth : bytes) (attrs : list attr) : option bytes :=
  let body := enc_attrs attrs in
  let hdr := [code; id] ++ put16 (N.of_nat (20 + length body)) in
  let a :=
    if (code =? 1) || (code =? 12) then Some auth
    else if (code =? 4) || (code =? 40) || (code =? 43) then Some (md5 (hdr ++ zeros16 ++ body ++ secret))
    else if (code =? 2) || (code =? 3) || (code =? 5) || (code =? 11) || (code =? 41) || (code =? 42)
            || (code =? 44) || (code =? 45) then Some (md5 (hdr ++ auth ++ body ++ secret))
    else None in
  match a with
  | None => None
  | Some a =>
    let raw := hdr ++ a ++ body in
    match find_attr80 raw with
    | Some off => Some (set_at off raw (hmac secret raw))
    | None => Some raw
    end
  end.

(* pending [256]*pendingRequest: the model stores the request bytes that were sent *)
Definition pending := list (option bytes).
Definition pending0 : pending := repeat None 256.
Fixpoint upd {A} (i : nat) (v : A) (l : list A) : list A :=
  match l, i with
  | [], _ => []
  | _ :: t, O => v :: t
  | x :: t, S j => x :: upd j v t
  end.

Inductive cop :=
| CSend (id : N) (req : bytes)   (* exchange registered pending[id] and wrote the request *)
| CRecv (d : bytes)              (* one datagram read by readLoop *)
| CTimeout (id : N).             (* exchange gave up and cleared pending[id] *)

Definition reply_ok (fl : flags) (secret req d : bytes) : bool :=
  if f_reply fl
  then let d' := truncate d in
       resp_auth_ok secret (sub 4 16 req) d' && ma_resp_ok secret (sub 4 16 req) d'
  else true.

(* one step; the output is Some id when the datagram was handed to the exchange waiting on id *)
Definition cstep (fl : flags) (secret : bytes) (st : pending) (o : cop) : pending * option N :=
  match o with
  | CSend id req => (upd (N.to_nat id) (Some req) st, None)
  | CTimeout id => (upd (N.to_nat id) None st, None)
  | CRecv d =>
    match parse d with
    | None => (st, None)
    | Some p =>
      match nth (N.to_nat (p_id p)) st None with
      | Some req =>
        if reply_ok fl secret req d then (upd (N.to_nat (p_id p)) None st, Some (p_id p)) else (st, None)
      | None => (st, None)
      end
    end
  end.

Fixpoint crun (fl : flags) (secret : bytes) (st : pending) (ops : list cop) : pending * list (option N) :=
  match ops with
  | [] => (st, [])
  | o :: r => let '(st1, out) := cstep fl secret st o in
              let '(st2, outs) := crun fl secret st1 r in (st2, out :: outs)
  end.

(* the client read loop with the admissible choice: a datagram with an irregular Message-Authenticator may be
   ignored although it verifies ([rej] = the implementation ignored it) *)
Definition cstep_g (fl : flags) (rej : bool) (secret : bytes) (st : pending) (o : cop) : pending * option N :=
  match o with
  | CRecv d => if rej && ma_irregular (truncate d) then (st, None) else cstep fl secret st o
  | _ => cstep fl secret st o
  end.
Fixpoint crun_g (fl : flags) (secret : bytes) (st : pending) (ops : list (cop * bool)) : pending * list (option N) :=
  match ops with
  | [] => (st, [])
  | (o, rej) :: r => let '(st1, out) := cstep_g fl rej secret st o in
                     let '(st2, outs) := crun_g fl secret st1 r in (st2, out :: outs)
  end.

(* Provider.Authenticate on top of one exchange (Retries = 1, one server): the request is registered, the
   datagrams arrive in order, the first one handed over decides.  [extract] is extractAttributes. *)
Inductive auth_result :=
| AAllowed (attrs : list (bytes * bytes))    (* Access-Accept: Allowed with the extracted attributes *)
| ADenied                                    (* Access-Reject *)
| AError.                                    (* no reply handed over (timeout) or unexpected code *)

Fixpoint first_delivered (fl : flags) (secret : bytes) (st : pending) (dgs : list bytes) : option bytes :=
  match dgs with
  | [] => None
  | d :: r => match cstep fl secret st (CRecv d) with
              | (_, Some _) => Some d
              | (st', None) => first_delivered fl secret st' r
              end
  end.

Definition auth_outcome (extract : list attr -> list (bytes * bytes)) (d : bytes) : auth_result :=
  match parse d with
  | None => AError
  | Some p => if p_code p =? 2 then AAllowed (extract (p_attrs p))
              else if p_code p =? 3 then ADenied else AError
  end.

Definition authenticate (fl : flags) (secret : bytes) (extract : list attr -> list (bytes * bytes))
           (req : bytes) (dgs : list bytes) : auth_result :=
  let st := fst (cstep fl secret pending0 (CSend (nth 1 req 0) req)) in
  match first_delivered fl secret st dgs with
  | Some d => auth_outcome extract d
  | None => AError
  end.

(* what exchange must have put on the wire, given what Encode produced: the observed request with the
   value of its Message-Authenticator recomputed (random authenticator, identifier and timestamp are
   taken from the observation) *)
Definition refill_ma (secret req : bytes) : bytes :=
  match find_attr80 req with
  | Some off => let z := set_at off req zeros16 in set_at off z (hmac secret z)
  | None => req
  end.

(* ------------------------------------------------------------------ CoA / Disconnect listener *)
Record client := { c_addr : N; c_plen : N; c_secret : bytes }.
Record coacfg := { window : Z; nasid : bytes; maps : list (N * N * bytes); clients : list client }.

(* net.IPNet.Contains on IPv4 *)
Definition contains (c : client) (src : N) : bool :=
  let sh := 2 ^ (32 - c_plen c) in (src / sh =? c_addr c / sh).
Fixpoint find_client (i : nat) (l : list client) (src : N) : option (nat * client) :=
  match l with
  | [] => None
  | c :: r => if contains c src then Some (i, c) else find_client (S i) r src
  end.

Definition has_service_type (attrs : list attr) (v : N) : bool :=
  existsb (fun a => (fst a =? 6) && (length (snd a) =? 4)%nat && (be32_of (snd a) =? v)) attrs.
Definition event_ts (attrs : list attr) : N :=
  match find (fun a => (fst a =? 55) && (length (snd a) =? 4)%nat) attrs with
  | Some a => be32_of (snd a)
  | None => 0
  end.
(* true = inside the window (or no check applies) *)
Definition window_ok (w now : Z) (attrs : list attr) : bool :=
  if (0 <? w)%Z then
    let ts := event_ts attrs in
    if 0 <? ts then
      let age := (now - Z.of_N ts)%Z in
      negb ((w <? age)%Z || (age <? - w)%Z)
    else true
  else true.

(* resolveCoATarget: kind 1 Acct-Session-Id, 2 Framed-IP-Address, 3 User-Name, 4 Framed-IPv6-Address *)
Definition first_val (t : N) (ok : bytes -> bool) (attrs : list attr) : option bytes :=
  match find (fun a => (fst a =? t) && ok (snd a)) attrs with Some a => Some (snd a) | None => None end.
Definition nonempty (v : bytes) : bool := negb (length v =? 0)%nat.
Definition resolve_target (attrs : list attr) : option (N * bytes) :=
  match first_val 44 nonempty attrs with Some v => Some (1, v) | None =>
  match first_val 8 (fun v => (length v =? 4)%nat) attrs with Some v => Some (2, v) | None =>
  match first_val 1 nonempty attrs with Some v => Some (3, v) | None =>
  match first_val 168 (fun v => (length v =? 16)%nat) attrs with Some v => Some (4, v) | None => None
  end end end end.

(* with the Event-Timestamp requirement: an enabled window admits only requests that carry a usable
   (4-octet, non-zero) Event-Timestamp inside it *)
Definition window_ok_req (w now : Z) (attrs : list attr) : bool :=
  if (0 <? w)%Z then
    let ts := event_ts attrs in
    (0 <? ts) && let age := (now - Z.of_N ts)%Z in negb ((w <? age)%Z || (age <? - w)%Z)
  else true.
Definition window_check (fl : flags) (w now : Z) (attrs : list attr) : bool :=
  if f_tsreq fl then window_ok_req w now attrs else window_ok w now attrs.

Definition nasid_ok (expected : bytes) (attrs : list attr) : bool :=
  match find (fun a => fst a =? 32) attrs with
  | Some a => (length expected =? 0)%nat || beq (snd a) expected
  | None => true
  end.

Definition ident_types : list N := [1; 8; 44; 168; 32; 4; 5; 31; 61; 87; 55; 80; 33; 101].
Definition has_non_ident (attrs : list attr) : bool :=
  existsb (fun a => negb (existsb (N.eqb (fst a)) ident_types)) attrs.

(* map[string]string as an association list; assignment replaces *)
Definition amap := list (bytes * bytes).
Fixpoint aset (k v : bytes) (m : amap) : amap :=
  match m with
  | [] => [(k, v)]
  | (k', v') :: r => if beq k k' then (k, v) :: r else (k', v') :: aset k v r
  end.
Definition adel (k : bytes) (m : amap) : amap := filter (fun kv => negb (beq k (fst kv))) m.
Definition mem (k : bytes) (l : list bytes) : bool := existsb (beq k) l.

(* decoders of defaults.go; a value that is rendered as an IP address / prefix is represented by the
   placeholder "?" — every internal attribute with such a decoder is on the strip list below, so the
   rendering is never observable in a CoA delta (Proofs.v: delta values never come from [opaque]) *)
Definition opaque : bytes := [63].
Definition dec_str (v : bytes) : option bytes := if nonempty v then Some v else None.
Definition dec_u32 (v : bytes) : option bytes := if (length v =? 4)%nat then Some (dec_bytes (be32_of v)) else None.
Definition dec_ip4 (v : bytes) : option bytes := if (length v =? 4)%nat then Some opaque else None.
Definition dec_ip6 (v : bytes) : option bytes := if (length v =? 16)%nat then Some opaque else None.
Definition dec_pfx (v : bytes) : option bytes := if (length v <? 4)%nat then None else Some opaque.

Definition tier1 (t : N) : option (bytes * (bytes -> option bytes)) :=
  if t =? 8 then Some (k_ipv4_address, dec_ip4)
  else if t =? 9 then Some (k_ipv4_netmask, dec_ip4)
  else if t =? 22 then Some (k_routed_prefix, dec_str)
  else if t =? 27 then Some (k_session_timeout, dec_u32)
  else if t =? 28 then Some (k_idle_timeout, dec_u32)
  else if t =? 85 then Some (k_acct_interim_interval, dec_u32)
  else if t =? 88 then Some (k_pool, dec_str)
  else if t =? 97 then Some (k_ipv6_wan_prefix, dec_pfx)
  else if t =? 100 then Some (k_iana_pool, dec_str)
  else if t =? 123 then Some (k_ipv6_prefix, dec_pfx)
  else if t =? 168 then Some (k_ipv6_address, dec_ip6)
  else if t =? 171 then Some (k_pd_pool, dec_str)
  else None.
Definition tier2 (vid vt : N) : option (bytes * (bytes -> option bytes)) :=
  if (vid =? 32473) && (vt =? 1) then Some (k_l2gw_handoff_group, dec_str)
  else if (vid =? 32473) && (vt =? 2) then Some (k_l2gw_svlan, dec_str)
  else if (vid =? 32473) && (vt =? 3) then Some (k_l2gw_cvlan, dec_str)
  else if (vid =? 311) && (vt =? 28) then Some (k_dns_primary, dec_ip4)
  else if (vid =? 311) && (vt =? 29) then Some (k_dns_secondary, dec_ip4)
  else None.

Definition apply_dec (m : amap) (e : option (bytes * (bytes -> option bytes))) (v : bytes) : amap :=
  match e with
  | Some (name, dec) => match dec v with Some s => aset name s m | None => m end
  | None => m
  end.
Definition apply_tier3 (cms : list (N * N * bytes)) (vid vt : N) (data : bytes) (m : amap) : amap :=
  fold_left (fun m cm => let '(v, t, name) := cm in if (v =? vid) && (t =? vt) then aset name data m else m) cms m.

(* extractVSA: sub-attribute walk inside one attribute 26 *)
Fixpoint vsa_walk (fuel : nat) (cms : list (N * N * bytes)) (vid : N) (l : bytes) (m : amap) : amap :=
  match fuel with
  | O => m
  | S f =>
    match l with
    | vt :: len :: _ =>
      let n := N.to_nat len in
      if (n <? 2)%nat || (length l <? n)%nat then m
      else let data := sub 2 (n - 2) l in
           vsa_walk f cms vid (skipn n l) (apply_tier3 cms vid vt data (apply_dec m (tier2 vid vt) data))
    | _ => m
    end
  end.
Definition extract_vsa (cms : list (N * N * bytes)) (raw : bytes) (m : amap) : amap :=
  if (length raw <? 7)%nat then m
  else vsa_walk (length raw) cms (be32_of (firstn 4 raw)) (skipn 4 raw) m.
Definition extract_attributes (cms : list (N * N * bytes)) (attrs : list attr) : amap :=
  fold_left (fun m a =>
               let m1 := apply_dec m (tier1 (fst a)) (snd a) in
               if fst a =? 26 then extract_vsa cms (snd a) m1 else m1) attrs [].

Definition strip_list : list bytes :=
  [k_ipv4_address; k_ipv4_netmask; k_ipv6_address; k_ipv6_prefix; k_ipv6_wan_prefix; k_pool; k_iana_pool; k_pd_pool; k_vrf; k_unnumbered; k_urpf; k_routed_prefix; k_username; k_password; k_dns_primary; k_dns_secondary].
Definition strip_non_mutable (m : amap) : amap := filter (fun kv => negb (mem (fst kv) strip_list)) m.
(* internal/subscriber/mutation.go allowedMutationAttrs *)
Definition allowed_list : list bytes :=
  [k_session_timeout; k_idle_timeout; k_acct_interim_interval; k_acl_ingress; k_acl_egress; k_qos_ingress_policy; k_qos_egress_policy; k_qos_upload_rate; k_qos_download_rate; k_rate_limit_up; k_rate_limit_down].
Definition all_allowed (m : amap) : bool := forallb (fun kv => mem (fst kv) allowed_list) m.

(* sendResponse *)
Definition reply_attrs (req : packet) (cause : N) (has_ma : bool) : list attr :=
  filter (fun a => fst a =? 33) (p_attrs req)
  ++ (if 0 <? cause then [(101, put32 cause)] else [])
  ++ (if has_ma then [(80, zeros16)] else []).
Definition build_coa_reply (fl : flags) (secret reqraw : bytes) (req : packet) (code cause : N) : bytes :=
  let has_ma := match find_attr80 reqraw with Some _ => true | None => false end in
  let body := enc_attrs (reply_attrs req cause has_ma) in
  let hdr := [code; p_id req] ++ put16 (N.of_nat (20 + length body)) in
  let reqauth := sub 4 16 reqraw in
  let e1 := hdr ++ reqauth ++ body in
  if f_coaauth fl then
    (* Message-Authenticator first (request authenticator in place), Response Authenticator last *)
    let e2 := if has_ma then
                match find_attr80 e1 with
                | Some off => let z := set_at off e1 zeros16 in set_at off z (hmac secret z)
                | None => e1
                end
              else e1 in
    set_at 4 e2 (md5 (e2 ++ secret))
  else
    (* before db29b2a: Response Authenticator over the zero placeholder, then MA over the finished header *)
    let e2 := set_at 4 e1 (md5 (e1 ++ secret)) in
    if has_ma then
      match find_attr80 e2 with
      | Some off => let z := set_at off e2 zeros16 in set_at off z (hmac secret z)
      | None => e2
      end
    else e2.

(* The ORDER of the attributes of a reply is not constrained by the property (only that the reply verifies).  The
   signing algorithm of sendResponse for an arbitrary attribute list: Message-Authenticator (wherever the placeholder
   stands) first, Response Authenticator last. *)
Definition sign_reply (secret reqauth : bytes) (code id : N) (attrs : list attr) : bytes :=
  let body := enc_attrs attrs in
  let hdr := [code; id] ++ put16 (N.of_nat (20 + length body)) in
  let e1 := hdr ++ reqauth ++ body in
  let e2 := match find_attr80 e1 with
            | Some off => let z := set_at off e1 zeros16 in set_at off z (hmac secret z)
            | None => e1
            end in
  set_at 4 e2 (md5 (e2 ++ secret)).

(* admissible replies: the implementation's reply [r] may replace the model's [m] when it has the same code and
   identifier, a consistent length, the same attributes up to ORDER (Message-Authenticator values apart), a regular
   Message-Authenticator, and both authenticators verify against the request authenticator *)
Definition attr_eqb (a b : attr) : bool := (fst a =? fst b) && beq (snd a) (snd b).
Fixpoint remove_first (a : attr) (l : list attr) : option (list attr) :=
  match l with
  | [] => None
  | b :: t => if attr_eqb a b then Some t
              else match remove_first a t with Some t' => Some (b :: t') | None => None end
  end.
Fixpoint perm_eqb (l1 l2 : list attr) : bool :=
  match l1 with
  | [] => match l2 with [] => true | _ => false end
  | a :: t => match remove_first a l2 with Some l2' => perm_eqb t l2' | None => false end
  end.
Definition zero_ma (l : list attr) : list attr :=
  map (fun a => if (fst a =? 80) && (length (snd a) =? 16)%nat then (80, zeros16) else a) l.
Definition reply_equiv (secret reqauth m r : bytes) : bool :=
  match parse m, parse r with
  | Some pm, Some pr =>
    (p_code pm =? p_code pr) && (p_id pm =? p_id pr) && (length r =? declared_len r)%nat &&
    perm_eqb (zero_ma (p_attrs pm)) (zero_ma (p_attrs pr)) && negb (ma_irregular r) &&
    resp_auth_ok secret reqauth r && ma_resp_ok secret reqauth r
  | _, _ => false
  end.

Inductive cevent :=
| EvMutation (target : N * bytes) (delta : amap)
| EvTerminate (target : N * bytes).

(* statistics counters, in the order the harness prints them *)
Inductive cstat := SCoAReq | SCoAAck | SCoANak | SDMReq | SDMAck | SDMNak | SInvalid | SNotFound.

Inductive coa_out :=
| ODropUnknown                                             (* no configured client: stats.UnknownClient *)
| ODropInvalid (cl : nat) (st : list cstat)                (* dropped, InvalidAuth counted *)
| OSilent (cl : nat)                                       (* authenticated but neither CoA nor Disconnect *)
| OReply (cl : nat) (st : list cstat) (reply : bytes) (ev : option cevent).

Definition nak (fl : flags) (cl : nat) (secret raw : bytes) (p : packet) (code cause : N) (st : list cstat) : coa_out :=
  OReply cl st (build_coa_reply fl secret raw p code cause) None.

(* bus: outcome of the subscriber component for a mutation: 0 ok, 1 session not found (503),
   2 failure with cause 0, 3 failure with cause 401 *)
Definition handle_coa (fl : flags) (cfg : coacfg) (now : Z) (bus : N) (cl : nat) (secret raw : bytes) (p : packet) : coa_out :=
  let attrs := p_attrs p in
  if has_service_type attrs 8 then nak fl cl secret raw p 45 507 [SCoAReq; SCoANak] else
  if negb (window_check fl (window cfg) now attrs) then ODropInvalid cl [SCoAReq; SInvalid] else
  match resolve_target attrs with
  | None => nak fl cl secret raw p 45 402 [SCoAReq; SCoANak]
  | Some target =>
    if negb (nasid_ok (nasid cfg) attrs) then nak fl cl secret raw p 45 403 [SCoAReq; SCoANak] else
    let delta := strip_non_mutable (extract_attributes (maps cfg) attrs) in
    match delta with
    | [] => nak fl cl secret raw p 45 402 [SCoAReq; SCoANak]
    | _ =>
      if f_white fl && negb (all_allowed delta) then nak fl cl secret raw p 45 401 [SCoAReq; SCoANak] else
      let ev := Some (EvMutation target delta) in
      if bus =? 0 then OReply cl [SCoAReq; SCoAAck] (build_coa_reply fl secret raw p 44 0) ev
      else if bus =? 1 then OReply cl [SCoAReq; SCoANak; SNotFound] (build_coa_reply fl secret raw p 45 503) ev
      else if bus =? 2 then OReply cl [SCoAReq; SCoANak] (build_coa_reply fl secret raw p 45 506) ev
      else OReply cl [SCoAReq; SCoANak] (build_coa_reply fl secret raw p 45 401) ev
    end
  end.

Definition handle_dm (fl : flags) (cfg : coacfg) (now : Z) (cl : nat) (secret raw : bytes) (p : packet) : coa_out :=
  let attrs := p_attrs p in
  if has_non_ident attrs then nak fl cl secret raw p 42 404 [SDMReq; SDMNak] else
  if f_dmwin fl && negb (window_check fl (window cfg) now attrs) then ODropInvalid cl [SDMReq; SInvalid] else
  match resolve_target attrs with
  | None => nak fl cl secret raw p 42 402 [SDMReq; SDMNak]
  | Some target =>
    if negb (nasid_ok (nasid cfg) attrs) then nak fl cl secret raw p 42 403 [SDMReq; SDMNak] else
    OReply cl [SDMReq; SDMAck] (build_coa_reply fl secret raw p 41 201) (Some (EvTerminate target))
  end.

(* CoAComponent.readLoop + worker for one datagram *)
Definition coa_step (fl : flags) (cfg : coacfg) (now : Z) (src bus : N) (raw : bytes) : coa_out :=
  match find_client 0 (clients cfg) src with
  | None => ODropUnknown
  | Some (cl, c) =>
    let secret := c_secret c in
    match parse raw with
    | None => ODropInvalid cl [SInvalid]
    | Some p =>
      let raw' := if f_coaauth fl then truncate raw else raw in
      let authentic :=
        if f_coaauth fl then req_auth_ok secret raw' && ma_req_ok_rfc secret raw'
        else ma_ok_asis secret raw in
      if negb authentic then ODropInvalid cl [SInvalid] else
      if p_code p =? 43 then handle_coa fl cfg now bus cl secret raw' p
      else if p_code p =? 40 then handle_dm fl cfg now cl secret raw' p
      else OSilent cl
    end
  end.

(* sendAuthWithFailover / sendAcctWithFailover with Retries = 1: the servers are tried in order, each over its
   OWN radiusConn with its OWN secret; a server that hands nothing over (silent, or only non-verifying
   datagrams) is followed by the next.  Per server: its secret, the request as written to its socket, and
   the datagrams arriving on that socket. *)
Definition server_try := (bytes * bytes * list bytes)%type.
Definition try_server (fl : flags) (s : server_try) : option bytes :=
  let '(secret, req, dgs) := s in
  first_delivered fl secret (fst (cstep fl secret pending0 (CSend (nth 1 req 0) req))) dgs.
Fixpoint failover (fl : flags) (servers : list server_try) : option bytes :=
  match servers with
  | [] => None
  | s :: r => match try_server fl s with Some d => Some d | None => failover fl r end
  end.
Definition authenticate_failover (fl : flags) (extract : list attr -> list (bytes * bytes))
           (servers : list server_try) : auth_result :=
  match failover fl servers with Some d => auth_outcome extract d | None => AError end.
(* sendAccounting: nil error iff an Accounting-Response (code 5) was handed over *)
Definition accounting_failover (fl : flags) (servers : list server_try) : bool :=
  match failover fl servers with
  | Some d => match parse d with Some p => p_code p =? 5 | None => false end
  | None => false
  end.

(* the bytes exchange must put on the wire for server [secret], given the observed request (whose random
   authenticator / identifier / timestamp / hidden password are taken as they are): an Accounting-Request is
   re-signed (Encode), a Message-Authenticator is recomputed — both under THIS connection's secret *)
Definition expected_wire (secret req : bytes) : bytes :=
  let r := if nth 0 req 0 =? 4
           then set_at 4 req (md5 (firstn 4 req ++ zeros16 ++ skipn 20 req ++ secret)) else req in
  refill_ma secret r.

(* ---- the listener over a HISTORY of datagrams: duplicate detection (handleRequest + replayCache).
   A request that reached a worker (authenticated by readLoop) is identified by the client's secret and its
   first 20 octets (code, identifier, length, Request Authenticator).  With [f_dedup] a request whose key is
   already known gets the reply sent the first time and is not executed; a request that produced a reply is
   remembered.  Expiry of cache entries (2*window, capacity 4096) is not modelled. *)
Definition cache := list (bytes * bytes * bytes).          (* secret, first 20 octets, reply sent *)
Fixpoint cache_find (sec k : bytes) (c : cache) : option bytes :=
  match c with
  | [] => None
  | (s', k', r) :: t => if beq sec s' && beq k k' then Some r else cache_find sec k t
  end.
Definition dedup_key (cfg : coacfg) (src : N) (raw : bytes) : option (bytes * bytes) :=
  match find_client 0 (clients cfg) src with
  | Some (_, c) => Some (c_secret c, firstn 20 raw)
  | None => None
  end.
Definition reached_worker (o : coa_out) : bool :=
  match o with
  | ODropUnknown => false
  | ODropInvalid _ [SInvalid] => false          (* dropped by readLoop *)
  | _ => true
  end.
(* the listener's admission with the admissible choice: an authenticated request with an irregular
   Message-Authenticator may be dropped as invalid ([rej] = the implementation dropped it) *)
Definition coa_step_g (fl : flags) (rej : bool) (orep : option bytes) (cfg : coacfg) (now : Z) (src bus : N) (raw : bytes)
  : coa_out :=
  let out := coa_step fl cfg now src bus raw in
  if rej && ma_irregular (truncate raw) && reached_worker out then
    match out with
    | OReply cl _ _ _ | ODropInvalid cl _ | OSilent cl => ODropInvalid cl [SInvalid]
    | ODropUnknown => out
    end
  else
    (* second admissible choice: the wire ORDER of the reply's attributes ([orep] = the reply the implementation sent) *)
    match out, orep, find_client 0 (clients cfg) src with
    | OReply cl st m ev, Some r, Some (_, c) =>
      if reply_equiv (c_secret c) (sub 4 16 raw) m r then OReply cl st r ev else out
    | _, _, _ => out
    end.

Definition coa_step_st (fl : flags) (rej : bool) (orep : option bytes) (cfg : coacfg) (now : Z) (src bus : N) (raw : bytes) (seen : cache)
  : coa_out * cache :=
  let out := coa_step_g fl rej orep cfg now src bus raw in
  if f_dedup fl && reached_worker out then
    match dedup_key cfg src raw with
    | Some (sec, k) =>
      match cache_find sec k seen with
      | Some cached =>
        (match out with
         | OReply cl _ _ _ | ODropInvalid cl _ | OSilent cl => OReply cl [] cached None
         | ODropUnknown => out
         end, seen)
      | None =>
        match out with
        | OReply _ _ reply _ => (out, (sec, k, reply) :: seen)
        | _ => (out, seen)
        end
      end
    | None => (out, seen)
    end
  else (out, seen).

(* ---- the duplicate cache with its LIFETIME and CAPACITY (replayCache.begin / finish / replayCacheTTL, coa.go).
   Times are wall-clock milliseconds ([tnow]); the window test keeps using whole seconds ([now]).  [entries] is the
   map key -> (reply once finished, expiry), [order] the insertion-ordered key slice including stale keys of entries
   that were forgotten. *)
Definition ckey := (bytes * bytes)%type.
Definition ckey_eqb (a b : ckey) : bool := beq (fst a) (fst b) && beq (snd a) (snd b).
Record rcache := { rc_entries : list (ckey * (option bytes * Z)); rc_order : list ckey }.
Definition rcache0 : rcache := {| rc_entries := []; rc_order := [] |}.
Fixpoint ent_find (k : ckey) (l : list (ckey * (option bytes * Z))) : option (option bytes * Z) :=
  match l with
  | [] => None
  | (k', v) :: t => if ckey_eqb k k' then Some v else ent_find k t
  end.
Definition ent_del (k : ckey) (l : list (ckey * (option bytes * Z))) := filter (fun e => negb (ckey_eqb k (fst e))) l.
Definition ent_set (k : ckey) (v : option bytes * Z) (l : list (ckey * (option bytes * Z))) := (k, v) :: ent_del k l.
(* the pruning loop at the top of begin: pops the head of [order] while it is stale, expired, or the slice is over capacity *)
Fixpoint prune (fuel max : nat) (tnow : Z) (c : rcache) : rcache :=
  match fuel with
  | O => c
  | S f =>
    match rc_order c with
    | [] => c
    | k :: rest =>
      match ent_find k (rc_entries c) with
      | Some (_, exp) =>
        if (length (rc_order c) <=? max)%nat && (tnow <? exp)%Z then c
        else prune f max tnow {| rc_entries := ent_del k (rc_entries c); rc_order := rest |}
      | None => prune f max tnow {| rc_entries := rc_entries c; rc_order := rest |}
      end
    end
  end.
(* begin: Some r = duplicate (r = reply of the first copy, None while it is still being handled); None = registered *)
Definition cache_begin (max : nat) (ttl tnow : Z) (k : ckey) (c : rcache) : option (option bytes) * rcache :=
  let c1 := prune (length (rc_order c)) max tnow c in
  match ent_find k (rc_entries c1) with
  | Some (r, _) => (Some r, c1)
  | None => (None, {| rc_entries := ent_set k (None, (tnow + ttl)%Z) (rc_entries c1); rc_order := rc_order c1 ++ [k] |})
  end.
Definition cache_finish (k : ckey) (reply : option bytes) (c : rcache) : rcache :=
  match ent_find k (rc_entries c) with
  | None => c
  | Some (_, exp) =>
    match reply with
    | None => {| rc_entries := ent_del k (rc_entries c); rc_order := rc_order c |}
    | Some r => {| rc_entries := ent_set k (Some r, exp) (rc_entries c); rc_order := rc_order c |}
    end
  end.
Definition cache_ttl (fl : flags) (w : Z) : Z :=
  if (0 <? w)%Z then (2 * w * 1000 + (if f_ttl fl then 1000 else 0))%Z else 600000%Z.
Definition cache_max : nat := 4096.

(* handleRequest with the timed cache ([max] is a parameter so that small capacities can be computed with) *)
Definition coa_step_t (max : nat) (fl : flags) (rej : bool) (orep : option bytes) (cfg : coacfg) (now tnow : Z)
           (src bus : N) (raw : bytes) (c : rcache) : coa_out * rcache :=
  let out := coa_step_g fl rej orep cfg now src bus raw in
  if f_dedup fl && reached_worker out then
    match dedup_key cfg src raw with
    | Some k =>
      match cache_begin max (cache_ttl fl (window cfg)) tnow k c with
      | (Some (Some cached), c1) =>
        (match out with
         | OReply cl _ _ _ | ODropInvalid cl _ | OSilent cl => OReply cl [] cached None
         | ODropUnknown => out
         end, c1)
      | (Some None, c1) =>
        (match out with
         | OReply cl _ _ _ | ODropInvalid cl _ | OSilent cl => OSilent cl      (* first copy still in flight: dropped *)
         | ODropUnknown => out
         end, c1)
      | (None, c1) =>
        match out with
        | OReply _ _ reply _ => (out, cache_finish k (Some reply) c1)
        | _ => (out, cache_finish k None c1)
        end
      end
    | None => (out, c)
    end
  else (out, c).

Definition coa_input := (Z * N * N * bytes * bool * option bytes)%type.   (* now, source, bus outcome, datagram, rej, orep (see coa_step_g) *)
Fixpoint coa_run (fl : flags) (cfg : coacfg) (seen : cache) (ins : list coa_input) : list coa_out :=
  match ins with
  | [] => []
  | (now, src, bus, raw, rej, orep) :: r =>
    let '(o, seen') := coa_step_st fl rej orep cfg now src bus raw seen in o :: coa_run fl cfg seen' r
  end.

(* Authenticate / fail-over with the admissible choice of cstep_g: [rej d] = the implementation ignores the verifying
   datagram d because its Message-Authenticator is irregular (the choice exists only for such datagrams) *)
Fixpoint first_delivered_g (fl : flags) (rej : bytes -> bool) (secret : bytes) (st : pending) (dgs : list bytes) : option bytes :=
  match dgs with
  | [] => None
  | d :: r => match cstep_g fl (rej d) secret st (CRecv d) with
              | (_, Some _) => Some d
              | (st', None) => first_delivered_g fl rej secret st' r
              end
  end.
Definition try_server_g (fl : flags) (rej : bytes -> bool) (s : server_try) : option bytes :=
  let '(secret, req, dgs) := s in
  first_delivered_g fl rej secret (fst (cstep fl secret pending0 (CSend (nth 1 req 0) req))) dgs.
Fixpoint failover_g (fl : flags) (rej : bytes -> bool) (servers : list server_try) : option bytes :=
  match servers with
  | [] => None
  | s :: r => match try_server_g fl rej s with Some d => Some d | None => failover_g fl rej r end
  end.
Definition authenticate_failover_g (fl : flags) (rej : bytes -> bool) (extract : list attr -> list (bytes * bytes))
           (servers : list server_try) : auth_result :=
  match failover_g fl rej servers with Some d => auth_outcome extract d | None => AError end.
Definition accounting_failover_g (fl : flags) (rej : bytes -> bool) (servers : list server_try) : bool :=
  match failover_g fl rej servers with
  | Some d => match parse d with Some p => p_code p =? 5 | None => false end
  | None => false
  end.

(* Authenticate with the provider's extractAttributes (no custom response mappings) *)
Definition authenticate_radius (fl : flags) (secret req : bytes) (dgs : list bytes) : auth_result :=
  authenticate fl secret (extract_attributes []) req dgs.

Definition authenticate_failover_radius (fl : flags) (servers : list server_try) : auth_result :=
  authenticate_failover fl (extract_attributes []) servers.

Definition authenticate_failover_g_radius (fl : flags) (rej : bytes -> bool) (servers : list server_try) : auth_result :=
  authenticate_failover_g fl rej (extract_attributes []) servers.

End Crypto.
