From Coq Require Import Extraction ExtrOcamlBasic.
From OV Require Import Common.Base C08.Model.
Extraction Language OCaml.
Extraction "C08_model.ml" repaired head defective coa_step_t rcache0 cache_max coa_step_st cstep_g ma_irregular reached_worker authenticate_radius try_server try_server_g authenticate_failover_g_radius accounting_failover_g authenticate_failover_radius accounting_failover expected_wire refill_ma tier1 tier2 ident_types build_request pending0 cstep crun coa_step parse parse_attrs truncate
  resp_auth_ok ma_resp_ok req_auth_ok ma_req_ok_rfc ma_ok_asis find_attr80 md5 hmac extract_attributes sub.
