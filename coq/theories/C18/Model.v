(* C18/Model.v — executable model of the in-place upgrade flow of pkg/upgrade
     runner.go     ApplyOne (14 stages), Rollback, swapArtifacts, restoreFromSnapshot,
                   rollbackAfterFailedApply, checkPartialApply, verifyPrevManifest (outcome only)
     swap.go       SwapArtifact (write temp, chmod, rename)
     snapshot.go   Snapshot / snapshotOne / LoadSnapshotMetadata / PruneSnapshots
     journal.go    Write / SetPhase (phase, from, to)
     stage.go      safeTarEntryPath (lexical filepath.Clean on '/'-separated names)
   Definitions only; proofs are in Proofs.v.

   External behaviour enters as explicit arguments: which external command fails, where the
   process dies, health outcomes, filesystem obstacles that make one SwapArtifact fail, and
   the admission facts about a tarball (signature valid, digests match, members safe, ...).
   [repaired] started from [init_world] = what /repo HEAD does: all six repairs are committed (88f69f7, f4d379f,
   b6afef3, ca3a3f9, 31f4cb6, 97a5489) and it is the only variant the correspondence check compares with.
   [init_world_pre_97a5489] (cfg_stage_fix = false) is historical.  [pre_31f4cb6], [pre_b6afef3], [pre_88f69f7]
   are historical (`_refuted` witnesses in Properties.v only); a regression to any of them is a VIOLATION. *)
From OV Require Import Common.Base.

Definition path := N.
Definition ver := N.
Definition content := N.

(* what can sit at an artifact path; modes are the 12 unix permission bits *)
Inductive file := Reg (c : content) (m : N) | Sym (t : N) | Dir.

(* mode field of a manifest artifact: absent, a valid octal string, an invalid one;
   MFull is used by the restore path only (mode recorded in the snapshot) *)
Inductive amode := MEmpty | MOk (m : N) | MBad | MFull (m : N).

Record artifact := { a_path : path; a_content : content; a_mode : amode; a_vpp : bool }.

Inductive prevspec := PrevNone | Prev (pv : ver) (wellformed : bool).

Record tarball := {
  t_to : ver;
  t_prev : prevspec;
  t_sig_ok : bool;        (* detached signature verifies under the trusted key *)
  t_members_ok : bool;    (* extraction succeeded: every member is a regular file / directory with a safe name, the
                             manifest parses, and the extractor did not object to anything else it may object to
                             (a repeated member name: either verdict is admissible, the driver takes /repo's) *)
  t_digest_ok : bool;     (* every artifact's member exists and hashes to the manifest digest *)
  t_hook_ok : bool;       (* no pre hook, or (not generated) one that runs and exits 0 *)
  t_arts : list artifact }.

Record opts := { o_expect : option ver; o_force : bool }.

(* labels of fault / crash points; A-flow commands 1..8, R-flow commands 11..18,
   Reporter.Stage n of 14 = 20+n, Stage n of 5 = 40+n, warnings 51..53,
   35 = between WriteCurrentManifest and the "completed" phase write; fail label 36 = saveCurrentManifest
   (after Snapshot) returns an error — the same disk state a death between the two would leave *)
Record faults := {
  f_fail : list N;
  f_crash : option N;
  f_ha : bool;                    (* health after the upgraded daemon starts *)
  f_hr : bool;                    (* health after the rolled-back daemon starts *)
  f_ob : list (path * bool);      (* obstacles appearing when the swap stage begins (true = persistent) *)
  f_rob : list (path * bool);     (* obstacles appearing when the restore stage begins *)
  f_st : list (path * N);         (* stale regular staging files (with their mode) appearing when the swap stage begins *)
  f_rst : list (path * N) }.      (* ... when the restore stage begins *)

(* v_mode_fix (88f69f7): rollback restores setuid/setgid/sticky; v_curm_fix (f4d379f): rollback restores
   current-manifest.yaml; v_keep_fix (b6afef3): a ForceRetry apply over an interrupted upgrade keeps that upgrade's
   snapshot; v_stale_fix (ca3a3f9): Rollback refuses a journal whose snapshot never completed;
   v_same_fix (31f4cb6): such a ForceRetry must install EVERY path
   the kept snapshot covers, otherwise paths already replaced by the interrupted upgrade keep its bytes *)
Record variant := { v_mode_fix : bool; v_curm_fix : bool; v_keep_fix : bool; v_stale_fix : bool; v_same_fix : bool }.

(* "no current-manifest.yaml": version discovery then asks the installed binary, which the harness
   answers with the version string of this id *)
Definition NOVER : ver := 63%N.

Inductive phase :=
| PStarted | PRetryStarted | PSnapshotDone | PPreHookDone | PRestartSuspended | PDaemonStopped
| PSwapping (p : path) | PSwapped (p : path) | PAbortedMidSwap | PAbortedPostSwap
| PDaemonStarted | PHealthFailed | PCompleted | PRollbackFailed | PRolledBack.

Record journal := { j_from : ver; j_to : ver; j_phase : phase }.

Inductive ekind := EAbsent | ESym (t : N) | EReg (m : N).
Record entry := { e_path : path; e_kind : ekind }.

Record snapdir := {
  s_meta : option (bool * list entry);     (* metadata.yaml: needs_vpp, entries *)
  s_bak : path -> option content;          (* backup copies *)
  s_curm : option ver }.                   (* saved current-manifest.yaml (since f4d379f) *)

Definition ghost := (bool * list (path * option file) * ver)%type.

Record world := {
  fs : path -> option file;
  cur : ver;                               (* version in current-manifest.yaml *)
  jr : option journal;
  snaps : ver -> option snapdir;
  obst : path -> option bool;              (* directory sitting at <dir>/.<base>.new; true = not empty *)
  (* ghost state (not used by any decision of the flow): pre-upgrade state of the artifact
     paths of the upgrade the journal belongs to, whether its snapshot completed, and the
     version current-manifest named at that time *)
  g_base : option ghost;
  g_inst : ver;                            (* ghost: version the installed artifacts belong to *)
  g_fs0 : path -> option file;             (* ghost: the whole tree when the journal's upgrade began *)
  g_clean : bool;                          (* ghost: no operator edit since then *)
  stale : path -> option N;                (* a REGULAR file sitting at <dir>/.<base>.new (left by a swap that was killed
                                              between writing it and the rename): its mode *)
  cfg_stage_fix : bool }.                  (* swapArtifact removes such a leftover before writing (true = /repo HEAD,
                                              since 97a5489; false only in the historical witness) *)

Definition set_fs w f := {| fs := f; cur := cur w; jr := jr w; snaps := snaps w; obst := obst w; g_base := g_base w; g_inst := g_inst w; g_fs0 := g_fs0 w; g_clean := g_clean w; stale := stale w; cfg_stage_fix := cfg_stage_fix w |}.
Definition set_cur w c := {| fs := fs w; cur := c; jr := jr w; snaps := snaps w; obst := obst w; g_base := g_base w; g_inst := g_inst w; g_fs0 := g_fs0 w; g_clean := g_clean w; stale := stale w; cfg_stage_fix := cfg_stage_fix w |}.
Definition set_jr w j := {| fs := fs w; cur := cur w; jr := j; snaps := snaps w; obst := obst w; g_base := g_base w; g_inst := g_inst w; g_fs0 := g_fs0 w; g_clean := g_clean w; stale := stale w; cfg_stage_fix := cfg_stage_fix w |}.
Definition set_snaps w s := {| fs := fs w; cur := cur w; jr := jr w; snaps := s; obst := obst w; g_base := g_base w; g_inst := g_inst w; g_fs0 := g_fs0 w; g_clean := g_clean w; stale := stale w; cfg_stage_fix := cfg_stage_fix w |}.
Definition set_obst w o := {| fs := fs w; cur := cur w; jr := jr w; snaps := snaps w; obst := o; g_base := g_base w; g_inst := g_inst w; g_fs0 := g_fs0 w; g_clean := g_clean w; stale := stale w; cfg_stage_fix := cfg_stage_fix w |}.
Definition set_gbase w g := {| fs := fs w; cur := cur w; jr := jr w; snaps := snaps w; obst := obst w; g_base := g; g_inst := g_inst w; g_fs0 := g_fs0 w; g_clean := g_clean w; stale := stale w; cfg_stage_fix := cfg_stage_fix w |}.
Definition set_ginst w v := {| fs := fs w; cur := cur w; jr := jr w; snaps := snaps w; obst := obst w; g_base := g_base w; g_inst := v; g_fs0 := g_fs0 w; g_clean := g_clean w; stale := stale w; cfg_stage_fix := cfg_stage_fix w |}.

Definition set_gfs0 w f c := {| fs := fs w; cur := cur w; jr := jr w; snaps := snaps w; obst := obst w; g_base := g_base w; g_inst := g_inst w; g_fs0 := f; g_clean := c; stale := stale w; cfg_stage_fix := cfg_stage_fix w |}.

Definition set_stale w s := {| fs := fs w; cur := cur w; jr := jr w; snaps := snaps w; obst := obst w; g_base := g_base w; g_inst := g_inst w; g_fs0 := g_fs0 w; g_clean := g_clean w; stale := s; cfg_stage_fix := cfg_stage_fix w |}.

Definition upd {A} (f : N -> A) (k : N) (v : A) : N -> A := fun q => if N.eqb q k then v else f q.

Definition set_phase (w : world) (ph : phase) : world :=
  match jr w with
  | Some j => set_jr w (Some {| j_from := j_from j; j_to := j_to j; j_phase := ph |})
  | None => w
  end.

(* ---- SwapArtifact ---- *)
Definition new_mode (m : amode) : option N :=
  match m with
  | MEmpty => Some 420%N                  (* 0644 *)
  | MOk n => Some (N.land n 511)          (* parseOctalMode masks with os.ModePerm *)
  | MBad => None
  | MFull n => Some n
  end.

Definition clear_once (o : path -> option bool) (p : path) : path -> option bool :=
  fun q => if N.eqb q p then match o q with Some false => None | x => x end else o q.

(* src = bytes of the source file (None: source cannot be opened) *)
Definition clear_stale (w : world) (p : path) : world := set_stale w (upd (stale w) p None).

(* the mode the staged file ends up with: an existing leftover keeps its mode through O_TRUNC, and that mode
   survives when the manifest gives none (no chmod) *)
Definition staged_mode (w : world) (p : path) (m : amode) : option N :=
  match (if cfg_stage_fix w then None else stale w p), m with
  | Some m0, MEmpty => Some m0
  | _, _ => new_mode m
  end.

Definition swap_artifact (w : world) (src : option content) (p : path) (m : amode) : world * bool :=
  match src, obst w p with
  | Some c, None =>
      match staged_mode w p m with
      | None => (clear_stale w p, false)                               (* parse error: staging file removed *)
      | Some mm =>
          match fs w p with
          | Some Dir => (clear_stale w p, false)                       (* rename onto a directory *)
          | _ => (clear_stale (set_fs w (upd (fs w) p (Some (Reg c mm)))) p, true)   (* the staging file is renamed away *)
          end
      end
  | _, _ => (clear_stale (set_obst w (clear_once (obst w) p)) p, false)   (* os.Remove(stagingName) *)
  end.

(* a leftover regular staging file appears (a dying swap left it); a directory obstacle at the same name is replaced *)
Fixpoint install_stale (w : world) (l : list (path * N)) : world :=
  match l with
  | [] => w
  | (p, m) :: r => install_stale (set_obst (set_stale w (upd (stale w) p (Some m))) (upd (obst w) p None)) r
  end.

Fixpoint install_ob (o : path -> option bool) (l : list (path * bool)) : path -> option bool :=
  match l with
  | [] => o
  | (p, s) :: r => install_ob (upd o p (Some s)) r
  end.

(* directory obstacles appear; each replaces whatever sat at that staging name *)
Definition with_obs (w : world) (l : list (path * bool)) : world :=
  set_stale (set_obst w (install_ob (obst w) l))
            (fun q => if existsb (fun pb => N.eqb q (fst pb)) l then None else stale w q).

(* ---- Snapshot ---- *)
Definition rec_mode (v : variant) (m : N) : N := if v_mode_fix v then m else N.land m 511.

Fixpoint snap_loop (v : variant) (f : path -> option file) (bak : path -> option content)
         (arts : list artifact) : (path -> option content) * option (list entry) :=
  match arts with
  | [] => (bak, Some [])
  | a :: r =>
      let p := a_path a in
      match f p with
      | None =>
          let '(b, es) := snap_loop v f bak r in
          (b, option_map (cons {| e_path := p; e_kind := EAbsent |}) es)
      | Some (Sym t) =>
          let '(b, es) := snap_loop v f bak r in
          (b, option_map (cons {| e_path := p; e_kind := ESym t |}) es)
      | Some (Reg c m) =>
          let '(b, es) := snap_loop v f (upd bak p (Some c)) r in
          (b, option_map (cons {| e_path := p; e_kind := EReg (rec_mode v m) |}) es)
      | Some Dir => (bak, None)
      end
  end.

Definition needs_vpp (arts : list artifact) : bool := existsb a_vpp arts.

Definition empty_snap : snapdir := {| s_meta := None; s_bak := fun _ => None; s_curm := None |}.

(* saveCurrentManifest: a missing current-manifest leaves no copy *)
Definition curm_of (c : ver) : option ver := if N.eqb c NOVER then None else Some c.

Definition do_snapshot (v : variant) (w : world) (from : ver) (arts : list artifact) : world * bool :=
  let d0 := match snaps w from with Some d => d | None => empty_snap end in
  let '(b, es) := snap_loop v (fs w) (s_bak d0) arts in
  match es with
  | None => (set_snaps w (upd (snaps w) from (Some {| s_meta := s_meta d0; s_bak := b; s_curm := s_curm d0 |})), false)
  | Some l =>
      (set_snaps w (upd (snaps w) from
         (Some {| s_meta := Some (needs_vpp arts, l); s_bak := b;
                  s_curm := if v_curm_fix v then curm_of (cur w) else s_curm d0 |})), true)
  end.

(* Snapshot() returned, saveCurrentManifest failed or never ran (fail label 36) *)
Definition do_snapshot_nocurm (v : variant) (w : world) (from : ver) (arts : list artifact) : world :=
  let d0 := match snaps w from with Some d => d | None => empty_snap end in
  let '(b, es) := snap_loop v (fs w) (s_bak d0) arts in
  match es with
  | None => w
  | Some l => set_snaps w (upd (snaps w) from
                (Some {| s_meta := Some (needs_vpp arts, l); s_bak := b; s_curm := s_curm d0 |}))
  end.

(* PruneSnapshots(keep = 1) right after a completed apply: the snapshot just taken is the newest *)
Definition prune (w : world) (keep : ver) : world :=
  set_snaps w (fun q => if N.eqb q keep then snaps w q else
                        match snaps w q with
                        | Some d => match s_meta d with None => Some d | Some _ => None end
                        | None => None
                        end).

(* ---- restoreFromSnapshot: entries in reverse order ---- *)
Fixpoint restore_loop (w : world) (d : snapdir) (es : list entry) : world * bool :=
  match es with
  | [] => (w, true)
  | e :: r =>
      let p := e_path e in
      match e_kind e with
      | EAbsent => restore_loop (set_fs w (upd (fs w) p None)) d r
      | ESym t => restore_loop (set_fs w (upd (fs w) p (Some (Sym t)))) d r
      | EReg m =>
          let '(w1, ok) := swap_artifact w (s_bak d p) p (MFull m) in
          if ok then restore_loop w1 d r else (w1, false)
      end
  end.

(* ---- fault oracle ---- *)
Definition crash_at (F : faults) (l : N) : bool :=
  match f_crash F with Some c => N.eqb c l | None => false end.
Definition fails (F : faults) (l : N) : bool := existsb (N.eqb l) (f_fail F).

Inductive oc := OGo | OFail | OCrash.
Definition cmd (F : faults) (l : N) : oc := if crash_at F l then OCrash else if fails F l then OFail else OGo.
Definition chk (F : faults) (l : N) : oc := if crash_at F l then OCrash else OGo.
Fixpoint seq_oc (l : list oc) : oc :=
  match l with [] => OGo | OGo :: r => seq_oc r | x :: _ => x end.
(* generate-external, vpp stop, vpp start, wait active, frr start *)
Definition vpp_seq (F : faults) (b : N) : oc :=
  seq_oc [cmd F (b + 3); cmd F (b + 4); cmd F (b + 5); (if fails F (b + 6) then OFail else OGo); cmd F (b + 7)]%N.

(* ---- Rollback ---- *)
Inductive rbres := RbOk | RbErr | RbCrash.

(* restoreCurrentManifest: no saved copy = remove current-manifest.yaml *)
Definition restore_curm (v : variant) (w : world) (d : snapdir) : world :=
  if v_curm_fix v then match s_curm d with Some c => set_cur w c | None => set_cur w NOVER end else w.

Definition restore_ginst (w : world) : world :=
  match g_base w with Some (true, _, vi) => set_ginst w vi | _ => w end.

Definition phase_started (p : phase) : bool := match p with PStarted => true | _ => false end.

Definition rollback_flow (v : variant) (F : faults) (w : world) : world * rbres :=
  match jr w with
  | None => (w, RbErr)
  | Some j =>
    if v_stale_fix v && phase_started (j_phase j) then (w, RbErr) else
    match snaps w (j_from j) with
    | None => (w, RbErr)
    | Some d =>
      match s_meta d with
      | None => (w, RbErr)
      | Some (nv, es) =>
        match seq_oc [chk F 41; cmd F 11; chk F 42; cmd F 12; chk F 43]%N with
        | OCrash => (w, RbCrash)
        | OFail => (w, RbErr)
        | OGo =>
          let w1 := install_stale (with_obs w (f_rob F)) (f_rst F) in
          let '(w2, ok) := restore_loop w1 d (rev es) in
          if negb ok then (set_phase w2 PRollbackFailed, RbErr) else
          let w3 := restore_ginst (restore_curm v w2 d) in
          match (if nv then vpp_seq F 10 else OGo) with
          | OCrash => (w3, RbCrash)
          | OFail => (set_phase w3 PRollbackFailed, RbErr)
          | OGo =>
            match seq_oc [chk F 44; cmd F 18; chk F 45]%N with
            | OCrash => (w3, RbCrash)
            | OFail => (set_phase w3 PRollbackFailed, RbErr)
            | OGo => if f_hr F then (set_phase w3 PRolledBack, RbOk)
                     else (set_phase w3 PRollbackFailed, RbErr)
            end
          end
        end
      end
    end
  end.

(* ---- Apply ---- *)
Inductive res := ROk | RErr | RErrRolledBack | RErrRbFailed | RCrash | RRbOk | RRbErr | RCleared | REdited.

Fixpoint swap_loop (w : world) (arts : list artifact) : world * bool :=
  match arts with
  | [] => (w, true)
  | a :: r =>
      let w1 := set_phase w (PSwapping (a_path a)) in
      let '(w2, ok) := swap_artifact w1 (Some (a_content a)) (a_path a) (a_mode a) in
      if ok then swap_loop (set_phase w2 (PSwapped (a_path a))) r else (w2, false)
  end.

Definition auto_rollback (v : variant) (F : faults) (w : world) : world * res :=
  if crash_at F 52 then (w, RCrash) else
  let '(w', r) := rollback_flow v F w in
  match r with
  | RbOk => (w', RErrRolledBack)
  | RbErr => (set_phase w' PRollbackFailed, RErrRbFailed)
  | RbCrash => (w', RCrash)
  end.

Fixpoint nodupb (l : list N) : bool :=
  match l with [] => true | x :: r => negb (existsb (N.eqb x) r) && nodupb r end.

Definition quiescent (w : world) : bool :=
  match jr w with
  | None => true
  | Some j => match j_phase j with PCompleted | PRolledBack => true | _ => false end
  end.

Definition prev_ok (T : tarball) (w : world) : bool :=
  match t_prev T with PrevNone => true | Prev pv wf => wf && N.eqb pv (cur w) end.

Definition expect_ok (Q : opts) (w : world) : bool :=
  match o_expect Q with None => true | Some e => N.eqb e (cur w) end.

Definition admits (T : tarball) (Q : opts) (w : world) : bool :=
  t_members_ok T && nodupb (map a_path (t_arts T)) && negb (match t_arts T with [] => true | _ => false end)
  && t_sig_ok T && t_digest_ok T && expect_ok Q w && prev_ok T w && (quiescent w || o_force Q).

(* Runner.Plan, the dry run: verifySignature, ExtractTarball (members + Manifest.Validate), CrossCheckArtifacts; no
   predecessor / journal check.  The world is not changed whatever the verdict. *)
Definition plan_ok (T : tarball) : bool :=
  t_sig_ok T && t_members_ok T && nodupb (map a_path (t_arts T)) &&
  negb (match t_arts T with [] => true | _ => false end) && t_digest_ok T.

Definition base_of (w : world) (arts : list artifact) : list (path * option file) :=
  map (fun a => (a_path a, fs w (a_path a))) arts.

(* everything after the swap loop succeeded; fs is not touched any more unless a rollback runs *)
Definition post_swap (v : variant) (T : tarball) (F : faults) (from : ver) (w7 : world) : world * res :=
  match (if needs_vpp (t_arts T) then vpp_seq F 0 else OGo) with
  | OCrash => (w7, RCrash)
  | OFail => auto_rollback v F (set_phase w7 PAbortedPostSwap)
  | OGo =>
    match seq_oc [chk F 30; cmd F 8]%N with
    | OCrash => (w7, RCrash)
    | OFail => auto_rollback v F (set_phase w7 PAbortedPostSwap)
    | OGo =>
      let w8 := set_phase w7 PDaemonStarted in
      if crash_at F 31 then (w8, RCrash) else
      if negb (f_ha F) then
        (if crash_at F 53 then (w8, RCrash) else auto_rollback v F (set_phase w8 PHealthFailed))
      else
      if crash_at F 32 then (w8, RCrash) else
      let w8c := set_ginst (set_cur w8 (t_to T)) (t_to T) in       (* WriteCurrentManifest *)
      if crash_at F 35 then (w8c, RCrash) else
      let w9 := set_phase w8c PCompleted in
      if crash_at F 33 then (w9, RCrash) else
      let w10 := prune w9 from in
      if crash_at F 34 then (w10, RCrash) else (w10, ROk)
    end
  end.

(* an interrupted upgrade whose snapshot completed: the journal is neither finished nor at "started" *)
Definition resume (w : world) : bool :=
  match jr w with
  | Some j => match j_phase j with PCompleted | PRolledBack | PStarted => false | _ => true end
  | None => false
  end.

Definition covered (es : list entry) (arts : list artifact) : bool :=
  forallb (fun a => existsb (fun e => N.eqb (e_path e) (a_path a)) es) arts.

Definition covered_rev (es : list entry) (arts : list artifact) : bool :=
  forallb (fun e => existsb (fun a => N.eqb (a_path a) (e_path e)) arts) es.

(* stage 6 onwards; w2 carries phase snapshot_done; [from] = key of the snapshot directory *)
Definition after_snapshot (v : variant) (T : tarball) (F : faults) (from : ver) (w2 : world) : world * res :=
  let arts := t_arts T in
  if crash_at F 26 then (w2, RCrash) else
  if negb (t_hook_ok T) then (w2, RErr) else
  let w3 := set_phase w2 PPreHookDone in
  match seq_oc [chk F 27; cmd F 1]%N with
  | OCrash => (w3, RCrash)
  | OFail => (w3, RErr)
  | OGo =>
    let w4 := set_phase w3 PRestartSuspended in
    match seq_oc [chk F 28; cmd F 2]%N with
    | OCrash => (w4, RCrash)
    | OFail => (w4, RErr)
    | OGo =>
      let w5 := set_phase w4 PDaemonStopped in
      if crash_at F 29 then (w5, RCrash) else
      let w6 := install_stale (with_obs w5 (f_ob F)) (f_st F) in
      let '(w7, sok) := swap_loop w6 arts in
      if negb sok then
        (if crash_at F 51 then (w7, RCrash) else auto_rollback v F (set_phase w7 PAbortedMidSwap))
      else post_swap v T F from w7
    end
  end.

(* a fresh snapshot into rollback/<current version>.  The ghost baseline is reset exactly when the
   journal found is not an interrupted upgrade ([resume w = false]: none, completed, rolled back, or
   stopped at "started" before anything was modified) — a rule about the observable journal phase, the
   same one the harness applies to the journal file; it does not depend on what this flow goes on to do. *)
Definition fresh_flow (v : variant) (T : tarball) (F : faults) (w : world) : world * res :=
  let from := cur w in
  let arts := t_arts T in
  let base := base_of w arts in
  let reset := negb (resume w) in
  let wj := set_jr w (Some {| j_from := from; j_to := t_to T; j_phase := PStarted |}) in
  let w0 := if reset then set_gfs0 (set_gbase wj (Some (false, base, cur w))) (fs w) true else wj in
  if crash_at F 25 then (w0, RCrash) else
  let '(w1, ok) := do_snapshot v w0 from arts in
  if negb ok then (w1, RErr) else
  if fails F 36 && reset then (do_snapshot_nocurm v w0 from arts, RErr) else    (* saveCurrentManifest fails *)
  let w2 := set_phase (if reset then set_gbase w1 (Some (true, base, cur w)) else w1) PSnapshotDone in
  after_snapshot v T F from w2.

(* ForceRetry over an interrupted upgrade (since b6afef3): keep its snapshot and its from-version *)
Definition keep_flow (v : variant) (T : tarball) (F : faults) (w : world) (j : journal) (d : snapdir)
           (nv : bool) (es : list entry) : world * res :=
  let w0 := set_jr w (Some {| j_from := j_from j; j_to := t_to T; j_phase := PRetryStarted |}) in
  if crash_at F 25 then (w0, RCrash) else
  let w1 := set_snaps w0 (upd (snaps w0) (j_from j)
              (Some {| s_meta := Some (nv || needs_vpp (t_arts T), es); s_bak := s_bak d; s_curm := s_curm d |})) in
  after_snapshot v T F (j_from j) (set_phase w1 PSnapshotDone).

Definition apply_flow (v : variant) (T : tarball) (F : faults) (w : world) : world * res :=
  if v_keep_fix v && resume w then
    match jr w with
    | Some j =>
      match snaps w (j_from j) with
      | Some d =>
        match s_meta d with
        | Some (nv, es) =>
            if covered es (t_arts T) && (negb (v_same_fix v) || covered_rev es (t_arts T))
            then keep_flow v T F w j d nv es else (w, RErr)
        | None => fresh_flow v T F w
        end
      | None => fresh_flow v T F w
      end
    | None => fresh_flow v T F w
    end
  else fresh_flow v T F w.

Definition apply (v : variant) (T : tarball) (Q : opts) (F : faults) (w : world) : world * res :=
  if admits T Q w then apply_flow v T F w else (w, RErr).

(* ---- the property-level monitor (the Go harness computes the same thing from the disk) ---- *)
Inductive mon := MonNone | MonOk | MonMixed | MonNa.

Definition file_eqb (a b : file) : bool :=
  match a, b with
  | Reg c m, Reg c' m' => N.eqb c c' && N.eqb m m'
  | Sym t, Sym t' => N.eqb t t'
  | Dir, Dir => true
  | _, _ => false
  end.
Definition ofile_eqb (a b : option file) : bool :=
  match a, b with
  | Some x, Some y => file_eqb x y
  | None, None => true
  | _, _ => false
  end.

Definition art_installed (w : world) (a : artifact) : bool :=
  match new_mode (a_mode a) with
  | Some mm => ofile_eqb (fs w (a_path a)) (Some (Reg (a_content a) mm))
  | None => false
  end.

(* after a reported upgrade every artifact of the tarball is installed AND every baseline path (every path an
   attempt of this upgrade episode may have replaced) is one of them: no path is left at another version *)
Definition mon_new (w : world) (arts : list artifact) : mon :=
  if forallb (art_installed w) arts &&
     match g_base w with
     | Some (_, l, _) => forallb (fun pf => existsb (N.eqb (fst pf)) (map a_path arts)) l
     | None => true
     end
  then MonOk else MonMixed.

Definition mon_restored (w : world) : mon :=
  match g_base w with
  | Some (_, l, _) => if forallb (fun pf => ofile_eqb (fs w (fst pf)) (snd pf)) l then MonOk else MonMixed
  | None => MonNa
  end.

(* what a path RESOLVES to: the bytes read through it (symlink targets are node ids: artifact paths,
   auxiliary files outside the artifact directories, or ids of nothing = dangling) *)
Fixpoint resolve (f : path -> option file) (p : path) (fuel : nat) : option content :=
  match fuel with
  | O => None                                  (* ELOOP *)
  | S k => match f p with
           | Some (Reg c _) => Some c
           | Some (Sym t) => resolve f t k
           | _ => None
           end
  end.
Definition ocontent_eqb (a b : option content) : bool :=
  match a, b with Some x, Some y => N.eqb x y | None, None => true | _, _ => false end.

(* after a reported rollback every artifact path of the upgrade must resolve to the bytes it resolved to
   before the upgrade, provided no operator edit happened in between *)
Definition mon_resolved (w : world) : mon :=
  match g_base w with
  | Some (_, l, _) =>
      if g_clean w then
        if forallb (fun pf => ocontent_eqb (resolve (fs w) (fst pf) 16) (resolve (g_fs0 w) (fst pf) 16)) l
        then MonOk else MonMixed
      else MonNa
  | None => MonNa
  end.

(* after a reported success current-manifest must name the version of the tree the operation
   claims to have produced: the tarball's version, resp. the version named when the restored
   tree was snapshotted *)
Definition ver_new (w : world) (T : tarball) : mon := if N.eqb (cur w) (t_to T) then MonOk else MonMixed.
Definition ver_restored (w : world) : mon :=
  match g_base w with
  | Some (_, _, vi) => if N.eqb (cur w) vi then MonOk else MonMixed
  | None => MonNa
  end.

Inductive op :=
| OpApply (T : tarball) (Q : opts) (F : faults)
| OpRollback (F : faults)
| OpClear
| OpEdit (p : path) (f : option file).

Definition step (v : variant) (w : world) (o : op) : world * (res * mon) :=
  match o with
  | OpApply T Q F =>
      let '(w', r) := apply v T Q F w in
      (w', (r, match r with ROk => mon_new w' (t_arts T) | RErrRolledBack => mon_restored w' | _ => MonNone end))
  | OpRollback F =>
      let '(w', r) := rollback_flow v F w in
      match r with
      | RbOk => (w', (RRbOk, mon_restored w'))
      | RbErr => (w', (RRbErr, MonNone))
      | RbCrash => (w', (RCrash, MonNone))
      end
  | OpClear => (set_stale (set_obst w (fun _ => None)) (fun _ => None), (RCleared, MonNone))
  | OpEdit p f => (set_gfs0 (set_fs w (upd (fs w) p f)) (g_fs0 w) false, (REdited, MonNone))
  end.

(* the version monitor of the operation that led from w to w' with result r *)
Definition step_res (o : op) (w' : world) (r : res) : mon :=
  match o, r with
  | OpApply _ _ _, RErrRolledBack => mon_resolved w'
  | OpRollback _, RRbOk => mon_resolved w'
  | _, _ => MonNone
  end.

Definition step_ver (o : op) (w' : world) (r : res) : mon :=
  match o, r with
  | OpApply T _ _, ROk => ver_new w' T
  | OpApply _ _ _, RErrRolledBack => ver_restored w'
  | OpRollback _, RRbOk => ver_restored w'
  | _, _ => MonNone
  end.

Fixpoint exec (v : variant) (w : world) (ops : list op) : world :=
  match ops with
  | [] => w
  | o :: r => exec v (fst (step v w o)) r
  end.

Fixpoint run (v : variant) (w : world) (ops : list op) : list (world * (res * mon)) :=
  match ops with
  | [] => []
  | o :: r => let '(w', out) := step v w o in (w', out) :: run v w' r
  end.

Definition init_world (c : ver) (f : path -> option file) : world :=
  {| fs := f; cur := c; jr := None; snaps := fun _ => None; obst := fun _ => None; g_base := None; g_inst := c;
     g_fs0 := f; g_clean := true; stale := fun _ => None; cfg_stage_fix := true |}.

(* historical: /repo before 97a5489 (swapArtifact reused a stale staging file) *)
Definition init_world_pre_97a5489 (c : ver) (f : path -> option file) : world :=
  set_stale {| fs := f; cur := c; jr := None; snaps := fun _ => None; obst := fun _ => None; g_base := None; g_inst := c;
               g_fs0 := f; g_clean := true; stale := fun _ => None; cfg_stage_fix := false |} (fun _ => None).

Definition repaired : variant :=
  {| v_mode_fix := true; v_curm_fix := true; v_keep_fix := true; v_stale_fix := true; v_same_fix := true |}.
(* historical: /repo between ca3a3f9 and 31f4cb6 (without the same-artifact-set check) *)
Definition pre_31f4cb6 : variant :=
  {| v_mode_fix := true; v_curm_fix := true; v_keep_fix := true; v_stale_fix := true; v_same_fix := false |}.
(* historical: /repo between f4d379f and b6afef3 (mode and current-manifest fixes in, ForceRetry still
   re-snapshots, Rollback still accepts a journal at "started") *)
Definition pre_b6afef3 : variant := {| v_mode_fix := true; v_curm_fix := true; v_keep_fix := false; v_stale_fix := false; v_same_fix := false |}.
(* historical: /repo before 88f69f7 (none of the four repairs) *)
Definition pre_88f69f7 : variant := {| v_mode_fix := false; v_curm_fix := false; v_keep_fix := false; v_stale_fix := false; v_same_fix := false |}.

(* ---- safeTarEntryPath: names are byte strings, '/' = 47, '.' = 46, '\' = 92 ---- *)
Definition bstr := list N.

Fixpoint split_slash_aux (cur : bstr) (s : bstr) : list bstr :=
  match s with
  | [] => [rev cur]
  | c :: r => if N.eqb c 47 then rev cur :: split_slash_aux [] r else split_slash_aux (c :: cur) r
  end.
Definition split_slash (s : bstr) : list bstr := split_slash_aux [] s.

Definition bstr_eqb (a b : bstr) : bool :=
  (Nat.eqb (length a) (length b)) && forallb (fun xy => N.eqb (fst xy) (snd xy)) (combine a b).
Definition is_dot (c : bstr) : bool := bstr_eqb c [46%N].
Definition is_dotdot (c : bstr) : bool := bstr_eqb c [46%N; 46%N].

(* filepath.Clean on the components of a name; [rooted] = the name starts with '/'.
   [out] is the cleaned component stack, most recent first. *)
Fixpoint clean_comps (rooted : bool) (out : list bstr) (cs : list bstr) : list bstr :=
  match cs with
  | [] => rev out
  | c :: r =>
      match c with
      | [] => clean_comps rooted out r
      | _ =>
        if is_dot c then clean_comps rooted out r
        else if is_dotdot c then
          match out with
          | top :: rest => if is_dotdot top then clean_comps rooted (c :: out) r
                           else clean_comps rooted rest r
          | [] => if rooted then clean_comps rooted out r else clean_comps rooted [c] r
          end
        else clean_comps rooted (c :: out) r
      end
  end.

Definition starts_with (pre s : bstr) : bool := bstr_eqb (firstn (length pre) s) pre.

Fixpoint join_slash (cs : list bstr) : bstr :=
  match cs with
  | [] => []
  | [c] => c
  | c :: r => c ++ 47%N :: join_slash r
  end.

(* Some comps = accepted with that cleaned relative name (joined with '/'); None = rejected.
   The empty name and "." are accepted as the staging root itself. *)
Definition safe_entry (name : bstr) : option (list bstr) :=
  match name with
  | [] => Some []
  | _ =>
    if is_dot name then Some [] else
    let rooted := match name with c :: _ => N.eqb c 47 | [] => false end in
    if rooted then None else
    let cl := clean_comps false [] (split_slash name) in
    match cl with
    | [] => Some [[46%N]]             (* Clean returns "." ; Join(root, ".") = root *)
    | c :: _ =>
        if is_dotdot c then None
        else if starts_with [46; 46; 92]%N (join_slash cl) then None
        else Some cl
    end
  end.
