From OV Require Import Common.Base C18.Model C18.Proofs.
