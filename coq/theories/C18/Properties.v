(* C18/Properties.v — the property theorems only.  Each is closed by [exact] of a lemma from
   Proofs.v (or by vm_compute for a concrete witness) and followed by Print Assumptions.

   [repaired] = the model with both proposed fixes; [defective] = the code as it is today.
   Theorems stated for an arbitrary variant [v] hold for both. *)
From OV Require Import Common.Base C18.Model C18.Proofs.
Local Open Scope N_scope.

(* --- all-or-nothing -------------------------------------------------------------------- *)
(* An apply that reports success has every artifact at the new content and mode, the journal
   at "completed" and current-manifest at the new version — whatever faults were injected. *)
Theorem C18_no_mixed_success :
  forall v T Q F w w', apply v T Q F w = (w', ROk) ->
  (forall a, In a (t_arts T) -> exists mm, new_mode (a_mode a) = Some mm /\
                                  fs w' (a_path a) = Some (Reg (a_content a) mm)) /\
  cur w' = t_to T /\ option_map j_phase (jr w') = Some PCompleted.
Proof. exact no_mixed_success. Qed.
Print Assumptions C18_no_mixed_success.

(* An apply that reports "failed, auto-rollback succeeded" leaves every artifact path exactly
   (kind, bytes, mode) as before the apply: for every command failure, swap failure at any
   index, health outcome. *)
Theorem C18_failed_apply_restored :
  forall T Q F w w', apply repaired T Q F w = (w', RErrRolledBack) ->
  forall a, In a (t_arts T) -> fs w' (a_path a) = fs w (a_path a).
Proof. exact (fun T Q F w w' => failed_apply_restored repaired T Q F w w' eq_refl). Qed.
Print Assumptions C18_failed_apply_restored.

(* An apply that returns a plain error (refusal, snapshot / hook / suspend / stop failure)
   has not touched any artifact nor current-manifest. *)
Theorem C18_early_error_untouched :
  forall v T Q F w w', apply v T Q F w = (w', RErr) -> fs w' = fs w /\ cur w' = cur w.
Proof. exact early_error_untouched. Qed.
Print Assumptions C18_early_error_untouched.

(* --- always restorable ----------------------------------------------------------------- *)
(* Whatever happened in an admitted apply once its snapshot completed (g_base = Some (true, ..)):
   any failure set, the process dying at any labelled point, a failed auto-rollback — after any
   sequence of further rollback attempts (each with its own failures / crash / obstacles) and
   obstacle removals, every rollback that reports success leaves every artifact of the tarball
   identical to what was installed before the apply. *)
Theorem C18_rollback_restores :
  forall T Q F w w1 r1 b gi,
  apply repaired T Q F w = (w1, r1) -> admits T Q w = true ->
  g_base w1 = Some (true, b, gi) ->
  forall ops, rb_only ops ->
  forall w' r m, In (w', (r, m)) (run repaired w1 ops) -> r = RRbOk ->
  forall a, In a (t_arts T) -> fs w' (a_path a) = fs w (a_path a).
Proof. exact (fun T Q F w w1 r1 b gi => crash_then_rollback_restores repaired T Q F w w1 r1 b gi eq_refl). Qed.
Print Assumptions C18_rollback_restores.

(* Over whole histories (applies, rollbacks, operator edits, obstacle removal, ForceRetry) from any
   installed tree: no operation that reports success — upgrade, auto-rollback or rollback — leaves
   a mixture; [mon] compares with the all-new tree resp. the tree recorded when the last snapshot
   completed. *)
Theorem C18_monitor_never_mixed :
  forall c f ops w' r m, In (w', (r, m)) (run repaired (init_world c f) ops) -> m <> MonMixed.
Proof. exact monitor_never_mixed. Qed.
Print Assumptions C18_monitor_never_mixed.

(* --- admission before mutation --------------------------------------------------------- *)
(* bad signature, digest mismatch, unsafe / non-regular member or unparsable manifest, malformed
   or wrong predecessor: nothing at all changes (artifacts, journal, snapshots, current-manifest) *)
Theorem C18_admission_before_mutation :
  forall v T Q F w, inadmissible T w -> apply v T Q F w = (w, RErr).
Proof. exact admission_before_mutation. Qed.
Print Assumptions C18_admission_before_mutation.

(* --- what the code does today ---------------------------------------------------------- *)
Definition fs_ex : path -> option file :=
  fun p => if N.eqb p 0 then Some (Reg 10 2541) (* 04755 *) else if N.eqb p 1 then Some (Reg 11 420) else None.
Definition arts_ex : list artifact :=
  [ {| a_path := 0; a_content := 20; a_mode := MOk 493; a_vpp := false |};
    {| a_path := 1; a_content := 21; a_mode := MEmpty; a_vpp := true |} ]%N.
Definition tar_ex (to : ver) (prev : prevspec) : tarball :=
  {| t_to := to; t_prev := prev; t_sig_ok := true; t_members_ok := true; t_digest_ok := true;
     t_hook_ok := true; t_arts := arts_ex |}.
Definition no_opts : opts := {| o_expect := None; o_force := false |}.
Definition no_faults : faults :=
  {| f_fail := []; f_crash := None; f_ha := true; f_hr := true; f_ob := []; f_rob := [] |}.
Definition health_fails : faults :=
  {| f_fail := []; f_crash := None; f_ha := false; f_hr := true; f_ob := []; f_rob := [] |}.
Definition dies_mid_swap : faults :=    (* swap of artifact #1 fails, process dies before the auto-rollback *)
  {| f_fail := []; f_crash := Some 51%N; f_ha := true; f_hr := true; f_ob := [(1%N, false)]; f_rob := [] |}.

(* today: a failed apply whose auto-rollback "succeeded" has lost the setuid bit of artifact 0 *)
Theorem C18_failed_apply_restored_refuted :
  exists T Q F w w', apply defective T Q F w = (w', RErrRolledBack) /\
  exists a, In a (t_arts T) /\ fs w' (a_path a) <> fs w (a_path a).
Proof.
  exists (tar_ex 2 PrevNone), no_opts, health_fails, (init_world 1 fs_ex).
  eexists. split; [vm_compute; reflexivity|].
  exists {| a_path := 0; a_content := 20; a_mode := MOk 493; a_vpp := false |}%N.
  split; [left; reflexivity|vm_compute; discriminate].
Qed.
Print Assumptions C18_failed_apply_restored_refuted.

(* today: upgrade 1 -> 2, roll back (artifacts are those of version 1 again), and a tarball that
   declares predecessor 2 is admitted and installed, while [g_inst] (the version the artifacts
   belong to) is 1 *)
Theorem C18_wrong_predecessor_refuted :
  exists ops w' r m, last (run defective (init_world 1 fs_ex) ops) (init_world 1 fs_ex, (RErr, MonNone)) = (w', (r, m)) /\
  r = ROk /\ g_inst (fst (nth 1 (run defective (init_world 1 fs_ex) ops) (init_world 1 fs_ex, (RErr, MonNone)))) = 1%N /\
  cur (fst (nth 1 (run defective (init_world 1 fs_ex) ops) (init_world 1 fs_ex, (RErr, MonNone)))) = 2%N.
Proof.
  exists [OpApply (tar_ex 2 PrevNone) no_opts no_faults; OpRollback no_faults;
          OpApply (tar_ex 3 (Prev 2 true)) no_opts no_faults].
  eexists. exists ROk. eexists. split; [vm_compute; reflexivity|]. vm_compute. auto.
Qed.
Print Assumptions C18_wrong_predecessor_refuted.

(* --- non-vacuity ----------------------------------------------------------------------- *)
Example C18_nonvacuous_success :
  exists w', apply repaired (tar_ex 2 (Prev 1 true)) no_opts no_faults (init_world 1 fs_ex) = (w', ROk).
Proof. eexists. vm_compute. reflexivity. Qed.
Print Assumptions C18_nonvacuous_success.

Example C18_nonvacuous_auto_rollback :
  exists w', apply repaired (tar_ex 2 PrevNone) no_opts health_fails (init_world 1 fs_ex) = (w', RErrRolledBack) /\
  ofile_eqb (fs w' 0%N) (Some (Reg 10 2541)) = true.
Proof. eexists. vm_compute. split; reflexivity. Qed.
Print Assumptions C18_nonvacuous_auto_rollback.

(* process dies with artifact 0 swapped and artifact 1 not; a later rollback reports success *)
Example C18_nonvacuous_crash_rollback :
  exists w1 b gi w' m,
    apply repaired (tar_ex 2 PrevNone) no_opts dies_mid_swap (init_world 1 fs_ex) = (w1, RCrash) /\
    admits (tar_ex 2 PrevNone) no_opts (init_world 1 fs_ex) = true /\
    g_base w1 = Some (true, b, gi) /\
    ofile_eqb (fs w1 0%N) (Some (Reg 20 493)) = true /\ ofile_eqb (fs w1 1%N) (Some (Reg 11 420)) = true /\
    rb_only [OpRollback no_faults] /\
    In (w', (RRbOk, m)) (run repaired w1 [OpRollback no_faults]).
Proof.
  do 5 eexists. split; [vm_compute; reflexivity|]. split; [vm_compute; reflexivity|].
  split; [vm_compute; reflexivity|]. split; [vm_compute; reflexivity|]. split; [vm_compute; reflexivity|].
  split; [repeat constructor|]. vm_compute. left. reflexivity.
Qed.
Print Assumptions C18_nonvacuous_crash_rollback.

Example C18_nonvacuous_inadmissible :
  inadmissible (tar_ex 3 (Prev 2 true)) (init_world 1 fs_ex).
Proof. right. right. right. exists 2%N, true. split; [reflexivity|right; discriminate]. Qed.
Print Assumptions C18_nonvacuous_inadmissible.

(* --- member names ----------------------------------------------------------------------- *)
(* a member name accepted by safeTarEntryPath has no ".." component left after the lexical
   Clean, so joining it to the staging directory stays below the staging directory *)
Theorem C18_safe_entry :
  forall name cl, safe_entry name = Some cl -> forall c, In c cl -> is_dotdot c = false.
Proof. exact safe_entry_no_dotdot. Qed.
Print Assumptions C18_safe_entry.

(* "../x", "/abs", "a/../../b", "..\x" are rejected; "a/./b//c" is accepted as a/b/c *)
Example C18_safe_entry_nonvacuous :
  safe_entry [46;46;47;120] = None /\ safe_entry [47;97;98;115] = None /\
  safe_entry [97;47;46;46;47;46;46;47;98] = None /\ safe_entry [46;46;92;120] = None /\
  safe_entry [97;47;46;47;98;47;47;99] = Some [[97];[98];[99]].
Proof. vm_compute. repeat split. Qed.
Print Assumptions C18_safe_entry_nonvacuous.

(* --- current-manifest names the installed version ------------------------------------- *)
(* Ghost [g_inst] = the version the installed artifacts belong to: set to the tarball's version at the
   commit step (all artifacts new), set back to the version current-manifest named when the snapshot
   was taken at the moment a restore from that snapshot completes (all artifacts old).
   In every state reachable by any history (applies with any fault set / death at any labelled point
   incl. between WriteCurrentManifest and the "completed" phase write, rollbacks, operator edits,
   obstacle removal, ForceRetry) current-manifest names that version. *)
Theorem C18_current_manifest_names_installed_version :
  forall c f ops, let w := exec repaired (init_world c f) ops in cur w = g_inst w.
Proof. exact reachable_version. Qed.
Print Assumptions C18_current_manifest_names_installed_version.

(* Every operation from a reachable state that reports success is consistent in both respects:
   the tree is all-new resp. the snapshotted tree ([m]), and current-manifest names the tarball's
   version resp. the version it named when the restored tree was snapshotted ([step_ver]). *)
Theorem C18_reported_success_is_consistent :
  forall c f ops o w' r m,
  step repaired (exec repaired (init_world c f) ops) o = (w', (r, m)) ->
  m <> MonMixed /\ step_ver o w' r <> MonMixed.
Proof. exact reachable_consistent. Qed.
Print Assumptions C18_reported_success_is_consistent.

(* In every reachable state a tarball whose declared predecessor is not the installed version
   changes nothing at all. *)
Theorem C18_wrong_predecessor_never_modifies :
  forall c f ops T Q F pv wf, let w := exec repaired (init_world c f) ops in
  t_prev T = Prev pv wf -> pv <> g_inst w -> apply repaired T Q F w = (w, RErr).
Proof. exact wrong_predecessor_never_modifies. Qed.
Print Assumptions C18_wrong_predecessor_never_modifies.

(* C18_rollback_restores from a reachable state, with the version: tree and current-manifest are
   both back to what they were before the apply. *)
Theorem C18_rollback_restores_tree_and_version :
  forall c f ops0 T Q F w1 r1 b gi, let w := exec repaired (init_world c f) ops0 in
  apply repaired T Q F w = (w1, r1) -> admits T Q w = true ->
  g_base w1 = Some (true, b, gi) ->
  forall ops, rb_only ops ->
  forall w' r m, In (w', (r, m)) (run repaired w1 ops) -> r = RRbOk ->
  (forall a, In a (t_arts T) -> fs w' (a_path a) = fs w (a_path a)) /\ cur w' = cur w /\ cur w' = g_inst w.
Proof. exact reachable_crash_then_rollback. Qed.
Print Assumptions C18_rollback_restores_tree_and_version.

(* non-vacuity of the new crash point: the process dies after WriteCurrentManifest and before the
   "completed" phase write (all artifacts new, current-manifest 2, journal daemon_started);
   a rollback then reports success with the old tree and current-manifest 1 *)
Definition dies_after_commit : faults :=
  {| f_fail := []; f_crash := Some 35; f_ha := true; f_hr := true; f_ob := []; f_rob := [] |}.
Example C18_nonvacuous_death_after_commit :
  exists w1 b gi w' m,
    apply repaired (tar_ex 2 PrevNone) no_opts dies_after_commit (init_world 1 fs_ex) = (w1, RCrash) /\
    g_base w1 = Some (true, b, gi) /\ cur w1 = 2 /\
    option_map j_phase (jr w1) = Some PDaemonStarted /\
    ofile_eqb (fs w1 0) (Some (Reg 20 493)) = true /\ ofile_eqb (fs w1 1) (Some (Reg 21 420)) = true /\
    In (w', (RRbOk, m)) (run repaired w1 [OpRollback no_faults]) /\ cur w' = 1 /\
    ofile_eqb (fs w' 0) (Some (Reg 10 2541)) = true.
Proof.
  do 5 eexists. split; [vm_compute; reflexivity|]. split; [vm_compute; reflexivity|].
  split; [vm_compute; reflexivity|]. split; [vm_compute; reflexivity|].
  split; [vm_compute; reflexivity|]. split; [vm_compute; reflexivity|].
  split; [vm_compute; left; reflexivity|]. split; vm_compute; reflexivity.
Qed.
Print Assumptions C18_nonvacuous_death_after_commit.

(* non-vacuity: upgrade 1 -> 2 completes, rollback succeeds, a tarball with predecessor 2 is refused *)
Example C18_wrong_predecessor_nonvacuous :
  exists w w',
    In (w, (ROk, MonOk)) (run repaired (init_world 1 fs_ex) [OpApply (tar_ex 2 PrevNone) no_opts no_faults]) /\
    rollback_flow repaired no_faults w = (w', RbOk) /\ cur w' = 1 /\
    fst (apply repaired (tar_ex 3 (Prev 2 true)) no_opts no_faults w') = w'.
Proof.
  do 2 eexists. split; [vm_compute; left; reflexivity|]. split; [vm_compute; reflexivity|].
  split; vm_compute; reflexivity.
Qed.
Print Assumptions C18_wrong_predecessor_nonvacuous.

(* --- resolved content (symlinked install paths) ---------------------------------------- *)
(* The tree has symlinks (target = node id: artifact path, file outside the artifact directories, or
   nothing).  [resolve] = the bytes read THROUGH a path.
   After an admitted apply from a reachable state whose snapshot completed, and any sequence of rollback
   attempts / obstacle removals, a rollback that reports success has put back the WHOLE tree — not just
   kind / mode / link target of the artifact paths: every node is as before, so every path resolves to
   the bytes it resolved to before the upgrade. *)
Theorem C18_rollback_restores_whole_tree :
  forall c f ops0 T Q F w1 r1 b gi, let w := exec repaired (init_world c f) ops0 in
  apply repaired T Q F w = (w1, r1) -> admits T Q w = true ->
  g_base w1 = Some (true, b, gi) ->
  forall ops, rb_only ops ->
  forall w' r m, In (w', (r, m)) (run repaired w1 ops) -> r = RRbOk ->
  (forall q, fs w' q = fs w q) /\ (forall p n, resolve (fs w') p n = resolve (fs w) p n).
Proof. exact crash_then_rollback_resolved. Qed.
Print Assumptions C18_rollback_restores_whole_tree.

(* Over all histories: every reported rollback / auto-rollback, as long as no operator edit happened since
   the upgrade began, leaves every artifact path of that upgrade resolving to its pre-upgrade bytes. *)
Theorem C18_reported_rollback_resolves_as_before :
  forall c f ops o w' r m,
  step repaired (exec repaired (init_world c f) ops) o = (w', (r, m)) -> step_res o w' r <> MonMixed.
Proof. exact reachable_resolved. Qed.
Print Assumptions C18_reported_rollback_resolves_as_before.

(* non-vacuity: artifact 0 is a symlink to file 100 outside the artifact directories (bytes 50), artifact 1
   a symlink chain 1 -> 101 -> 3 (bytes 13); the upgrade replaces both links, health fails, the auto-rollback
   reports success: both are links again and resolve to 50 and 13, file 100 was never written *)
Definition fs_links : path -> option file :=
  fun p => if N.eqb p 0 then Some (Sym 100) else if N.eqb p 1 then Some (Sym 101)
           else if N.eqb p 3 then Some (Reg 13 420) else if N.eqb p 100 then Some (Reg 50 420)
           else if N.eqb p 101 then Some (Sym 3) else None.
Example C18_nonvacuous_resolved :
  exists w1 w',
    fst (apply repaired (tar_ex 2 PrevNone) no_opts dies_mid_swap (init_world 1 fs_links)) = w1 /\
    resolve (fs w1) 0 16 = Some 20 /\ resolve (fs w1) 1 16 = Some 13 /\
    apply repaired (tar_ex 2 PrevNone) no_opts health_fails (init_world 1 fs_links) = (w', RErrRolledBack) /\
    resolve (fs w') 0 16 = Some 50 /\ resolve (fs w') 1 16 = Some 13 /\
    ofile_eqb (fs w' 0) (Some (Sym 100)) = true /\ ofile_eqb (fs w' 100) (Some (Reg 50 420)) = true /\
    mon_resolved w' = MonOk.
Proof.
  do 2 eexists. split; [reflexivity|]. split; [vm_compute; reflexivity|]. split; [vm_compute; reflexivity|].
  split; [vm_compute; reflexivity|]. repeat split; vm_compute; reflexivity.
Qed.
Print Assumptions C18_nonvacuous_resolved.
