(* C18/Properties.v — the property theorems only.  Each is closed by [exact] of a lemma from Proofs.v (or by
   vm_compute for a concrete witness) and followed by Print Assumptions.

   [repaired] (Model.v) = what /repo HEAD does: all five repairs are committed (88f69f7 mode bits, f4d379f
   current-manifest restore, b6afef3 ForceRetry keeps the interrupted upgrade's snapshot, ca3a3f9 Rollback refuses a
   journal at "started", 31f4cb6 ForceRetry must install every path the kept snapshot covers).  The correspondence check
   compares /repo with [repaired] started from [init_world] only (97a5489, swapArtifact discards a stale staging file,
   is the sixth committed repair).  [init_world_pre_97a5489], [pre_31f4cb6], [pre_b6afef3], [pre_88f69f7] are historical
   and appear only in the `_refuted` witnesses below.
   Reachable state = [exec repaired (init_world c f) ops] for an arbitrary
   installed tree f (symlinks, directories, anything), version c and history ops (applies with any tarball,
   options incl. ForceRetry, fault set and crash label; rollbacks; operator edits; obstacle removal).

   The BASELINE of the monitors is the ghost [g_base] = (artifact paths with their pre-upgrade state, version).
   It is written by one rule about the observable journal: when an admitted apply starts while the journal is
   NOT an interrupted upgrade ([resume w = false]: no journal, completed, rolled back, or stopped at "started"
   before anything was modified) it becomes the tree of that moment; nothing else moves it
   (C18_baseline_moves_only_at_fresh_start).  A ForceRetry over an interrupted upgrade does not. *)
From OV Require Import Common.Base C18.Model C18.Proofs.
Local Open Scope N_scope.

Notation reach c f ops := (exec repaired (init_world c f) ops).

(* --- all-or-nothing -------------------------------------------------------------------- *)
(* An apply that reports success has every artifact at the new content and mode, the journal at "completed" and
   current-manifest at the new version — whatever faults were injected — and leaves NO RESIDUE: every baseline path
   (every path an attempt of this upgrade episode may have replaced; for a ForceRetry these are the interrupted
   upgrade's artifacts) is an artifact of this tarball, hence at the new version as well. *)
Theorem C18_no_mixed_success :
  forall c f ops T Q F w', apply repaired T Q F (reach c f ops) = (w', ROk) ->
  (forall a, In a (t_arts T) -> exists mm, new_mode (a_mode a) = Some mm /\
                                  fs w' (a_path a) = Some (Reg (a_content a) mm)) /\
  cur w' = t_to T /\ option_map j_phase (jr w') = Some PCompleted /\
  (forall p f0, In (p, f0) (fst (baseline_of (reach c f ops) T)) -> exists a, In a (t_arts T) /\ a_path a = p).
Proof. exact (fun c f ops T Q F w' => no_mixed_success repaired T Q F _ w' fixedv_repaired (proj1 (reachable_IJ c f ops))). Qed.
Print Assumptions C18_no_mixed_success.

(* An apply that reports "failed, auto-rollback succeeded" leaves every baseline path exactly (kind, bytes,
   mode) as in the baseline: the tree before this apply, or — ForceRetry over an interrupted upgrade — the tree
   before that upgrade's first attempt. *)
Theorem C18_failed_apply_restored :
  forall c f ops T Q F w', apply repaired T Q F (reach c f ops) = (w', RErrRolledBack) ->
  forall p f0, In (p, f0) (fst (baseline_of (reach c f ops) T)) -> fs w' p = f0.
Proof. exact (fun c f ops T Q F w' => failed_apply_restored repaired T Q F _ w' fixedv_repaired (proj1 (reachable_IJ c f ops))). Qed.
Print Assumptions C18_failed_apply_restored.

(* on a box that is not mid-upgrade the baseline is the tree right before the apply *)
Theorem C18_baseline_of_fresh_apply :
  forall w T, resume w = false -> fst (baseline_of w T) = base_of w (t_arts T).
Proof. exact baseline_fresh. Qed.
Print Assumptions C18_baseline_of_fresh_apply.

(* An apply that returns a plain error (refusal, snapshot / hook / suspend / stop failure, ForceRetry with
   artifacts the kept snapshot does not cover) has not touched any artifact nor current-manifest. *)
Theorem C18_early_error_untouched :
  forall c f ops T Q F w', apply repaired T Q F (reach c f ops) = (w', RErr) ->
  fs w' = fs (reach c f ops) /\ cur w' = cur (reach c f ops).
Proof. exact (fun c f ops T Q F w' => early_error_untouched repaired T Q F _ w' eq_refl (proj1 (reachable_IJ c f ops))). Qed.
Print Assumptions C18_early_error_untouched.

(* --- no mixture is ever reported as success; restorable --------------------------------- *)
(* Over whole histories: no operation that reports success — upgrade, auto-rollback, rollback — leaves a
   mixture: [m] compares the tree with the all-new tree resp. with the baseline (never "na" once an upgrade
   has started: a rollback that reports success always found a completed snapshot of the baseline). *)
Theorem C18_monitor_never_mixed :
  forall c f ops w' r m, In (w', (r, m)) (run repaired (init_world c f) ops) -> m <> MonMixed.
Proof. exact monitor_never_mixed. Qed.
Print Assumptions C18_monitor_never_mixed.

(* same, plus: current-manifest names the tarball's version after ok, the baseline's version after a reported
   (auto-)rollback *)
Theorem C18_reported_success_is_consistent :
  forall c f ops o w' r m,
  step repaired (reach c f ops) o = (w', (r, m)) -> m <> MonMixed /\ step_ver o w' r <> MonMixed.
Proof. exact reachable_consistent. Qed.
Print Assumptions C18_reported_success_is_consistent.

(* and, unless the operator edited something since the baseline was taken, every baseline path RESOLVES
   (bytes read through symlinks) to what it resolved to then: the whole tree is back, not just lstat data *)
Theorem C18_reported_rollback_resolves_as_before :
  forall c f ops o w' r m,
  step repaired (reach c f ops) o = (w', (r, m)) -> step_res o w' r <> MonMixed.
Proof. exact reachable_resolved. Qed.
Print Assumptions C18_reported_rollback_resolves_as_before.

(* The baseline is not rebased by the flow: one step either leaves it alone or is an admitted apply on a box
   that is not mid-upgrade, which makes it (tree, version) of that moment. *)
Theorem C18_baseline_moves_only_at_fresh_start :
  forall c f ops o, let w := reach c f ops in
  base_part (fst (step repaired w o)) = base_part w \/
  (exists T Q F, o = OpApply T Q F /\ resume w = false /\ admits T Q w = true /\
                 base_part (fst (step repaired w o)) = Some (base_of w (t_arts T), cur w)).
Proof. exact (fun c f ops o => step_baseline repaired _ o fixedv_repaired (proj1 (reachable_IJ c f ops))). Qed.
Print Assumptions C18_baseline_moves_only_at_fresh_start.

(* "can be rolled back": in every reachable state in which the baseline's snapshot completed (any failures,
   deaths, failed rollbacks, ForceRetry attempts since), after the obstacles are removed a rollback without
   further faults DOES report success, restores every baseline path and current-manifest.  (No directory may sit
   on a baseline path: only an operator edit can put one there.) *)
Theorem C18_rollback_can_succeed :
  forall c f ops F base gi, let w := reach c f ops in
  g_base w = Some (true, base, gi) -> quiet F ->
  (forall p f0, In (p, f0) base -> fs w p <> Some Dir) ->
  exists w' m, step repaired (fst (step repaired w OpClear)) (OpRollback F) = (w', (RRbOk, m)) /\
               (forall p f0, In (p, f0) base -> fs w' p = f0) /\ cur w' = gi /\ m = MonOk.
Proof. exact reachable_rollback_succeeds. Qed.
Print Assumptions C18_rollback_can_succeed.

(* "an upgrade CAN complete": from any reachable state — in particular after the process died at any labelled point and
   the operator retries with ForceRetry — an apply that meets no further fault, no obstacle at a staging name, no
   directory on an artifact path and valid modes never stops half-way: it completes and reports success, or it refuses
   and leaves the world exactly as it was (inadmissible tarball; interrupted upgrade and no ForceRetry or another
   artifact set).  With C18_no_mixed_success the success case has every artifact at the new version. *)
Theorem C18_apply_completes_or_refuses :
  forall c f ops T Q F, let w := reach c f ops in
  quiet_apply T F -> (forall p, obst w p = None) ->
  (forall a, In a (t_arts T) -> fs w (a_path a) <> Some Dir) ->
  (exists w', apply repaired T Q F w = (w', ROk)) \/ apply repaired T Q F w = (w, RErr).
Proof. exact apply_quiet. Qed.
Print Assumptions C18_apply_completes_or_refuses.

(* on a box that is not mid-upgrade an admitted tarball does complete *)
Theorem C18_fresh_apply_completes :
  forall c f ops T Q F, let w := reach c f ops in
  quiet_apply T F -> (forall p, obst w p = None) ->
  (forall a, In a (t_arts T) -> fs w (a_path a) <> Some Dir) ->
  admits T Q w = true -> resume w = false ->
  exists w', apply repaired T Q F w = (w', ROk).
Proof. exact fresh_apply_completes. Qed.
Print Assumptions C18_fresh_apply_completes.

(* the liveness premise read off the disk: a journal that exists and is past "started" *)
Theorem C18_post_snapshot_observable :
  forall c f ops j, let w := reach c f ops in
  jr w = Some j -> phase_started (j_phase j) = false -> exists base gi, g_base w = Some (true, base, gi).
Proof. exact post_snapshot_observable. Qed.
Print Assumptions C18_post_snapshot_observable.

(* an apply that stops with the journal still at "started" (death before or right after the snapshot, snapshot or
   saveCurrentManifest error) has touched neither the tree nor current-manifest *)
Theorem C18_stopped_at_started_untouched :
  forall c f ops T Q F w' r, let w := reach c f ops in
  apply repaired T Q F w = (w', r) -> option_map j_phase (jr w') = Some PStarted ->
  (forall p, fs w' p = fs w p) /\ cur w' = cur w.
Proof. exact stopped_at_started_untouched. Qed.
Print Assumptions C18_stopped_at_started_untouched.

(* End to end, without ghost state: an upgrade starts at w0 on a box that is not mid-upgrade.  Whatever follows
   without a NEW upgrade episode starting (every later apply is refused or is a ForceRetry over the interrupted
   upgrade; failures, deaths, rollbacks, edits, clears are free), every operation that reports a rollback has put
   every artifact path of the tarball and current-manifest back to what they were in w0. *)
Theorem C18_end_to_end_restore :
  forall c f ops0 T Q F ops o w' r m,
  let w0 := reach c f ops0 in
  let w1 := fst (step repaired w0 (OpApply T Q F)) in
  resume w0 = false -> admits T Q w0 = true ->
  same_episode repaired w1 (ops ++ [o]) ->
  step repaired (exec repaired w1 ops) o = (w', (r, m)) -> reports_rollback o r ->
  (forall a, In a (t_arts T) -> fs w' (a_path a) = fs w0 (a_path a)) /\ cur w' = cur w0.
Proof. exact end_to_end. Qed.
Print Assumptions C18_end_to_end_restore.

(* --- admission before mutation --------------------------------------------------------- *)
(* bad signature, digest mismatch, unsafe / non-regular member or unparsable manifest, malformed or wrong
   predecessor: the model world is unchanged (artifacts, journal, snapshots, current-manifest; the staging
   directory, quarantine copy and state directories the Go code creates are outside the world). *)
Theorem C18_admission_before_mutation :
  forall v T Q F w, inadmissible T w -> apply v T Q F w = (w, RErr).
Proof. exact admission_before_mutation. Qed.
Print Assumptions C18_admission_before_mutation.

(* Ghost [g_inst] = version the installed artifacts belong to: tarball version at the commit step, baseline
   version when a restore completes.  current-manifest names it in every reachable state ... *)
Theorem C18_current_manifest_names_installed_version :
  forall c f ops, let w := reach c f ops in cur w = g_inst w.
Proof. exact reachable_version. Qed.
Print Assumptions C18_current_manifest_names_installed_version.

(* ... hence a tarball whose declared predecessor is not the installed version changes nothing *)
Theorem C18_wrong_predecessor_never_modifies :
  forall c f ops T Q F pv wf, let w := reach c f ops in
  t_prev T = Prev pv wf -> pv <> g_inst w -> apply repaired T Q F w = (w, RErr).
Proof. exact wrong_predecessor_never_modifies. Qed.
Print Assumptions C18_wrong_predecessor_never_modifies.

(* a member name accepted by safeTarEntryPath has no ".." component left after the lexical Clean *)
Theorem C18_safe_entry :
  forall name cl, safe_entry name = Some cl -> forall c, In c cl -> is_dotdot c = false.
Proof. exact safe_entry_no_dotdot. Qed.
Print Assumptions C18_safe_entry.

(* --- witnesses -------------------------------------------------------------------------- *)
Definition fs_ex : path -> option file :=
  fun p => if N.eqb p 0 then Some (Reg 10 2541) (* 04755 *) else if N.eqb p 1 then Some (Reg 11 420) else None.
Definition arts_ex : list artifact :=
  [ {| a_path := 0; a_content := 20; a_mode := MOk 493; a_vpp := false |};
    {| a_path := 1; a_content := 21; a_mode := MEmpty; a_vpp := true |} ].
Definition tar_ex (to : ver) (prev : prevspec) : tarball :=
  {| t_to := to; t_prev := prev; t_sig_ok := true; t_members_ok := true; t_digest_ok := true;
     t_hook_ok := true; t_arts := arts_ex |}.
Definition no_opts : opts := {| o_expect := None; o_force := false |}.
Definition force : opts := {| o_expect := None; o_force := true |}.
Definition no_faults : faults :=
  {| f_fail := []; f_crash := None; f_ha := true; f_hr := true; f_ob := []; f_rob := []; f_st := []; f_rst := [] |}.
Definition health_fails : faults :=
  {| f_fail := []; f_crash := None; f_ha := false; f_hr := true; f_ob := []; f_rob := []; f_st := []; f_rst := [] |}.
Definition dies_mid_swap : faults :=    (* swap of artifact #1 fails, process dies before the auto-rollback *)
  {| f_fail := []; f_crash := Some 51; f_ha := true; f_hr := true; f_ob := [(1, false)]; f_rob := []; f_st := []; f_rst := [] |}.
Definition swap_and_rollback_fail : faults :=   (* swap of artifact #1 fails, the auto-rollback cannot stop the daemon *)
  {| f_fail := [12]; f_crash := None; f_ha := true; f_hr := true; f_ob := [(1, false)]; f_rob := []; f_st := []; f_rst := [] |}.
Definition dies_after_commit : faults :=
  {| f_fail := []; f_crash := Some 35; f_ha := true; f_hr := true; f_ob := []; f_rob := []; f_st := []; f_rst := [] |}.
Definition dies_before_manifest_saved : faults :=
  {| f_fail := [36]; f_crash := None; f_ha := true; f_hr := true; f_ob := []; f_rob := []; f_st := []; f_rst := [] |}.
Definition interrupted_then_forced : list op :=
  [OpApply (tar_ex 2 PrevNone) no_opts swap_and_rollback_fail;    (* leaves artifact 0 new, artifact 1 old *)
   OpApply (tar_ex 2 PrevNone) force health_fails].               (* ForceRetry, health fails, auto-rollback "succeeds" *)

(* historical, fixed in 97a5489: a swap that was killed left <dir>/.<base>.new with mode 04755 behind; the next upgrade
   installed artifact 1, whose manifest entry has no mode, with 04755 instead of 0644 and reported success *)
Definition stale_setuid_at_1 : faults :=
  {| f_fail := []; f_crash := None; f_ha := true; f_hr := true; f_ob := []; f_rob := []; f_st := [(1, 2541)]; f_rst := [] |}.
Theorem C18_pre_97a5489_stale_staging_file_refuted :
  exists w' m, step repaired (init_world_pre_97a5489 1 fs_ex) (OpApply (tar_ex 2 PrevNone) no_opts stale_setuid_at_1) = (w', (ROk, m)) /\
               m = MonMixed /\ ofile_eqb (fs w' 1) (Some (Reg 21 2541)) = true.
Proof. do 2 eexists. split; [vm_compute; reflexivity|]. split; [reflexivity|vm_compute; reflexivity]. Qed.
Print Assumptions C18_pre_97a5489_stale_staging_file_refuted.

(* with the repair the leftover is discarded: 0644 as documented *)
Example C18_nonvacuous_stale_staging_file :
  exists w' m, step repaired (reach 1 fs_ex []) (OpApply (tar_ex 2 PrevNone) no_opts stale_setuid_at_1) = (w', (ROk, m)) /\
               m = MonOk /\ ofile_eqb (fs w' 1) (Some (Reg 21 420)) = true.
Proof. do 2 eexists. split; [vm_compute; reflexivity|]. split; [reflexivity|vm_compute; reflexivity]. Qed.
Print Assumptions C18_nonvacuous_stale_staging_file.

(* historical, fixed in 31f4cb6: after the interrupted upgrade to version 2 replaced artifact 0,
   a ForceRetry with a version-5 tarball that installs only artifact 1 was admitted, completed and reported success;
   artifact 0 kept the version-2 bytes on a box whose current-manifest says 5 *)
Definition only_art1 : tarball :=
  {| t_to := 5; t_prev := PrevNone; t_sig_ok := true; t_members_ok := true; t_digest_ok := true; t_hook_ok := true;
     t_arts := [ {| a_path := 1; a_content := 31; a_mode := MEmpty; a_vpp := false |} ] |}.
Definition start_fails_twice : faults :=   (* daemon start fails, the auto-rollback cannot stop the daemon *)
  {| f_fail := [8; 12]; f_crash := None; f_ha := true; f_hr := true; f_ob := []; f_rob := []; f_st := []; f_rst := [] |}.
Theorem C18_success_leaves_no_residue_refuted :
  exists w1 w' m, exec pre_31f4cb6 (init_world 1 fs_ex) [OpApply (tar_ex 2 PrevNone) no_opts start_fails_twice] = w1 /\
    step pre_31f4cb6 w1 (OpApply only_art1 force no_faults) = (w', (ROk, m)) /\ m = MonMixed /\ cur w' = 5 /\
    ofile_eqb (fs w' 0) (Some (Reg 20 493)) = true /\ ofile_eqb (fs w' 1) (Some (Reg 31 420)) = true.
Proof.
  do 3 eexists. split; [reflexivity|]. split; [vm_compute; reflexivity|]. split; [reflexivity|].
  split; [vm_compute; reflexivity|]. split; vm_compute; reflexivity.
Qed.
Print Assumptions C18_success_leaves_no_residue_refuted.

(* the repaired model refuses that tarball and changes nothing *)
Example C18_nonvacuous_residue_refused :
  exists w1, reach 1 fs_ex [OpApply (tar_ex 2 PrevNone) no_opts start_fails_twice] = w1 /\ resume w1 = true /\
             admits only_art1 force w1 = true /\ snd (apply repaired only_art1 force no_faults w1) = RErr.
Proof. eexists. split; [reflexivity|]. split; [vm_compute; reflexivity|]. split; vm_compute; reflexivity. Qed.
Print Assumptions C18_nonvacuous_residue_refused.

(* historical, fixed in b6afef3: the ForceRetry apply re-snapshotted the mixed tree; its auto-rollback reported
   success with artifact 0 still at the new bytes — a mixture against the baseline (tree before attempt 1) *)
Theorem C18_forceretry_rebase_refuted :
  exists w' m, last (run pre_b6afef3 (init_world 1 fs_ex) interrupted_then_forced) (init_world 1 fs_ex, (RErr, MonNone))
               = (w', (RErrRolledBack, m)) /\ m = MonMixed /\ ofile_eqb (fs w' 0) (Some (Reg 20 493)) = true.
Proof. do 2 eexists. split; [vm_compute; reflexivity|]. split; vm_compute; reflexivity. Qed.
Print Assumptions C18_forceretry_rebase_refuted.

(* historical, fixed in ca3a3f9: saveCurrentManifest fails (or the process dies) after Snapshot(); Rollback accepted
   the journal at "started", found no saved manifest and deleted current-manifest.yaml (cur = NOVER), reporting success *)
Theorem C18_rollback_without_snapshot_refuted :
  exists w1 w', apply pre_b6afef3 (tar_ex 2 PrevNone) no_opts dies_before_manifest_saved (init_world 1 fs_ex) = (w1, RErr) /\
                rollback_flow pre_b6afef3 no_faults w1 = (w', RbOk) /\ cur w' = NOVER /\ ver_restored w' = MonMixed.
Proof. do 2 eexists. split; [vm_compute; reflexivity|]. split; [vm_compute; reflexivity|]. split; vm_compute; reflexivity. Qed.
Print Assumptions C18_rollback_without_snapshot_refuted.

(* historical, fixed in 88f69f7: a failed apply whose auto-rollback "succeeded" has lost the setuid bit of artifact 0 *)
Theorem C18_failed_apply_restored_refuted :
  exists w', apply pre_88f69f7 (tar_ex 2 PrevNone) no_opts health_fails (init_world 1 fs_ex) = (w', RErrRolledBack) /\
             fs w' 0 <> fs_ex 0.
Proof. eexists. split; [vm_compute; reflexivity|vm_compute; discriminate]. Qed.
Print Assumptions C18_failed_apply_restored_refuted.

(* historical, fixed in f4d379f: upgrade 1 -> 2, roll back, and a tarball that declares predecessor 2 is installed on the
   version-1 tree *)
Theorem C18_wrong_predecessor_refuted :
  exists w', exec pre_88f69f7 (init_world 1 fs_ex)
               [OpApply (tar_ex 2 PrevNone) no_opts no_faults; OpRollback no_faults] = w' /\
             g_inst w' = 1 /\ cur w' = 2 /\
             snd (apply pre_88f69f7 (tar_ex 3 (Prev 2 true)) no_opts no_faults w') = ROk.
Proof. eexists. split; [reflexivity|]. split; [vm_compute; reflexivity|]. split; vm_compute; reflexivity. Qed.
Print Assumptions C18_wrong_predecessor_refuted.

(* --- non-vacuity ----------------------------------------------------------------------- *)
Example C18_nonvacuous_success :
  exists w', apply repaired (tar_ex 2 (Prev 1 true)) no_opts no_faults (reach 1 fs_ex []) = (w', ROk).
Proof. eexists. vm_compute. reflexivity. Qed.
Print Assumptions C18_nonvacuous_success.

Example C18_nonvacuous_auto_rollback :
  exists w', apply repaired (tar_ex 2 PrevNone) no_opts health_fails (reach 1 fs_ex []) = (w', RErrRolledBack) /\
  ofile_eqb (fs w' 0) (Some (Reg 10 2541)) = true.
Proof. eexists. vm_compute. split; reflexivity. Qed.
Print Assumptions C18_nonvacuous_auto_rollback.

(* the ForceRetry scenario in the repaired model: the kept snapshot brings back the tree before attempt 1,
   and C18_rollback_can_succeed's hypotheses hold in the interrupted state *)
Example C18_nonvacuous_forceretry :
  exists w1 base gi w' m,
    reach 1 fs_ex [OpApply (tar_ex 2 PrevNone) no_opts swap_and_rollback_fail] = w1 /\
    g_base w1 = Some (true, base, gi) /\ resume w1 = true /\
    ofile_eqb (fs w1 0) (Some (Reg 20 493)) = true /\ ofile_eqb (fs w1 1) (Some (Reg 11 420)) = true /\
    (forall p f0, In (p, f0) base -> fs w1 p <> Some Dir) /\
    step repaired w1 (OpApply (tar_ex 2 PrevNone) force health_fails) = (w', (RErrRolledBack, m)) /\ m = MonOk /\
    ofile_eqb (fs w' 0) (Some (Reg 10 2541)) = true /\ ofile_eqb (fs w' 1) (Some (Reg 11 420)) = true /\ cur w' = 1.
Proof.
  do 5 eexists. split; [reflexivity|]. split; [vm_compute; reflexivity|]. split; [vm_compute; reflexivity|].
  split; [vm_compute; reflexivity|]. split; [vm_compute; reflexivity|].
  split; [intros p f0 [H|[H|[]]]; inversion H; subst; vm_compute; discriminate|].
  split; [vm_compute; reflexivity|]. split; [reflexivity|]. split; [vm_compute; reflexivity|].
  split; vm_compute; reflexivity.
Qed.
Print Assumptions C18_nonvacuous_forceretry.

(* death between WriteCurrentManifest and the "completed" phase write, then rollback *)
Example C18_nonvacuous_death_after_commit :
  exists w1 w' m,
    apply repaired (tar_ex 2 PrevNone) no_opts dies_after_commit (reach 1 fs_ex []) = (w1, RCrash) /\ cur w1 = 2 /\
    option_map j_phase (jr w1) = Some PDaemonStarted /\
    step repaired w1 (OpRollback no_faults) = (w', (RRbOk, m)) /\ cur w' = 1 /\
    ofile_eqb (fs w' 0) (Some (Reg 10 2541)) = true.
Proof.
  do 3 eexists. split; [vm_compute; reflexivity|]. split; [vm_compute; reflexivity|]. split; [vm_compute; reflexivity|].
  split; [vm_compute; reflexivity|]. split; vm_compute; reflexivity.
Qed.
Print Assumptions C18_nonvacuous_death_after_commit.

(* saveCurrentManifest fails after Snapshot (= what a death between the two leaves): the repaired Rollback refuses, nothing changes; a
   ForceRetry then upgrades normally *)
Example C18_nonvacuous_death_before_manifest_saved :
  exists w1 w2,
    apply repaired (tar_ex 2 PrevNone) no_opts dies_before_manifest_saved (reach 1 fs_ex []) = (w1, RErr) /\
    rollback_flow repaired no_faults w1 = (w1, RbErr) /\ cur w1 = 1 /\
    apply repaired (tar_ex 2 PrevNone) force no_faults w1 = (w2, ROk).
Proof.
  do 2 eexists. split; [vm_compute; reflexivity|]. split; [vm_compute; reflexivity|].
  split; vm_compute; reflexivity.
Qed.
Print Assumptions C18_nonvacuous_death_before_manifest_saved.

(* non-vacuity: the process died mid-swap; a ForceRetry of the same tarball meets the premises and completes *)
Example C18_nonvacuous_retry_completes :
  exists w1 w',
    reach 1 fs_ex [OpApply (tar_ex 2 PrevNone) no_opts dies_mid_swap; OpClear] = w1 /\ resume w1 = true /\
    quiet_apply (tar_ex 2 PrevNone) no_faults /\ (forall p, obst w1 p = None) /\
    apply repaired (tar_ex 2 PrevNone) force no_faults w1 = (w', ROk) /\
    ofile_eqb (fs w' 0) (Some (Reg 20 493)) = true /\ ofile_eqb (fs w' 1) (Some (Reg 21 420)) = true.
Proof.
  do 2 eexists. split; [reflexivity|]. split; [vm_compute; reflexivity|].
  split; [repeat split; intros a [<-|[<-|[]]]; discriminate|]. split; [intros p; vm_compute; reflexivity|].
  split; [vm_compute; reflexivity|]. split; vm_compute; reflexivity.
Qed.
Print Assumptions C18_nonvacuous_retry_completes.

Example C18_nonvacuous_inadmissible :
  inadmissible (tar_ex 3 (Prev 2 true)) (init_world 1 fs_ex) /\
  inadmissible {| t_to := 2; t_prev := PrevNone; t_sig_ok := false; t_members_ok := true; t_digest_ok := true;
                  t_hook_ok := true; t_arts := arts_ex |} (init_world 1 fs_ex) /\
  inadmissible {| t_to := 2; t_prev := PrevNone; t_sig_ok := true; t_members_ok := false; t_digest_ok := true;
                  t_hook_ok := true; t_arts := arts_ex |} (init_world 1 fs_ex) /\
  inadmissible {| t_to := 2; t_prev := PrevNone; t_sig_ok := true; t_members_ok := true; t_digest_ok := false;
                  t_hook_ok := true; t_arts := arts_ex |} (init_world 1 fs_ex).
Proof.
  split; [right; right; right; exists 2, true; split; [reflexivity|right; discriminate]|].
  split; [left; reflexivity|]. split; [right; right; left; reflexivity|right; left; reflexivity].
Qed.
Print Assumptions C18_nonvacuous_inadmissible.

(* symlinked install paths: links resolve as before after the auto-rollback, the outside file was never written *)
Definition fs_links : path -> option file :=
  fun p => if N.eqb p 0 then Some (Sym 100) else if N.eqb p 1 then Some (Sym 101)
           else if N.eqb p 3 then Some (Reg 13 420) else if N.eqb p 100 then Some (Reg 50 420)
           else if N.eqb p 101 then Some (Sym 3) else None.
Example C18_nonvacuous_resolved :
  exists w',
    apply repaired (tar_ex 2 PrevNone) no_opts health_fails (reach 1 fs_links []) = (w', RErrRolledBack) /\
    resolve (fs w') 0 16 = Some 50 /\ resolve (fs w') 1 16 = Some 13 /\
    ofile_eqb (fs w' 0) (Some (Sym 100)) = true /\ ofile_eqb (fs w' 100) (Some (Reg 50 420)) = true /\
    mon_resolved w' = MonOk.
Proof.
  eexists. split; [vm_compute; reflexivity|]. split; [vm_compute; reflexivity|]. split; [vm_compute; reflexivity|].
  split; [vm_compute; reflexivity|]. split; vm_compute; reflexivity.
Qed.
Print Assumptions C18_nonvacuous_resolved.

(* "../x", "/abs", "a/../../b", "..\x" are rejected; "a/./b//c" is accepted as a/b/c *)
Example C18_safe_entry_nonvacuous :
  safe_entry [46;46;47;120] = None /\ safe_entry [47;97;98;115] = None /\
  safe_entry [97;47;46;46;47;46;46;47;98] = None /\ safe_entry [46;46;92;120] = None /\
  safe_entry [97;47;46;47;98;47;47;99] = Some [[97];[98];[99]].
Proof. vm_compute. repeat split. Qed.
Print Assumptions C18_safe_entry_nonvacuous.
