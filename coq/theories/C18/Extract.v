From Coq Require Import Extraction ExtrOcamlBasic.
From OV Require Import Common.Base C18.Model.
Extraction Language OCaml.
Extraction "C18_model.ml" plan_ok step step_ver step_res resolve init_world init_world_pre_97a5489 safe_entry join_slash repaired pre_31f4cb6 pre_88f69f7 pre_b6afef3.
