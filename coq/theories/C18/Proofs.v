(* C18/Proofs.v — invariants and lemmas for the upgrade model. *)
From Coq Require Import ZifyBool ZifyNat ZifyN.
From OV Require Import Common.Base C18.Model.

Ltac inv H := inversion H; subst; clear H.
Ltac splits := repeat match goal with |- _ /\ _ => split end.
Arguments swap_artifact : simpl never.
Arguments set_phase : simpl never.
Arguments rollback_flow : simpl never.
Arguments do_snapshot : simpl never.
Arguments auto_rollback : simpl never.
Arguments post_swap : simpl never.
Arguments prune : simpl never.
Arguments vpp_seq : simpl never.
Arguments seq_oc : simpl never.
Arguments install_ob : simpl never.

(* ------------------------------------------------------------------ basic facts *)
Lemma upd_same {A} (f : N -> A) k x : upd f k x k = x.
Proof. unfold upd. now rewrite N.eqb_refl. Qed.
Lemma upd_other {A} (f : N -> A) k x q : q <> k -> upd f k x q = f q.
Proof. unfold upd. intros H. destruct (N.eqb_spec q k); [contradiction|reflexivity]. Qed.

Definition cur_of_curm (o : option ver) : ver := match o with Some c => c | None => NOVER end.
Lemma cur_of_curm_of k : cur_of_curm (curm_of k) = k.
Proof. unfold curm_of. destruct (N.eqb_spec k NOVER); simpl; congruence. Qed.
Lemma cur_restore_curm v w d : v_curm_fix v = true -> cur (restore_curm v w d) = cur_of_curm (s_curm d).
Proof. unfold restore_curm. intros ->. destruct (s_curm d); reflexivity. Qed.

Lemma file_eqb_refl f : file_eqb f f = true.
Proof. destruct f; simpl; rewrite ?N.eqb_refl; reflexivity. Qed.
Lemma ofile_eqb_refl f : ofile_eqb f f = true.
Proof. destruct f; simpl; [apply file_eqb_refl|reflexivity]. Qed.
Lemma file_eqb_eq a b : file_eqb a b = true -> a = b.
Proof.
  destruct a, b; simpl; try discriminate; intros H.
  - apply andb_prop in H as [H1 H2]. apply N.eqb_eq in H1, H2. now subst.
  - apply N.eqb_eq in H. now subst.
  - reflexivity.
Qed.
Lemma ofile_eqb_eq a b : ofile_eqb a b = true -> a = b.
Proof. destruct a, b; simpl; try discriminate; intros H; [f_equal; now apply file_eqb_eq|reflexivity]. Qed.

Lemma nodupb_NoDup l : nodupb l = true -> NoDup l.
Proof.
  induction l as [|x r IH]; simpl; intros H; [constructor|].
  apply andb_prop in H as [H1 H2]. constructor; [|auto].
  intros Hin. apply negb_true_iff in H1.
  assert (existsb (N.eqb x) r = true) by (apply existsb_exists; exists x; split; [exact Hin|apply N.eqb_refl]).
  congruence.
Qed.

(* ------------------------------------------------------------------ the frame:
   the parts of the world a later rollback relies on and that no swap / restore /
   phase change touches *)
Definition frame (w : world) :=
  (option_map j_from (jr w), option_map j_to (jr w), snaps w, g_base w, g_fs0 w, g_clean w, cfg_stage_fix w).

Definition frame4 (w : world) :=
  (option_map j_from (jr w), option_map j_to (jr w), snaps w, g_base w).
Lemma frame_frame4 w w' : frame w' = frame w -> frame4 w' = frame4 w.
Proof. unfold frame, frame4. intros H. injection H as -> -> -> -> _ _ _. reflexivity. Qed.

Definition kx (w : world) := (g_fs0 w, g_clean w).

Lemma kx_of_frame w w' : frame w' = frame w -> kx w' = kx w.
Proof. unfold frame, kx. intros H. injection H as _ _ _ _ -> -> _. reflexivity. Qed.
Lemma cfg_of_frame w w' : frame w' = frame w -> cfg_stage_fix w' = cfg_stage_fix w.
Proof. unfold frame. intros H. now injection H. Qed.

Lemma frame_set_phase w ph : frame (set_phase w ph) = frame w.
Proof. unfold set_phase, frame. destruct (jr w) eqn:E; simpl; rewrite ?E; reflexivity. Qed.
Lemma frame_set_fs w f : frame (set_fs w f) = frame w. Proof. reflexivity. Qed.
Lemma frame_set_obst w o : frame (set_obst w o) = frame w. Proof. reflexivity. Qed.
(* staging-name obstacles and leftovers appearing: nothing else moves *)
Lemma install_stale_same l : forall w,
  frame (install_stale w l) = frame w /\ cur (install_stale w l) = cur w /\ g_inst (install_stale w l) = g_inst w /\
  fs (install_stale w l) = fs w /\ jr (install_stale w l) = jr w.
Proof.
  induction l as [|[p m] r IH]; simpl; intros w; [auto|].
  destruct (IH (set_obst (set_stale w (upd (stale w) p (Some m))) (upd (obst w) p None))) as (A & B & C & D & E).
  rewrite A, B, C, D, E. auto.
Qed.
Definition installed (w : world) (l : list (path * bool)) (l2 : list (path * N)) : world := install_stale (with_obs w l) l2.
Lemma installed_same w l l2 :
  frame (installed w l l2) = frame w /\ cur (installed w l l2) = cur w /\ g_inst (installed w l l2) = g_inst w /\
  fs (installed w l l2) = fs w /\ jr (installed w l l2) = jr w.
Proof. unfold installed. destruct (install_stale_same l2 (with_obs w l)) as (A & B & C & D & E). rewrite A, B, C, D, E. auto. Qed.
Lemma frame_installed w l l2 : frame (install_stale (with_obs w l) l2) = frame w.
Proof. apply (installed_same w l l2). Qed.
Lemma frame_set_cur w c : frame (set_cur w c) = frame w. Proof. reflexivity. Qed.
Lemma frame_set_ginst w c : frame (set_ginst w c) = frame w. Proof. reflexivity. Qed.
Lemma frame_restore_curm v w d : frame (restore_curm v w d) = frame w.
Proof. unfold restore_curm. destruct (v_curm_fix v); [destruct (s_curm d)|]; reflexivity. Qed.
Lemma frame_restore_ginst w : frame (restore_ginst w) = frame w.
Proof. unfold restore_ginst. destruct (g_base w) as [[[[] ?] ?]|] eqn:E; reflexivity. Qed.

Lemma fs_set_phase w ph : fs (set_phase w ph) = fs w.
Proof. unfold set_phase. destruct (jr w) eqn:E; reflexivity. Qed.
Lemma fs_restore_curm v w d : fs (restore_curm v w d) = fs w.
Proof. unfold restore_curm. destruct (v_curm_fix v); [destruct (s_curm d)|]; reflexivity. Qed.
Lemma fs_restore_ginst w : fs (restore_ginst w) = fs w.
Proof. unfold restore_ginst. destruct (g_base w) as [[[[] ?] ?]|] eqn:E; reflexivity. Qed.
Lemma cur_restore_ginst w : cur (restore_ginst w) = cur w.
Proof. unfold restore_ginst. destruct (g_base w) as [[[[] ?] ?]|] eqn:E; reflexivity. Qed.
Lemma obst_set_phase w ph : obst (set_phase w ph) = obst w.
Proof. unfold set_phase. destruct (jr w) eqn:E; reflexivity. Qed.
Lemma cur_set_phase w ph : cur (set_phase w ph) = cur w.
Proof. unfold set_phase. destruct (jr w) eqn:E; reflexivity. Qed.
Lemma ginst_set_phase w ph : g_inst (set_phase w ph) = g_inst w.
Proof. unfold set_phase. destruct (jr w) eqn:E; reflexivity. Qed.

(* ------------------------------------------------------------------ SwapArtifact *)
Lemma swap_artifact_frame w src p m w' b :
  swap_artifact w src p m = (w', b) -> frame w' = frame w /\ cur w' = cur w /\ g_inst w' = g_inst w.
Proof.
  unfold swap_artifact. intros H.
  destruct src; [destruct (obst w p)|]; [inv H; auto| |inv H; auto].
  destruct (staged_mode w p m); [|inv H; auto].
  destruct (fs w p) as [[| |]|]; inv H; auto.
Qed.

(* a swap that succeeds installs the bytes; the mode is the manifest's — unless a stale staging file is reused
   (only possible without the repair, and only visible when the manifest gives no mode) *)
Lemma swap_artifact_ok w src p m w' :
  swap_artifact w src p m = (w', true) ->
  exists c mm, src = Some c /\ (cfg_stage_fix w = true \/ m <> MEmpty -> new_mode m = Some mm) /\
               fs w' = upd (fs w) p (Some (Reg c mm)) /\ obst w' = obst w.
Proof.
  unfold swap_artifact. intros H.
  destruct src as [c|]; [destruct (obst w p)|]; [inv H| |inv H].
  destruct (staged_mode w p m) as [mm|] eqn:Em; [|inv H].
  exists c, mm. split; [reflexivity|]. split.
  - intros Hc. unfold staged_mode in Em. destruct Hc as [Hc|Hc]; [now rewrite Hc in Em|].
    destruct (if cfg_stage_fix w then None else stale w p); [destruct m; congruence|assumption].
  - destruct (fs w p) as [[| |]|]; inv H; auto.
Qed.

(* a swap that fails leaves every artifact as it was *)
Lemma swap_artifact_fail_fs w src p m w' :
  swap_artifact w src p m = (w', false) -> fs w' = fs w.
Proof.
  unfold swap_artifact. intros H.
  destruct src; [destruct (obst w p)|]; [inv H; auto| |inv H; auto].
  destruct (staged_mode w p m); [|inv H; auto].
  destruct (fs w p) as [[| |]|]; inv H; auto.
Qed.

Lemma cfg_set_phase w ph : cfg_stage_fix (set_phase w ph) = cfg_stage_fix w.
Proof. apply cfg_of_frame, frame_set_phase. Qed.

(* ------------------------------------------------------------------ swap loop *)
Lemma swap_loop_frame arts : forall w w' b,
  swap_loop w arts = (w', b) -> frame w' = frame w /\ cur w' = cur w /\ g_inst w' = g_inst w.
Proof.
  induction arts as [|a r IH]; simpl; intros w w' b H; [inv H; auto|].
  destruct (swap_artifact _ _ _ _) as [w2 ok] eqn:E.
  apply swap_artifact_frame in E as (E1 & E2 & E3).
  rewrite frame_set_phase in E1. rewrite cur_set_phase in E2. rewrite ginst_set_phase in E3.
  destruct ok.
  - apply IH in H as (H1 & H2 & H3).
    rewrite frame_set_phase in H1. rewrite cur_set_phase in H2. rewrite ginst_set_phase in H3.
    repeat split; congruence.
  - inv H. auto.
Qed.

Lemma swap_loop_ok arts : forall w w',
  swap_loop w arts = (w', true) -> NoDup (map a_path arts) -> cfg_stage_fix w = true ->
  (forall a, In a arts -> exists mm, new_mode (a_mode a) = Some mm /\
                                     fs w' (a_path a) = Some (Reg (a_content a) mm)) /\
  (forall p, ~ In p (map a_path arts) -> fs w' p = fs w p).
Proof.
  induction arts as [|a r IH]; simpl; intros w w' H Hnd Hcfg.
  - inv H. split; [intros ? []|auto].
  - destruct (swap_artifact _ _ _ _) as [w2 ok] eqn:E. destruct ok; [|discriminate].
    pose proof (swap_artifact_frame _ _ _ _ _ _ E) as (Ef & _ & _).
    apply swap_artifact_ok in E as (c & mm & Hc & Hm & Hfs & _). inv Hc.
    assert (Hm' : new_mode (a_mode a) = Some mm) by (apply Hm; left; now rewrite cfg_set_phase).
    clear Hm. rename Hm' into Hm.
    apply NoDup_cons_iff in Hnd as [Hn1 Hn2]. apply IH in H as [I1 I2]; [|assumption|].
    2:{ rewrite cfg_set_phase, (cfg_of_frame _ _ Ef), cfg_set_phase. exact Hcfg. }
    rewrite fs_set_phase, Hfs, fs_set_phase in I2.
    split.
    + intros a' [<-|Hin]; [|auto].
      exists mm. split; [assumption|]. rewrite I2 by assumption. apply upd_same.
    + intros p Hp. rewrite I2 by tauto. apply upd_other. intros ->. tauto.
Qed.

(* ------------------------------------------------------------------ snapshot *)
Definition kind_matches (v : variant) (bak : path -> option content) (p : path) (e : entry) (f : option file) : Prop :=
  match f with
  | None => e_kind e = EAbsent
  | Some (Sym t) => e_kind e = ESym t
  | Some (Reg c m) => e_kind e = EReg (rec_mode v m) /\ bak p = Some c
  | Some Dir => False
  end.

Definition entries_ok (v : variant) (bak : path -> option content) (es : list entry)
           (base : list (path * option file)) : Prop :=
  (forall e, In e es -> exists f, In (e_path e, f) base /\ kind_matches v bak (e_path e) e f) /\
  (forall p f, In (p, f) base -> exists e, In e es /\ e_path e = p).

Definition functional (l : list (path * option file)) : Prop :=
  forall p f f', In (p, f) l -> In (p, f') l -> f = f'.

Lemma snap_loop_bak v f arts : forall bak bak' r,
  snap_loop v f bak arts = (bak', r) ->
  forall q, bak' q = bak q \/ exists c m, f q = Some (Reg c m) /\ bak' q = Some c.
Proof.
  induction arts as [|a r IH]; simpl; intros bak bak' res H q; [inv H; auto|].
  destruct (f (a_path a)) as [[c m|t|]|] eqn:Ef.
  - destruct (snap_loop v f (upd bak (a_path a) (Some c)) r) as [b es] eqn:E. inv H.
    destruct (IH _ _ _ E q) as [Hq|Hq]; [|auto].
    destruct (N.eqb_spec q (a_path a)) as [->|Hne].
    + right. exists c, m. rewrite Hq, upd_same. auto.
    + left. rewrite Hq. now apply upd_other.
  - destruct (snap_loop v f bak r) as [b es] eqn:E. inv H. eauto.
  - inv H. auto.
  - destruct (snap_loop v f bak r) as [b es] eqn:E. inv H. eauto.
Qed.

Lemma snap_loop_ok v f arts : forall bak bak' es,
  snap_loop v f bak arts = (bak', Some es) ->
  entries_ok v bak' es (map (fun a => (a_path a, f (a_path a))) arts).
Proof.
  induction arts as [|a r IH]; simpl; intros bak bak' es H.
  - inv H. split; [intros ? []|intros ? ? []].
  - destruct (f (a_path a)) as [[c m|t|]|] eqn:Ef.
    + destruct (snap_loop v f (upd bak (a_path a) (Some c)) r) as [b [es'|]] eqn:E; inv H.
      pose proof (snap_loop_bak _ _ _ _ _ _ E (a_path a)) as Hb.
      destruct (IH _ _ _ E) as [I1 I2]. split.
      * intros e [<-|Hin].
        -- exists (Some (Reg c m)). simpl. split; [left; reflexivity|]. split; [reflexivity|].
           destruct Hb as [Hb|(c' & m' & Hf & Hb)]; [now rewrite Hb, upd_same|]. congruence.
        -- destruct (I1 e Hin) as (f0 & Hf0 & Hk). exists f0. split; [now right|assumption].
      * intros p f0 [Heq|Hin].
        -- inv Heq. eexists. split; [left; reflexivity|reflexivity].
        -- destruct (I2 p f0 Hin) as (e & He & Hp). exists e. split; [now right|assumption].
    + destruct (snap_loop v f bak r) as [b [es'|]] eqn:E; inv H.
      destruct (IH _ _ _ E) as [I1 I2]. split.
      * intros e [<-|Hin].
        -- exists (Some (Sym t)). simpl. split; [left; reflexivity|reflexivity].
        -- destruct (I1 e Hin) as (f0 & Hf0 & Hk). exists f0. split; [now right|assumption].
      * intros p f0 [Heq|Hin].
        -- inv Heq. eexists. split; [left; reflexivity|reflexivity].
        -- destruct (I2 p f0 Hin) as (e & He & Hp). exists e. split; [now right|assumption].
    + discriminate.
    + destruct (snap_loop v f bak r) as [b [es'|]] eqn:E; inv H.
      destruct (IH _ _ _ E) as [I1 I2]. split.
      * intros e [<-|Hin].
        -- exists None. simpl. split; [left; reflexivity|reflexivity].
        -- destruct (I1 e Hin) as (f0 & Hf0 & Hk). exists f0. split; [now right|assumption].
      * intros p f0 [Heq|Hin].
        -- inv Heq. eexists. split; [left; reflexivity|reflexivity].
        -- destruct (I2 p f0 Hin) as (e & He & Hp). exists e. split; [now right|assumption].
Qed.

Lemma base_of_functional w arts : functional (base_of w arts).
Proof.
  unfold functional, base_of. intros p f f' H1 H2.
  apply in_map_iff in H1 as (a1 & E1 & _). apply in_map_iff in H2 as (a2 & E2 & _).
  inv E1. inv E2. congruence.
Qed.

(* ------------------------------------------------------------------ restore *)
Definition normf (v : variant) (f : option file) : option file :=
  match f with Some (Reg c m) => Some (Reg c (rec_mode v m)) | x => x end.

Lemma normf_fixed v f : v_mode_fix v = true -> normf v f = f.
Proof. intros H. destruct f as [[| |]|]; simpl; unfold rec_mode; rewrite ?H; reflexivity. Qed.

Lemma restore_loop_frame d es : forall w w' b,
  restore_loop w d es = (w', b) -> frame w' = frame w /\ cur w' = cur w /\ g_inst w' = g_inst w.
Proof.
  induction es as [|e r IH]; simpl; intros w w' b H; [inv H; auto|].
  destruct (e_kind e).
  - apply IH in H. exact H.
  - apply IH in H. exact H.
  - destruct (swap_artifact _ _ _ _) as [w1 ok] eqn:E. apply swap_artifact_frame in E as (E1 & E2 & E3).
    destruct ok; [apply IH in H as (H1 & H2 & H3); repeat split; congruence|inv H; auto].
Qed.

Lemma restore_loop_ok v d base : functional base -> forall es w w',
  (forall e, In e es -> exists f, In (e_path e, f) base /\ kind_matches v (s_bak d) (e_path e) e f) ->
  restore_loop w d es = (w', true) ->
  (forall e f, In e es -> In (e_path e, f) base -> fs w' (e_path e) = normf v f) /\
  (forall p, ~ In p (map e_path es) -> fs w' p = fs w p).
Proof.
  intros Hfun. induction es as [|e r IH]; simpl; intros w w' Hes H.
  - inv H. split; [intros ? ? []|auto].
  - assert (Hr : forall e0, In e0 r -> exists f, In (e_path e0, f) base /\ kind_matches v (s_bak d) (e_path e0) e0 f)
      by (intros; apply Hes; now right).
    destruct (Hes e (or_introl eq_refl)) as (fe & Hfe & Hk).
    assert (Hstep : exists w1, restore_loop w1 d r = (w', true) /\ fs w1 = upd (fs w) (e_path e) (normf v fe)).
    { destruct (e_kind e) eqn:Ek.
      - destruct fe as [[| |]|]; simpl in Hk; rewrite ?Ek in Hk; try discriminate; try tauto.
        + destruct Hk; discriminate.
        + eexists. split; [exact H|reflexivity].
      - destruct fe as [[| |]|]; simpl in Hk; rewrite ?Ek in Hk; try discriminate; try tauto.
        + destruct Hk; discriminate.
        + inv Hk. eexists. split; [exact H|reflexivity].
      - destruct (swap_artifact _ _ _ _) as [w1 ok] eqn:E. destruct ok; [|discriminate].
        apply swap_artifact_ok in E as (c & mm & Hc & Hm & Hfs & _).
        destruct fe as [[c0 m0| |]|]; simpl in Hk; rewrite ?Ek in Hk; try discriminate; try tauto.
        destruct Hk as [Hk1 Hk2]. inv Hk1.
        assert (Hm' : new_mode (MFull (rec_mode v m0)) = Some mm) by (apply Hm; right; discriminate).
        simpl in Hm'. inv Hm'.
        exists w1. split; [exact H|]. rewrite Hfs. simpl. congruence. }
    destruct Hstep as (w1 & Hrest & Hfs1).
    destruct (IH _ _ Hr Hrest) as [I1 I2].
    split.
    + intros e0 f0 [<-|Hin] Hb.
      * assert (f0 = fe) by (eapply Hfun; eauto). subst f0.
        destruct (in_dec N.eq_dec (e_path e) (map e_path r)) as [Hi|Hni].
        -- apply in_map_iff in Hi as (e1 & Hp & Hi1). rewrite <- Hp. apply I1; [assumption|]. now rewrite Hp.
        -- rewrite I2 by assumption. rewrite Hfs1. apply upd_same.
      * now apply I1.
    + intros p Hp. rewrite I2 by tauto. rewrite Hfs1. apply upd_other. intros ->. tauto.
Qed.

(* ------------------------------------------------------------------ the snapshot invariant *)
Definition snap_ok (v : variant) (w : world) (base : list (path * option file)) (vi : ver) : Prop :=
  exists d nv es,
    option_map j_from (jr w) = Some vi /\ snaps w vi = Some d /\ s_meta d = Some (nv, es) /\
    entries_ok v (s_bak d) es base /\ functional base /\
    (v_curm_fix v = true -> s_curm d = curm_of vi).

Definition Inv0 (v : variant) (w : world) : Prop :=
  match g_base w with
  | Some (true, base, _) => exists fr, snap_ok v w base fr
  | Some (false, _, _) => option_map j_phase (jr w) = Some PStarted   (* nothing modified yet *)
  | None => jr w = None
  end.

Lemma snap_ok_frame4 v w w' base vi : frame4 w' = frame4 w -> snap_ok v w base vi -> snap_ok v w' base vi.
Proof.
  unfold frame4, snap_ok. intros Hf (d & nv & es & H1 & H2 & H3). injection Hf as Ha Hb Hc Hd.
  exists d, nv, es. rewrite Ha, Hc. auto.
Qed.
Lemma snap_ok_frame v w w' base vi : frame w' = frame w -> snap_ok v w base vi -> snap_ok v w' base vi.
Proof. intros H. apply snap_ok_frame4. now apply frame_frame4. Qed.

(* Inv0 survives anything that keeps the frame, provided the journal is untouched or a snapshot is recorded *)
Lemma Inv_frame4 v w w' : frame4 w' = frame4 w ->
  (jr w' = jr w \/ exists b gi, g_base w = Some (true, b, gi)) -> Inv0 v w -> Inv0 v w'.
Proof.
  unfold Inv0. intros Hf Hj. assert (Hg : g_base w' = g_base w) by (unfold frame4 in Hf; now injection Hf).
  rewrite Hg. destruct (g_base w) as [[[[] base] vi]|] eqn:Eg.
  - intros [fr Hs]. exists fr. now apply (snap_ok_frame4 v w w').
  - destruct Hj as [->|(b & gi & Hb)]; [auto|discriminate].
  - destruct Hj as [->|(b & gi & Hb)]; [auto|discriminate].
Qed.
Lemma Inv_frame v w w' : frame w' = frame w ->
  (jr w' = jr w \/ exists b gi, g_base w = Some (true, b, gi)) -> Inv0 v w -> Inv0 v w'.
Proof. intros H. apply Inv_frame4. now apply frame_frame4. Qed.

(* ------------------------------------------------------------------ rollback *)
Lemma rollback_frame v F w w' r :
  rollback_flow v F w = (w', r) -> frame w' = frame w.
Proof.
  unfold rollback_flow. intros H.
  destruct (jr w) as [j|] eqn:Ej; [|now inv H].
  destruct (v_stale_fix v && phase_started (j_phase j)); [now inv H|].
  destruct (snaps w (j_from j)) as [d|]; [|now inv H].
  destruct (s_meta d) as [[nv es]|]; [|now inv H].
  destruct (seq_oc _); try (now inv H).
  destruct (restore_loop _ _ _) as [w2 ok] eqn:Er.
  apply restore_loop_frame in Er as (Er & _). rewrite frame_installed in Er.
  destruct ok; simpl in H; [|inv H; now rewrite frame_set_phase].
  destruct (if nv then vpp_seq F 10 else OGo);
    [destruct (seq_oc _); [destruct (f_hr F)| |]| |];
    inv H; rewrite ?frame_set_phase, ?frame_restore_ginst, ?frame_restore_curm; assumption.
Qed.

Lemma rollback_ok_restores v F w w' base vi :
  snap_ok v w base vi -> rollback_flow v F w = (w', RbOk) ->
  (forall p f, In (p, f) base -> fs w' p = normf v f) /\
  (v_curm_fix v = true -> cur w' = vi).
Proof.
  intros (d & nv & es & H1 & H2 & H3 & [E1 E2] & Hfun & Hc) H.
  unfold rollback_flow in H.
  destruct (jr w) as [j|] eqn:Ej; [|discriminate]. simpl in H1. inv H1.
  destruct (v_stale_fix v && phase_started (j_phase j)); [discriminate|].
  rewrite H2, H3 in H.
  destruct (seq_oc _); try discriminate.
  destruct (restore_loop _ _ _) as [w2 ok] eqn:Er.
  destruct ok; simpl in H; [|discriminate].
  assert (Hes : forall e, In e (rev es) -> exists f, In (e_path e, f) base /\ kind_matches v (s_bak d) (e_path e) e f)
    by (intros e He; apply E1; now apply in_rev).
  destruct (restore_loop_ok v d base Hfun _ _ _ Hes Er) as [R1 _].
  assert (Hfs : forall p f, In (p, f) base -> fs w2 p = normf v f).
  { intros p f Hin. destruct (E2 p f Hin) as (e & He & <-). apply R1; [now apply in_rev in He|assumption]. }
  assert (Hcur : v_curm_fix v = true -> cur (restore_ginst (restore_curm v w2 d)) = j_from j).
  { intros Hv. rewrite cur_restore_ginst, (cur_restore_curm _ _ _ Hv), (Hc Hv). apply cur_of_curm_of. }
  destruct (if nv then vpp_seq F 10 else OGo); try discriminate.
  destruct (seq_oc _); try discriminate.
  destruct (f_hr F); inv H.
  rewrite fs_set_phase, fs_restore_ginst, fs_restore_curm, cur_set_phase. auto.
Qed.

(* ------------------------------------------------------------------ apply *)

Lemma gbase_of_frame w w' : frame w' = frame w -> g_base w' = g_base w.
Proof. unfold frame. intros H. now injection H. Qed.

Lemma auto_rollback_spec v F w w' r base vi :
  auto_rollback v F w = (w', r) -> snap_ok v w base vi ->
  frame w' = frame w /\ r <> ROk /\ r <> RErr /\
  (r = RErrRolledBack -> (forall p f, In (p, f) base -> fs w' p = normf v f) /\
                         (v_curm_fix v = true -> cur w' = vi)).
Proof.
  unfold auto_rollback. intros H Hs.
  destruct (crash_at F 52); [inv H; split; [reflexivity|]; split; [discriminate|]; split; discriminate|].
  destruct (rollback_flow v F w) as [w1 rr] eqn:E.
  pose proof (rollback_frame _ _ _ _ _ E) as Hf.
  destruct rr; inv H.
  - split; [assumption|]. split; [discriminate|]. split; [discriminate|].
    intros _. eapply rollback_ok_restores; eauto.
  - rewrite frame_set_phase. split; [assumption|]. split; [discriminate|]. split; discriminate.
  - split; [assumption|]. split; [discriminate|]. split; discriminate.
Qed.

Lemma snap_ok_prune v w base vi : snap_ok v w base vi -> snap_ok v (prune w vi) base vi.
Proof.
  intros (d & nv & es & H1 & H2 & H3). exists d, nv, es. unfold prune. simpl.
  rewrite N.eqb_refl. auto.
Qed.

Definition post_ok (v : variant) (T : tarball) (from : ver) (base : list (path * option file))
           (w7 w' : world) (r : res) : Prop :=
  Inv0 v w' /\ g_base w' = g_base w7 /\ r <> RErr /\
  (r = ROk -> fs w' = fs w7 /\ cur w' = t_to T /\ g_inst w' = t_to T /\
              option_map j_phase (jr w') = Some PCompleted) /\
  (r = RErrRolledBack -> (forall p f, In (p, f) base -> fs w' p = normf v f) /\
                         (v_curm_fix v = true -> cur w' = from)).

Lemma post_swap_spec v T F from w7 w' r base gi :
  post_swap v T F from w7 = (w', r) ->
  g_base w7 = Some (true, base, gi) -> snap_ok v w7 base from ->
  post_ok v T from base w7 w' r.
Proof.
  unfold post_swap. intros H Hg Hs.
  assert (Hinv : forall wx, frame wx = frame w7 -> Inv0 v wx /\ g_base wx = g_base w7).
  { intros wx Hf. split; [|now apply gbase_of_frame].
    unfold Inv0. rewrite (gbase_of_frame _ _ Hf), Hg. exists from. eapply snap_ok_frame; eauto. }
  assert (Hcrash : forall wx, frame wx = frame w7 -> post_ok v T from base w7 wx RCrash).
  { intros wx Hf. destruct (Hinv wx Hf). unfold post_ok. splits; auto; discriminate. }
  assert (Hauto : forall wa, frame wa = frame w7 -> auto_rollback v F wa = (w', r) ->
                             post_ok v T from base w7 w' r).
  { intros wa Hfa Ha.
    destruct (auto_rollback_spec v F wa w' r base from Ha) as (A1 & A2 & A3 & A4).
    { eapply snap_ok_frame; eauto. }
    destruct (Hinv w') as [I1 I2]; [congruence|].
    unfold post_ok. splits; auto. intros; contradiction. }
  destruct (if needs_vpp (t_arts T) then vpp_seq F 0 else OGo).
  2:{ eapply Hauto; [|exact H]. now rewrite frame_set_phase. }
  2:{ inv H. now apply Hcrash. }
  destruct (seq_oc _).
  2:{ eapply Hauto; [|exact H]. now rewrite frame_set_phase. }
  2:{ inv H. now apply Hcrash. }
  destruct (crash_at F 31).
  { inv H. apply Hcrash, frame_set_phase. }
  destruct (f_ha F); simpl in H.
  2:{ destruct (crash_at F 53).
      - inv H. apply Hcrash, frame_set_phase.
      - eapply Hauto; [|exact H]. now rewrite !frame_set_phase. }
  destruct (crash_at F 32).
  { inv H. apply Hcrash, frame_set_phase. }
  destruct (crash_at F 35).
  { inv H. apply Hcrash. rewrite frame_set_ginst, frame_set_cur. apply frame_set_phase. }
  set (w9 := set_phase (set_ginst (set_cur (set_phase w7 PDaemonStarted) (t_to T)) (t_to T)) PCompleted) in *.
  assert (F9 : frame w9 = frame w7).
  { unfold w9. rewrite frame_set_phase, frame_set_ginst, frame_set_cur, frame_set_phase. reflexivity. }
  assert (P9 : option_map j_phase (jr w9) = Some PCompleted).
  { destruct Hs as (d & nv & es & H1 & _). unfold w9, set_phase at 1. simpl.
    destruct (jr (set_phase w7 PDaemonStarted)) eqn:Ej; [reflexivity|].
    unfold set_phase in Ej. destruct (jr w7); simpl in *; discriminate. }
  destruct (crash_at F 33).
  { inv H. now apply Hcrash. }
  assert (G10 : g_base (prune w9 from) = g_base w7).
  { unfold prune; simpl. now apply gbase_of_frame. }
  assert (I10 : Inv0 v (prune w9 from)).
  { unfold Inv0. rewrite G10, Hg. exists from. apply snap_ok_prune. eapply snap_ok_frame; eauto. }
  assert (Hfs : fs (prune w9 from) = fs w7).
  { unfold prune, w9. simpl. rewrite fs_set_phase. simpl. apply fs_set_phase. }
  destruct (crash_at F 34); inv H; unfold post_ok; splits; auto; try discriminate.
  intros _. splits; auto.
  - unfold prune, w9. simpl. rewrite cur_set_phase. reflexivity.
  - unfold prune, w9. simpl. rewrite ginst_set_phase. reflexivity.
Qed.

(* ---- stage 6 onwards ---- *)
Definition as_post (v : variant) (T : tarball) (base : list (path * option file)) (jf : ver)
           (w2 w' : world) (r : res) : Prop :=
  (exists fr, snap_ok v w' base fr) /\ g_base w' = g_base w2 /\
  (r = ROk -> (forall a, In a (t_arts T) -> exists mm, new_mode (a_mode a) = Some mm /\
                          fs w' (a_path a) = Some (Reg (a_content a) mm)) /\
              cur w' = t_to T /\ g_inst w' = t_to T /\
              option_map j_phase (jr w') = Some PCompleted) /\
  (r = RErrRolledBack -> (forall p f, In (p, f) base -> fs w' p = normf v f) /\
                         (v_curm_fix v = true -> cur w' = jf)) /\
  (r = RErr -> fs w' = fs w2 /\ cur w' = cur w2).

Lemma after_snapshot_spec v T F jf w2 w' r base gi :
  after_snapshot v T F jf w2 = (w', r) -> NoDup (map a_path (t_arts T)) ->
  g_base w2 = Some (true, base, gi) -> snap_ok v w2 base jf -> cfg_stage_fix w2 = true -> as_post v T base jf w2 w' r.
Proof.
  unfold after_snapshot. intros H Hnd Hg2 Hs2 Hcfg.
  assert (Hmid : forall wx rr, frame wx = frame w2 -> rr = RCrash \/ (rr = RErr /\ fs wx = fs w2 /\ cur wx = cur w2) ->
                               as_post v T base jf w2 wx rr).
  { intros wx rr Hf Hr. unfold as_post. splits.
    - exists jf. eapply snap_ok_frame; eauto.
    - now apply gbase_of_frame.
    - intros ->. destruct Hr as [|[? _]]; discriminate.
    - intros ->. destruct Hr as [|[? _]]; discriminate.
    - intros ->. destruct Hr as [|[_ ?]]; [discriminate|assumption]. }
  destruct (crash_at F 26); [inv H; apply Hmid; auto|].
  destruct (t_hook_ok T); simpl in H; [|inv H; apply Hmid; auto].
  destruct (seq_oc _);
    [|inv H; apply Hmid; [apply frame_set_phase|right; rewrite fs_set_phase, cur_set_phase; auto]
     |inv H; apply Hmid; [apply frame_set_phase|auto]].
  destruct (seq_oc _);
    [|inv H; apply Hmid; [now rewrite !frame_set_phase|right; rewrite !fs_set_phase, !cur_set_phase; auto]
     |inv H; apply Hmid; [now rewrite !frame_set_phase|auto]].
  destruct (crash_at F 29); [inv H; apply Hmid; [now rewrite !frame_set_phase|auto]|].
  destruct (swap_loop _ _) as [w7 sok] eqn:Esw.
  pose proof (swap_loop_frame _ _ _ _ Esw) as (F7 & C7 & G7).
  rewrite frame_installed, !frame_set_phase in F7.
  destruct sok; simpl in H.
  - apply swap_loop_ok in Esw as [Sw1 Sw2]; [|assumption|].
    2:{ rewrite (cfg_of_frame _ _ (frame_installed _ _ _)), !cfg_set_phase. exact Hcfg. }
    apply (post_swap_spec v T F jf w7 w' r base gi) in H.
    + destruct H as (P1 & P2 & P3 & P4 & P5). unfold as_post. splits; auto.
      * unfold Inv0 in P1. rewrite P2, (gbase_of_frame _ _ F7), Hg2 in P1. exact P1.
      * rewrite P2. now apply gbase_of_frame.
      * intros Hr. destruct (P4 Hr) as (Q1 & Q2 & Q3 & Q4). splits; auto.
        intros a Ha. rewrite Q1. now apply Sw1.
      * intros Hr. contradiction.
    + rewrite (gbase_of_frame _ _ F7). exact Hg2.
    + eapply snap_ok_frame; eauto.
  - destruct (crash_at F 51); [inv H; apply Hmid; auto|].
    destruct (auto_rollback_spec v F _ w' r base jf H) as (A1 & A2 & A3 & A4).
    { eapply snap_ok_frame; [|exact Hs2]. now rewrite frame_set_phase. }
    rewrite frame_set_phase in A1.
    unfold as_post. splits.
    + exists jf. eapply snap_ok_frame; [|exact Hs2]. congruence.
    + apply gbase_of_frame. congruence.
    + intros Hr; contradiction.
    + intros Hr. destruct (A4 Hr). splits; eauto.
    + intros Hr; contradiction.
Qed.

(* ---- the whole apply, relative to a baseline (base, bv) and the snapshot key jf ---- *)
Definition apply_post (v : variant) (T : tarball) (base : list (path * option file)) (bv jf : ver)
           (w w' : world) (r : res) : Prop :=
  Inv0 v w' /\
  (r = ROk -> (forall a, In a (t_arts T) -> exists mm, new_mode (a_mode a) = Some mm /\
                          fs w' (a_path a) = Some (Reg (a_content a) mm)) /\
              cur w' = t_to T /\ g_inst w' = t_to T /\
              option_map j_phase (jr w') = Some PCompleted /\
              g_base w' = Some (true, base, bv) /\
              (v_same_fix v = true -> forall p f, In (p, f) base -> In p (map a_path (t_arts T)))) /\
  (r = RErrRolledBack -> g_base w' = Some (true, base, bv) /\
                         (forall p f, In (p, f) base -> fs w' p = normf v f) /\
                         (v_curm_fix v = true -> cur w' = jf)) /\
  (r = RErr -> fs w' = fs w /\ cur w' = cur w) /\
  (forall b gi, g_base w' = Some (true, b, gi) -> b = base /\ gi = bv) /\
  (forall b gi, g_base w' = Some (false, b, gi) -> fs w' = fs w /\ cur w' = cur w).

Lemma as_post_apply_post v T base bv jf w w2 w' r :
  as_post v T base jf w2 w' r -> g_base w2 = Some (true, base, bv) -> fs w2 = fs w -> cur w2 = cur w ->
  (v_same_fix v = true -> forall p f, In (p, f) base -> In p (map a_path (t_arts T))) ->
  apply_post v T base bv jf w w' r.
Proof.
  intros (A1 & A2 & A3 & A4 & A5) Hg Hf Hc Hsub. unfold apply_post, Inv0. rewrite A2, Hg.
  split; [exact A1|]. split; [intros Hr; destruct (A3 Hr) as (B1 & B2 & B3 & B4); splits; auto|]. split; [|split; [|split]].
  - intros Hr. destruct (A4 Hr). splits; auto.
  - intros Hr. destruct (A5 Hr). split; congruence.
  - intros b gi Hb. now inv Hb.
  - intros b gi Hb. discriminate.
Qed.

Lemma do_snapshot_spec v w from arts w1 ok :
  do_snapshot v w from arts = (w1, ok) ->
  jr w1 = jr w /\ fs w1 = fs w /\ cur w1 = cur w /\ obst w1 = obst w /\ g_inst w1 = g_inst w /\
  g_base w1 = g_base w /\
  (ok = true -> exists d nv es, snaps w1 from = Some d /\ s_meta d = Some (nv, es) /\
                 entries_ok v (s_bak d) es (base_of w arts) /\
                 (v_curm_fix v = true -> s_curm d = curm_of (cur w))).
Proof.
  unfold do_snapshot. intros H.
  destruct (snap_loop _ _ _ _) as [b [l|]] eqn:E; inv H; splits; try reflexivity; try discriminate.
  intros _. simpl. rewrite upd_same. do 3 eexists. splits; try reflexivity.
  - simpl. eapply snap_loop_ok. exact E.
  - simpl. intros ->. reflexivity.
Qed.

Lemma do_snapshot_cfg v w from arts w1 ok :
  do_snapshot v w from arts = (w1, ok) -> cfg_stage_fix w1 = cfg_stage_fix w.
Proof. unfold do_snapshot. intros H. destruct (snap_loop _ _ _ _) as [b [l|]]; inv H; reflexivity. Qed.

Lemma do_snapshot_nocurm_same v w from arts :
  let w1 := do_snapshot_nocurm v w from arts in
  jr w1 = jr w /\ fs w1 = fs w /\ cur w1 = cur w /\ g_inst w1 = g_inst w /\ g_base w1 = g_base w /\ kx w1 = kx w.
Proof.
  unfold do_snapshot_nocurm. destruct (snap_loop _ _ _ _) as [b [l|]]; simpl; splits; reflexivity.
Qed.

Lemma fresh_flow_spec v T F w w' r :
  fresh_flow v T F w = (w', r) -> resume w = false -> NoDup (map a_path (t_arts T)) -> cfg_stage_fix w = true ->
  apply_post v T (base_of w (t_arts T)) (cur w) (cur w) w w' r.
Proof.
  unfold fresh_flow. intros H Hres Hnd Hcfg. rewrite Hres in H. simpl in H.
  set (base := base_of w (t_arts T)) in *.
  set (w0 := set_gfs0 _ _ _) in H.
  assert (Htriv : forall wx rr, g_base wx = Some (false, base, cur w) -> option_map j_phase (jr wx) = Some PStarted ->
      rr = RCrash \/ rr = RErr -> fs wx = fs w /\ cur wx = cur w -> apply_post v T base (cur w) (cur w) w wx rr).
  { intros wx rr Hg Hp Hr Hsame. unfold apply_post, Inv0. rewrite Hg. splits; auto.
    - intros ->. destruct Hr; discriminate.
    - intros ->. destruct Hr; discriminate.
    - intros b gi Hb. discriminate. }
  destruct (crash_at F 25); [inv H; apply Htriv; auto|].
  destruct (do_snapshot v w0 (cur w) (t_arts T)) as [w1 ok] eqn:Es.
  pose proof (do_snapshot_cfg _ _ _ _ _ _ Es) as Scfg.
  apply do_snapshot_spec in Es as (S1 & S2 & S3 & S4 & S5 & S6 & S7).
  destruct ok; simpl in H.
  2:{ inv H. apply Htriv; [rewrite S6; reflexivity|rewrite S1; reflexivity|right; reflexivity|split; auto]. }
  destruct (fails F 36); simpl in H.
  { inv H. destruct (do_snapshot_nocurm_same v w0 (cur w) (t_arts T)) as (N1 & N2 & N3 & _ & N5 & _).
    apply Htriv; [rewrite N5; reflexivity|rewrite N1; reflexivity|right; reflexivity|split; auto]. }
  destruct (S7 eq_refl) as (d & nv & es & D1 & D2 & D3 & D4). clear S7.
  set (w2 := set_phase (set_gbase w1 _) PSnapshotDone) in H.
  assert (Hs2 : snap_ok v w2 base (cur w)).
  { exists d, nv, es. unfold w2. splits.
    - unfold set_phase. simpl. rewrite S1. reflexivity.
    - unfold set_phase. simpl. rewrite S1. simpl. exact D1.
    - exact D2.
    - exact D3.
    - apply base_of_functional.
    - exact D4. }
  assert (Hg2 : g_base w2 = Some (true, base, cur w)).
  { unfold w2, set_phase. simpl. rewrite S1. reflexivity. }
  assert (Hfs2 : fs w2 = fs w /\ cur w2 = cur w).
  { unfold w2. rewrite fs_set_phase, cur_set_phase. simpl. split; assumption. }
  destruct Hfs2.
  assert (Hcfg2 : cfg_stage_fix w2 = true).
  { unfold w2. rewrite cfg_set_phase. simpl. rewrite Scfg. exact Hcfg. }
  eapply as_post_apply_post; eauto; [eapply after_snapshot_spec; eauto|].
  intros _ p f Hin. unfold base, base_of in Hin. apply in_map_iff in Hin as (a & Ea & Ha). inv Ea. now apply in_map.
Qed.

Lemma covered_paths es arts : covered es arts = true ->
  forall a, In a arts -> In (a_path a) (map e_path es).
Proof.
  unfold covered. intros H a Ha. rewrite forallb_forall in H. specialize (H a Ha).
  apply existsb_exists in H as (e & He & Heq). apply N.eqb_eq in Heq. rewrite <- Heq. now apply in_map.
Qed.

Lemma keep_flow_spec v T F w w' r j d nv es base bv :
  keep_flow v T F w j d nv es = (w', r) -> NoDup (map a_path (t_arts T)) ->
  jr w = Some j -> snaps w (j_from j) = Some d -> s_meta d = Some (nv, es) ->
  g_base w = Some (true, base, bv) -> snap_ok v w base (j_from j) ->
  (v_same_fix v = true -> covered_rev es (t_arts T) = true) -> cfg_stage_fix w = true ->
  apply_post v T base bv (j_from j) w w' r.
Proof.
  unfold keep_flow. intros H Hnd Hj Hd Hm Hg Hs Hrev Hcfg.
  assert (Hsub : v_same_fix v = true -> forall p f, In (p, f) base -> In p (map a_path (t_arts T))).
  { intros Hsf p f Hin. destruct Hs as (d0 & nv0 & es0 & _ & H2 & H3 & [_ E2] & _).
    rewrite Hd in H2. inv H2. rewrite Hm in H3. inv H3.
    destruct (E2 p f Hin) as (e & He & <-).
    pose proof (Hrev Hsf) as Hc. unfold covered_rev in Hc. rewrite forallb_forall in Hc. specialize (Hc e He).
    apply existsb_exists in Hc as (a & Ha & Heq). apply N.eqb_eq in Heq. rewrite <- Heq. now apply in_map. }
  set (w0 := set_jr w _) in H.
  assert (Hs0 : snap_ok v w0 base (j_from j)).
  { destruct Hs as (d0 & nv0 & es0 & H1 & H2 & H3). exists d0, nv0, es0. unfold w0. simpl. auto. }
  destruct (crash_at F 25).
  { inv H. unfold apply_post, Inv0. simpl. rewrite Hg. splits; try discriminate.
    - exists (j_from j). exact Hs0.
    - intros b gi Hb. now inv Hb. }
  set (w1 := set_snaps w0 _) in H.
  assert (Hs1 : snap_ok v (set_phase w1 PSnapshotDone) base (j_from j)).
  { destruct Hs as (d0 & nv0 & es0 & H1 & H2 & H3 & H4 & H5 & H6).
    rewrite Hd in H2. inv H2. rewrite Hm in H3. inv H3.
    exists {| s_meta := Some (nv0 || needs_vpp (t_arts T), es0); s_bak := s_bak d0; s_curm := s_curm d0 |},
           (nv0 || needs_vpp (t_arts T)), es0.
    unfold set_phase, w1, w0. simpl. rewrite upd_same. splits; auto. }
  eapply as_post_apply_post.
  - eapply (after_snapshot_spec v T F (j_from j) _ w' r base bv); eauto.
  - rewrite (gbase_of_frame _ _ (frame_set_phase _ _)). exact Hg.
  - rewrite fs_set_phase. reflexivity.
  - rewrite cur_set_phase. reflexivity.
  - exact Hsub.
Qed.

(* the baseline an apply works against *)
Definition baseline_of (w : world) (T : tarball) : list (path * option file) * ver :=
  if resume w then match g_base w with Some (_, b, gi) => (b, gi) | None => (base_of w (t_arts T), cur w) end
  else (base_of w (t_arts T), cur w).
Definition snapkey_of (w : world) : ver :=
  if resume w then match jr w with Some j => j_from j | None => cur w end else cur w.

Lemma resume_Inv v w : Inv0 v w -> resume w = true ->
  exists j base bv, jr w = Some j /\ g_base w = Some (true, base, bv) /\ snap_ok v w base (j_from j).
Proof.
  unfold Inv0, resume. intros Hi Hr. destruct (jr w) as [j|] eqn:Ej; [|discriminate].
  destruct (g_base w) as [[[[] base] bv]|].
  - destruct Hi as [fr Hs]. exists j, base, bv. split; [reflexivity|]. split; [reflexivity|].
    destruct Hs as (d & nv & es & H1 & H2). try rewrite Ej in H1. simpl in H1. inv H1. exists d, nv, es.
    try rewrite Ej. simpl. auto.
  - try rewrite Ej in Hi. simpl in Hi. inv Hi. rewrite H0 in Hr. discriminate.
  - discriminate.
Qed.

Lemma apply_flow_spec v T F w w' r :
  v_keep_fix v = true -> Inv0 v w ->
  apply_flow v T F w = (w', r) -> NoDup (map a_path (t_arts T)) -> cfg_stage_fix w = true ->
  apply_post v T (fst (baseline_of w T)) (snd (baseline_of w T)) (snapkey_of w) w w' r.
Proof.
  intros Hk Hi H Hnd Hcfg. unfold apply_flow in H. rewrite Hk in H. simpl in H.
  unfold baseline_of, snapkey_of.
  destruct (resume w) eqn:Hr; [|now apply (fresh_flow_spec v T F)].
  destruct (resume_Inv _ _ Hi Hr) as (j & base & bv & Hj & Hg & Hs).
  rewrite Hj in *. rewrite Hg. simpl.
  pose proof Hs as (d & nv & es & H1 & H2 & H3 & _). rewrite H2, H3 in H.
  destruct (covered es (t_arts T) && (negb (v_same_fix v) || covered_rev es (t_arts T))) eqn:Hc.
  - eapply keep_flow_spec; eauto. intros Hsf. rewrite Hsf in Hc. simpl in Hc. now apply andb_prop in Hc as [_ ->].
  - inv H. unfold apply_post. rewrite Hg. splits; try discriminate; auto.
    intros b gi Hb. now inv Hb.
Qed.

(* ------------------------------------------------------------------ steps and histories *)
Lemma admits_nodup T Q w : admits T Q w = true -> NoDup (map a_path (t_arts T)).
Proof.
  unfold admits. intros H. repeat (apply andb_prop in H as [H ?]). now apply nodupb_NoDup.
Qed.

(* all five repairs *)
Definition fixedv (v : variant) : Prop :=
  v_mode_fix v = true /\ v_curm_fix v = true /\ v_keep_fix v = true /\ v_stale_fix v = true /\ v_same_fix v = true.
Lemma fixedv_repaired : fixedv repaired.
Proof. repeat split. Qed.

Definition apply_post_w (v : variant) (T : tarball) (w w' : world) (r : res) : Prop :=
  apply_post v T (fst (baseline_of w T)) (snd (baseline_of w T)) (snapkey_of w) w w' r.

Lemma apply_spec v T Q F w w' r :
  v_keep_fix v = true -> apply v T Q F w = (w', r) -> Inv0 v w -> cfg_stage_fix w = true ->
  Inv0 v w' /\ (admits T Q w = false -> w' = w /\ r = RErr) /\ (admits T Q w = true -> apply_post_w v T w w' r).
Proof.
  unfold apply. intros Hk H Hi Hcfg. destruct (admits T Q w) eqn:Ea.
  - pose proof (apply_flow_spec _ _ _ _ _ _ Hk Hi H (admits_nodup _ _ _ Ea) Hcfg) as Hp.
    splits; [apply Hp|discriminate|auto].
  - inv H. splits; auto. discriminate.
Qed.

Lemma mon_new_ok w arts b0 base bv :
  (forall a, In a arts -> exists mm, new_mode (a_mode a) = Some mm /\ fs w (a_path a) = Some (Reg (a_content a) mm)) ->
  g_base w = Some (b0, base, bv) -> (forall p f, In (p, f) base -> In p (map a_path arts)) ->
  mon_new w arts = MonOk.
Proof.
  intros H Hg Hsub. unfold mon_new. rewrite Hg.
  assert (forallb (art_installed w) arts = true) as ->.
  { apply forallb_forall. intros a Ha. destruct (H a Ha) as (mm & Hm & Hf).
    unfold art_installed. rewrite Hm, Hf. apply ofile_eqb_refl. }
  assert (forallb (fun pf => existsb (N.eqb (fst pf)) (map a_path arts)) base = true) as ->; [|reflexivity].
  apply forallb_forall. intros [p f] Hin. simpl. apply existsb_exists. exists p. split; [eauto|apply N.eqb_refl].
Qed.

Lemma mon_restored_ok w b0 base vi :
  g_base w = Some (b0, base, vi) -> (forall p f, In (p, f) base -> fs w p = f) -> mon_restored w = MonOk.
Proof.
  unfold mon_restored. intros Hg H. rewrite Hg.
  assert (forallb (fun pf => ofile_eqb (fs w (fst pf)) (snd pf)) base = true) as ->; [|reflexivity].
  apply forallb_forall. intros [p f] Hin. simpl. rewrite (H p f Hin). apply ofile_eqb_refl.
Qed.

(* a rollback that reports success found a completed snapshot of the baseline *)
Lemma rollback_ok_baseline v F w w' :
  v_stale_fix v = true -> Inv0 v w -> rollback_flow v F w = (w', RbOk) ->
  exists base gi, g_base w = Some (true, base, gi).
Proof.
  intros Hst Hi H. unfold Inv0 in Hi. unfold rollback_flow in H.
  destruct (jr w) as [j|] eqn:Ej; [|discriminate].
  destruct (g_base w) as [[[[] base] gi]|]; [eauto| |discriminate].
  simpl in Hi. inv Hi. rewrite Hst, H1 in H. discriminate.
Qed.

Lemma rollback_step_spec v F w w' r :
  rollback_flow v F w = (w', r) -> Inv0 v w -> v_mode_fix v = true -> v_stale_fix v = true ->
  Inv0 v w' /\ g_base w' = g_base w /\
  (r = RbOk -> exists base gi, g_base w = Some (true, base, gi) /\ forall p f, In (p, f) base -> fs w' p = f).
Proof.
  intros H Hi Hv Hst. pose proof (rollback_frame _ _ _ _ _ H) as Hf.
  assert (Hinv : Inv0 v w').
  { destruct (g_base w) as [[[[] b] gi]|] eqn:Eg.
    - eapply Inv_frame; eauto.
    - unfold Inv0 in Hi. rewrite Eg in Hi. unfold rollback_flow in H.
      destruct (jr w) as [j|] eqn:Ej; [|inv H; unfold Inv0; now rewrite Eg, Ej].
      simpl in Hi. inv Hi. rewrite Hst, H1 in H. simpl in H. inv H. unfold Inv0. rewrite Eg, Ej. simpl. now rewrite H1.
    - unfold Inv0 in Hi. rewrite Eg in Hi. unfold rollback_flow in H. rewrite Hi in H. inv H.
      unfold Inv0. now rewrite Eg. }
  splits; [assumption|now apply gbase_of_frame|].
  intros ->. destruct (rollback_ok_baseline _ _ _ _ Hst Hi H) as (base & gi & Hg).
  exists base, gi. split; [assumption|].
  unfold Inv0 in Hi. rewrite Hg in Hi. destruct Hi as [fr Hs].
  destruct (rollback_ok_restores _ _ _ _ _ _ Hs H) as [R1 _].
  intros p f Hin. rewrite (R1 p f Hin). now apply normf_fixed.
Qed.

(* ---- the invariant carried along histories: Inv0 plus "swapArtifact discards stale staging files" ---- *)
Definition Inv (v : variant) (w : world) : Prop := Inv0 v w /\ cfg_stage_fix w = true.

Lemma after_snapshot_cfg v T F from w2 w' r : after_snapshot v T F from w2 = (w', r) -> cfg_stage_fix w' = cfg_stage_fix w2.
Proof.
  intros H. unfold after_snapshot in H.
  assert (P : forall wx, frame wx = frame w2 -> cfg_stage_fix wx = cfg_stage_fix w2) by (intros; now apply cfg_of_frame).
  assert (A : forall wa, frame wa = frame w2 -> auto_rollback v F wa = (w', r) -> cfg_stage_fix w' = cfg_stage_fix w2).
  { intros wa Hf Ha. unfold auto_rollback in Ha. destruct (crash_at F 52); [inv Ha; auto|].
    destruct (rollback_flow v F wa) as [w1 rr] eqn:E. pose proof (rollback_frame _ _ _ _ _ E) as Hf1.
    destruct rr; inv Ha; rewrite ?cfg_set_phase; apply P; congruence. }
  destruct (crash_at F 26); [inv H; auto|].
  destruct (t_hook_ok T); simpl in H; [|inv H; auto].
  destruct (seq_oc _); try (inv H; apply P, frame_set_phase).
  destruct (seq_oc _); try (inv H; apply P; now rewrite !frame_set_phase).
  destruct (crash_at F 29); [inv H; apply P; now rewrite !frame_set_phase|].
  destruct (swap_loop _ _) as [w7 sok] eqn:Esw.
  apply swap_loop_frame in Esw as (F7 & _ & _). rewrite frame_installed, !frame_set_phase in F7.
  destruct sok; simpl in H.
  - unfold post_swap in H.
    destruct (if needs_vpp (t_arts T) then vpp_seq F 0 else OGo);
      [|apply (A _ (eq_trans (frame_set_phase _ _) F7) H)|inv H; now apply P].
    destruct (seq_oc _); [|apply (A _ (eq_trans (frame_set_phase _ _) F7) H)|inv H; now apply P].
    destruct (crash_at F 31); [inv H; apply P; now rewrite frame_set_phase|].
    destruct (f_ha F); simpl in H.
    2:{ destruct (crash_at F 53); [inv H; apply P; now rewrite frame_set_phase|].
        apply (A _ (eq_trans (frame_set_phase _ _) (eq_trans (frame_set_phase _ _) F7)) H). }
    destruct (crash_at F 32); [inv H; apply P; now rewrite frame_set_phase|].
    destruct (crash_at F 35); [inv H; simpl; rewrite cfg_set_phase; now apply P|].
    destruct (crash_at F 33); [inv H; rewrite cfg_set_phase; simpl; rewrite cfg_set_phase; now apply P|].
    destruct (crash_at F 34); inv H; unfold prune; simpl; rewrite cfg_set_phase; simpl; rewrite cfg_set_phase; now apply P.
  - destruct (crash_at F 51); [inv H; now apply P|]. apply (A _ (eq_trans (frame_set_phase _ _) F7) H).
Qed.

Lemma step_cfg v w o : cfg_stage_fix (fst (step v w o)) = cfg_stage_fix w.
Proof.
  destruct o as [T Q F|F| |p f]; simpl; try reflexivity.
  - unfold apply. destruct (admits T Q w); [|reflexivity].
    destruct (apply_flow v T F w) as [w1 r1] eqn:E. simpl.
    assert (Hfresh : forall wa ra, fresh_flow v T F w = (wa, ra) -> cfg_stage_fix wa = cfg_stage_fix w).
    { intros wa ra Ef. unfold fresh_flow in Ef.
      destruct (crash_at F 25); [inv Ef; destruct (negb (resume w)); reflexivity|].
      destruct (do_snapshot _ _ _ _) as [wb ok] eqn:Es.
      pose proof (do_snapshot_cfg _ _ _ _ _ _ Es) as Sc.
      assert (C0 : cfg_stage_fix wb = cfg_stage_fix w) by (rewrite Sc; destruct (negb (resume w)); reflexivity).
      destruct ok; simpl in Ef; [|now inv Ef].
      destruct (fails F 36 && negb (resume w)).
      { inv Ef. unfold do_snapshot_nocurm. destruct (snap_loop _ _ _ _) as [b [l|]]; simpl; destruct (negb (resume w)); reflexivity. }
      rewrite (after_snapshot_cfg _ _ _ _ _ _ _ Ef), cfg_set_phase. destruct (negb (resume w)); exact C0. }
    unfold apply_flow in E. destruct (v_keep_fix v && resume w); [|eauto].
    destruct (jr w) as [j|]; [|eauto]. destruct (snaps w (j_from j)) as [d|]; [|eauto].
    destruct (s_meta d) as [[nv es]|]; [|eauto].
    destruct (covered es (t_arts T) && _); [|now inv E].
    unfold keep_flow in E. destruct (crash_at F 25); [now inv E|].
    rewrite (after_snapshot_cfg _ _ _ _ _ _ _ E), cfg_set_phase. reflexivity.
  - destruct (rollback_flow v F w) as [w1 rr] eqn:E.
    pose proof (cfg_of_frame _ _ (rollback_frame _ _ _ _ _ E)) as Hc. destruct rr; exact Hc.
Qed.

Lemma step_spec0 v w o w' r m :
  fixedv v -> step v w o = (w', (r, m)) -> Inv0 v w -> cfg_stage_fix w = true -> Inv0 v w' /\ m <> MonMixed.
Proof.
  intros (Hv & _ & Hk & Hst & Hsf) H Hi Hcfg. destruct o as [T Q F|F| |p f]; simpl in H.
  - destruct (apply v T Q F w) as [w1 r1] eqn:Ea. inv H.
    destruct (apply_spec _ _ _ _ _ _ _ Hk Ea Hi Hcfg) as (I1 & I2 & I3). split; [assumption|].
    destruct (admits T Q w) eqn:Ead.
    + destruct (I3 eq_refl) as (P1 & P2 & P3 & P4 & P5).
      destruct r; try discriminate.
      * destruct (P2 eq_refl) as (Q1 & _ & _ & _ & Q5 & Q6). erewrite mon_new_ok; [discriminate|exact Q1|exact Q5|exact (Q6 Hsf)].
      * destruct (P3 eq_refl) as (Q1 & Q2 & _).
        erewrite mon_restored_ok; [discriminate|exact Q1|].
        intros p f Hin. rewrite (Q2 p f Hin). now apply normf_fixed.
    + destruct (I2 eq_refl) as [_ ->]. discriminate.
  - destruct (rollback_flow v F w) as [w1 rr] eqn:Er.
    destruct (rollback_step_spec _ _ _ _ _ Er Hi Hv Hst) as (R1 & R2 & R3).
    destruct rr; inv H; split; auto; try discriminate.
    destruct (R3 eq_refl) as (base & gi & Hg & Hr).
    erewrite mon_restored_ok; [discriminate| |exact Hr]. rewrite R2. exact Hg.
  - inv H. split; [|discriminate]. eapply Inv_frame; [|left|exact Hi]; reflexivity.
  - inv H. split; [|discriminate]. eapply Inv_frame4; [|left|exact Hi]; reflexivity.
Qed.

Lemma step_spec v w o w' r m :
  fixedv v -> step v w o = (w', (r, m)) -> Inv v w -> Inv v w' /\ m <> MonMixed.
Proof.
  intros Hx H [Hi Hc]. destruct (step_spec0 _ _ _ _ _ _ Hx H Hi Hc) as [A B].
  split; [|assumption]. split; [assumption|].
  pose proof (step_cfg v w o) as Hs. rewrite H in Hs. simpl in Hs. congruence.
Qed.

Lemma run_never_mixed v : fixedv v -> forall ops w, Inv v w ->
  forall w' r m, In (w', (r, m)) (run v w ops) -> m <> MonMixed.
Proof.
  intros Hv. induction ops as [|o ops IH]; simpl; intros w Hi w' r m Hin; [contradiction|].
  destruct (step v w o) as [w1 [r1 m1]] eqn:Es.
  destruct (step_spec _ _ _ _ _ _ Hv Es Hi) as [I1 M1].
  destruct Hin as [Heq|Hin]; [inv Heq; assumption|eauto].
Qed.

Lemma Inv_init v c f : Inv v (init_world c f).
Proof. split; reflexivity. Qed.

Lemma exec_Inv v : fixedv v -> forall ops w, Inv v w -> Inv v (exec v w ops).
Proof.
  intros Hv. induction ops as [|o ops IH]; simpl; intros w Hi; [assumption|].
  apply IH. destruct (step v w o) as [w1 [r1 m1]] eqn:Es. simpl.
  now destruct (step_spec _ _ _ _ _ _ Hv Es Hi).
Qed.

(* ------------------------------------------------------------------ headline statements *)
Lemma no_mixed_success v T Q F w w' :
  fixedv v -> Inv v w ->
  apply v T Q F w = (w', ROk) ->
  (forall a, In a (t_arts T) -> exists mm, new_mode (a_mode a) = Some mm /\
                                  fs w' (a_path a) = Some (Reg (a_content a) mm)) /\
  cur w' = t_to T /\ option_map j_phase (jr w') = Some PCompleted /\
  (* no residue: every path of the baseline (every path an attempt of this upgrade episode may have replaced)
     is an artifact of this tarball, hence at the new version too *)
  (forall p f, In (p, f) (fst (baseline_of w T)) -> exists a, In a (t_arts T) /\ a_path a = p).
Proof.
  intros (_ & _ & Hk & _ & Hsf) Hi H. destruct (apply_spec _ _ _ _ _ _ _ Hk H (proj1 Hi) (proj2 Hi)) as (_ & I2 & I3).
  destruct (admits T Q w) eqn:Ea; [|destruct (I2 eq_refl); discriminate].
  destruct (I3 eq_refl) as (_ & P2 & _). destruct (P2 eq_refl) as (Q1 & Q2 & _ & Q4 & _ & Q6). splits; auto.
  intros p f Hin. pose proof (Q6 Hsf p f Hin) as Hm. apply in_map_iff in Hm as (a & Ha & Hin'). eauto.
Qed.

(* the auto-rollback restores the baseline: the tree before this apply, or — when the apply continues an
   interrupted upgrade — the tree before that upgrade's first attempt *)
Lemma failed_apply_restored v T Q F w w' :
  fixedv v -> Inv v w -> apply v T Q F w = (w', RErrRolledBack) ->
  forall p f, In (p, f) (fst (baseline_of w T)) -> fs w' p = f.
Proof.
  intros (Hv & _ & Hk & _ & _) Hi H p f Hin. destruct (apply_spec _ _ _ _ _ _ _ Hk H (proj1 Hi) (proj2 Hi)) as (_ & I2 & I3).
  destruct (admits T Q w) eqn:Ea; [|destruct (I2 eq_refl); discriminate].
  destruct (I3 eq_refl) as (_ & _ & P3 & _). destruct (P3 eq_refl) as (_ & Q2 & _).
  rewrite (Q2 p f Hin). now apply normf_fixed.
Qed.

Lemma baseline_fresh w T : resume w = false -> fst (baseline_of w T) = base_of w (t_arts T).
Proof. unfold baseline_of. now intros ->. Qed.

Lemma early_error_untouched v T Q F w w' :
  v_keep_fix v = true -> Inv v w -> apply v T Q F w = (w', RErr) -> fs w' = fs w /\ cur w' = cur w.
Proof.
  intros Hk Hi H. destruct (apply_spec _ _ _ _ _ _ _ Hk H (proj1 Hi) (proj2 Hi)) as (_ & I2 & I3).
  destruct (admits T Q w) eqn:Ea; [|destruct (I2 eq_refl) as [-> _]; auto].
  destruct (I3 eq_refl) as (_ & _ & _ & P4 & _). auto.
Qed.

Definition inadmissible (T : tarball) (w : world) : Prop :=
  t_sig_ok T = false \/ t_digest_ok T = false \/ t_members_ok T = false \/
  (exists pv wf, t_prev T = Prev pv wf /\ (wf = false \/ pv <> cur w)).

Lemma admission_before_mutation v T Q F w :
  inadmissible T w -> apply v T Q F w = (w, RErr).
Proof.
  intros H. unfold apply. assert (admits T Q w = false) as ->; [|reflexivity].
  unfold admits. destruct H as [H|[H|[H|(pv & wf & Hp & H)]]].
  - rewrite H. now rewrite !andb_false_r.
  - rewrite H. now rewrite !andb_false_r.
  - rewrite H. reflexivity.
  - unfold prev_ok. rewrite Hp. destruct H as [->|H].
    + simpl. now rewrite !andb_false_r.
    + apply N.eqb_neq in H. rewrite H. now rewrite !andb_false_r.
Qed.

Lemma monitor_never_mixed c f ops w' r m :
  In (w', (r, m)) (run repaired (init_world c f) ops) -> m <> MonMixed.
Proof. apply (run_never_mixed repaired fixedv_repaired ops _ (Inv_init _ _ _)). Qed.

(* ------------------------------------------------------------------ safeTarEntryPath *)
Definition dd_shape (out : list bstr) : Prop :=
  exists n d, out = n ++ d /\ Forall (fun c => is_dotdot c = false) n /\ Forall (fun c => is_dotdot c = true) d.

Lemma clean_comps_shape cs : forall out, dd_shape out -> dd_shape (rev (clean_comps false out cs)).
Proof.
  induction cs as [|c r IH]; simpl; intros out Hs.
  - now rewrite rev_involutive.
  - destruct c as [|x c']; [now apply IH|].
    destruct (is_dot (x :: c')); [now apply IH|].
    destruct (is_dotdot (x :: c')) eqn:Edd.
    + destruct out as [|top rest].
      * apply IH. exists [], [x :: c']. repeat split; auto.
      * destruct (is_dotdot top) eqn:Et.
        -- apply IH. destruct Hs as (n & d & E & Hn & Hd).
           destruct n as [|n0 n'].
           ++ simpl in E. subst d. exists [], ((x :: c') :: top :: rest). repeat split; auto.
           ++ simpl in E. inv E. inv Hn. congruence.
        -- apply IH. destruct Hs as (n & d & E & Hn & Hd).
           destruct n as [|n0 n'].
           ++ simpl in E. subst d. inv Hd. congruence.
           ++ simpl in E. inv E. inv Hn. exists n', d. auto.
    + apply IH. destruct Hs as (n & d & E & Hn & Hd). subst out.
      exists ((x :: c') :: n), d. repeat split; auto.
Qed.

Lemma safe_entry_no_dotdot name cl :
  safe_entry name = Some cl -> forall c, In c cl -> is_dotdot c = false.
Proof.
  unfold safe_entry. intros H.
  destruct name as [|x0 name']; [inv H; intros ? []|].
  destruct (is_dot (x0 :: name')); [inv H; intros ? []|].
  destruct (N.eqb x0 47); [discriminate|].
  set (cl0 := clean_comps false [] (split_slash (x0 :: name'))) in *.
  assert (Hs : dd_shape (rev cl0)).
  { apply clean_comps_shape. exists [], []. repeat split; constructor. }
  destruct cl0 as [|c0 rest] eqn:Ecl.
  - inv H. intros c [<-|[]]. reflexivity.
  - destruct (is_dotdot c0) eqn:E0; [discriminate|].
    destruct (starts_with _ _); [discriminate|]. inv H.
    destruct Hs as (n & d & E & Hn & Hd).
    assert (d = []).
    { destruct d as [|d0 d'] using rev_ind; [reflexivity|].
      rewrite app_assoc in E. simpl in E.
      assert (rev (rev rest ++ [c0]) = rev ((n ++ d') ++ [d0])) by now rewrite E.
      rewrite !rev_app_distr in H. simpl in H. inv H.
      apply Forall_app in Hd as [_ Hd]. inv Hd. congruence. }
    subst d. rewrite app_nil_r in E. intros c Hc.
    rewrite Forall_forall in Hn. apply Hn. rewrite <- E. apply in_rev. now rewrite rev_involutive.
Qed.

(* ================================================================== version invariant
   J: current-manifest names the version the installed artifacts belong to (ghost g_inst); the snapshot
   directory the journal points to carries the saved manifest of its own version once the journal is past
   "started"; the baseline ghost agrees with the journal; the journal is at "started" exactly while the
   baseline's snapshot is not complete. *)
Definition started (w : world) : bool :=
  match jr w with Some j => phase_started (j_phase j) | None => false end.

Definition J (w : world) : Prop :=
  cur w = g_inst w /\
  (started w = false -> forall j d, jr w = Some j -> snaps w (j_from j) = Some d -> s_meta d <> None ->
                        s_curm d = curm_of (j_from j)) /\
  match g_base w with
  | None => jr w = None
  | Some (b, _, vi) => option_map j_from (jr w) = Some vi /\ (b = false -> cur w = vi) /\ started w = negb b
  end.

Lemma started_set_phase w ph : jr w <> None -> started (set_phase w ph) = phase_started ph.
Proof. unfold started, set_phase. destruct (jr w); [reflexivity|congruence]. Qed.

Lemma jfrom_of_frame4 w w' : frame4 w' = frame4 w -> option_map j_from (jr w') = option_map j_from (jr w).
Proof. unfold frame4. intros H. now injection H. Qed.

(* J survives anything that keeps frame, version fields and started-ness *)
Lemma J_core4 w w' : frame4 w' = frame4 w -> cur w' = cur w -> g_inst w' = g_inst w -> started w' = started w ->
  J w -> J w'.
Proof.
  unfold J. intros Hf Hc Hg Hst (J1 & J2 & J3).
  pose proof (jfrom_of_frame4 _ _ Hf) as Hjf.
  assert (Hsn : snaps w' = snaps w) by (unfold frame4 in Hf; now injection Hf).
  assert (Hgb : g_base w' = g_base w) by (unfold frame4 in Hf; now injection Hf).
  rewrite Hc, Hg, Hst, Hsn, Hgb, Hjf. split; [assumption|]. split.
  - intros Hs j' d Hj' Hd Hm. destruct (jr w) as [j|] eqn:Ej; [|rewrite Hj' in Hjf; discriminate].
    rewrite Hj' in Hjf. simpl in Hjf. inv Hjf. rewrite H0 in *. apply (J2 Hs j d eq_refl Hd Hm).
  - destruct (g_base w) as [[[b base] vi]|]; [exact J3|].
    rewrite J3 in Hjf. destruct (jr w'); [discriminate|reflexivity].
Qed.
Lemma J_core w w' : frame w' = frame w -> cur w' = cur w -> g_inst w' = g_inst w -> started w' = started w ->
  J w -> J w'.
Proof. intros H. apply J_core4. now apply frame_frame4. Qed.

Lemma J_jr_some w : J w -> started w = false -> g_base w <> None -> jr w <> None.
Proof.
  intros (_ & _ & J3) _ Hg. destruct (g_base w) as [[[b base] vi]|]; [|congruence].
  destruct J3 as [J3 _]. destruct (jr w); [congruence|discriminate].
Qed.

(* phase changes among the phases after "started" *)
Lemma J_set_phase w ph : J w -> started w = false -> phase_started ph = false -> J (set_phase w ph).
Proof.
  intros Hj Hs Hp. destruct (jr w) as [j|] eqn:Ej.
  - apply (J_core w); auto; [apply frame_set_phase|apply cur_set_phase|apply ginst_set_phase|].
    rewrite started_set_phase by congruence. now rewrite Hs.
  - unfold set_phase. now rewrite Ej.
Qed.
Lemma started_set_phase_false w ph : started w = false -> phase_started ph = false -> started (set_phase w ph) = false.
Proof.
  intros Hs Hp. destruct (jr w) as [j|] eqn:Ej; [rewrite started_set_phase; congruence|].
  unfold set_phase. now rewrite Ej.
Qed.

Lemma started_of_jr w w' : jr w' = jr w -> started w' = started w.
Proof. unfold started. now intros ->. Qed.

Lemma swap_artifact_jr w src p m w' b : swap_artifact w src p m = (w', b) -> jr w' = jr w.
Proof.
  unfold swap_artifact. intros H.
  destruct src; [destruct (obst w p)|]; [inv H; auto| |inv H; auto].
  destruct (staged_mode w p m); [|inv H; auto]. destruct (fs w p) as [[| |]|]; inv H; auto.
Qed.

Lemma jr_restore_ginst w : jr (restore_ginst w) = jr w.
Proof. unfold restore_ginst. destruct (g_base w) as [[[[] ?] ?]|] eqn:E; reflexivity. Qed.
Lemma jr_restore_curm v w d : jr (restore_curm v w d) = jr w.
Proof. unfold restore_curm. destruct (v_curm_fix v); [destruct (s_curm d)|]; reflexivity. Qed.

Lemma rollback_J v F w w' r :
  v_curm_fix v = true -> v_stale_fix v = true -> J w -> rollback_flow v F w = (w', r) ->
  J w' /\ started w' = started w /\ (r = RbOk -> forall b0 b vi, g_base w = Some (b0, b, vi) -> cur w' = vi).
Proof.
  intros Hv Hstale Hj H. unfold rollback_flow in H.
  destruct (jr w) as [j|] eqn:Ej; [|inv H; splits; auto; discriminate].
  rewrite Hstale in H. simpl in H.
  destruct (phase_started (j_phase j)) eqn:Est; [inv H; splits; auto; discriminate|].
  assert (Hs : started w = false) by (unfold started; now rewrite Ej).
  destruct (snaps w (j_from j)) as [d|] eqn:Ed; [|inv H; splits; auto; discriminate].
  destruct (s_meta d) as [[nv es]|] eqn:Em; [|inv H; splits; auto; discriminate].
  destruct (seq_oc _); try (inv H; splits; auto; discriminate).
  destruct (restore_loop _ _ _) as [w2 ok] eqn:Er.
  pose proof Er as Er'. apply restore_loop_frame in Er' as (F2 & C2 & G2).
  rewrite frame_installed in F2.
  destruct (installed_same w (f_rob F) (f_rst F)) as (_ & Ic & Ig & _ & _). unfold installed in Ic, Ig. rewrite Ic in C2. rewrite Ig in G2.
  assert (Hjr2 : option_map j_from (jr w2) = Some (j_from j)).
  { rewrite (jfrom_of_frame4 _ _ (frame_frame4 _ _ F2)), Ej. reflexivity. }
  assert (St2 : started w2 = false).
  { (* restore only touches fs / obst *) clear - Er Hs.
    assert (G : forall l w0 w1 b, restore_loop w0 d l = (w1, b) -> jr w1 = jr w0).
    { induction l as [|e r0 IH]; simpl; intros w0 w1 b H; [now inv H|].
      destruct (e_kind e); [apply IH in H; exact H|apply IH in H; exact H|].
      destruct (swap_artifact _ _ _ _) as [wx okx] eqn:E.
      assert (jr wx = jr w0) by (eapply swap_artifact_jr; eauto).
      destruct okx; [apply IH in H; congruence|injection H as <- _; assumption]. }
    apply G in Er. destruct (installed_same w (f_rob F) (f_rst F)) as (_ & _ & _ & _ & Ij). unfold installed in Ij.
    rewrite Ij in Er. unfold started in *. now rewrite Er. }
  assert (J2w : J w2) by (apply (J_core w); auto; congruence).
  destruct ok; simpl in H.
  2:{ inv H. splits; [apply J_set_phase; auto|rewrite Hs; apply started_set_phase_false; auto|discriminate]. }
  set (w3 := restore_ginst (restore_curm v w2 d)) in *.
  destruct Hj as (J1 & J2 & J3).
  assert (Hcurm : s_curm d = curm_of (j_from j)) by (apply (J2 Hs j d); [exact Ej|assumption|congruence]).
  assert (C3 : cur w3 = j_from j).
  { unfold w3. rewrite cur_restore_ginst, (cur_restore_curm _ _ _ Hv), Hcurm. apply cur_of_curm_of. }
  assert (F3 : frame w3 = frame w).
  { unfold w3. now rewrite frame_restore_ginst, frame_restore_curm. }
  assert (Jr3 : jr w3 = jr w2).
  { unfold w3. now rewrite jr_restore_ginst, jr_restore_curm. }
  assert (St3 : started w3 = false) by (rewrite (started_of_jr _ _ Jr3); exact St2).
  assert (J3w : J w3 /\ (forall b0 b vi, g_base w = Some (b0, b, vi) -> cur w3 = vi)).
  { unfold J. rewrite (gbase_of_frame _ _ F3), St3.
    assert (Hsn : snaps w3 = snaps w) by (unfold frame in F3; now injection F3).
    pose proof (jfrom_of_frame4 _ _ (frame_frame4 _ _ F3)) as Hjf. rewrite Ej in Hjf. simpl in Hjf.
    rewrite Hsn, Hjf, C3.
    destruct (g_base w) as [[[b base] vi]|] eqn:Eg.
    - rewrite Ej in J3. simpl in J3. destruct J3 as (J3a & J3b & J3c).
      assert (Hvi : vi = j_from j) by congruence. subst vi.
      rewrite Hs in J3c. destruct b; [|discriminate].
      split; [|intros b0 b1 vi0 Hb; injection Hb as _ _ <-; reflexivity].
      split; [|split].
      + unfold w3, restore_ginst.
        assert (Gb : g_base (restore_curm v w2 d) = Some (true, base, j_from j)).
        { rewrite (gbase_of_frame _ _ (frame_restore_curm _ _ _)), (gbase_of_frame _ _ F2). exact Eg. }
        rewrite Gb. reflexivity.
      + intros _ j' d' Hj' Hd' Hm'.
        assert (Hjj : j_from j' = j_from j).
        { rewrite Jr3 in Hj'. rewrite Hj' in Hjr2. simpl in Hjr2. congruence. }
        rewrite Hjj in *. rewrite Ed in Hd'. inv Hd'. exact Hcurm.
      + splits; auto; discriminate.
    - rewrite Ej in J3. discriminate. }
  destruct J3w as [J3w V3].
  destruct (if nv then vpp_seq F 10 else OGo);
    [|inv H; splits; [apply J_set_phase; auto|rewrite Hs; apply started_set_phase_false; auto|discriminate]
     |inv H; splits; [assumption|congruence|discriminate]].
  destruct (seq_oc _);
    [|inv H; splits; [apply J_set_phase; auto|rewrite Hs; apply started_set_phase_false; auto|discriminate]
     |inv H; splits; [assumption|congruence|discriminate]].
  destruct (f_hr F); inv H; (splits; [apply J_set_phase; auto|rewrite Hs; apply started_set_phase_false; auto|]); try discriminate.
  intros _ b0 b vi Hb. rewrite cur_set_phase. eauto.
Qed.

Lemma auto_rollback_J v F w w' r :
  v_curm_fix v = true -> v_stale_fix v = true -> J w -> started w = false -> auto_rollback v F w = (w', r) ->
  J w' /\ started w' = false /\ (r = RErrRolledBack -> forall b0 b vi, g_base w = Some (b0, b, vi) -> cur w' = vi).
Proof.
  intros Hv Hst Hj Hs H. unfold auto_rollback in H.
  destruct (crash_at F 52); [inv H; splits; auto; discriminate|].
  destruct (rollback_flow v F w) as [w1 rr] eqn:E.
  destruct (rollback_J _ _ _ _ _ Hv Hst Hj E) as (J1 & S1 & V1). rewrite Hs in S1.
  destruct rr; inv H.
  - split; [assumption|]. split; [assumption|]. intros _. now apply V1.
  - splits; [apply J_set_phase; auto|apply started_set_phase_false; auto|discriminate].
  - split; [assumption|]. split; [assumption|discriminate].
Qed.

Lemma J_commit w v0 : J w -> started w = false -> J (set_ginst (set_cur w v0) v0).
Proof.
  intros (J1 & J2 & J3) Hs. unfold J. simpl.
  assert (St : started (set_ginst (set_cur w v0) v0) = started w) by reflexivity.
  rewrite St, Hs. split; [reflexivity|]. split; [intros _; exact (J2 Hs)|].
  destruct (g_base w) as [[[b base] vi]|]; [|exact J3].
  destruct J3 as (J3a & J3b & J3c). rewrite Hs in J3c. destruct b; [|discriminate].
  splits; auto. discriminate.
Qed.

Lemma J_prune w k : J w -> (forall j, jr w = Some j -> j_from j = k) -> J (prune w k).
Proof.
  intros (J1 & J2 & J3) Hk. unfold J, prune. simpl.
  assert (St : started (set_snaps w (fun q => if N.eqb q k then snaps w q else
            match snaps w q with Some d => match s_meta d with None => Some d | Some _ => None end | None => None end))
          = started w) by reflexivity.
  rewrite St. split; [assumption|]. split; [|assumption].
  intros Hs j d Hj Hd Hm. rewrite (Hk j Hj), N.eqb_refl in Hd. rewrite <- (Hk j Hj) in Hd. eauto.
Qed.

Lemma post_swap_J v T F from w7 w' r :
  v_curm_fix v = true -> v_stale_fix v = true -> J w7 -> started w7 = false -> g_base w7 <> None ->
  (forall j, jr w7 = Some j -> j_from j = from) ->
  post_swap v T F from w7 = (w', r) ->
  J w' /\ (r = RErrRolledBack -> forall b0 b vi, g_base w7 = Some (b0, b, vi) -> cur w' = vi).
Proof.
  intros Hv Hst Hj Hs Hgn Hfrom H. unfold post_swap in H.
  assert (Hauto : forall wa, J wa -> started wa = false -> g_base wa = g_base w7 -> auto_rollback v F wa = (w', r) ->
    J w' /\ (r = RErrRolledBack -> forall b0 b vi, g_base w7 = Some (b0, b, vi) -> cur w' = vi)).
  { intros wa Ja Sa Ga Ha. destruct (auto_rollback_J _ _ _ _ _ Hv Hst Ja Sa Ha) as (A1 & _ & A2).
    split; [assumption|]. intros Hr b0 b vi Hb. apply (A2 Hr b0 b). now rewrite Ga. }
  assert (P : forall ph, phase_started ph = false ->
     J (set_phase w7 ph) /\ started (set_phase w7 ph) = false /\ g_base (set_phase w7 ph) = g_base w7).
  { intros ph Hp. splits; [apply J_set_phase; auto|apply started_set_phase_false; auto|apply gbase_of_frame, frame_set_phase]. }
  destruct (if needs_vpp (t_arts T) then vpp_seq F 0 else OGo);
    [|destruct (P PAbortedPostSwap eq_refl) as (A & B & C); now apply (Hauto _ A B C)|inv H; split; [assumption|discriminate]].
  destruct (seq_oc _);
    [|destruct (P PAbortedPostSwap eq_refl) as (A & B & C); now apply (Hauto _ A B C)|inv H; split; [assumption|discriminate]].
  destruct (P PDaemonStarted eq_refl) as (J8 & S8 & G8).
  destruct (crash_at F 31); [inv H; split; [assumption|discriminate]|].
  destruct (f_ha F); simpl in H.
  2:{ destruct (crash_at F 53); [inv H; split; [assumption|discriminate]|].
      apply (Hauto (set_phase (set_phase w7 PDaemonStarted) PHealthFailed)); auto.
      - apply J_set_phase; auto.
      - apply started_set_phase_false; auto.
      - rewrite (gbase_of_frame _ _ (frame_set_phase _ _)). exact G8. }
  destruct (crash_at F 32); [inv H; split; [assumption|discriminate]|].
  assert (Jc : J (set_ginst (set_cur (set_phase w7 PDaemonStarted) (t_to T)) (t_to T))) by (apply J_commit; auto).
  destruct (crash_at F 35); [inv H; split; [assumption|discriminate]|].
  assert (Sc : started (set_ginst (set_cur (set_phase w7 PDaemonStarted) (t_to T)) (t_to T)) = false) by exact S8.
  assert (J9 : J (set_phase (set_ginst (set_cur (set_phase w7 PDaemonStarted) (t_to T)) (t_to T)) PCompleted))
    by (apply J_set_phase; auto).
  destruct (crash_at F 33); [inv H; split; [assumption|discriminate]|].
  assert (J10 : J (prune (set_phase (set_ginst (set_cur (set_phase w7 PDaemonStarted) (t_to T)) (t_to T)) PCompleted) from)).
  { apply J_prune; [assumption|]. intros j Hjj.
    assert (Hx : option_map j_from (jr (set_phase (set_ginst (set_cur (set_phase w7 PDaemonStarted) (t_to T)) (t_to T)) PCompleted))
                 = option_map j_from (jr w7)).
    { apply jfrom_of_frame4, frame_frame4. rewrite frame_set_phase, frame_set_ginst, frame_set_cur. apply frame_set_phase. }
    rewrite Hjj in Hx. simpl in Hx. destruct (jr w7) as [j7|] eqn:E7; [|discriminate].
    simpl in Hx. injection Hx as ->. now apply Hfrom. }
  destruct (crash_at F 34); inv H; (split; [assumption|discriminate]).
Qed.


Lemma swap_loop_started arts : forall w w' b, swap_loop w arts = (w', b) -> started w = false -> started w' = false.
Proof.
  induction arts as [|a r IH]; simpl; intros w w' b H Hs; [now inv H|].
  destruct (swap_artifact _ _ _ _) as [w2 ok] eqn:E.
  assert (S2 : started w2 = false).
  { rewrite (started_of_jr _ _ (swap_artifact_jr _ _ _ _ _ _ E)). now apply started_set_phase_false. }
  destruct ok; [|now inv H]. eapply IH; [exact H|]. now apply started_set_phase_false.
Qed.

Lemma after_snapshot_J v T F from w2 w' r :
  v_curm_fix v = true -> v_stale_fix v = true -> J w2 -> started w2 = false -> g_base w2 <> None ->
  (forall j, jr w2 = Some j -> j_from j = from) ->
  after_snapshot v T F from w2 = (w', r) ->
  J w' /\ (r = RErrRolledBack -> forall b0 b vi, g_base w2 = Some (b0, b, vi) -> cur w' = vi).
Proof.
  intros Hv Hst Hj Hs Hgn Hfrom H. unfold after_snapshot in H.
  assert (P : forall wx ph, J wx -> started wx = false -> phase_started ph = false ->
     J (set_phase wx ph) /\ started (set_phase wx ph) = false).
  { intros wx ph A B C. split; [apply J_set_phase; auto|apply started_set_phase_false; auto]. }
  destruct (crash_at F 26); [inv H; split; [assumption|discriminate]|].
  destruct (t_hook_ok T); simpl in H; [|inv H; split; [assumption|discriminate]].
  destruct (P w2 PPreHookDone Hj Hs eq_refl) as [J3 S3].
  destruct (seq_oc _); try (inv H; split; [assumption|discriminate]).
  destruct (P _ PRestartSuspended J3 S3 eq_refl) as [J4 S4].
  destruct (seq_oc _); try (inv H; split; [assumption|discriminate]).
  destruct (P _ PDaemonStopped J4 S4 eq_refl) as [J5 S5].
  destruct (crash_at F 29); [inv H; split; [assumption|discriminate]|].
  destruct (swap_loop _ _) as [w7 sok] eqn:Esw.
  assert (S7 : started w7 = false).
  { eapply swap_loop_started; [exact Esw|].
    match goal with |- started (install_stale (with_obs ?x ?l) ?l2) = false =>
      destruct (installed_same x l l2) as (_ & _ & _ & _ & Ij); unfold installed in Ij;
      rewrite (started_of_jr _ _ Ij) end. exact S5. }
  apply swap_loop_frame in Esw as (F7 & C7 & G7).
  rewrite frame_installed, !frame_set_phase in F7.
  match type of C7 with cur w7 = cur (install_stale (with_obs ?x ?l) ?l2) =>
    destruct (installed_same x l l2) as (_ & Ic & Ig & _ & _); unfold installed in Ic, Ig; rewrite Ic in C7; rewrite Ig in G7 end.
  rewrite !cur_set_phase in C7. rewrite !ginst_set_phase in G7.
  assert (J7 : J w7) by (apply (J_core w2); auto; congruence).
  assert (Hg7 : g_base w7 = g_base w2) by now apply gbase_of_frame.
  assert (Hfrom7 : forall j, jr w7 = Some j -> j_from j = from).
  { intros j Hjj. pose proof (jfrom_of_frame4 _ _ (frame_frame4 _ _ F7)) as Jf7.
    rewrite Hjj in Jf7. simpl in Jf7. destruct (jr w2) as [j2|] eqn:E2; [|discriminate].
    simpl in Jf7. injection Jf7 as ->. now apply Hfrom. }
  destruct sok; simpl in H.
  - destruct (post_swap_J _ _ _ _ _ _ _ Hv Hst J7 S7 ltac:(congruence) Hfrom7 H) as [P1 P2].
    split; [assumption|]. intros Hr b0 b vi Hb. apply (P2 Hr b0 b). congruence.
  - destruct (crash_at F 51); [inv H; split; [assumption|discriminate]|].
    destruct (auto_rollback_J _ _ _ _ _ Hv Hst (J_set_phase _ PAbortedMidSwap J7 S7 eq_refl)
                (started_set_phase_false _ PAbortedMidSwap S7 eq_refl) H) as (A1 & _ & A2).
    split; [assumption|]. intros Hr b0 b vi Hb. apply (A2 Hr b0 b).
    rewrite (gbase_of_frame _ _ (frame_set_phase _ _)). congruence.
Qed.

Lemma resume_started w : resume w = true -> started w = false.
Proof. unfold resume, started. destruct (jr w) as [j|]; [|discriminate]. destruct (j_phase j); simpl; auto; discriminate. Qed.

Lemma fresh_flow_J v T F w w' r :
  v_curm_fix v = true -> v_stale_fix v = true -> J w -> resume w = false ->
  fresh_flow v T F w = (w', r) -> J w' /\ (r = RErrRolledBack -> cur w' = cur w).
Proof.
  intros Hv Hst (J1 & J2 & J3) Hres H. unfold fresh_flow in H. rewrite Hres in H. simpl in H.
  set (base := base_of w (t_arts T)) in *.
  set (w0 := set_gfs0 _ _ _) in H.
  assert (J0 : J w0).
  { unfold J, w0. simpl. split; [assumption|]. split; [discriminate|]. splits; reflexivity. }
  destruct (crash_at F 25); [inv H; split; [assumption|discriminate]|].
  destruct (do_snapshot v w0 (cur w) (t_arts T)) as [w1 ok] eqn:Es.
  pose proof Es as Es'. apply do_snapshot_spec in Es' as (S1 & _ & S3 & _ & S5 & S6 & S7).
  assert (J1w : J w1).
  { unfold J. rewrite S3, S5, S6. unfold started. rewrite S1. unfold w0. simpl.
    split; [assumption|]. split; [discriminate|]. splits; reflexivity. }
  destruct ok; simpl in H; [|inv H; split; [assumption|discriminate]].
  destruct (fails F 36); simpl in H.
  { inv H. destruct (do_snapshot_nocurm_same v w0 (cur w) (t_arts T)) as (N1 & _ & N3 & N4 & N5 & _).
    split; [|discriminate]. unfold J. rewrite N3, N4, N5. unfold started. rewrite N1. unfold w0. simpl.
    split; [assumption|]. split; [discriminate|]. splits; reflexivity. }
  destruct (S7 eq_refl) as (d & nv & es & D1 & D2 & _ & D4).
  set (w2 := set_phase (set_gbase w1 _) PSnapshotDone) in H.
  assert (Jr2 : jr w2 = Some {| j_from := cur w; j_to := t_to T; j_phase := PSnapshotDone |}).
  { unfold w2, set_phase. simpl. rewrite S1. reflexivity. }
  assert (St2 : started w2 = false) by (unfold started; now rewrite Jr2).
  assert (J2w : J w2).
  { unfold J. rewrite St2, Jr2. unfold w2. rewrite cur_set_phase, ginst_set_phase, (gbase_of_frame _ _ (frame_set_phase _ _)).
    simpl. rewrite S3, S5. unfold w0. simpl. split; [assumption|]. split.
    - intros _ j0 d0 Hj0 Hd0 _. inv Hj0. simpl in Hd0.
      assert (snaps (set_phase (set_gbase w1 (Some (true, base, cur w))) PSnapshotDone) = snaps w1)
        by (unfold set_phase; simpl; destruct (jr w1); reflexivity).
      rewrite H0 in Hd0. rewrite D1 in Hd0. inv Hd0. simpl. exact (D4 Hv).
    - splits; auto; discriminate. }
  assert (Hfrom : forall j, jr w2 = Some j -> j_from j = cur w) by (intros j Hj; rewrite Jr2 in Hj; now inv Hj).
  assert (Hg2 : g_base w2 = Some (true, base, cur w)).
  { unfold w2. rewrite (gbase_of_frame _ _ (frame_set_phase _ _)). reflexivity. }
  destruct (after_snapshot_J _ _ _ _ _ _ _ Hv Hst J2w St2 ltac:(congruence) Hfrom H) as [A1 A2].
  split; [assumption|]. intros Hr. eapply A2; eauto.
Qed.

Lemma keep_flow_J v T F w w' r j d nv es :
  v_curm_fix v = true -> v_stale_fix v = true -> J w -> resume w = true ->
  jr w = Some j -> snaps w (j_from j) = Some d -> s_meta d = Some (nv, es) ->
  keep_flow v T F w j d nv es = (w', r) ->
  J w' /\ (r = RErrRolledBack -> forall b0 b vi, g_base w = Some (b0, b, vi) -> cur w' = vi).
Proof.
  intros Hv Hst Hj Hres Hjr Hd Hm H. unfold keep_flow in H.
  pose proof (resume_started _ Hres) as Hs.
  destruct Hj as (J1 & J2 & J3).
  assert (Hgn : g_base w <> None) by (intros E; rewrite E in J3; congruence).
  set (w0 := set_jr w _) in H.
  assert (J0 : J w0 /\ started w0 = false).
  { split; [|reflexivity]. unfold J. simpl. split; [assumption|]. split.
    - intros _ j0 d0 Hj0 Hd0 Hm0. inv Hj0. simpl in Hd0. apply (J2 Hs j d0 Hjr Hd0 Hm0).
    - destruct (g_base w) as [[[b base] vi]|]; [|congruence].
      rewrite Hjr in J3. simpl in J3. destruct J3 as (A & B & C). rewrite Hs in C. splits; auto. }
  destruct J0 as [J0 S0].
  destruct (crash_at F 25); [inv H; split; [assumption|discriminate]|].
  set (w1 := set_snaps w0 _) in H.
  assert (J1w : J (set_phase w1 PSnapshotDone) /\ started (set_phase w1 PSnapshotDone) = false).
  { split; [|reflexivity]. unfold J. rewrite cur_set_phase, ginst_set_phase, (gbase_of_frame _ _ (frame_set_phase _ _)).
    unfold set_phase, w1, w0. simpl. split; [assumption|]. split.
    - intros _ j0 d0 Hj0 Hd0 Hm0. inv Hj0. simpl in Hd0. rewrite upd_same in Hd0. inv Hd0. simpl.
      apply (J2 Hs j d Hjr Hd). congruence.
    - destruct (g_base w) as [[[b base] vi]|]; [|congruence].
      rewrite Hjr in J3. simpl in J3. destruct J3 as (A & B & C). rewrite Hs in C. splits; auto. }
  destruct J1w as [J1w S1w].
  assert (Hfrom : forall j0, jr (set_phase w1 PSnapshotDone) = Some j0 -> j_from j0 = j_from j).
  { intros j0 Hj0. unfold set_phase, w1, w0 in Hj0. simpl in Hj0. now inv Hj0. }
  assert (Hg : g_base (set_phase w1 PSnapshotDone) = g_base w).
  { rewrite (gbase_of_frame _ _ (frame_set_phase _ _)). reflexivity. }
  destruct (after_snapshot_J _ _ _ _ _ _ _ Hv Hst J1w S1w ltac:(congruence) Hfrom H) as [A1 A2].
  split; [assumption|]. intros Hr b0 b vi Hb. apply (A2 Hr b0 b). congruence.
Qed.

Lemma apply_flow_J v T F w w' r :
  fixedv v -> Inv v w -> J w -> apply_flow v T F w = (w', r) -> J w'.
Proof.
  intros (_ & Hv & Hk & Hst & _) Hi Hj H. unfold apply_flow in H. rewrite Hk in H. simpl in H.
  destruct (resume w) eqn:Hr; [|now destruct (fresh_flow_J _ _ _ _ _ _ Hv Hst Hj Hr H)].
  destruct (resume_Inv _ _ (proj1 Hi) Hr) as (j & base & bv & Hjr & Hg & Hs).
  rewrite Hjr in H. destruct Hs as (d & nv & es & H1 & H2 & H3 & _). rewrite H2, H3 in H.
  destruct (covered es (t_arts T) && _); [|now inv H].
  now destruct (keep_flow_J _ _ _ _ _ _ _ _ _ _ Hv Hst Hj Hr Hjr H2 H3 H).
Qed.

Lemma step_J v w o : fixedv v -> Inv v w -> J w -> J (fst (step v w o)).
Proof.
  intros Hx Hi Hj. pose proof Hx as (_ & Hv & Hk & Hst & _). destruct o as [T Q F|F| |p f]; simpl.
  - unfold apply. destruct (admits T Q w); [|exact Hj].
    destruct (apply_flow v T F w) as [w1 r1] eqn:E. simpl. eapply apply_flow_J; eauto.
  - destruct (rollback_flow v F w) as [w1 rr] eqn:E.
    destruct (rollback_J _ _ _ _ _ Hv Hst Hj E) as [J1 _]. destruct rr; exact J1.
  - apply (J_core w); auto.
  - apply (J_core4 w); auto.
Qed.

Lemma J_init c f : J (init_world c f).
Proof. unfold J, init_world. simpl. split; [reflexivity|]. split; [discriminate|reflexivity]. Qed.

Lemma exec_IJ v : fixedv v -> forall ops w, Inv v w -> J w -> Inv v (exec v w ops) /\ J (exec v w ops).
Proof.
  intros Hx. induction ops as [|o ops IH]; simpl; intros w Hi Hj; [auto|].
  apply IH; [|now apply step_J].
  destruct (step v w o) as [w1 [r1 m1]] eqn:Es. simpl. now destruct (step_spec _ _ _ _ _ _ Hx Es Hi).
Qed.

(* every step from a state satisfying the invariants: tree monitor and version monitor never alarm *)
Lemma step_consistent v w o w' r m :
  fixedv v -> Inv v w -> J w -> step v w o = (w', (r, m)) -> m <> MonMixed /\ step_ver o w' r <> MonMixed.
Proof.
  intros Hx Hi Hj Hs. pose proof Hx as (Hm & Hc & Hk & Hst & _).
  split; [now destruct (step_spec _ _ _ _ _ _ Hx Hs Hi)|].
  destruct o as [T Q F|F| |p f]; simpl in *; try discriminate.
  - destruct (apply v T Q F w) as [w1 r1] eqn:Ea. inv Hs.
    destruct (apply_spec _ _ _ _ _ _ _ Hk Ea (proj1 Hi) (proj2 Hi)) as (_ & I2 & I3).
    destruct (admits T Q w) eqn:Ead; [|destruct (I2 eq_refl) as [_ ->]; discriminate].
    destruct (I3 eq_refl) as (_ & P2 & P3 & _). destruct r; try discriminate.
    + destruct (P2 eq_refl) as (_ & Hcur & _). unfold ver_new. rewrite Hcur, N.eqb_refl. discriminate.
    + destruct (P3 eq_refl) as (Q1 & _ & _).
      unfold ver_restored. rewrite Q1.
      (* the version restored is the baseline's *)
      assert (Hcw : cur w' = snd (baseline_of w T)).
      { unfold apply in Ea. rewrite Ead in Ea. unfold apply_flow in Ea. rewrite Hk in Ea. simpl in Ea.
        unfold baseline_of. destruct (resume w) eqn:Hr.
        - destruct (resume_Inv _ _ (proj1 Hi) Hr) as (j & base & bv & Hjr & Hg & Hs).
          rewrite Hjr in Ea. destruct Hs as (d & nv & es & H1 & H2 & H3 & _). rewrite H2, H3 in Ea.
          destruct (covered es (t_arts T) && _); [|discriminate]. rewrite Hg. simpl.
          destruct (keep_flow_J _ _ _ _ _ _ _ _ _ _ Hc Hst Hj Hr Hjr H2 H3 Ea) as [_ A]. eapply A; eauto.
        - simpl. now destruct (fresh_flow_J _ _ _ _ _ _ Hc Hst Hj Hr Ea) as [_ ->]. }
      rewrite Hcw, N.eqb_refl. discriminate.
  - destruct (rollback_flow v F w) as [w1 rr] eqn:Er.
    destruct (rollback_J _ _ _ _ _ Hc Hst Hj Er) as (_ & _ & V1).
    pose proof (gbase_of_frame _ _ (rollback_frame _ _ _ _ _ Er)) as Hg.
    destruct rr; inv Hs; try discriminate.
    unfold ver_restored. rewrite Hg. destruct (g_base w) as [[[b0 b] vi]|] eqn:Eg; try discriminate.
    rewrite (V1 eq_refl b0 b vi eq_refl), N.eqb_refl. discriminate.
Qed.

Lemma reachable_IJ c f ops :
  Inv repaired (exec repaired (init_world c f) ops) /\ J (exec repaired (init_world c f) ops).
Proof. apply exec_IJ; [apply fixedv_repaired|apply Inv_init|apply J_init]. Qed.

Lemma reachable_consistent c f ops o w' r m :
  step repaired (exec repaired (init_world c f) ops) o = (w', (r, m)) ->
  m <> MonMixed /\ step_ver o w' r <> MonMixed.
Proof. destruct (reachable_IJ c f ops). apply step_consistent; auto. apply fixedv_repaired. Qed.

Lemma reachable_version c f ops : let w := exec repaired (init_world c f) ops in cur w = g_inst w.
Proof. apply (reachable_IJ c f ops). Qed.

Lemma wrong_predecessor_never_modifies c f ops T Q F pv wf :
  let w := exec repaired (init_world c f) ops in
  t_prev T = Prev pv wf -> pv <> g_inst w -> apply repaired T Q F w = (w, RErr).
Proof.
  intros w Hp Hne. apply admission_before_mutation. right. right. right.
  exists pv, wf. split; [assumption|right]. unfold w in *. now rewrite reachable_version.
Qed.

(* ---- the baseline moves only when an upgrade starts on a box that is not mid-upgrade ---- *)
Definition base_part (w : world) := match g_base w with Some (_, b, vi) => Some (b, vi) | None => None end.

Lemma after_snapshot_gbase v T F from w2 w' r : after_snapshot v T F from w2 = (w', r) -> base_part w' = base_part w2.
Proof.
  intros H. unfold base_part. unfold after_snapshot in H.
  assert (P : forall wx, frame wx = frame w2 -> g_base wx = g_base w2) by (intros; now apply gbase_of_frame).
  assert (A : forall wa, frame wa = frame w2 -> auto_rollback v F wa = (w', r) -> g_base w' = g_base w2).
  { intros wa Hf Ha. unfold auto_rollback in Ha. destruct (crash_at F 52); [inv Ha; auto|].
    destruct (rollback_flow v F wa) as [w1 rr] eqn:E. pose proof (rollback_frame _ _ _ _ _ E) as Hf1.
    destruct rr; inv Ha; rewrite ?(gbase_of_frame _ _ (frame_set_phase _ _)); apply P; congruence. }
  assert (G : g_base w' = g_base w2); [|now rewrite G].
  destruct (crash_at F 26); [inv H; auto|].
  destruct (t_hook_ok T); simpl in H; [|inv H; auto].
  destruct (seq_oc _); try (inv H; apply P, frame_set_phase).
  destruct (seq_oc _); try (inv H; apply P; now rewrite !frame_set_phase).
  destruct (crash_at F 29); [inv H; apply P; now rewrite !frame_set_phase|].
  destruct (swap_loop _ _) as [w7 sok] eqn:Esw.
  apply swap_loop_frame in Esw as (F7 & _ & _). rewrite frame_installed, !frame_set_phase in F7.
  destruct sok; simpl in H.
  - unfold post_swap in H.
    destruct (if needs_vpp (t_arts T) then vpp_seq F 0 else OGo);
      [|apply (A _ (eq_trans (frame_set_phase _ _) F7) H)|inv H; now apply P].
    destruct (seq_oc _); [|apply (A _ (eq_trans (frame_set_phase _ _) F7) H)|inv H; now apply P].
    destruct (crash_at F 31); [inv H; apply P; now rewrite frame_set_phase|].
    destruct (f_ha F); simpl in H.
    2:{ destruct (crash_at F 53); [inv H; apply P; now rewrite frame_set_phase|].
        apply (A _ (eq_trans (frame_set_phase _ _) (eq_trans (frame_set_phase _ _) F7)) H). }
    destruct (crash_at F 32); [inv H; apply P; now rewrite frame_set_phase|].
    destruct (crash_at F 35); [inv H; simpl; rewrite (gbase_of_frame _ _ (frame_set_phase _ _)); now apply P|].
    destruct (crash_at F 33); [inv H; rewrite (gbase_of_frame _ _ (frame_set_phase _ _)); simpl;
                               rewrite (gbase_of_frame _ _ (frame_set_phase _ _)); now apply P|].
    destruct (crash_at F 34); inv H; unfold prune; simpl; rewrite (gbase_of_frame _ _ (frame_set_phase _ _)); simpl;
      rewrite (gbase_of_frame _ _ (frame_set_phase _ _)); now apply P.
  - destruct (crash_at F 51); [inv H; now apply P|]. apply (A _ (eq_trans (frame_set_phase _ _) F7) H).
Qed.

Lemma step_baseline v w o :
  fixedv v -> Inv v w ->
  base_part (fst (step v w o)) = base_part w \/
  (exists T Q F, o = OpApply T Q F /\ resume w = false /\ admits T Q w = true /\
                 base_part (fst (step v w o)) = Some (base_of w (t_arts T), cur w)).
Proof.
  intros (_ & _ & Hk & _ & _) Hi. destruct o as [T Q F|F| |p f]; simpl.
  - unfold apply. destruct (admits T Q w) eqn:Ead; [|now left].
    destruct (apply_flow v T F w) as [w1 r1] eqn:E. simpl.
    unfold apply_flow in E. rewrite Hk in E. simpl in E.
    destruct (resume w) eqn:Hr.
    + left. destruct (resume_Inv _ _ (proj1 Hi) Hr) as (j & base & bv & Hjr & Hg & Hs).
      rewrite Hjr in E. destruct Hs as (d & nv & es & H1 & H2 & H3 & _). rewrite H2, H3 in E.
      destruct (covered es (t_arts T) && _); [|now inv E].
      unfold keep_flow in E. destruct (crash_at F 25); [now inv E|].
      rewrite (after_snapshot_gbase _ _ _ _ _ _ _ E). unfold base_part.
      rewrite (gbase_of_frame _ _ (frame_set_phase _ _)). reflexivity.
    + right. exists T, Q, F. splits; auto.
      unfold fresh_flow in E. rewrite Hr in E. simpl in E.
      destruct (crash_at F 25); [now inv E|].
      destruct (do_snapshot _ _ _ _) as [wa ok] eqn:Es.
      pose proof Es as Es'. apply do_snapshot_spec in Es' as (_ & _ & _ & _ & _ & S6 & _).
      destruct ok; simpl in E; [|inv E; unfold base_part; now rewrite S6].
      destruct (fails F 36); simpl in E.
      { inv E. destruct (do_snapshot_nocurm_same v (set_gfs0 (set_gbase (set_jr w (Some {| j_from := cur w; j_to := t_to T; j_phase := PStarted |}))
                  (Some (false, base_of w (t_arts T), cur w))) (fs w) true) (cur w) (t_arts T)) as (_ & _ & _ & _ & N5 & _).
        unfold base_part. now rewrite N5. }
      rewrite (after_snapshot_gbase _ _ _ _ _ _ _ E). unfold base_part.
      rewrite (gbase_of_frame _ _ (frame_set_phase _ _)). reflexivity.
  - left. destruct (rollback_flow v F w) as [w1 rr] eqn:E.
    pose proof (gbase_of_frame _ _ (rollback_frame _ _ _ _ _ E)) as Hg.
    unfold base_part. destruct rr; simpl; now rewrite Hg.
  - now left.
  - now left.
Qed.

(* ---- liveness: a rollback without further faults succeeds ---- *)
Definition quiet (F : faults) : Prop := f_fail F = [] /\ f_crash F = None /\ f_hr F = true /\ f_rob F = [] /\ f_rst F = [].

Lemma quiet_cmd F l : quiet F -> cmd F l = OGo /\ chk F l = OGo /\ fails F l = false.
Proof. intros (A & B & _). unfold cmd, chk, crash_at, fails. rewrite A, B. auto. Qed.

Lemma restore_loop_succeeds v d base : forall es w,
  (forall e, In e es -> exists f, In (e_path e, f) base /\ kind_matches v (s_bak d) (e_path e) e f) ->
  (forall p, obst w p = None) ->
  (forall e, In e es -> fs w (e_path e) <> Some Dir) ->
  exists w', restore_loop w d es = (w', true).
Proof.
  induction es as [|e r IH]; simpl; intros w Hes Hob Hnd; [eauto|].
  destruct (Hes e (or_introl eq_refl)) as (fe & _ & Hk).
  assert (Hnext : forall w1, obst w1 = obst w -> (forall q, q <> e_path e -> fs w1 q = fs w q) ->
                  fs w1 (e_path e) <> Some Dir -> exists w', restore_loop w1 d r = (w', true)).
  { intros w1 Ho Hq Hp. apply IH; [intros; apply Hes; now right|intros; now rewrite Ho|].
    intros e0 He0. destruct (N.eq_dec (e_path e0) (e_path e)) as [->|Hne]; [assumption|].
    rewrite (Hq _ Hne). apply Hnd. now right. }
  destruct (e_kind e) eqn:Ek.
  - apply Hnext; simpl; auto; [intros; now apply upd_other|rewrite upd_same; discriminate].
  - apply Hnext; simpl; auto; [intros; now apply upd_other|rewrite upd_same; discriminate].
  - destruct fe as [[c0 m0| |]|]; simpl in Hk; rewrite ?Ek in Hk; try discriminate; try tauto.
    destruct Hk as [Hk1 Hk2].
    unfold swap_artifact. rewrite Hk2, Hob.
    assert (Sm : forall mx, staged_mode w (e_path e) (MFull mx) = Some mx).
    { intros mx. unfold staged_mode. destruct (if cfg_stage_fix w then None else stale w (e_path e)); reflexivity. }
    rewrite Sm.
    destruct (fs w (e_path e)) as [[| |]|] eqn:Ef;
      try (apply Hnext; simpl; auto; [intros; now apply upd_other|rewrite upd_same; discriminate]).
    exfalso. apply (Hnd e (or_introl eq_refl)). exact Ef.
Qed.

Lemma rollback_can_succeed v F w base gi :
  fixedv v -> Inv v w -> J w -> quiet F ->
  g_base w = Some (true, base, gi) ->
  (forall p, obst w p = None) ->
  (forall p f, In (p, f) base -> fs w p <> Some Dir) ->
  exists w', rollback_flow v F w = (w', RbOk).
Proof.
  intros (_ & _ & _ & Hst & _) [Hi _] Hj Hq Hg Hob Hnd.
  unfold Inv0 in Hi. rewrite Hg in Hi. destruct Hi as (fr & d & nv & es & H1 & H2 & H3 & [E1 _] & _).
  destruct Hj as (_ & _ & J3). rewrite Hg in J3. destruct J3 as (_ & _ & Hs). simpl in Hs.
  unfold rollback_flow. destruct (jr w) as [j|] eqn:Ej; [|discriminate]. simpl in H1. inv H1.
  unfold started in Hs. rewrite Ej in Hs. rewrite Hs, andb_false_r, H2, H3.
  assert (Hc : forall l, cmd F l = OGo /\ chk F l = OGo /\ fails F l = false) by (intros; now apply quiet_cmd).
  assert (S1 : seq_oc [chk F 41; cmd F 11; chk F 42; cmd F 12; chk F 43]%N = OGo).
  { unfold seq_oc. destruct (Hc 41%N) as (_ & -> & _). destruct (Hc 11%N) as (-> & _ & _).
    destruct (Hc 42%N) as (_ & -> & _). destruct (Hc 12%N) as (-> & _ & _). destruct (Hc 43%N) as (_ & -> & _). reflexivity. }
  rewrite S1. destruct Hq as (_ & _ & Hhr & Hrob & Hrst). rewrite Hrob, Hrst. simpl. unfold with_obs, install_ob.
  match goal with |- context [restore_loop ?x d (rev es)] => destruct (restore_loop_succeeds v d base (rev es) x) as [w2 Hr] end.
  - intros e He. apply E1. now apply in_rev.
  - exact Hob.
  - intros e He. simpl. destruct (E1 e (proj2 (in_rev _ _) He)) as (f & Hin & _). eapply Hnd; eauto.
  - rewrite Hr. simpl.
    assert (Sv : (if nv then vpp_seq F 10 else OGo) = OGo).
    { destruct nv; [|reflexivity]. unfold vpp_seq, seq_oc.
      destruct (Hc (10 + 3)%N) as (-> & _ & _). destruct (Hc (10 + 4)%N) as (-> & _ & _).
      destruct (Hc (10 + 5)%N) as (-> & _ & _). destruct (Hc (10 + 6)%N) as (_ & _ & ->).
      destruct (Hc (10 + 7)%N) as (-> & _ & _). reflexivity. }
    rewrite Sv.
    assert (S2 : seq_oc [chk F 44; cmd F 18; chk F 45]%N = OGo).
    { unfold seq_oc. destruct (Hc 44%N) as (_ & -> & _). destruct (Hc 18%N) as (-> & _ & _).
      destruct (Hc 45%N) as (_ & -> & _). reflexivity. }
    rewrite S2, Hhr. eauto.
Qed.

(* ================================================================== resolved content
   K: while no operator edit happened since the journal's upgrade began, the tree differs from the
   tree at that time (ghost g_fs0) at most on the artifact paths of that upgrade. *)

Lemma swap_artifact_other w src p m w' b :
  swap_artifact w src p m = (w', b) -> forall q, q <> p -> fs w' q = fs w q.
Proof.
  unfold swap_artifact. intros H q Hq.
  destruct src; [destruct (obst w p)|]; [inv H; auto| |inv H; auto].
  destruct (staged_mode w p m); [|inv H; auto].
  destruct (fs w p) as [[| |]|]; inv H; simpl; auto; now apply upd_other.
Qed.

Lemma swap_loop_other arts : forall w w' b,
  swap_loop w arts = (w', b) -> forall q, ~ In q (map a_path arts) -> fs w' q = fs w q.
Proof.
  induction arts as [|a r IH]; simpl; intros w w' b H q Hq; [inv H; auto|].
  destruct (swap_artifact _ _ _ _) as [w2 ok] eqn:E.
  pose proof (swap_artifact_other _ _ _ _ _ _ E q) as E1. rewrite fs_set_phase in E1.
  destruct ok.
  - rewrite (IH _ _ _ H q) by tauto. rewrite fs_set_phase. apply E1. intros ->. tauto.
  - inv H. apply E1. intros ->. tauto.
Qed.

Lemma restore_loop_other d es : forall w w' b,
  restore_loop w d es = (w', b) -> forall q, ~ In q (map e_path es) -> fs w' q = fs w q.
Proof.
  induction es as [|e r IH]; simpl; intros w w' b H q Hq; [inv H; auto|].
  destruct (e_kind e).
  - rewrite (IH _ _ _ H q) by tauto. simpl. apply upd_other. intros ->. tauto.
  - rewrite (IH _ _ _ H q) by tauto. simpl. apply upd_other. intros ->. tauto.
  - destruct (swap_artifact _ _ _ _) as [w1 ok] eqn:E.
    pose proof (swap_artifact_other _ _ _ _ _ _ E q) as E1.
    destruct ok; [rewrite (IH _ _ _ H q) by tauto|inv H]; apply E1; intros ->; tauto.
Qed.

(* the paths a rollback from w can touch *)
Definition rb_scope (w : world) (ps : list path) : Prop :=
  forall k d nv es, option_map j_from (jr w) = Some k -> snaps w k = Some d -> s_meta d = Some (nv, es) ->
  forall e, In e es -> In (e_path e) ps.

Lemma rb_scope_frame4 w w' ps : frame4 w' = frame4 w -> rb_scope w ps -> rb_scope w' ps.
Proof. unfold rb_scope, frame4. intros H. injection H as -> _ -> _. auto. Qed.

Lemma rollback_other v F w w' r ps :
  rollback_flow v F w = (w', r) -> rb_scope w ps -> forall q, ~ In q ps -> fs w' q = fs w q.
Proof.
  unfold rollback_flow. intros H Hs q Hq.
  destruct (jr w) as [j|] eqn:Ej; [|now inv H].
  destruct (v_stale_fix v && phase_started (j_phase j)); [now inv H|].
  destruct (snaps w (j_from j)) as [d|] eqn:Ed; [|now inv H].
  destruct (s_meta d) as [[nv es]|] eqn:Em; [|now inv H].
  destruct (seq_oc _); try (now inv H).
  destruct (restore_loop _ _ _) as [w2 ok] eqn:Er.
  assert (R : fs w2 q = fs w q).
  { rewrite (restore_loop_other _ _ _ _ _ Er q);
      [destruct (installed_same w (f_rob F) (f_rst F)) as (_ & _ & _ & If & _); unfold installed in If; now rewrite If|].
    intros Hin. apply in_map_iff in Hin as (e & <- & He). apply Hq.
    apply in_rev in He. eapply (Hs (j_from j)); eauto. rewrite Ej. reflexivity. }
  destruct ok; simpl in H; [|inv H; now rewrite fs_set_phase].
  destruct (if nv then vpp_seq F 10 else OGo);
    [destruct (seq_oc _); [destruct (f_hr F)| |]| |];
    inv H; rewrite ?fs_set_phase, ?fs_restore_ginst, ?fs_restore_curm; assumption.
Qed.

Lemma auto_rollback_other v F w w' r ps :
  auto_rollback v F w = (w', r) -> rb_scope w ps ->
  (forall q, ~ In q ps -> fs w' q = fs w q) /\ kx w' = kx w.
Proof.
  unfold auto_rollback. intros H Hs.
  destruct (crash_at F 52); [inv H; auto|].
  destruct (rollback_flow v F w) as [w1 rr] eqn:E.
  pose proof (rollback_other _ _ _ _ _ _ E Hs) as Ho.
  pose proof (kx_of_frame _ _ (rollback_frame _ _ _ _ _ E)) as Hk.
  destruct rr; inv H; split; auto; try (intros; rewrite fs_set_phase; auto).
  rewrite <- Hk. apply kx_of_frame, frame_set_phase.
Qed.

Lemma post_swap_other v T F from w7 w' r ps :
  post_swap v T F from w7 = (w', r) -> rb_scope w7 ps ->
  (forall q, ~ In q ps -> fs w' q = fs w7 q) /\ kx w' = kx w7.
Proof.
  unfold post_swap. intros H Hs.
  assert (Hauto : forall wa, frame wa = frame w7 -> fs wa = fs w7 -> auto_rollback v F wa = (w', r) ->
    (forall q, ~ In q ps -> fs w' q = fs w7 q) /\ kx w' = kx w7).
  { intros wa Hf Hfs Ha.
    destruct (auto_rollback_other _ _ _ _ _ ps Ha) as [A1 A2].
    { eapply rb_scope_frame4; [|exact Hs]. now apply frame_frame4. }
    split; [intros q Hq; rewrite (A1 q Hq); now rewrite Hfs|]. rewrite A2. now apply kx_of_frame. }
  destruct (if needs_vpp (t_arts T) then vpp_seq F 0 else OGo);
    [|apply (Hauto _ (frame_set_phase _ _) (fs_set_phase _ _) H)|inv H; auto].
  destruct (seq_oc _);
    [|apply (Hauto _ (frame_set_phase _ _) (fs_set_phase _ _) H)|inv H; auto].
  assert (K8 : kx (set_phase w7 PDaemonStarted) = kx w7) by apply kx_of_frame, frame_set_phase.
  destruct (crash_at F 31); [inv H; split; [intros; now rewrite fs_set_phase|assumption]|].
  destruct (f_ha F); simpl in H.
  2:{ destruct (crash_at F 53); [inv H; split; [intros; now rewrite fs_set_phase|assumption]|].
      apply (Hauto _ (eq_trans (frame_set_phase _ _) (frame_set_phase _ _))
                     (eq_trans (fs_set_phase _ _) (fs_set_phase _ _)) H). }
  destruct (crash_at F 32); [inv H; split; [intros; now rewrite fs_set_phase|assumption]|].
  destruct (crash_at F 35); [inv H; split; [intros; simpl; now rewrite fs_set_phase|exact K8]|].
  assert (F9 : forall q, fs (set_phase (set_ginst (set_cur (set_phase w7 PDaemonStarted) (t_to T)) (t_to T)) PCompleted) q = fs w7 q).
  { intros q. rewrite fs_set_phase. simpl. now rewrite fs_set_phase. }
  assert (K9 : kx (set_phase (set_ginst (set_cur (set_phase w7 PDaemonStarted) (t_to T)) (t_to T)) PCompleted) = kx w7).
  { rewrite <- K8. apply kx_of_frame. rewrite frame_set_phase. reflexivity. }
  destruct (crash_at F 33); [inv H; split; [intros; apply F9|exact K9]|].
  destruct (crash_at F 34); inv H; (split; [intros; unfold prune; simpl; apply F9|exact K9]).
Qed.

Lemma do_snapshot_scope v w from arts w1 :
  do_snapshot v w from arts = (w1, true) ->
  exists d nv es, snaps w1 from = Some d /\ s_meta d = Some (nv, es) /\
                  forall e, In e es -> In (e_path e) (map a_path arts).
Proof.
  intros H. apply do_snapshot_spec in H as (_ & _ & _ & _ & _ & _ & S7).
  destruct (S7 eq_refl) as (d & nv & es & D1 & D2 & [D3 _] & _).
  exists d, nv, es. splits; auto. intros e He. destruct (D3 e He) as (f & Hin & _).
  unfold base_of in Hin. apply in_map_iff in Hin as (a & Ea & Ha). inv Ea.
  apply in_map_iff. exists a. auto.
Qed.

Lemma after_snapshot_other v T F from w2 w' r ps :
  after_snapshot v T F from w2 = (w', r) -> rb_scope w2 ps -> (forall a, In a (t_arts T) -> In (a_path a) ps) ->
  (forall q, ~ In q ps -> fs w' q = fs w2 q) /\ kx w' = kx w2.
Proof.
  unfold after_snapshot. intros H Sc2 Hps.
  assert (Hexit : forall wx, frame wx = frame w2 -> fs wx = fs w2 ->
     (forall q, ~ In q ps -> fs wx q = fs w2 q) /\ kx wx = kx w2).
  { intros wx Hf Hx. split; [intros; now rewrite Hx|now apply kx_of_frame]. }
  destruct (crash_at F 26); [inv H; now apply Hexit|].
  destruct (t_hook_ok T); simpl in H; [|inv H; now apply Hexit].
  destruct (seq_oc _); try (inv H; apply Hexit; [apply frame_set_phase|apply fs_set_phase]).
  destruct (seq_oc _); try (inv H; apply Hexit; [now rewrite !frame_set_phase|now rewrite !fs_set_phase]).
  destruct (crash_at F 29); [inv H; apply Hexit; [now rewrite !frame_set_phase|now rewrite !fs_set_phase]|].
  destruct (swap_loop _ _) as [w7 sok] eqn:Esw.
  pose proof (swap_loop_other _ _ _ _ Esw) as O7.
  match type of O7 with context [fs (install_stale (with_obs ?x ?l) ?l2)] =>
    destruct (installed_same x l l2) as (_ & _ & _ & If & _); unfold installed in If; rewrite If in O7 end.
  rewrite !fs_set_phase in O7.
  apply swap_loop_frame in Esw as (F7 & _ & _). rewrite frame_installed, !frame_set_phase in F7.
  assert (Sc7 : rb_scope w7 ps) by (eapply rb_scope_frame4; [|exact Sc2]; now apply frame_frame4).
  assert (K7 : kx w7 = kx w2) by now apply kx_of_frame.
  assert (O7' : forall q, ~ In q ps -> fs w7 q = fs w2 q).
  { intros q Hq. apply O7. intros Hin. apply Hq. apply in_map_iff in Hin as (a & <- & Ha). now apply Hps. }
  destruct sok; simpl in H.
  - destruct (post_swap_other _ _ _ _ _ _ _ _ H Sc7) as [P1 P2].
    split; [intros q Hq; rewrite (P1 q Hq); auto|congruence].
  - destruct (crash_at F 51); [inv H; auto|].
    destruct (auto_rollback_other _ _ _ _ _ ps H) as [A1 A2].
    { eapply rb_scope_frame4; [|exact Sc7]. apply frame_frame4, frame_set_phase. }
    split; [intros q Hq; rewrite (A1 q Hq), fs_set_phase; auto|].
    rewrite A2. rewrite <- K7. apply kx_of_frame, frame_set_phase.
Qed.

Lemma fresh_flow_other v T F w w' r :
  fresh_flow v T F w = (w', r) -> resume w = false ->
  (forall q, ~ In q (map a_path (t_arts T)) -> fs w' q = fs w q) /\ kx w' = (fs w, true).
Proof.
  unfold fresh_flow. intros H Hres. rewrite Hres in H. simpl in H.
  set (w0 := set_gfs0 _ _ _) in H.
  destruct (crash_at F 25); [inv H; split; [reflexivity|reflexivity]|].
  destruct (do_snapshot v w0 (cur w) (t_arts T)) as [w1 ok] eqn:Es.
  pose proof Es as Es'. apply do_snapshot_spec in Es' as (S1 & S2 & _ & _ & _ & _ & _).
  assert (K1 : kx w1 = (fs w, true)).
  { unfold do_snapshot in Es. destruct (snap_loop _ _ _ _) as [b [l|]]; inv Es; reflexivity. }
  destruct ok; simpl in H; [|inv H; split; [intros; now rewrite S2|assumption]].
  destruct (fails F 36); simpl in H.
  { inv H. destruct (do_snapshot_nocurm_same v w0 (cur w) (t_arts T)) as (_ & N2 & _ & _ & _ & N6).
    split; [intros; now rewrite N2|]. rewrite N6. reflexivity. }
  destruct (do_snapshot_scope _ _ _ _ _ Es) as (d & nv & es & D1 & D2 & D3).
  set (w2 := set_phase (set_gbase w1 _) PSnapshotDone) in H.
  assert (Hfs2 : fs w2 = fs w) by (unfold w2; rewrite fs_set_phase; simpl; exact S2).
  assert (K2 : kx w2 = (fs w, true)).
  { unfold w2. rewrite <- K1. unfold kx, set_phase. simpl. destruct (jr w1); reflexivity. }
  assert (Sc2 : rb_scope w2 (map a_path (t_arts T))).
  { unfold rb_scope, w2, set_phase. simpl. rewrite S1. simpl. intros k d0 nv0 es0 Hk Hd Hm e He.
    inv Hk. rewrite D1 in Hd. inv Hd. rewrite D2 in Hm. inv Hm. now apply D3. }
  destruct (after_snapshot_other _ _ _ _ _ _ _ _ H Sc2) as [A1 A2]; [intros; now apply in_map|].
  split; [intros q Hq; rewrite (A1 q Hq); now rewrite Hfs2|congruence].
Qed.

Lemma keep_flow_other v T F w w' r j d nv es ps :
  keep_flow v T F w j d nv es = (w', r) -> jr w = Some j ->
  (forall e, In e es -> In (e_path e) ps) -> (forall a, In a (t_arts T) -> In (a_path a) ps) ->
  (forall q, ~ In q ps -> fs w' q = fs w q) /\ kx w' = kx w.
Proof.
  unfold keep_flow. intros H Hj Hes Hps.
  destruct (crash_at F 25); [inv H; auto|].
  set (w2 := set_phase _ PSnapshotDone) in H.
  assert (Sc2 : rb_scope w2 ps).
  { unfold rb_scope, w2, set_phase. simpl. intros k d0 nv0 es0 Hk Hd Hm e He.
    inv Hk. rewrite upd_same in Hd. inv Hd. simpl in Hm. inv Hm. now apply Hes. }
  destruct (after_snapshot_other _ _ _ _ _ _ _ _ H Sc2 Hps) as [A1 A2].
  split; [intros q Hq; rewrite (A1 q Hq); unfold w2; now rewrite fs_set_phase|].
  rewrite A2. unfold w2. rewrite (kx_of_frame _ _ (frame_set_phase _ _)). reflexivity.
Qed.

Definition K (w : world) : Prop :=
  match g_base w with
  | Some (true, base, _) =>
      g_clean w = true ->
      (forall q, ~ In q (map fst base) -> fs w q = g_fs0 w q) /\
      (forall p f, In (p, f) base -> g_fs0 w p = f)
  | _ => True
  end.

Lemma Inv_scope v w base gi : Inv0 v w -> g_base w = Some (true, base, gi) -> rb_scope w (map fst base).
Proof.
  unfold Inv0. intros Hi Hg. rewrite Hg in Hi. destruct Hi as (fr & d & nv & es & H1 & H2 & H3 & [E1 _] & _).
  intros k d0 nv0 es0 Hk Hd Hm e He. rewrite H1 in Hk. inv Hk. rewrite H2 in Hd. inv Hd. rewrite H3 in Hm. inv Hm.
  destruct (E1 e He) as (f & Hin & _). apply in_map_iff. exists (e_path e, f). auto.
Qed.

Lemma snap_ok_entry_paths v w base fr : snap_ok v w base fr ->
  exists d nv es, option_map j_from (jr w) = Some fr /\ snaps w fr = Some d /\ s_meta d = Some (nv, es) /\
                  forall e, In e es -> In (e_path e) (map fst base).
Proof.
  intros (d & nv & es & H1 & H2 & H3 & [E1 _] & _). exists d, nv, es. splits; auto.
  intros e He. destruct (E1 e He) as (f & Hin & _). apply in_map_iff. exists (e_path e, f). auto.
Qed.

Lemma step_K v w o : fixedv v -> Inv v w -> K w -> K (fst (step v w o)).
Proof.
  intros (_ & _ & Hkf & Hst & _) Hi Hk. destruct o as [T Q F|F| |p f]; simpl.
  - destruct (apply v T Q F w) as [w1 r1] eqn:Ea. simpl. pose proof Ea as Ea0. unfold apply in Ea.
    destruct (admits T Q w) eqn:Ead; [|inv Ea; exact Hk].
    destruct (apply_flow_spec _ _ _ _ _ _ Hkf (proj1 Hi) Ea (admits_nodup _ _ _ Ead) (proj2 Hi)) as (_ & _ & _ & _ & P5 & _).
    unfold apply_flow in Ea. rewrite Hkf in Ea. simpl in Ea. unfold baseline_of in P5.
    destruct (resume w) eqn:Hr.
    + destruct (resume_Inv _ _ (proj1 Hi) Hr) as (j & base & bv & Hjr & Hg & Hs). rewrite Hg in P5. simpl in P5.
      rewrite Hjr in Ea. destruct (snap_ok_entry_paths _ _ _ _ Hs) as (d & nv & es & H1 & H2 & H3 & H4).
      rewrite H2, H3 in Ea. destruct (covered es (t_arts T)) eqn:Hc; simpl in Ea; [|inv Ea; exact Hk].
      destruct (negb (v_same_fix v) || covered_rev es (t_arts T)); [|inv Ea; exact Hk].
      destruct (keep_flow_other _ _ _ _ _ _ _ _ _ _ (map fst base) Ea Hjr H4) as [O1 O2].
      { intros a Ha. destruct (proj1 (in_map_iff _ _ _) (covered_paths _ _ Hc a Ha)) as (e & <- & He). now apply H4. }
      unfold K. destruct (g_base w1) as [[[[] b] gi]|] eqn:Eg; auto.
      destruct (P5 _ _ eq_refl) as [-> ->]. unfold kx in O2. injection O2 as -> ->.
      unfold K in Hk. rewrite Hg in Hk. intros Hc'. destruct (Hk Hc') as [K1 K2]. split; [|exact K2].
      intros q Hq. rewrite (O1 q Hq). now apply K1.
    + simpl in P5. destruct (fresh_flow_other _ _ _ _ _ _ Ea Hr) as [O1 O2].
      unfold K. destruct (g_base w1) as [[[[] b] gi]|] eqn:Eg; auto.
      destruct (P5 _ _ eq_refl) as [-> _]. unfold kx in O2. injection O2 as -> _. intros _.
      assert (Hm : map fst (base_of w (t_arts T)) = map a_path (t_arts T)).
      { unfold base_of. rewrite map_map. reflexivity. }
      rewrite Hm. split; [exact O1|].
      intros p f Hin. unfold base_of in Hin. apply in_map_iff in Hin as (a & Ea' & _). now inv Ea'.
  - destruct (rollback_flow v F w) as [w1 rr] eqn:Er.
    assert (K w1).
    { pose proof (rollback_frame _ _ _ _ _ Er) as Hf.
      unfold K. rewrite (gbase_of_frame _ _ Hf).
      destruct (g_base w) as [[[[] b] gi]|] eqn:Eg; auto.
      pose proof (kx_of_frame _ _ Hf) as Hkx. unfold kx in Hkx. injection Hkx as -> ->.
      unfold K in Hk. rewrite Eg in Hk. intros Hc. destruct (Hk Hc) as [K1 K2]. split; [|exact K2].
      intros q Hq. rewrite (rollback_other _ _ _ _ _ _ Er (Inv_scope _ _ _ _ (proj1 Hi) Eg) q Hq). auto. }
    destruct rr; exact H.
  - exact Hk.
  - unfold K. simpl. destruct (g_base w) as [[[[] b] gi]|]; auto. discriminate.
Qed.

Lemma K_init c f : K (init_world c f).
Proof. exact I. Qed.

Lemma exec_IK v : fixedv v -> forall ops w, Inv v w -> K w ->
  Inv v (exec v w ops) /\ K (exec v w ops).
Proof.
  intros Hx. induction ops as [|o ops IH]; simpl; intros w Hi Hk; [auto|].
  apply IH; [|now apply step_K].
  destruct (step v w o) as [w1 [r1 m1]] eqn:Es. simpl. now destruct (step_spec _ _ _ _ _ _ Hx Es Hi).
Qed.

Lemma resolve_ext f g : (forall q, f q = g q) -> forall n p, resolve f p n = resolve g p n.
Proof.
  intros H. induction n as [|n IH]; simpl; intros p; [reflexivity|].
  rewrite H. destruct (g p) as [[| |]|]; auto.
Qed.

Lemma ocontent_eqb_refl a : ocontent_eqb a a = true.
Proof. destruct a; simpl; [apply N.eqb_refl|reflexivity]. Qed.

(* K + restored artifact paths = the whole tree is the tree at the beginning of the upgrade *)
Lemma restored_whole_tree w base gi :
  g_base w = Some (true, base, gi) -> g_clean w = true -> K w ->
  (forall p f, In (p, f) base -> fs w p = f) -> forall q, fs w q = g_fs0 w q.
Proof.
  intros Hg Hc Hk Hr q. unfold K in Hk. rewrite Hg in Hk. destruct (Hk Hc) as [K1 K2].
  destruct (in_dec N.eq_dec q (map fst base)) as [Hin|Hni]; [|now apply K1].
  apply in_map_iff in Hin as ([p f] & <- & Hin). simpl. rewrite (Hr p f Hin). symmetry. eauto.
Qed.

Lemma mon_resolved_ok w base gi :
  g_base w = Some (true, base, gi) -> K w -> (forall p f, In (p, f) base -> fs w p = f) ->
  mon_resolved w <> MonMixed.
Proof.
  intros Hg Hk Hr. unfold mon_resolved. rewrite Hg. destruct (g_clean w) eqn:Hc; [|discriminate].
  assert (forallb (fun pf => ocontent_eqb (resolve (fs w) (fst pf) 16) (resolve (g_fs0 w) (fst pf) 16)) base = true) as ->;
    [|discriminate].
  apply forallb_forall. intros pf _.
  rewrite (resolve_ext (fs w) (g_fs0 w) (restored_whole_tree _ _ _ Hg Hc Hk Hr)). apply ocontent_eqb_refl.
Qed.

Lemma step_resolved v w o w' r m :
  fixedv v -> Inv v w -> K w -> step v w o = (w', (r, m)) -> step_res o w' r <> MonMixed.
Proof.
  intros Hx Hi Hk Hs. pose proof Hx as (Hv & _ & Hkf & Hst & _).
  assert (Hk' : K w') by (pose proof (step_K v w o Hx Hi Hk) as X; now rewrite Hs in X).
  destruct o as [T Q F|F| |p f]; simpl in *; try discriminate.
  - destruct (apply v T Q F w) as [w1 r1] eqn:Ea. inv Hs. destruct r; try discriminate.
    destruct (apply_spec _ _ _ _ _ _ _ Hkf Ea (proj1 Hi) (proj2 Hi)) as (_ & I2 & I3).
    destruct (admits T Q w) eqn:Ead; [|destruct (I2 eq_refl); discriminate].
    destruct (I3 eq_refl) as (_ & _ & P3 & _). destruct (P3 eq_refl) as (Q1 & Q2 & _).
    eapply mon_resolved_ok; eauto. intros p f Hin. rewrite (Q2 p f Hin). now apply normf_fixed.
  - destruct (rollback_flow v F w) as [w1 rr] eqn:Er.
    destruct (rollback_step_spec _ _ _ _ _ Er (proj1 Hi) Hv Hst) as (_ & R2 & R3).
    destruct rr; inv Hs; try discriminate.
    destruct (R3 eq_refl) as (base & gi & Hg & Hr).
    eapply mon_resolved_ok; [rewrite R2; exact Hg|assumption|exact Hr].
Qed.

Lemma reachable_resolved c f ops o w' r m :
  step repaired (exec repaired (init_world c f) ops) o = (w', (r, m)) -> step_res o w' r <> MonMixed.
Proof.
  destruct (exec_IK repaired fixedv_repaired ops _ (Inv_init repaired c f) (K_init c f)) as [Hi Hk].
  now apply (step_resolved repaired _ o w' r m fixedv_repaired Hi Hk).
Qed.

(* ---- "can be rolled back": from every reachable state in which an upgrade's snapshot completed, once the
   obstacles are gone, a rollback without further faults reports success, and it restores tree and version ---- *)
Lemma reachable_rollback_succeeds c f ops F base gi :
  let w := exec repaired (init_world c f) ops in
  g_base w = Some (true, base, gi) -> quiet F ->
  (forall p f0, In (p, f0) base -> fs w p <> Some Dir) ->
  exists w' m, step repaired (fst (step repaired w OpClear)) (OpRollback F) = (w', (RRbOk, m)) /\
               (forall p f0, In (p, f0) base -> fs w' p = f0) /\ cur w' = gi /\ m = MonOk.
Proof.
  intros w Hg Hq Hnd. destruct (reachable_IJ c f ops) as [Hi Hj]. fold w in Hi, Hj.
  set (wc := fst (step repaired w OpClear)).
  assert (Hic : Inv repaired wc) by (split; [eapply Inv_frame; [|left|exact (proj1 Hi)]; reflexivity|exact (proj2 Hi)]).
  assert (Hjc : J wc) by (apply (J_core w); auto).
  assert (Hgc : g_base wc = Some (true, base, gi)) by exact Hg.
  destruct (rollback_can_succeed repaired F wc base gi fixedv_repaired Hic Hjc Hq Hgc) as [w' Hr];
    [reflexivity|exact Hnd|].
  destruct (rollback_step_spec _ _ _ _ _ Hr (proj1 Hic) eq_refl eq_refl) as (_ & R2 & R3).
  destruct (R3 eq_refl) as (b' & gi' & Hg' & Hrest). rewrite Hgc in Hg'. inv Hg'.
  destruct (rollback_J repaired _ _ _ _ eq_refl eq_refl Hjc Hr) as (_ & _ & V).
  exists w', (mon_restored w'). simpl. rewrite Hr. splits; auto.
  - eapply V; eauto.
  - eapply mon_restored_ok; [rewrite R2; exact Hgc|exact Hrest].
Qed.


(* ================================================================== observable / ghost-free statements *)
(* "the baseline's snapshot is complete" read off the journal: it exists and is past "started" *)
Lemma post_snapshot_observable c f ops j :
  let w := exec repaired (init_world c f) ops in
  jr w = Some j -> phase_started (j_phase j) = false -> exists base gi, g_base w = Some (true, base, gi).
Proof.
  intros w Hj Hp. destruct (reachable_IJ c f ops) as [_ (_ & _ & J3)]. fold w in J3.
  destruct (g_base w) as [[[b base] gi]|]; [|congruence].
  destruct J3 as (_ & _ & Hs). unfold started in Hs. rewrite Hj, Hp in Hs. destruct b; [eauto|discriminate].
Qed.

(* an apply that stops with the journal still at "started" (death before / in / right after the snapshot,
   snapshot or saveCurrentManifest error) has not touched the tree nor current-manifest *)
Lemma stopped_at_started_untouched c f ops T Q F w' r :
  let w := exec repaired (init_world c f) ops in
  apply repaired T Q F w = (w', r) -> option_map j_phase (jr w') = Some PStarted ->
  (forall p, fs w' p = fs w p) /\ cur w' = cur w.
Proof.
  intros w Ha Hp. destruct (reachable_IJ c f ops) as [Hi Hj]. fold w in Hi, Hj.
  destruct (apply_spec repaired _ _ _ _ _ _ eq_refl Ha (proj1 Hi) (proj2 Hi)) as (_ & I2 & I3).
  destruct (admits T Q w) eqn:Ead; [|destruct (I2 eq_refl) as [-> _]; auto].
  assert (Hj' : J w').
  { pose proof (step_J repaired w (OpApply T Q F) fixedv_repaired Hi Hj) as X. simpl in X. now rewrite Ha in X. }
  destruct Hj' as (_ & _ & J3). destruct (I3 eq_refl) as (_ & _ & _ & _ & _ & P6).
  destruct (g_base w') as [[[b base] gi]|] eqn:Eg.
  - destruct J3 as (_ & _ & Hs). unfold started in Hs.
    destruct (jr w') as [j'|]; [|discriminate]. simpl in Hp. inv Hp. rewrite H0 in Hs. simpl in Hs.
    destruct b; [discriminate|]. destruct (P6 _ _ eq_refl) as [-> ->]. auto.
  - rewrite J3 in Hp. discriminate.
Qed.

Definition reports_rollback (o : op) (r : res) : Prop :=
  match o, r with
  | OpApply _ _ _, RErrRolledBack => True      (* "apply failed; auto-rollback succeeded" *)
  | OpRollback _, RRbOk => True
  | _, _ => False
  end.

(* a step that reports a rollback restores the baseline that is current after the step *)
Lemma step_restores v w o w' r m :
  fixedv v -> Inv v w -> J w -> step v w o = (w', (r, m)) -> reports_rollback o r ->
  forall b vi, base_part w' = Some (b, vi) -> (forall p f, In (p, f) b -> fs w' p = f) /\ cur w' = vi.
Proof.
  intros Hx Hi Hj Hs Hr b vi Hb. pose proof Hx as (Hv & Hc & Hk & Hst & _).
  destruct (step_consistent _ _ _ _ _ _ Hx Hi Hj Hs) as [_ Hver].
  unfold base_part in Hb. destruct (g_base w') as [[[b0 b1] v1]|] eqn:Eg; [|discriminate]. inv Hb.
  destruct o as [T Q F|F| |p0 f0]; simpl in Hs.
  - destruct (apply v T Q F w) as [w1 r1] eqn:Ea. inv Hs. simpl in Hr. destruct r; try contradiction.
    destruct (apply_spec _ _ _ _ _ _ _ Hk Ea (proj1 Hi) (proj2 Hi)) as (_ & I2 & I3).
    destruct (admits T Q w) eqn:Ead; [|destruct (I2 eq_refl); discriminate].
    destruct (I3 eq_refl) as (_ & _ & P3 & _). destruct (P3 eq_refl) as (Q1 & Q2 & _).
    rewrite Eg in Q1. inv Q1. split.
    + intros p f Hin. rewrite (Q2 p f Hin). now apply normf_fixed.
    + simpl in Hver. unfold ver_restored in Hver. rewrite Eg in Hver.
      destruct (N.eqb_spec (cur w') (snd (baseline_of w T))); [assumption|congruence].
  - destruct (rollback_flow v F w) as [w1 rr] eqn:Er.
    destruct (rollback_step_spec _ _ _ _ _ Er (proj1 Hi) Hv Hst) as (_ & R2 & R3).
    destruct rr; inv Hs; simpl in Hr; try contradiction.
    destruct (R3 eq_refl) as (base & gi & Hg & Hrest). rewrite R2, Hg in Eg. inv Eg. split; [exact Hrest|].
    simpl in Hver. unfold ver_restored in Hver. rewrite R2, Hg in Hver.
    destruct (N.eqb_spec (cur w') vi); [assumption|congruence].
  - inv Hs. contradiction.
  - inv Hs. contradiction.
Qed.

(* no operation of [ops] starts a NEW upgrade episode: every apply in it is refused or finds an interrupted upgrade *)
Fixpoint same_episode (v : variant) (w : world) (ops : list op) : Prop :=
  match ops with
  | [] => True
  | o :: r => match o with OpApply T Q _ => admits T Q w = false \/ resume w = true | _ => True end /\
              same_episode v (fst (step v w o)) r
  end.

Lemma same_episode_base v : fixedv v -> forall ops w, Inv v w -> J w -> same_episode v w ops ->
  base_part (exec v w ops) = base_part w /\ Inv v (exec v w ops) /\ J (exec v w ops).
Proof.
  intros Hx. induction ops as [|o ops IH]; simpl; intros w Hi Hj Hse; [auto|].
  destruct Hse as [Ho Hse].
  assert (Hi1 : Inv v (fst (step v w o))).
  { destruct (step v w o) as [w1 [r1 m1]] eqn:Es. simpl. now destruct (step_spec _ _ _ _ _ _ Hx Es Hi). }
  pose proof (step_J v w o Hx Hi Hj) as Hj1.
  destruct (IH _ Hi1 Hj1 Hse) as (B & I & Jx). splits; auto. rewrite B.
  destruct (step_baseline v w o Hx Hi) as [E|(T & Q & F & -> & Hr & Ha & _)]; [exact E|].
  destruct Ho as [Ho|Ho]; congruence.
Qed.

Lemma same_episode_app v ops1 : forall w ops2,
  same_episode v w (ops1 ++ ops2) -> same_episode v w ops1 /\ same_episode v (exec v w ops1) ops2.
Proof.
  induction ops1 as [|o r IH]; simpl; intros w ops2 H; [auto|].
  destruct H as [Ho H]. destruct (IH _ _ H). auto.
Qed.

(* the ghost-free end-to-end statement: an upgrade starts at w0 on a box that is not mid-upgrade; whatever follows
   without a new upgrade episode starting (failures, deaths, rollbacks, ForceRetry attempts, edits, clears), every
   operation that reports a rollback has put every artifact path of the tarball and current-manifest back to w0's *)
Lemma end_to_end c f ops0 T Q F ops o w' r m :
  let w0 := exec repaired (init_world c f) ops0 in
  let w1 := fst (step repaired w0 (OpApply T Q F)) in
  resume w0 = false -> admits T Q w0 = true ->
  same_episode repaired w1 (ops ++ [o]) ->
  step repaired (exec repaired w1 ops) o = (w', (r, m)) -> reports_rollback o r ->
  (forall a, In a (t_arts T) -> fs w' (a_path a) = fs w0 (a_path a)) /\ cur w' = cur w0.
Proof.
  intros w0 w1 Hres Had Hse Hs Hr.
  destruct (reachable_IJ c f ops0) as [Hi0 Hj0]. fold w0 in Hi0, Hj0.
  assert (Hi1 : Inv repaired w1).
  { unfold w1. destruct (step repaired w0 (OpApply T Q F)) as [wa [ra ma]] eqn:Es. simpl.
    now destruct (step_spec _ _ _ _ _ _ fixedv_repaired Es Hi0). }
  pose proof (step_J repaired w0 (OpApply T Q F) fixedv_repaired Hi0 Hj0) as Hj1. fold w1 in Hj1.
  assert (B1 : base_part w1 = Some (base_of w0 (t_arts T), cur w0)).
  { unfold w1. simpl. unfold apply. rewrite Had.
    destruct (apply_flow repaired T F w0) as [wa ra] eqn:Ea. simpl.
    unfold apply_flow in Ea. simpl in Ea. rewrite Hres in Ea.
    unfold fresh_flow in Ea. rewrite Hres in Ea. simpl in Ea. unfold base_part.
    destruct (crash_at F 25); [now inv Ea|].
    destruct (do_snapshot _ _ _ _) as [wb ok] eqn:Es.
    pose proof Es as Es'. apply do_snapshot_spec in Es' as (_ & _ & _ & _ & _ & S6 & _).
    destruct ok; simpl in Ea; [|inv Ea; now rewrite S6].
    destruct (fails F 36); simpl in Ea.
    { inv Ea. destruct (do_snapshot_nocurm_same repaired (set_gfs0 (set_gbase (set_jr w0 (Some {| j_from := cur w0; j_to := t_to T; j_phase := PStarted |}))
                (Some (false, base_of w0 (t_arts T), cur w0))) (fs w0) true) (cur w0) (t_arts T)) as (_ & _ & _ & _ & N5 & _).
      now rewrite N5. }
    pose proof (after_snapshot_gbase _ _ _ _ _ _ _ Ea) as Hb. unfold base_part in Hb.
    rewrite (gbase_of_frame _ _ (frame_set_phase _ _)) in Hb. simpl in Hb. exact Hb. }
  apply same_episode_app in Hse as [Hse1 Hse2].
  destruct (same_episode_base repaired fixedv_repaired ops w1 Hi1 Hj1 Hse1) as (B & Iw & Jw).
  assert (Bw' : base_part w' = Some (base_of w0 (t_arts T), cur w0)).
  { simpl in Hse2. destruct Hse2 as [Ho _].
    pose proof (step_baseline repaired (exec repaired w1 ops) o fixedv_repaired Iw) as Hb. rewrite Hs in Hb. simpl in Hb.
    destruct Hb as [E|(T' & Q' & F' & -> & Hr' & Ha' & _)]; [rewrite E, B; exact B1|].
    destruct Ho; congruence. }
  destruct (step_restores _ _ _ _ _ _ fixedv_repaired Iw Jw Hs Hr _ _ Bw') as [R1 R2].
  split; [|exact R2]. intros a Ha. apply R1. unfold base_of. apply in_map_iff. exists a. auto.
Qed.

(* ================================================================== "an upgrade CAN complete" *)
Definition quiet_apply (T : tarball) (F : faults) : Prop :=
  f_fail F = [] /\ f_crash F = None /\ f_ha F = true /\ f_ob F = [] /\ f_st F = [] /\ t_hook_ok T = true /\
  forall a, In a (t_arts T) -> a_mode a <> MBad.

Lemma quiet_apply_cmd T F l : quiet_apply T F -> cmd F l = OGo /\ chk F l = OGo /\ fails F l = false /\ crash_at F l = false.
Proof. intros (A & B & _). unfold cmd, chk, crash_at, fails. rewrite A, B. auto. Qed.

Lemma snap_loop_succeeds v f arts : forall bak,
  (forall a, In a arts -> f (a_path a) <> Some Dir) -> exists b es, snap_loop v f bak arts = (b, Some es).
Proof.
  induction arts as [|a r IH]; simpl; intros bak H; [eauto|].
  assert (Hr : forall a0, In a0 r -> f (a_path a0) <> Some Dir) by (intros; apply H; now right).
  destruct (f (a_path a)) as [[c m|t|]|] eqn:Ef.
  - destruct (IH (upd bak (a_path a) (Some c)) Hr) as (b & es & ->). simpl. eauto.
  - destruct (IH bak Hr) as (b & es & ->). simpl. eauto.
  - exfalso. apply (H a (or_introl eq_refl)). exact Ef.
  - destruct (IH bak Hr) as (b & es & ->). simpl. eauto.
Qed.

Lemma swap_loop_succeeds arts : forall w,
  cfg_stage_fix w = true -> (forall p, obst w p = None) ->
  (forall a, In a arts -> fs w (a_path a) <> Some Dir /\ a_mode a <> MBad) ->
  exists w', swap_loop w arts = (w', true).
Proof.
  induction arts as [|a r IH]; simpl; intros w Hc Hob H; [eauto|].
  destruct (H a (or_introl eq_refl)) as [Hd Hm].
  cbv zeta. unfold swap_artifact. rewrite obst_set_phase, Hob.
  assert (Sm : exists mm, staged_mode (set_phase w (PSwapping (a_path a))) (a_path a) (a_mode a) = Some mm).
  { unfold staged_mode. rewrite cfg_set_phase, Hc. destruct (a_mode a); simpl; eauto. congruence. }
  destruct Sm as [mm ->]. rewrite !(fs_set_phase w (PSwapping (a_path a))).
  assert (Hnext : forall wx, cfg_stage_fix wx = true -> obst wx = obst w ->
            fs wx = upd (fs w) (a_path a) (Some (Reg (a_content a) mm)) -> exists w', swap_loop wx r = (w', true)).
  { intros wx C O Fx. apply IH; [assumption|intros; now rewrite O|].
    intros a0 Ha0. destruct (H a0 (or_intror Ha0)) as [D0 M0]. split; [|assumption].
    rewrite Fx. unfold upd. destruct (N.eqb (a_path a0) (a_path a)); [discriminate|assumption]. }
  destruct (fs w (a_path a)) as [[| |]|] eqn:Ef; try (exfalso; now apply Hd);
    (apply Hnext; [rewrite cfg_set_phase; simpl; rewrite ?cfg_set_phase; assumption
                  |rewrite obst_set_phase; simpl; rewrite ?obst_set_phase; reflexivity
                  |rewrite fs_set_phase; simpl; rewrite ?fs_set_phase; reflexivity]).
Qed.

Lemma after_snapshot_quiet v T F from w2 :
  quiet_apply T F -> cfg_stage_fix w2 = true -> (forall p, obst w2 p = None) ->
  (forall a, In a (t_arts T) -> fs w2 (a_path a) <> Some Dir) ->
  exists w', after_snapshot v T F from w2 = (w', ROk).
Proof.
  intros Hq Hc Hob Hd. pose proof Hq as (_ & _ & Hha & Hfob & Hfst & Hhook & Hmode).
  assert (Q : forall l, cmd F l = OGo /\ chk F l = OGo /\ fails F l = false /\ crash_at F l = false)
    by (intros; now apply (quiet_apply_cmd T)).
  unfold after_snapshot. destruct (Q 26%N) as (_ & _ & _ & ->). rewrite Hhook. simpl.
  assert (S1 : seq_oc [chk F 27; cmd F 1]%N = OGo).
  { unfold seq_oc. destruct (Q 27%N) as (_ & -> & _). destruct (Q 1%N) as (-> & _). reflexivity. }
  assert (S2 : seq_oc [chk F 28; cmd F 2]%N = OGo).
  { unfold seq_oc. destruct (Q 28%N) as (_ & -> & _). destruct (Q 2%N) as (-> & _). reflexivity. }
  rewrite S1, S2. destruct (Q 29%N) as (_ & _ & _ & ->). rewrite Hfob, Hfst. simpl.
  set (w5 := set_phase (set_phase (set_phase w2 PPreHookDone) PRestartSuspended) PDaemonStopped).
  destruct (swap_loop_succeeds (t_arts T) (with_obs w5 [])) as [w7 Hsw].
  - unfold with_obs. simpl. unfold w5. now rewrite !cfg_set_phase.
  - intros p. unfold with_obs, install_ob. simpl. unfold w5. rewrite !obst_set_phase. apply Hob.
  - intros a Ha. split; [|now apply Hmode]. unfold with_obs. simpl. unfold w5. rewrite !fs_set_phase. now apply Hd.
  - rewrite Hsw. simpl. unfold post_swap.
    assert (Sv : (if needs_vpp (t_arts T) then vpp_seq F 0 else OGo) = OGo).
    { destruct (needs_vpp (t_arts T)); [|reflexivity]. unfold vpp_seq, seq_oc.
      destruct (Q (0 + 3)%N) as (-> & _). destruct (Q (0 + 4)%N) as (-> & _). destruct (Q (0 + 5)%N) as (-> & _).
      destruct (Q (0 + 6)%N) as (_ & _ & -> & _). destruct (Q (0 + 7)%N) as (-> & _). reflexivity. }
    rewrite Sv.
    assert (S3 : seq_oc [chk F 30; cmd F 8]%N = OGo).
    { unfold seq_oc. destruct (Q 30%N) as (_ & -> & _). destruct (Q 8%N) as (-> & _). reflexivity. }
    rewrite S3. destruct (Q 31%N) as (_ & _ & _ & ->). rewrite Hha. simpl.
    destruct (Q 32%N) as (_ & _ & _ & ->). destruct (Q 35%N) as (_ & _ & _ & ->).
    destruct (Q 33%N) as (_ & _ & _ & ->). destruct (Q 34%N) as (_ & _ & _ & ->). eauto.
Qed.

Lemma fresh_flow_quiet T F w :
  quiet_apply T F -> cfg_stage_fix w = true -> (forall p, obst w p = None) ->
  (forall a, In a (t_arts T) -> fs w (a_path a) <> Some Dir) ->
  exists w', fresh_flow repaired T F w = (w', ROk).
Proof.
  intros Hq Hc Hob Hd.
  assert (Q0 : forall l, cmd F l = OGo /\ chk F l = OGo /\ fails F l = false /\ crash_at F l = false)
    by (intros; now apply (quiet_apply_cmd T)).
  unfold fresh_flow. destruct (Q0 25%N) as (_ & _ & _ & ->). destruct (Q0 36%N) as (_ & _ & -> & _). simpl.
  set (w0 := if negb (resume w) then _ else _).
  assert (P0 : fs w0 = fs w /\ obst w0 = obst w /\ cfg_stage_fix w0 = true /\ cur w0 = cur w).
  { unfold w0. destruct (negb (resume w)); simpl; auto. }
  destruct P0 as (F0 & O0 & C0 & U0).
  unfold do_snapshot.
  destruct (snap_loop_succeeds repaired (fs w0)
              (t_arts T) (s_bak match snaps w0 (cur w) with Some d => d | None => empty_snap end)) as (b & es & ->).
  { intros a Ha. rewrite F0. now apply Hd. }
  simpl.
  match goal with |- exists w', after_snapshot _ _ _ _ ?x = _ => apply (after_snapshot_quiet repaired T F (cur w) x Hq) end.
  - rewrite cfg_set_phase. destruct (negb (resume w)); simpl; exact C0.
  - intros p. rewrite obst_set_phase. destruct (negb (resume w)); simpl; rewrite <- ?O0 in Hob; rewrite ?O0; apply Hob.
  - intros a Ha. rewrite fs_set_phase. destruct (negb (resume w)); simpl; rewrite ?F0; now apply Hd.
Qed.

(* Without faults, without obstacles and with no directory on its paths, an apply from a reachable state either
   completes and reports success, or refuses and leaves the world exactly as it was (inadmissible tarball; apply over
   an interrupted upgrade without ForceRetry or with a different artifact set).  It never stops half-way. *)
Lemma apply_quiet c f ops T Q F :
  let w := exec repaired (init_world c f) ops in
  quiet_apply T F -> (forall p, obst w p = None) ->
  (forall a, In a (t_arts T) -> fs w (a_path a) <> Some Dir) ->
  (exists w', apply repaired T Q F w = (w', ROk)) \/ apply repaired T Q F w = (w, RErr).
Proof.
  intros w Hq Hob Hd. destruct (reachable_IJ c f ops) as [[Hi Hc] _]. fold w in Hi, Hc.
  pose proof Hq as (_ & _ & _ & _ & _ & _ & _).
  assert (Q0 : forall l, cmd F l = OGo /\ chk F l = OGo /\ fails F l = false /\ crash_at F l = false)
    by (intros; now apply (quiet_apply_cmd T)).
  unfold apply. destruct (admits T Q w); [|now right].
  assert (Hfresh : exists w', fresh_flow repaired T F w = (w', ROk)) by (now apply fresh_flow_quiet).
  unfold apply_flow. simpl. destruct (resume w) eqn:Hr; [|now left].
  destruct (jr w) as [j|]; [|now left]. destruct (snaps w (j_from j)) as [d|]; [|now left].
  destruct (s_meta d) as [[nv es]|]; [|now left].
  destruct (covered es (t_arts T) && _); [|now right].
  left. unfold keep_flow. destruct (Q0 25%N) as (_ & _ & _ & ->).
  match goal with |- exists w', after_snapshot _ _ _ _ ?x = _ => apply (after_snapshot_quiet repaired T F (j_from j) x Hq) end.
  - rewrite cfg_set_phase. exact Hc.
  - intros p. rewrite obst_set_phase. apply Hob.
  - intros a Ha. rewrite fs_set_phase. now apply Hd.
Qed.

Lemma fresh_apply_completes c f ops T Q F :
  let w := exec repaired (init_world c f) ops in
  quiet_apply T F -> (forall p, obst w p = None) ->
  (forall a, In a (t_arts T) -> fs w (a_path a) <> Some Dir) ->
  admits T Q w = true -> resume w = false ->
  exists w', apply repaired T Q F w = (w', ROk).
Proof.
  intros w Hq Hob Hd Ha Hr. destruct (reachable_IJ c f ops) as [[_ Hc] _]. fold w in Hc.
  unfold apply. rewrite Ha. unfold apply_flow. simpl. rewrite Hr. now apply fresh_flow_quiet.
Qed.
