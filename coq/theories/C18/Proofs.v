(* C18/Proofs.v — invariants and lemmas for the upgrade model. *)
From Coq Require Import ZifyBool ZifyNat ZifyN.
From OV Require Import Common.Base C18.Model.

Ltac inv H := inversion H; subst; clear H.
Ltac splits := repeat match goal with |- _ /\ _ => split end.
Arguments swap_artifact : simpl never.
Arguments set_phase : simpl never.
Arguments rollback_flow : simpl never.
Arguments do_snapshot : simpl never.
Arguments auto_rollback : simpl never.
Arguments post_swap : simpl never.
Arguments prune : simpl never.
Arguments vpp_seq : simpl never.
Arguments seq_oc : simpl never.
Arguments install_ob : simpl never.

(* ------------------------------------------------------------------ basic facts *)
Lemma upd_same {A} (f : N -> A) k x : upd f k x k = x.
Proof. unfold upd. now rewrite N.eqb_refl. Qed.
Lemma upd_other {A} (f : N -> A) k x q : q <> k -> upd f k x q = f q.
Proof. unfold upd. intros H. destruct (N.eqb_spec q k); [contradiction|reflexivity]. Qed.

Lemma file_eqb_refl f : file_eqb f f = true.
Proof. destruct f; simpl; rewrite ?N.eqb_refl; reflexivity. Qed.
Lemma ofile_eqb_refl f : ofile_eqb f f = true.
Proof. destruct f; simpl; [apply file_eqb_refl|reflexivity]. Qed.
Lemma file_eqb_eq a b : file_eqb a b = true -> a = b.
Proof.
  destruct a, b; simpl; try discriminate; intros H.
  - apply andb_prop in H as [H1 H2]. apply N.eqb_eq in H1, H2. now subst.
  - apply N.eqb_eq in H. now subst.
  - reflexivity.
Qed.
Lemma ofile_eqb_eq a b : ofile_eqb a b = true -> a = b.
Proof. destruct a, b; simpl; try discriminate; intros H; [f_equal; now apply file_eqb_eq|reflexivity]. Qed.

Lemma nodupb_NoDup l : nodupb l = true -> NoDup l.
Proof.
  induction l as [|x r IH]; simpl; intros H; [constructor|].
  apply andb_prop in H as [H1 H2]. constructor; [|auto].
  intros Hin. apply negb_true_iff in H1.
  assert (existsb (N.eqb x) r = true) by (apply existsb_exists; exists x; split; [exact Hin|apply N.eqb_refl]).
  congruence.
Qed.

(* ------------------------------------------------------------------ the frame:
   the parts of the world a later rollback relies on and that no swap / restore /
   phase change touches *)
Definition frame (w : world) :=
  (option_map j_from (jr w), option_map j_to (jr w), snaps w, g_base w, g_fs0 w, g_clean w).

Definition frame4 (w : world) :=
  (option_map j_from (jr w), option_map j_to (jr w), snaps w, g_base w).
Lemma frame_frame4 w w' : frame w' = frame w -> frame4 w' = frame4 w.
Proof. unfold frame, frame4. intros H. injection H as -> -> -> -> _ _. reflexivity. Qed.

Lemma frame_set_phase w ph : frame (set_phase w ph) = frame w.
Proof. unfold set_phase, frame. destruct (jr w) eqn:E; simpl; rewrite ?E; reflexivity. Qed.
Lemma frame_set_fs w f : frame (set_fs w f) = frame w. Proof. reflexivity. Qed.
Lemma frame_set_obst w o : frame (set_obst w o) = frame w. Proof. reflexivity. Qed.
Lemma frame_set_cur w c : frame (set_cur w c) = frame w. Proof. reflexivity. Qed.
Lemma frame_set_ginst w c : frame (set_ginst w c) = frame w. Proof. reflexivity. Qed.
Lemma frame_restore_curm v w d : frame (restore_curm v w d) = frame w.
Proof. unfold restore_curm. destruct (v_curm_fix v); [destruct (s_curm d)|]; reflexivity. Qed.
Lemma frame_restore_ginst w : frame (restore_ginst w) = frame w.
Proof. unfold restore_ginst. destruct (g_base w) as [[[[] ?] ?]|] eqn:E; reflexivity. Qed.

Lemma fs_set_phase w ph : fs (set_phase w ph) = fs w.
Proof. unfold set_phase. destruct (jr w) eqn:E; reflexivity. Qed.
Lemma fs_restore_curm v w d : fs (restore_curm v w d) = fs w.
Proof. unfold restore_curm. destruct (v_curm_fix v); [destruct (s_curm d)|]; reflexivity. Qed.
Lemma fs_restore_ginst w : fs (restore_ginst w) = fs w.
Proof. unfold restore_ginst. destruct (g_base w) as [[[[] ?] ?]|] eqn:E; reflexivity. Qed.
Lemma obst_set_phase w ph : obst (set_phase w ph) = obst w.
Proof. unfold set_phase. destruct (jr w) eqn:E; reflexivity. Qed.
Lemma cur_set_phase w ph : cur (set_phase w ph) = cur w.
Proof. unfold set_phase. destruct (jr w) eqn:E; reflexivity. Qed.
Lemma ginst_set_phase w ph : g_inst (set_phase w ph) = g_inst w.
Proof. unfold set_phase. destruct (jr w) eqn:E; reflexivity. Qed.

(* ------------------------------------------------------------------ SwapArtifact *)
Lemma swap_artifact_frame w src p m w' b :
  swap_artifact w src p m = (w', b) -> frame w' = frame w /\ cur w' = cur w /\ g_inst w' = g_inst w.
Proof.
  unfold swap_artifact. intros H.
  destruct src; [destruct (obst w p)|]; [inv H; auto| |inv H; auto].
  destruct (new_mode m); [|inv H; auto].
  destruct (fs w p) as [[| |]|]; inv H; auto.
Qed.

Lemma swap_artifact_ok w src p m w' :
  swap_artifact w src p m = (w', true) ->
  exists c mm, src = Some c /\ new_mode m = Some mm /\
               fs w' = upd (fs w) p (Some (Reg c mm)) /\ obst w' = obst w.
Proof.
  unfold swap_artifact. intros H.
  destruct src as [c|]; [destruct (obst w p)|]; [inv H| |inv H].
  destruct (new_mode m) as [mm|]; [|inv H].
  exists c, mm. destruct (fs w p) as [[| |]|]; inv H; auto.
Qed.

(* a swap that fails leaves every artifact as it was *)
Lemma swap_artifact_fail_fs w src p m w' :
  swap_artifact w src p m = (w', false) -> fs w' = fs w.
Proof.
  unfold swap_artifact. intros H.
  destruct src; [destruct (obst w p)|]; [inv H; auto| |inv H; auto].
  destruct (new_mode m); [|inv H; auto].
  destruct (fs w p) as [[| |]|]; inv H; auto.
Qed.

(* ------------------------------------------------------------------ swap loop *)
Lemma swap_loop_frame arts : forall w w' b,
  swap_loop w arts = (w', b) -> frame w' = frame w /\ cur w' = cur w /\ g_inst w' = g_inst w.
Proof.
  induction arts as [|a r IH]; simpl; intros w w' b H; [inv H; auto|].
  destruct (swap_artifact _ _ _ _) as [w2 ok] eqn:E.
  apply swap_artifact_frame in E as (E1 & E2 & E3).
  rewrite frame_set_phase in E1. rewrite cur_set_phase in E2. rewrite ginst_set_phase in E3.
  destruct ok.
  - apply IH in H as (H1 & H2 & H3).
    rewrite frame_set_phase in H1. rewrite cur_set_phase in H2. rewrite ginst_set_phase in H3.
    repeat split; congruence.
  - inv H. auto.
Qed.

Lemma swap_loop_ok arts : forall w w',
  swap_loop w arts = (w', true) -> NoDup (map a_path arts) ->
  (forall a, In a arts -> exists mm, new_mode (a_mode a) = Some mm /\
                                     fs w' (a_path a) = Some (Reg (a_content a) mm)) /\
  (forall p, ~ In p (map a_path arts) -> fs w' p = fs w p).
Proof.
  induction arts as [|a r IH]; simpl; intros w w' H Hnd.
  - inv H. split; [intros ? []|auto].
  - destruct (swap_artifact _ _ _ _) as [w2 ok] eqn:E. destruct ok; [|discriminate].
    apply swap_artifact_ok in E as (c & mm & Hc & Hm & Hfs & _). inv Hc.
    apply NoDup_cons_iff in Hnd as [Hn1 Hn2]. apply IH in H as [I1 I2]; [|assumption].
    rewrite fs_set_phase, Hfs, fs_set_phase in I2.
    split.
    + intros a' [<-|Hin]; [|auto].
      exists mm. split; [assumption|]. rewrite I2 by assumption. apply upd_same.
    + intros p Hp. rewrite I2 by tauto. apply upd_other. intros ->. tauto.
Qed.

(* ------------------------------------------------------------------ snapshot *)
Definition kind_matches (v : variant) (bak : path -> option content) (p : path) (e : entry) (f : option file) : Prop :=
  match f with
  | None => e_kind e = EAbsent
  | Some (Sym t) => e_kind e = ESym t
  | Some (Reg c m) => e_kind e = EReg (rec_mode v m) /\ bak p = Some c
  | Some Dir => False
  end.

Definition entries_ok (v : variant) (bak : path -> option content) (es : list entry)
           (base : list (path * option file)) : Prop :=
  (forall e, In e es -> exists f, In (e_path e, f) base /\ kind_matches v bak (e_path e) e f) /\
  (forall p f, In (p, f) base -> exists e, In e es /\ e_path e = p).

Definition functional (l : list (path * option file)) : Prop :=
  forall p f f', In (p, f) l -> In (p, f') l -> f = f'.

Lemma snap_loop_bak v f arts : forall bak bak' r,
  snap_loop v f bak arts = (bak', r) ->
  forall q, bak' q = bak q \/ exists c m, f q = Some (Reg c m) /\ bak' q = Some c.
Proof.
  induction arts as [|a r IH]; simpl; intros bak bak' res H q; [inv H; auto|].
  destruct (f (a_path a)) as [[c m|t|]|] eqn:Ef.
  - destruct (snap_loop v f (upd bak (a_path a) (Some c)) r) as [b es] eqn:E. inv H.
    destruct (IH _ _ _ E q) as [Hq|Hq]; [|auto].
    destruct (N.eqb_spec q (a_path a)) as [->|Hne].
    + right. exists c, m. rewrite Hq, upd_same. auto.
    + left. rewrite Hq. now apply upd_other.
  - destruct (snap_loop v f bak r) as [b es] eqn:E. inv H. eauto.
  - inv H. auto.
  - destruct (snap_loop v f bak r) as [b es] eqn:E. inv H. eauto.
Qed.

Lemma snap_loop_ok v f arts : forall bak bak' es,
  snap_loop v f bak arts = (bak', Some es) ->
  entries_ok v bak' es (map (fun a => (a_path a, f (a_path a))) arts).
Proof.
  induction arts as [|a r IH]; simpl; intros bak bak' es H.
  - inv H. split; [intros ? []|intros ? ? []].
  - destruct (f (a_path a)) as [[c m|t|]|] eqn:Ef.
    + destruct (snap_loop v f (upd bak (a_path a) (Some c)) r) as [b [es'|]] eqn:E; inv H.
      pose proof (snap_loop_bak _ _ _ _ _ _ E (a_path a)) as Hb.
      destruct (IH _ _ _ E) as [I1 I2]. split.
      * intros e [<-|Hin].
        -- exists (Some (Reg c m)). simpl. split; [left; reflexivity|]. split; [reflexivity|].
           destruct Hb as [Hb|(c' & m' & Hf & Hb)]; [now rewrite Hb, upd_same|]. congruence.
        -- destruct (I1 e Hin) as (f0 & Hf0 & Hk). exists f0. split; [now right|assumption].
      * intros p f0 [Heq|Hin].
        -- inv Heq. eexists. split; [left; reflexivity|reflexivity].
        -- destruct (I2 p f0 Hin) as (e & He & Hp). exists e. split; [now right|assumption].
    + destruct (snap_loop v f bak r) as [b [es'|]] eqn:E; inv H.
      destruct (IH _ _ _ E) as [I1 I2]. split.
      * intros e [<-|Hin].
        -- exists (Some (Sym t)). simpl. split; [left; reflexivity|reflexivity].
        -- destruct (I1 e Hin) as (f0 & Hf0 & Hk). exists f0. split; [now right|assumption].
      * intros p f0 [Heq|Hin].
        -- inv Heq. eexists. split; [left; reflexivity|reflexivity].
        -- destruct (I2 p f0 Hin) as (e & He & Hp). exists e. split; [now right|assumption].
    + discriminate.
    + destruct (snap_loop v f bak r) as [b [es'|]] eqn:E; inv H.
      destruct (IH _ _ _ E) as [I1 I2]. split.
      * intros e [<-|Hin].
        -- exists None. simpl. split; [left; reflexivity|reflexivity].
        -- destruct (I1 e Hin) as (f0 & Hf0 & Hk). exists f0. split; [now right|assumption].
      * intros p f0 [Heq|Hin].
        -- inv Heq. eexists. split; [left; reflexivity|reflexivity].
        -- destruct (I2 p f0 Hin) as (e & He & Hp). exists e. split; [now right|assumption].
Qed.

Lemma base_of_functional w arts : functional (base_of w arts).
Proof.
  unfold functional, base_of. intros p f f' H1 H2.
  apply in_map_iff in H1 as (a1 & E1 & _). apply in_map_iff in H2 as (a2 & E2 & _).
  inv E1. inv E2. congruence.
Qed.

(* ------------------------------------------------------------------ restore *)
Definition normf (v : variant) (f : option file) : option file :=
  match f with Some (Reg c m) => Some (Reg c (rec_mode v m)) | x => x end.

Lemma normf_fixed v f : v_mode_fix v = true -> normf v f = f.
Proof. intros H. destruct f as [[| |]|]; simpl; unfold rec_mode; rewrite ?H; reflexivity. Qed.

Lemma restore_loop_frame d es : forall w w' b,
  restore_loop w d es = (w', b) -> frame w' = frame w /\ cur w' = cur w /\ g_inst w' = g_inst w.
Proof.
  induction es as [|e r IH]; simpl; intros w w' b H; [inv H; auto|].
  destruct (e_kind e).
  - apply IH in H. exact H.
  - apply IH in H. exact H.
  - destruct (swap_artifact _ _ _ _) as [w1 ok] eqn:E. apply swap_artifact_frame in E as (E1 & E2 & E3).
    destruct ok; [apply IH in H as (H1 & H2 & H3); repeat split; congruence|inv H; auto].
Qed.

Lemma restore_loop_ok v d base : functional base -> forall es w w',
  (forall e, In e es -> exists f, In (e_path e, f) base /\ kind_matches v (s_bak d) (e_path e) e f) ->
  restore_loop w d es = (w', true) ->
  (forall e f, In e es -> In (e_path e, f) base -> fs w' (e_path e) = normf v f) /\
  (forall p, ~ In p (map e_path es) -> fs w' p = fs w p).
Proof.
  intros Hfun. induction es as [|e r IH]; simpl; intros w w' Hes H.
  - inv H. split; [intros ? ? []|auto].
  - assert (Hr : forall e0, In e0 r -> exists f, In (e_path e0, f) base /\ kind_matches v (s_bak d) (e_path e0) e0 f)
      by (intros; apply Hes; now right).
    destruct (Hes e (or_introl eq_refl)) as (fe & Hfe & Hk).
    assert (Hstep : exists w1, restore_loop w1 d r = (w', true) /\ fs w1 = upd (fs w) (e_path e) (normf v fe)).
    { destruct (e_kind e) eqn:Ek.
      - destruct fe as [[| |]|]; simpl in Hk; rewrite ?Ek in Hk; try discriminate; try tauto.
        + destruct Hk; discriminate.
        + eexists. split; [exact H|reflexivity].
      - destruct fe as [[| |]|]; simpl in Hk; rewrite ?Ek in Hk; try discriminate; try tauto.
        + destruct Hk; discriminate.
        + inv Hk. eexists. split; [exact H|reflexivity].
      - destruct (swap_artifact _ _ _ _) as [w1 ok] eqn:E. destruct ok; [|discriminate].
        apply swap_artifact_ok in E as (c & mm & Hc & Hm & Hfs & _).
        destruct fe as [[c0 m0| |]|]; simpl in Hk; rewrite ?Ek in Hk; try discriminate; try tauto.
        destruct Hk as [Hk1 Hk2]. inv Hk1. simpl in Hm. inv Hm.
        exists w1. split; [exact H|]. rewrite Hfs. simpl. congruence. }
    destruct Hstep as (w1 & Hrest & Hfs1).
    destruct (IH _ _ Hr Hrest) as [I1 I2].
    split.
    + intros e0 f0 [<-|Hin] Hb.
      * assert (f0 = fe) by (eapply Hfun; eauto). subst f0.
        destruct (in_dec N.eq_dec (e_path e) (map e_path r)) as [Hi|Hni].
        -- apply in_map_iff in Hi as (e1 & Hp & Hi1). rewrite <- Hp. apply I1; [assumption|]. now rewrite Hp.
        -- rewrite I2 by assumption. rewrite Hfs1. apply upd_same.
      * now apply I1.
    + intros p Hp. rewrite I2 by tauto. rewrite Hfs1. apply upd_other. intros ->. tauto.
Qed.

(* ------------------------------------------------------------------ the snapshot invariant *)
Definition snap_ok (v : variant) (w : world) (base : list (path * option file)) (vi : ver) : Prop :=
  exists d nv es,
    option_map j_from (jr w) = Some vi /\ snaps w vi = Some d /\ s_meta d = Some (nv, es) /\
    entries_ok v (s_bak d) es base /\ functional base /\
    (v_curm_fix v = true -> s_curm d = Some vi).

Definition Inv (v : variant) (w : world) : Prop :=
  match g_base w with
  | Some (true, base, _) => exists fr, snap_ok v w base fr
  | _ => True
  end.

Lemma snap_ok_frame4 v w w' base vi : frame4 w' = frame4 w -> snap_ok v w base vi -> snap_ok v w' base vi.
Proof.
  unfold frame4, snap_ok. intros Hf (d & nv & es & H1 & H2 & H3). injection Hf as Ha Hb Hc Hd.
  exists d, nv, es. rewrite Ha, Hc. auto.
Qed.
Lemma snap_ok_frame v w w' base vi : frame w' = frame w -> snap_ok v w base vi -> snap_ok v w' base vi.
Proof. intros H. apply snap_ok_frame4. now apply frame_frame4. Qed.

Lemma Inv_frame4 v w w' : frame4 w' = frame4 w -> Inv v w -> Inv v w'.
Proof.
  unfold Inv. intros Hf. assert (g_base w' = g_base w) by (unfold frame4 in Hf; now injection Hf).
  rewrite H. destruct (g_base w) as [[[[] base] vi]|]; auto. intros [fr Hs]. exists fr. now apply (snap_ok_frame4 v w w').
Qed.
Lemma Inv_frame v w w' : frame w' = frame w -> Inv v w -> Inv v w'.
Proof. intros H. apply Inv_frame4. now apply frame_frame4. Qed.

(* ------------------------------------------------------------------ rollback *)
Lemma rollback_frame v F w w' r :
  rollback_flow v F w = (w', r) -> frame w' = frame w.
Proof.
  unfold rollback_flow. intros H.
  destruct (jr w) as [j|] eqn:Ej; [|now inv H].
  destruct (snaps w (j_from j)) as [d|]; [|now inv H].
  destruct (s_meta d) as [[nv es]|]; [|now inv H].
  destruct (seq_oc _); try (now inv H).
  destruct (restore_loop _ _ _) as [w2 ok] eqn:Er.
  apply restore_loop_frame in Er as (Er & _). rewrite frame_set_obst in Er.
  destruct ok; simpl in H; [|inv H; now rewrite frame_set_phase].
  destruct (if nv then vpp_seq F 10 else OGo);
    [destruct (seq_oc _); [destruct (f_hr F)| |]| |];
    inv H; rewrite ?frame_set_phase, ?frame_restore_ginst, ?frame_restore_curm; assumption.
Qed.

Lemma rollback_ok_restores v F w w' base vi :
  snap_ok v w base vi -> rollback_flow v F w = (w', RbOk) ->
  (forall p f, In (p, f) base -> fs w' p = normf v f) /\
  (v_curm_fix v = true -> cur w' = vi).
Proof.
  intros (d & nv & es & H1 & H2 & H3 & [E1 E2] & Hfun & Hc) H.
  unfold rollback_flow in H.
  destruct (jr w) as [j|] eqn:Ej; [|discriminate]. simpl in H1. inv H1.
  rewrite H2, H3 in H.
  destruct (seq_oc _); try discriminate.
  destruct (restore_loop _ _ _) as [w2 ok] eqn:Er.
  destruct ok; simpl in H; [|discriminate].
  assert (Hes : forall e, In e (rev es) -> exists f, In (e_path e, f) base /\ kind_matches v (s_bak d) (e_path e) e f)
    by (intros e He; apply E1; now apply in_rev).
  destruct (restore_loop_ok v d base Hfun _ _ _ Hes Er) as [R1 _].
  assert (Hfs : forall p f, In (p, f) base -> fs w2 p = normf v f).
  { intros p f Hin. destruct (E2 p f Hin) as (e & He & <-). apply R1; [now apply in_rev in He|assumption]. }
  assert (Hcur : v_curm_fix v = true -> cur (restore_ginst (restore_curm v w2 d)) = j_from j).
  { intros Hv. unfold restore_curm. rewrite Hv, (Hc Hv). unfold restore_ginst.
    destruct (g_base _) as [[[[] ?] ?]|]; reflexivity. }
  destruct (if nv then vpp_seq F 10 else OGo); try discriminate.
  destruct (seq_oc _); try discriminate.
  destruct (f_hr F); inv H.
  rewrite fs_set_phase, fs_restore_ginst, fs_restore_curm, cur_set_phase. auto.
Qed.

(* ------------------------------------------------------------------ apply *)
Lemma mon_restored_ok w base vi :
  g_base w = Some (true, base, vi) -> (forall p f, In (p, f) base -> fs w p = f) -> mon_restored w = MonOk.
Proof.
  unfold mon_restored. intros Hg H. rewrite Hg.
  assert (forallb (fun pf => ofile_eqb (fs w (fst pf)) (snd pf)) base = true) as ->; [|reflexivity].
  apply forallb_forall. intros [p f] Hin. simpl. rewrite (H p f Hin). apply ofile_eqb_refl.
Qed.

Lemma gbase_of_frame w w' : frame w' = frame w -> g_base w' = g_base w.
Proof. unfold frame. intros H. now injection H. Qed.

Lemma auto_rollback_spec v F w w' r base vi :
  auto_rollback v F w = (w', r) -> snap_ok v w base vi ->
  frame w' = frame w /\ r <> ROk /\ r <> RErr /\
  (r = RErrRolledBack -> (forall p f, In (p, f) base -> fs w' p = normf v f) /\
                         (v_curm_fix v = true -> cur w' = vi)).
Proof.
  unfold auto_rollback. intros H Hs.
  destruct (crash_at F 52); [inv H; split; [reflexivity|]; split; [discriminate|]; split; discriminate|].
  destruct (rollback_flow v F w) as [w1 rr] eqn:E.
  pose proof (rollback_frame _ _ _ _ _ E) as Hf.
  destruct rr; inv H.
  - split; [assumption|]. split; [discriminate|]. split; [discriminate|].
    intros _. eapply rollback_ok_restores; eauto.
  - rewrite frame_set_phase. split; [assumption|]. split; [discriminate|]. split; discriminate.
  - split; [assumption|]. split; [discriminate|]. split; discriminate.
Qed.

Lemma snap_ok_prune v w base vi : snap_ok v w base vi -> snap_ok v (prune w vi) base vi.
Proof.
  intros (d & nv & es & H1 & H2 & H3). exists d, nv, es. unfold prune. simpl.
  rewrite N.eqb_refl. auto.
Qed.

Definition post_ok (v : variant) (T : tarball) (from : ver) (base : list (path * option file))
           (w7 w' : world) (r : res) : Prop :=
  Inv v w' /\ g_base w' = g_base w7 /\ r <> RErr /\
  (r = ROk -> fs w' = fs w7 /\ cur w' = t_to T /\ g_inst w' = t_to T /\
              option_map j_phase (jr w') = Some PCompleted) /\
  (r = RErrRolledBack -> (forall p f, In (p, f) base -> fs w' p = normf v f) /\
                         (v_curm_fix v = true -> cur w' = from)).

Lemma post_swap_spec v T F from w7 w' r base gi :
  post_swap v T F from w7 = (w', r) ->
  g_base w7 = Some (true, base, gi) -> snap_ok v w7 base from ->
  post_ok v T from base w7 w' r.
Proof.
  unfold post_swap. intros H Hg Hs.
  assert (Hinv : forall wx, frame wx = frame w7 -> Inv v wx /\ g_base wx = g_base w7).
  { intros wx Hf. split; [|now apply gbase_of_frame].
    unfold Inv. rewrite (gbase_of_frame _ _ Hf), Hg. exists from. eapply snap_ok_frame; eauto. }
  assert (Hcrash : forall wx, frame wx = frame w7 -> post_ok v T from base w7 wx RCrash).
  { intros wx Hf. destruct (Hinv wx Hf). unfold post_ok. splits; auto; discriminate. }
  assert (Hauto : forall wa, frame wa = frame w7 -> auto_rollback v F wa = (w', r) ->
                             post_ok v T from base w7 w' r).
  { intros wa Hfa Ha.
    destruct (auto_rollback_spec v F wa w' r base from Ha) as (A1 & A2 & A3 & A4).
    { eapply snap_ok_frame; eauto. }
    destruct (Hinv w') as [I1 I2]; [congruence|].
    unfold post_ok. splits; auto. intros; contradiction. }
  destruct (if needs_vpp (t_arts T) then vpp_seq F 0 else OGo).
  2:{ eapply Hauto; [|exact H]. now rewrite frame_set_phase. }
  2:{ inv H. now apply Hcrash. }
  destruct (seq_oc _).
  2:{ eapply Hauto; [|exact H]. now rewrite frame_set_phase. }
  2:{ inv H. now apply Hcrash. }
  destruct (crash_at F 31).
  { inv H. apply Hcrash, frame_set_phase. }
  destruct (f_ha F); simpl in H.
  2:{ destruct (crash_at F 53).
      - inv H. apply Hcrash, frame_set_phase.
      - eapply Hauto; [|exact H]. now rewrite !frame_set_phase. }
  destruct (crash_at F 32).
  { inv H. apply Hcrash, frame_set_phase. }
  destruct (crash_at F 35).
  { inv H. apply Hcrash. rewrite frame_set_ginst, frame_set_cur. apply frame_set_phase. }
  set (w9 := set_phase (set_ginst (set_cur (set_phase w7 PDaemonStarted) (t_to T)) (t_to T)) PCompleted) in *.
  assert (F9 : frame w9 = frame w7).
  { unfold w9. rewrite frame_set_phase, frame_set_ginst, frame_set_cur, frame_set_phase. reflexivity. }
  assert (P9 : option_map j_phase (jr w9) = Some PCompleted).
  { destruct Hs as (d & nv & es & H1 & _). unfold w9, set_phase at 1. simpl.
    destruct (jr (set_phase w7 PDaemonStarted)) eqn:Ej; [reflexivity|].
    unfold set_phase in Ej. destruct (jr w7); simpl in *; discriminate. }
  destruct (crash_at F 33).
  { inv H. now apply Hcrash. }
  assert (G10 : g_base (prune w9 from) = g_base w7).
  { unfold prune; simpl. now apply gbase_of_frame. }
  assert (I10 : Inv v (prune w9 from)).
  { unfold Inv. rewrite G10, Hg. exists from. apply snap_ok_prune. eapply snap_ok_frame; eauto. }
  assert (Hfs : fs (prune w9 from) = fs w7).
  { unfold prune, w9. simpl. rewrite fs_set_phase. simpl. apply fs_set_phase. }
  destruct (crash_at F 34); inv H; unfold post_ok; splits; auto; try discriminate.
  intros _. splits; auto.
  - unfold prune, w9. simpl. rewrite cur_set_phase. reflexivity.
  - unfold prune, w9. simpl. rewrite ginst_set_phase. reflexivity.
Qed.

Lemma do_snapshot_spec v w from arts w1 ok :
  do_snapshot v w from arts = (w1, ok) ->
  jr w1 = jr w /\ fs w1 = fs w /\ cur w1 = cur w /\ obst w1 = obst w /\ g_inst w1 = g_inst w /\
  g_base w1 = g_base w /\
  (ok = true -> exists d nv es, snaps w1 from = Some d /\ s_meta d = Some (nv, es) /\
                 entries_ok v (s_bak d) es (base_of w arts) /\
                 (v_curm_fix v = true -> s_curm d = Some (cur w))).
Proof.
  unfold do_snapshot. intros H.
  destruct (snap_loop _ _ _ _) as [b [l|]] eqn:E; inv H; splits; try reflexivity; try discriminate.
  intros _. simpl. rewrite upd_same. do 3 eexists. splits; try reflexivity.
  - simpl. eapply snap_loop_ok. exact E.
  - simpl. intros ->. reflexivity.
Qed.

Definition apply_post (v : variant) (T : tarball) (w w' : world) (r : res) : Prop :=
  Inv v w' /\
  (r = ROk -> (forall a, In a (t_arts T) -> exists mm, new_mode (a_mode a) = Some mm /\
                          fs w' (a_path a) = Some (Reg (a_content a) mm)) /\
              cur w' = t_to T /\ g_inst w' = t_to T /\
              option_map j_phase (jr w') = Some PCompleted) /\
  (r = RErrRolledBack -> g_base w' = Some (true, base_of w (t_arts T), cur w) /\
                         (forall p f, In (p, f) (base_of w (t_arts T)) -> fs w' p = normf v f) /\
                         (v_curm_fix v = true -> cur w' = cur w)) /\
  (r = RErr -> fs w' = fs w /\ cur w' = cur w) /\
  (forall b gi, g_base w' = Some (true, b, gi) -> b = base_of w (t_arts T) /\ gi = cur w).

Lemma apply_flow_spec v T F w w' r :
  apply_flow v T F w = (w', r) -> NoDup (map a_path (t_arts T)) -> apply_post v T w w' r.
Proof.
  unfold apply_flow. intros H Hnd.
  set (base := base_of w (t_arts T)) in *.
  set (w0 := set_gfs0 _ _ _) in H.
  assert (Htriv : forall wx rr, g_base wx = Some (false, base, cur w) -> rr = RCrash \/ (rr = RErr /\ fs wx = fs w /\ cur wx = cur w) ->
                                apply_post v T w wx rr).
  { intros wx rr Hg Hr. unfold apply_post, Inv. rewrite Hg. splits; auto.
    - intros ->. destruct Hr as [|[? _]]; discriminate.
    - intros ->. destruct Hr as [|[? _]]; discriminate.
    - intros ->. destruct Hr as [|[_ ?]]; [discriminate|assumption].
    - intros b gi Hb. try rewrite Hg in Hb. discriminate. }
  destruct (crash_at F 25); [inv H; apply Htriv; auto|].
  destruct (do_snapshot v w0 (cur w) (t_arts T)) as [w1 ok] eqn:Es.
  apply do_snapshot_spec in Es as (S1 & S2 & S3 & S4 & S5 & S6 & S7).
  destruct ok; simpl in H.
  2:{ inv H. apply Htriv; [rewrite S6; reflexivity|right; splits; auto]. }
  destruct (S7 eq_refl) as (d & nv & es & D1 & D2 & D3 & D4). clear S7.
  set (w2 := set_phase (set_gbase w1 _) PSnapshotDone) in H.
  assert (Hs2 : snap_ok v w2 base (cur w)).
  { exists d, nv, es. unfold w2. splits.
    - unfold set_phase. simpl. rewrite S1. reflexivity.
    - unfold set_phase. simpl. rewrite S1. simpl. exact D1.
    - exact D2.
    - exact D3.
    - apply base_of_functional.
    - exact D4. }
  assert (Hg2 : g_base w2 = Some (true, base, cur w)).
  { unfold w2, set_phase. simpl. rewrite S1. reflexivity. }
  assert (Hfs2 : fs w2 = fs w /\ cur w2 = cur w).
  { unfold w2. rewrite fs_set_phase, cur_set_phase. simpl. split; assumption. }
  assert (Hmid : forall wx rr, frame wx = frame w2 -> rr = RCrash \/ (rr = RErr /\ fs wx = fs w /\ cur wx = cur w) ->
                               apply_post v T w wx rr).
  { intros wx rr Hf Hr. unfold apply_post, Inv. rewrite (gbase_of_frame _ _ Hf), Hg2. splits.
    - exists (cur w). eapply snap_ok_frame; eauto.
    - intros ->. destruct Hr as [|[? _]]; discriminate.
    - intros ->. destruct Hr as [|[? _]]; discriminate.
    - intros ->. destruct Hr as [|[_ ?]]; [discriminate|assumption].
    - intros b gi Hb. try rewrite (gbase_of_frame _ _ Hf), Hg2 in Hb. now inv Hb. }
  destruct Hfs2 as [Hfs2 Hcur2].
  destruct (crash_at F 26); [inv H; apply Hmid; auto|].
  destruct (t_hook_ok T); simpl in H; [|inv H; apply Hmid; auto].
  destruct (seq_oc _);
    [|inv H; apply Hmid; [apply frame_set_phase|right; rewrite fs_set_phase, cur_set_phase; auto]
     |inv H; apply Hmid; [apply frame_set_phase|auto]].
  destruct (seq_oc _);
    [|inv H; apply Hmid; [now rewrite !frame_set_phase|right; rewrite !fs_set_phase, !cur_set_phase; auto]
     |inv H; apply Hmid; [now rewrite !frame_set_phase|auto]].
  destruct (crash_at F 29); [inv H; apply Hmid; [now rewrite !frame_set_phase|auto]|].
  destruct (swap_loop _ _) as [w7 sok] eqn:Esw.
  pose proof (swap_loop_frame _ _ _ _ Esw) as (F7 & C7 & G7).
  rewrite frame_set_obst, !frame_set_phase in F7.
  destruct sok; simpl in H.
  - apply swap_loop_ok in Esw as [Sw1 Sw2]; [|assumption].
    apply (post_swap_spec v T F (cur w) w7 w' r base (cur w)) in H.
    + destruct H as (P1 & P2 & P3 & P4 & P5). unfold apply_post. splits; auto.
      * intros Hr. destruct (P4 Hr) as (Q1 & Q2 & Q3 & Q4). splits; auto.
        intros a Ha. rewrite Q1. now apply Sw1.
      * intros Hr. destruct (P5 Hr) as (Q1 & Q2). splits; auto.
        rewrite P2, (gbase_of_frame _ _ F7). exact Hg2.
      * intros Hr. contradiction.
      * intros b gi Hb. rewrite P2, (gbase_of_frame _ _ F7), Hg2 in Hb. now inv Hb.
    + rewrite (gbase_of_frame _ _ F7). exact Hg2.
    + eapply snap_ok_frame; eauto.
  - destruct (crash_at F 51); [inv H; apply Hmid; auto|].
    destruct (auto_rollback_spec v F _ w' r base (cur w) H) as (A1 & A2 & A3 & A4).
    { eapply snap_ok_frame; [|exact Hs2]. now rewrite frame_set_phase. }
    rewrite frame_set_phase in A1.
    unfold apply_post, Inv. rewrite (gbase_of_frame _ _ A1), (gbase_of_frame _ _ F7), Hg2. splits.
    + exists (cur w). eapply snap_ok_frame; [|exact Hs2]. congruence.
    + intros Hr; contradiction.
    + intros Hr. destruct (A4 Hr). splits; eauto.
    + intros Hr; contradiction.
    + intros b gi Hb. now inv Hb.
Qed.

(* ------------------------------------------------------------------ steps and histories *)
Lemma admits_nodup T Q w : admits T Q w = true -> NoDup (map a_path (t_arts T)).
Proof.
  unfold admits. intros H. repeat (apply andb_prop in H as [H ?]). now apply nodupb_NoDup.
Qed.

Lemma apply_spec v T Q F w w' r :
  apply v T Q F w = (w', r) -> Inv v w ->
  Inv v w' /\ (admits T Q w = false -> w' = w /\ r = RErr) /\ (admits T Q w = true -> apply_post v T w w' r).
Proof.
  unfold apply. intros H Hi. destruct (admits T Q w) eqn:Ea.
  - pose proof (apply_flow_spec _ _ _ _ _ _ H (admits_nodup _ _ _ Ea)) as Hp.
    splits; [apply Hp|discriminate|auto].
  - inv H. splits; auto. discriminate.
Qed.

Lemma mon_new_ok w arts :
  (forall a, In a arts -> exists mm, new_mode (a_mode a) = Some mm /\ fs w (a_path a) = Some (Reg (a_content a) mm)) ->
  mon_new w arts = MonOk.
Proof.
  intros H. unfold mon_new.
  assert (forallb (art_installed w) arts = true) as ->; [|reflexivity].
  apply forallb_forall. intros a Ha. destruct (H a Ha) as (mm & Hm & Hf).
  unfold art_installed. rewrite Hm, Hf. apply ofile_eqb_refl.
Qed.

Lemma rollback_step_spec v F w w' r :
  rollback_flow v F w = (w', r) -> Inv v w -> v_mode_fix v = true ->
  Inv v w' /\ g_base w' = g_base w /\
  (r = RbOk -> mon_restored w' <> MonMixed /\
               forall b gi, g_base w = Some (true, b, gi) -> forall p f, In (p, f) b -> fs w' p = f).
Proof.
  intros H Hi Hv. pose proof (rollback_frame _ _ _ _ _ H) as Hf.
  splits; [eapply Inv_frame; eauto|now apply gbase_of_frame|].
  intros ->. unfold Inv in Hi.
  destruct (g_base w) as [[[[] b] gi]|] eqn:Eg.
  - destruct Hi as [fr Hs]. destruct (rollback_ok_restores _ _ _ _ _ _ Hs H) as [R1 _].
    assert (R : forall p f, In (p, f) b -> fs w' p = f).
    { intros p f Hin. rewrite (R1 p f Hin). now apply normf_fixed. }
    split.
    + erewrite mon_restored_ok; [discriminate| |exact R]. rewrite (gbase_of_frame _ _ Hf). exact Eg.
    + intros b0 gi0 Hb. inv Hb. exact R.
  - split; [|discriminate]. unfold mon_restored. rewrite (gbase_of_frame _ _ Hf), Eg. discriminate.
  - split; [|discriminate]. unfold mon_restored. rewrite (gbase_of_frame _ _ Hf), Eg. discriminate.
Qed.

Lemma step_spec v w o w' r m :
  step v w o = (w', (r, m)) -> Inv v w -> v_mode_fix v = true -> Inv v w' /\ m <> MonMixed.
Proof.
  intros H Hi Hv. destruct o as [T Q F|F| |p f]; simpl in H.
  - destruct (apply v T Q F w) as [w1 r1] eqn:Ea. inv H.
    destruct (apply_spec _ _ _ _ _ _ _ Ea Hi) as (I1 & I2 & I3). split; [assumption|].
    destruct (admits T Q w) eqn:Ead.
    + destruct (I3 eq_refl) as (P1 & P2 & P3 & P4 & P5).
      destruct r; try discriminate.
      * destruct (P2 eq_refl) as (Q1 & _). rewrite mon_new_ok; [discriminate|assumption].
      * destruct (P3 eq_refl) as (Q1 & Q2 & _).
        erewrite mon_restored_ok; [discriminate|exact Q1|].
        intros p f Hin. rewrite (Q2 p f Hin). now apply normf_fixed.
    + destruct (I2 eq_refl) as [_ ->]. discriminate.
  - destruct (rollback_flow v F w) as [w1 rr] eqn:Er.
    destruct (rollback_step_spec _ _ _ _ _ Er Hi Hv) as (R1 & R2 & R3).
    destruct rr; inv H; split; auto; try discriminate. now apply R3.
  - inv H. split; [|discriminate]. eapply Inv_frame; [|exact Hi]. reflexivity.
  - inv H. split; [|discriminate]. eapply Inv_frame4; [|exact Hi]. reflexivity.
Qed.

Lemma run_never_mixed v : v_mode_fix v = true -> forall ops w, Inv v w ->
  forall w' r m, In (w', (r, m)) (run v w ops) -> m <> MonMixed.
Proof.
  intros Hv. induction ops as [|o ops IH]; simpl; intros w Hi w' r m Hin; [contradiction|].
  destruct (step v w o) as [w1 [r1 m1]] eqn:Es.
  destruct (step_spec _ _ _ _ _ _ Es Hi Hv) as [I1 M1].
  destruct Hin as [Heq|Hin]; [inv Heq; assumption|eauto].
Qed.

Lemma Inv_init v c f : Inv v (init_world c f).
Proof. exact I. Qed.

(* only rollbacks and obstacle removal: the operator is trying to get back *)
Definition rb_only (ops : list op) : Prop :=
  Forall (fun o => match o with OpRollback _ | OpClear => True | _ => False end) ops.

Lemma rb_only_restores v : v_mode_fix v = true -> forall ops w b gi,
  rb_only ops -> Inv v w -> g_base w = Some (true, b, gi) ->
  forall w' r m, In (w', (r, m)) (run v w ops) -> r = RRbOk ->
  forall p f, In (p, f) b -> fs w' p = f.
Proof.
  intros Hv. induction ops as [|o ops IH]; simpl; intros w b gi Hrb Hi Hg w' r m Hin Hr; [contradiction|].
  inv Hrb. destruct (step v w o) as [w1 [r1 m1]] eqn:Es.
  assert (Hnext : Inv v w1 /\ g_base w1 = Some (true, b, gi) /\ (r1 = RRbOk -> forall p f, In (p, f) b -> fs w1 p = f)).
  { destruct o as [T Q F|F| |p0 f0]; try contradiction; simpl in Es.
    - destruct (rollback_flow v F w) as [w2 rr] eqn:Er.
      destruct (rollback_step_spec _ _ _ _ _ Er Hi Hv) as (R1 & R2 & R3).
      destruct rr; inv Es; splits; auto; try congruence; try discriminate.
      intros _. destruct (R3 eq_refl) as [_ R4]. eapply R4; eauto.
    - inv Es. splits; auto; try discriminate. }
  destruct Hnext as (N1 & N2 & N3).
  destruct Hin as [Heq|Hin]; [inv Heq; auto|eauto].
Qed.

Theorem crash_then_rollback_restores v T Q F w w1 r1 b gi :
  v_mode_fix v = true ->
  apply v T Q F w = (w1, r1) -> admits T Q w = true ->
  g_base w1 = Some (true, b, gi) ->
  forall ops, rb_only ops ->
  forall w' r m, In (w', (r, m)) (run v w1 ops) -> r = RRbOk ->
  forall a, In a (t_arts T) -> fs w' (a_path a) = fs w (a_path a).
Proof.
  intros Hv Ha Had Hg ops Hrb w' r m Hin Hr a Hia.
  unfold apply in Ha. rewrite Had in Ha.
  destruct (apply_flow_spec _ _ _ _ _ _ Ha (admits_nodup _ _ _ Had)) as (P1 & _ & _ & _ & P5).
  destruct (P5 _ _ Hg) as [-> _].
  eapply (rb_only_restores v Hv ops w1 _ gi Hrb P1 Hg w' r m Hin Hr).
  unfold base_of. apply in_map_iff. exists a. split; [reflexivity|assumption].
Qed.

(* ------------------------------------------------------------------ headline statements *)
Lemma no_mixed_success v T Q F w w' :
  apply v T Q F w = (w', ROk) ->
  (forall a, In a (t_arts T) -> exists mm, new_mode (a_mode a) = Some mm /\
                                  fs w' (a_path a) = Some (Reg (a_content a) mm)) /\
  cur w' = t_to T /\ option_map j_phase (jr w') = Some PCompleted.
Proof.
  intros H. unfold apply in H. destruct (admits T Q w) eqn:Ea; [|discriminate].
  destruct (apply_flow_spec _ _ _ _ _ _ H (admits_nodup _ _ _ Ea)) as (_ & P2 & _).
  destruct (P2 eq_refl) as (Q1 & Q2 & _ & Q4). auto.
Qed.

Lemma failed_apply_restored v T Q F w w' :
  v_mode_fix v = true ->
  apply v T Q F w = (w', RErrRolledBack) ->
  forall a, In a (t_arts T) -> fs w' (a_path a) = fs w (a_path a).
Proof.
  intros Hv H a Ha. unfold apply in H. destruct (admits T Q w) eqn:Ea; [|discriminate].
  destruct (apply_flow_spec _ _ _ _ _ _ H (admits_nodup _ _ _ Ea)) as (_ & _ & P3 & _).
  destruct (P3 eq_refl) as (_ & Q2 & _).
  rewrite (Q2 (a_path a) (fs w (a_path a))); [now apply normf_fixed|].
  unfold base_of. apply in_map_iff. exists a. auto.
Qed.

Lemma early_error_untouched v T Q F w w' :
  apply v T Q F w = (w', RErr) -> fs w' = fs w /\ cur w' = cur w.
Proof.
  intros H. unfold apply in H. destruct (admits T Q w) eqn:Ea; [|inv H; auto].
  destruct (apply_flow_spec _ _ _ _ _ _ H (admits_nodup _ _ _ Ea)) as (_ & _ & _ & P4 & _). auto.
Qed.

Definition inadmissible (T : tarball) (w : world) : Prop :=
  t_sig_ok T = false \/ t_digest_ok T = false \/ t_members_ok T = false \/
  (exists pv wf, t_prev T = Prev pv wf /\ (wf = false \/ pv <> cur w)).

Lemma admission_before_mutation v T Q F w :
  inadmissible T w -> apply v T Q F w = (w, RErr).
Proof.
  intros H. unfold apply. assert (admits T Q w = false) as ->; [|reflexivity].
  unfold admits. destruct H as [H|[H|[H|(pv & wf & Hp & H)]]].
  - rewrite H. now rewrite !andb_false_r.
  - rewrite H. now rewrite !andb_false_r.
  - rewrite H. reflexivity.
  - unfold prev_ok. rewrite Hp. destruct H as [->|H].
    + simpl. now rewrite !andb_false_r.
    + apply N.eqb_neq in H. rewrite H. now rewrite !andb_false_r.
Qed.

Lemma monitor_never_mixed c f ops w' r m :
  In (w', (r, m)) (run repaired (init_world c f) ops) -> m <> MonMixed.
Proof. apply (run_never_mixed repaired eq_refl ops _ (Inv_init _ _ _)). Qed.

(* ------------------------------------------------------------------ safeTarEntryPath *)
Definition dd_shape (out : list bstr) : Prop :=
  exists n d, out = n ++ d /\ Forall (fun c => is_dotdot c = false) n /\ Forall (fun c => is_dotdot c = true) d.

Lemma clean_comps_shape cs : forall out, dd_shape out -> dd_shape (rev (clean_comps false out cs)).
Proof.
  induction cs as [|c r IH]; simpl; intros out Hs.
  - now rewrite rev_involutive.
  - destruct c as [|x c']; [now apply IH|].
    destruct (is_dot (x :: c')); [now apply IH|].
    destruct (is_dotdot (x :: c')) eqn:Edd.
    + destruct out as [|top rest].
      * apply IH. exists [], [x :: c']. repeat split; auto.
      * destruct (is_dotdot top) eqn:Et.
        -- apply IH. destruct Hs as (n & d & E & Hn & Hd).
           destruct n as [|n0 n'].
           ++ simpl in E. subst d. exists [], ((x :: c') :: top :: rest). repeat split; auto.
           ++ simpl in E. inv E. inv Hn. congruence.
        -- apply IH. destruct Hs as (n & d & E & Hn & Hd).
           destruct n as [|n0 n'].
           ++ simpl in E. subst d. inv Hd. congruence.
           ++ simpl in E. inv E. inv Hn. exists n', d. auto.
    + apply IH. destruct Hs as (n & d & E & Hn & Hd). subst out.
      exists ((x :: c') :: n), d. repeat split; auto.
Qed.

Lemma safe_entry_no_dotdot name cl :
  safe_entry name = Some cl -> forall c, In c cl -> is_dotdot c = false.
Proof.
  unfold safe_entry. intros H.
  destruct name as [|x0 name']; [inv H; intros ? []|].
  destruct (is_dot (x0 :: name')); [inv H; intros ? []|].
  destruct (N.eqb x0 47); [discriminate|].
  set (cl0 := clean_comps false [] (split_slash (x0 :: name'))) in *.
  assert (Hs : dd_shape (rev cl0)).
  { apply clean_comps_shape. exists [], []. repeat split; constructor. }
  destruct cl0 as [|c0 rest] eqn:Ecl.
  - inv H. intros c [<-|[]]. reflexivity.
  - destruct (is_dotdot c0) eqn:E0; [discriminate|].
    destruct (starts_with _ _); [discriminate|]. inv H.
    destruct Hs as (n & d & E & Hn & Hd).
    assert (d = []).
    { destruct d as [|d0 d'] using rev_ind; [reflexivity|].
      rewrite app_assoc in E. simpl in E.
      assert (rev (rev rest ++ [c0]) = rev ((n ++ d') ++ [d0])) by now rewrite E.
      rewrite !rev_app_distr in H. simpl in H. inv H.
      apply Forall_app in Hd as [_ Hd]. inv Hd. congruence. }
    subst d. rewrite app_nil_r in E. intros c Hc.
    rewrite Forall_forall in Hn. apply Hn. rewrite <- E. apply in_rev. now rewrite rev_involutive.
Qed.

(* ------------------------------------------------------------------ version after rollback *)
Lemma rollback_resets_version v F w w' b gi :
  v_curm_fix v = true -> Inv v w -> g_base w = Some (true, b, gi) ->
  rollback_flow v F w = (w', RbOk) -> option_map j_from (jr w) = Some (cur w').
Proof.
  intros Hv Hi Hg H. unfold Inv in Hi. rewrite Hg in Hi. destruct Hi as [fr Hs].
  destruct (rollback_ok_restores _ _ _ _ _ _ Hs H) as [_ Hc].
  destruct Hs as (d & nv & es & H1 & _). rewrite H1, (Hc Hv). reflexivity.
Qed.

Lemma wrong_predecessor_after_rollback v F w w' b gi T Q F' pv wf :
  v_curm_fix v = true -> Inv v w -> g_base w = Some (true, b, gi) ->
  rollback_flow v F w = (w', RbOk) ->
  t_prev T = Prev pv wf -> option_map j_from (jr w) <> Some pv ->
  apply v T Q F' w' = (w', RErr).
Proof.
  intros Hv Hi Hg H Hp Hne. apply admission_before_mutation.
  right. right. right. exists pv, wf. split; [assumption|right].
  rewrite (rollback_resets_version _ _ _ _ _ _ Hv Hi Hg H) in Hne. congruence.
Qed.

Lemma run_Inv v : forall ops w, Inv v w -> v_mode_fix v = true ->
  forall w' out, In (w', out) (run v w ops) -> Inv v w'.
Proof.
  induction ops as [|o ops IH]; simpl; intros w Hi Hv w' out Hin; [contradiction|].
  destruct (step v w o) as [w1 [r1 m1]] eqn:Es.
  destruct (step_spec _ _ _ _ _ _ Es Hi Hv) as [I1 _].
  destruct Hin as [Heq|Hin]; [inv Heq; assumption|eauto].
Qed.

(* ================================================================== version invariant
   J: current-manifest names the version the installed artifacts belong to (ghost g_inst),
   every snapshot directory that has metadata carries the saved manifest of its own version,
   and the ghost of the journal's upgrade agrees with the journal. *)
Definition J (w : world) : Prop :=
  cur w = g_inst w /\
  (forall k d, snaps w k = Some d -> s_meta d <> None -> s_curm d = Some k) /\
  match g_base w with
  | None => option_map j_from (jr w) = None
  | Some (b, _, vi) => option_map j_from (jr w) = Some vi /\ (b = false -> cur w = vi)
  end.

Lemma J_core4 w w' : frame4 w' = frame4 w -> cur w' = cur w -> g_inst w' = g_inst w -> J w -> J w'.
Proof.
  unfold J, frame4. intros Hf Hc Hg (J1 & J2 & J3). injection Hf as Ha Hb Hs Hgb.
  rewrite Hc, Hg, Hs, Hgb, Ha. auto.
Qed.
Lemma J_core w w' : frame w' = frame w -> cur w' = cur w -> g_inst w' = g_inst w -> J w -> J w'.
Proof. intros H. apply J_core4. now apply frame_frame4. Qed.

Lemma J_set_phase w ph : J w -> J (set_phase w ph).
Proof. apply J_core; [apply frame_set_phase|apply cur_set_phase|apply ginst_set_phase]. Qed.

Lemma cur_restore_ginst w : cur (restore_ginst w) = cur w.
Proof. unfold restore_ginst. destruct (g_base w) as [[[[] ?] ?]|] eqn:E; reflexivity. Qed.

Lemma rollback_J v F w w' r :
  v_curm_fix v = true -> J w -> rollback_flow v F w = (w', r) ->
  J w' /\ (r = RbOk -> forall b vi, g_base w = Some (true, b, vi) -> cur w' = vi).
Proof.
  intros Hv Hj H. unfold rollback_flow in H.
  destruct (jr w) as [j|] eqn:Ej; [|inv H; split; [assumption|discriminate]].
  destruct (snaps w (j_from j)) as [d|] eqn:Ed; [|inv H; split; [assumption|discriminate]].
  destruct (s_meta d) as [[nv es]|] eqn:Em; [|inv H; split; [assumption|discriminate]].
  destruct (seq_oc _); try (inv H; split; [assumption|discriminate]).
  destruct (restore_loop _ _ _) as [w2 ok] eqn:Er.
  apply restore_loop_frame in Er as (F2 & C2 & G2).
  rewrite frame_set_obst in F2. simpl in C2, G2.
  assert (J2w : J w2) by (apply (J_core w); assumption).
  destruct ok; simpl in H; [|inv H; split; [now apply J_set_phase|discriminate]].
  set (w3 := restore_ginst (restore_curm v w2 d)) in *.
  destruct Hj as (J1 & J2 & J3).
  assert (Hcurm : s_curm d = Some (j_from j)) by (apply J2; [assumption|congruence]).
  assert (C3 : cur w3 = j_from j).
  { unfold w3. rewrite cur_restore_ginst. unfold restore_curm. rewrite Hv, Hcurm. reflexivity. }
  assert (F3 : frame w3 = frame w).
  { unfold w3. now rewrite frame_restore_ginst, frame_restore_curm. }
  assert (Gb3 : g_base (restore_curm v w2 d) = g_base w).
  { apply gbase_of_frame. now rewrite frame_restore_curm. }
  assert (J3w : J w3 /\ (forall b vi, g_base w = Some (true, b, vi) -> cur w3 = vi)).
  { unfold J. rewrite (gbase_of_frame _ _ F3).
    assert (Hsn : snaps w3 = snaps w) by (unfold frame in F3; now injection F3).
    assert (Hjf : option_map j_from (jr w3) = option_map j_from (jr w)) by (unfold frame in F3; now injection F3).
    rewrite Hsn, Hjf, C3, Ej. simpl.
    destruct (g_base w) as [[[b base] vi]|] eqn:Eg.
    - rewrite Ej in J3. simpl in J3. destruct J3 as [J3a J3b].
      assert (Hvi : vi = j_from j) by congruence. subst vi. clear J3a.
      split; [|intros b0 vi0 Hb; injection Hb as _ _ <-; reflexivity].
      split; [|split; [exact J2|split; [reflexivity|reflexivity]]].
      unfold w3, restore_ginst. rewrite Gb3. try rewrite Eg. destruct b; simpl.
      + reflexivity.
      + unfold restore_curm. rewrite Hv, Hcurm. simpl. rewrite G2, <- J1. symmetry. now apply J3b.
    - rewrite Ej in J3. discriminate. }
  destruct J3w as [J3w V3].
  destruct (if nv then vpp_seq F 10 else OGo);
    [|inv H; split; [now apply J_set_phase|discriminate]|inv H; split; [assumption|discriminate]].
  destruct (seq_oc _);
    [|inv H; split; [now apply J_set_phase|discriminate]|inv H; split; [assumption|discriminate]].
  destruct (f_hr F); inv H; (split; [now apply J_set_phase|]); try discriminate.
  intros _ b vi Hb. rewrite cur_set_phase. eauto.
Qed.

Lemma auto_rollback_J v F w w' r :
  v_curm_fix v = true -> J w -> auto_rollback v F w = (w', r) ->
  J w' /\ (r = RErrRolledBack -> forall b vi, g_base w = Some (true, b, vi) -> cur w' = vi).
Proof.
  intros Hv Hj H. unfold auto_rollback in H.
  destruct (crash_at F 52); [inv H; split; [assumption|discriminate]|].
  destruct (rollback_flow v F w) as [w1 rr] eqn:E.
  destruct (rollback_J _ _ _ _ _ Hv Hj E) as [J1 V1].
  destruct rr; inv H; (split; [try apply J_set_phase; assumption|]); try discriminate.
  intros _. now apply V1.
Qed.

Lemma J_commit w v0 : J w -> (exists b base vi, g_base w = Some (b, base, vi) /\ b = true) ->
  J (set_ginst (set_cur w v0) v0).
Proof.
  intros (J1 & J2 & J3) (b & base & vi & Hg & ->). unfold J. simpl. rewrite Hg in *.
  split; [reflexivity|]. split; [exact J2|]. destruct J3 as [J3 _]. split; [exact J3|discriminate].
Qed.

Lemma J_prune w k : J w -> J (prune w k).
Proof.
  intros (J1 & J2 & J3). unfold J, prune. simpl. split; [assumption|]. split; [|assumption].
  intros q d Hq Hm. destruct (N.eqb q k); [now apply J2|].
  destruct (snaps w q) as [d0|]; [|discriminate]. destruct (s_meta d0) eqn:E0; [discriminate|].
  inv Hq. congruence.
Qed.

Lemma post_swap_J v T F from w7 w' r :
  v_curm_fix v = true -> J w7 -> (exists base vi, g_base w7 = Some (true, base, vi)) ->
  post_swap v T F from w7 = (w', r) ->
  J w' /\ (r = RErrRolledBack -> forall b vi, g_base w7 = Some (true, b, vi) -> cur w' = vi).
Proof.
  intros Hv Hj (base & vi & Hg) H. unfold post_swap in H.
  assert (Hauto : forall ph, auto_rollback v F (set_phase w7 ph) = (w', r) ->
    J w' /\ (r = RErrRolledBack -> forall b vi, g_base w7 = Some (true, b, vi) -> cur w' = vi)).
  { intros ph Ha. destruct (auto_rollback_J _ _ _ _ _ Hv (J_set_phase _ ph Hj) Ha) as [A1 A2].
    split; [assumption|]. intros Hr b0 vi0 Hb. apply (A2 Hr b0).
    rewrite (gbase_of_frame _ _ (frame_set_phase w7 ph)). exact Hb. }
  destruct (if needs_vpp (t_arts T) then vpp_seq F 0 else OGo);
    [|now apply (Hauto PAbortedPostSwap)|inv H; split; [assumption|discriminate]].
  destruct (seq_oc _);
    [|now apply (Hauto PAbortedPostSwap)|inv H; split; [assumption|discriminate]].
  destruct (crash_at F 31); [inv H; split; [now apply J_set_phase|discriminate]|].
  destruct (f_ha F); simpl in H.
  2:{ destruct (crash_at F 53); [inv H; split; [now apply J_set_phase|discriminate]|].
      destruct (auto_rollback_J _ _ _ _ _ Hv (J_set_phase _ PHealthFailed (J_set_phase _ PDaemonStarted Hj)) H) as [A1 A2].
      split; [assumption|]. intros Hr b0 vi0 Hb. apply (A2 Hr b0).
      rewrite (gbase_of_frame _ _ (frame_set_phase _ _)), (gbase_of_frame _ _ (frame_set_phase _ _)). exact Hb. }
  destruct (crash_at F 32); [inv H; split; [now apply J_set_phase|discriminate]|].
  assert (Jc : J (set_ginst (set_cur (set_phase w7 PDaemonStarted) (t_to T)) (t_to T))).
  { apply J_commit; [now apply J_set_phase|].
    exists true, base, vi. split; [|reflexivity].
    rewrite (gbase_of_frame _ _ (frame_set_phase _ _)). exact Hg. }
  destruct (crash_at F 35); [inv H; split; [assumption|discriminate]|].
  destruct (crash_at F 33); [inv H; split; [now apply J_set_phase|discriminate]|].
  destruct (crash_at F 34); inv H; (split; [apply J_prune; now apply J_set_phase|discriminate]).
Qed.

Lemma do_snapshot_J2 v w arts w1 ok :
  v_curm_fix v = true ->
  (forall k d, snaps w k = Some d -> s_meta d <> None -> s_curm d = Some k) ->
  do_snapshot v w (cur w) arts = (w1, ok) ->
  (forall k d, snaps w1 k = Some d -> s_meta d <> None -> s_curm d = Some k).
Proof.
  intros Hv H2 H. unfold do_snapshot in H.
  destruct (snap_loop _ _ _ _) as [b [l|]]; inv H; simpl; intros k d Hk Hm.
  - unfold upd in Hk. destruct (N.eqb_spec k (cur w)) as [->|Hne]; [|now apply H2].
    inv Hk. simpl. now rewrite Hv.
  - unfold upd in Hk. destruct (N.eqb_spec k (cur w)) as [->|Hne]; [|now apply H2].
    inv Hk. simpl in *. destruct (snaps w (cur w)) as [d0|] eqn:E0; [now apply H2|]. simpl in Hm. congruence.
Qed.

Lemma apply_flow_J v T F w w' r :
  v_curm_fix v = true -> J w -> apply_flow v T F w = (w', r) ->
  J w' /\ (r = RErrRolledBack -> cur w' = cur w).
Proof.
  intros Hv (J1 & J2 & J3) H. unfold apply_flow in H.
  set (base := base_of w (t_arts T)) in *.
  set (w0 := set_gfs0 _ _ _) in H.
  assert (J0 : J w0).
  { unfold J, w0. simpl. split; [assumption|]. split; [assumption|]. split; reflexivity. }
  destruct (crash_at F 25); [inv H; split; [assumption|discriminate]|].
  destruct (do_snapshot v w0 (cur w) (t_arts T)) as [w1 ok] eqn:Es.
  pose proof (do_snapshot_J2 v w0 (t_arts T) w1 ok Hv J2 Es) as S2.
  apply do_snapshot_spec in Es as (S1 & _ & S3 & _ & S5 & S6 & _).
  assert (J1w : J w1).
  { unfold J. rewrite S3, S5, S6, S1. unfold w0. simpl. split; [assumption|]. split; [assumption|]. split; reflexivity. }
  destruct ok; simpl in H; [|inv H; split; [assumption|discriminate]].
  set (w2 := set_phase (set_gbase w1 _) PSnapshotDone) in H.
  assert (J2w : J w2).
  { unfold w2. apply J_set_phase. unfold J. simpl. rewrite S3, S5, S1. unfold w0. simpl.
    split; [assumption|]. split; [assumption|]. split; [reflexivity|discriminate]. }
  assert (Hg2 : g_base w2 = Some (true, base, cur w)).
  { unfold w2. rewrite (gbase_of_frame _ _ (frame_set_phase _ _)). reflexivity. }
  destruct (crash_at F 26); [inv H; split; [assumption|discriminate]|].
  destruct (t_hook_ok T); simpl in H; [|inv H; split; [assumption|discriminate]].
  destruct (seq_oc _); try (inv H; split; [now apply J_set_phase|discriminate]).
  destruct (seq_oc _); try (inv H; split; [do 2 apply J_set_phase; assumption|discriminate]).
  destruct (crash_at F 29); [inv H; split; [do 3 apply J_set_phase; assumption|discriminate]|].
  destruct (swap_loop _ _) as [w7 sok] eqn:Esw.
  apply swap_loop_frame in Esw as (F7 & C7 & G7).
  rewrite frame_set_obst, !frame_set_phase in F7. simpl in C7, G7.
  rewrite !cur_set_phase in C7. rewrite !ginst_set_phase in G7.
  assert (J7 : J w7) by (apply (J_core w2); assumption).
  assert (Hg7 : g_base w7 = Some (true, base, cur w)) by (rewrite (gbase_of_frame _ _ F7); exact Hg2).
  destruct sok; simpl in H.
  - destruct (post_swap_J _ _ _ _ _ _ _ Hv J7 (ex_intro _ base (ex_intro _ (cur w) Hg7)) H) as [P1 P2].
    split; [assumption|]. intros Hr. eapply P2; eauto.
  - destruct (crash_at F 51); [inv H; split; [assumption|discriminate]|].
    destruct (auto_rollback_J _ _ _ _ _ Hv (J_set_phase _ PAbortedMidSwap J7) H) as [A1 A2].
    split; [assumption|]. intros Hr. apply (A2 Hr base).
    rewrite (gbase_of_frame _ _ (frame_set_phase _ _)). exact Hg7.
Qed.

Lemma step_J v w o :
  v_curm_fix v = true -> J w -> J (fst (step v w o)).
Proof.
  intros Hv Hj. destruct o as [T Q F|F| |p f]; simpl.
  - unfold apply. destruct (admits T Q w); [|exact Hj].
    destruct (apply_flow v T F w) as [w1 r1] eqn:E. simpl.
    now destruct (apply_flow_J _ _ _ _ _ _ Hv Hj E).
  - destruct (rollback_flow v F w) as [w1 rr] eqn:E.
    destruct (rollback_J _ _ _ _ _ Hv Hj E) as [J1 _]. destruct rr; exact J1.
  - apply (J_core w); auto.
  - apply (J_core4 w); auto.
Qed.

Lemma J_init c f : J (init_world c f).
Proof. unfold J, init_world. simpl. split; [reflexivity|]. split; [discriminate|reflexivity]. Qed.

Lemma exec_J v : v_curm_fix v = true -> forall ops w, J w -> J (exec v w ops).
Proof.
  intros Hv. induction ops as [|o ops IH]; simpl; intros w Hj; [assumption|].
  apply IH. now apply step_J.
Qed.

Lemma exec_Inv v : v_mode_fix v = true -> forall ops w, Inv v w -> Inv v (exec v w ops).
Proof.
  intros Hv. induction ops as [|o ops IH]; simpl; intros w Hi; [assumption|].
  apply IH. destruct (step v w o) as [w1 [r1 m1]] eqn:Es. simpl.
  now destruct (step_spec _ _ _ _ _ _ Es Hi Hv).
Qed.

(* every step from a reachable state: tree monitor and version monitor never alarm *)
Lemma step_consistent v w o w' r m :
  v_mode_fix v = true -> v_curm_fix v = true -> Inv v w -> J w ->
  step v w o = (w', (r, m)) -> m <> MonMixed /\ step_ver o w' r <> MonMixed.
Proof.
  intros Hm Hc Hi Hj Hs. split; [now destruct (step_spec _ _ _ _ _ _ Hs Hi Hm)|].
  destruct o as [T Q F|F| |p f]; simpl in *; try discriminate.
  - destruct (apply v T Q F w) as [w1 r1] eqn:Ea. inv Hs.
    destruct r; try discriminate.
    + destruct (no_mixed_success _ _ _ _ _ _ Ea) as (_ & Hcur & _).
      unfold ver_new. rewrite Hcur, N.eqb_refl. discriminate.
    + unfold apply in Ea. destruct (admits T Q w) eqn:Ead; [|discriminate].
      destruct (apply_flow_spec _ _ _ _ _ _ Ea (admits_nodup _ _ _ Ead)) as (_ & _ & P3 & _).
      destruct (P3 eq_refl) as (Q1 & _ & Q3).
      unfold ver_restored. rewrite Q1, (Q3 Hc), N.eqb_refl. discriminate.
  - destruct (rollback_flow v F w) as [w1 rr] eqn:Er.
    destruct (rollback_J _ _ _ _ _ Hc Hj Er) as [_ V1].
    pose proof (gbase_of_frame _ _ (rollback_frame _ _ _ _ _ Er)) as Hg.
    destruct rr; inv Hs; try discriminate.
    unfold ver_restored. rewrite Hg. destruct (g_base w) as [[[[] b] vi]|] eqn:Eg; try discriminate.
    rewrite (V1 eq_refl b vi eq_refl), N.eqb_refl. discriminate.
Qed.

Lemma reachable_consistent c f ops o w' r m :
  step repaired (exec repaired (init_world c f) ops) o = (w', (r, m)) ->
  m <> MonMixed /\ step_ver o w' r <> MonMixed.
Proof.
  apply step_consistent; try reflexivity.
  - apply exec_Inv; [reflexivity|apply Inv_init].
  - apply exec_J; [reflexivity|apply J_init].
Qed.

Lemma reachable_version c f ops : let w := exec repaired (init_world c f) ops in cur w = g_inst w.
Proof. apply (exec_J repaired eq_refl ops _ (J_init c f)). Qed.

Lemma wrong_predecessor_never_modifies c f ops T Q F pv wf :
  let w := exec repaired (init_world c f) ops in
  t_prev T = Prev pv wf -> pv <> g_inst w -> apply repaired T Q F w = (w, RErr).
Proof.
  intros w Hp Hne. apply admission_before_mutation. right. right. right.
  exists pv, wf. split; [assumption|right]. unfold w in *. now rewrite reachable_version.
Qed.

Lemma rb_only_version v : v_curm_fix v = true -> forall ops w b gi,
  rb_only ops -> J w -> g_base w = Some (true, b, gi) ->
  forall w' r m, In (w', (r, m)) (run v w ops) -> r = RRbOk -> cur w' = gi.
Proof.
  intros Hv. induction ops as [|o ops IH]; simpl; intros w b gi Hrb Hj Hg w' r m Hin Hr; [contradiction|].
  inv Hrb. destruct (step v w o) as [w1 [r1 m1]] eqn:Es.
  assert (Hnext : J w1 /\ g_base w1 = Some (true, b, gi) /\ (r1 = RRbOk -> cur w1 = gi)).
  { destruct o as [T Q F|F| |p0 f0]; try contradiction; simpl in Es.
    - destruct (rollback_flow v F w) as [w2 rr] eqn:Er.
      destruct (rollback_J _ _ _ _ _ Hv Hj Er) as [J1 V1].
      pose proof (gbase_of_frame _ _ (rollback_frame _ _ _ _ _ Er)) as Hg2.
      destruct rr; inv Es; splits; auto; try congruence; try discriminate.
      intros _. eapply V1; eauto.
    - inv Es. splits; auto; try discriminate. }
  destruct Hnext as (N1 & N2 & N3).
  destruct Hin as [Heq|Hin]; [inv Heq; auto|eauto].
Qed.

(* the complete statement for a reachable state w: whatever an admitted apply does after its snapshot
   completed, every later rollback that reports success restores tree AND version *)
Lemma reachable_crash_then_rollback c f ops0 T Q F w1 r1 b gi :
  let w := exec repaired (init_world c f) ops0 in
  apply repaired T Q F w = (w1, r1) -> admits T Q w = true ->
  g_base w1 = Some (true, b, gi) ->
  forall ops, rb_only ops ->
  forall w' r m, In (w', (r, m)) (run repaired w1 ops) -> r = RRbOk ->
  (forall a, In a (t_arts T) -> fs w' (a_path a) = fs w (a_path a)) /\ cur w' = cur w /\ cur w' = g_inst w.
Proof.
  intros w Ha Had Hg ops Hrb w' r m Hin Hr.
  assert (Hj : J w) by (apply exec_J; [reflexivity|apply J_init]).
  split; [eapply crash_then_rollback_restores; eauto; reflexivity|].
  assert (Hcur : cur w' = cur w).
  { pose proof Ha as Ha'. unfold apply in Ha'. rewrite Had in Ha'.
    destruct (apply_flow_spec _ _ _ _ _ _ Ha' (admits_nodup _ _ _ Had)) as (_ & _ & _ & _ & P5).
    destruct (P5 _ _ Hg) as [_ ->].
    destruct (apply_flow_J repaired _ _ _ _ _ eq_refl Hj Ha') as [J1 _].
    eapply (rb_only_version repaired eq_refl ops w1 b (cur w)); eauto. }
  split; [assumption|]. rewrite Hcur. apply Hj.
Qed.

(* ================================================================== resolved content
   K: while no operator edit happened since the journal's upgrade began, the tree differs from the
   tree at that time (ghost g_fs0) at most on the artifact paths of that upgrade. *)
Definition kx (w : world) := (g_fs0 w, g_clean w).

Lemma kx_of_frame w w' : frame w' = frame w -> kx w' = kx w.
Proof. unfold frame, kx. intros H. injection H as _ _ _ _ -> ->. reflexivity. Qed.

Lemma swap_artifact_other w src p m w' b :
  swap_artifact w src p m = (w', b) -> forall q, q <> p -> fs w' q = fs w q.
Proof.
  unfold swap_artifact. intros H q Hq.
  destruct src; [destruct (obst w p)|]; [inv H; auto| |inv H; auto].
  destruct (new_mode m); [|inv H; auto].
  destruct (fs w p) as [[| |]|]; inv H; simpl; auto; now apply upd_other.
Qed.

Lemma swap_loop_other arts : forall w w' b,
  swap_loop w arts = (w', b) -> forall q, ~ In q (map a_path arts) -> fs w' q = fs w q.
Proof.
  induction arts as [|a r IH]; simpl; intros w w' b H q Hq; [inv H; auto|].
  destruct (swap_artifact _ _ _ _) as [w2 ok] eqn:E.
  pose proof (swap_artifact_other _ _ _ _ _ _ E q) as E1. rewrite fs_set_phase in E1.
  destruct ok.
  - rewrite (IH _ _ _ H q) by tauto. rewrite fs_set_phase. apply E1. intros ->. tauto.
  - inv H. apply E1. intros ->. tauto.
Qed.

Lemma restore_loop_other d es : forall w w' b,
  restore_loop w d es = (w', b) -> forall q, ~ In q (map e_path es) -> fs w' q = fs w q.
Proof.
  induction es as [|e r IH]; simpl; intros w w' b H q Hq; [inv H; auto|].
  destruct (e_kind e).
  - rewrite (IH _ _ _ H q) by tauto. simpl. apply upd_other. intros ->. tauto.
  - rewrite (IH _ _ _ H q) by tauto. simpl. apply upd_other. intros ->. tauto.
  - destruct (swap_artifact _ _ _ _) as [w1 ok] eqn:E.
    pose proof (swap_artifact_other _ _ _ _ _ _ E q) as E1.
    destruct ok; [rewrite (IH _ _ _ H q) by tauto|inv H]; apply E1; intros ->; tauto.
Qed.

(* the paths a rollback from w can touch *)
Definition rb_scope (w : world) (ps : list path) : Prop :=
  forall k d nv es, option_map j_from (jr w) = Some k -> snaps w k = Some d -> s_meta d = Some (nv, es) ->
  forall e, In e es -> In (e_path e) ps.

Lemma rb_scope_frame4 w w' ps : frame4 w' = frame4 w -> rb_scope w ps -> rb_scope w' ps.
Proof. unfold rb_scope, frame4. intros H. injection H as -> _ -> _. auto. Qed.

Lemma rollback_other v F w w' r ps :
  rollback_flow v F w = (w', r) -> rb_scope w ps -> forall q, ~ In q ps -> fs w' q = fs w q.
Proof.
  unfold rollback_flow. intros H Hs q Hq.
  destruct (jr w) as [j|] eqn:Ej; [|now inv H].
  destruct (snaps w (j_from j)) as [d|] eqn:Ed; [|now inv H].
  destruct (s_meta d) as [[nv es]|] eqn:Em; [|now inv H].
  destruct (seq_oc _); try (now inv H).
  destruct (restore_loop _ _ _) as [w2 ok] eqn:Er.
  assert (R : fs w2 q = fs w q).
  { rewrite (restore_loop_other _ _ _ _ _ Er q); [reflexivity|].
    intros Hin. apply in_map_iff in Hin as (e & <- & He). apply Hq.
    apply in_rev in He. eapply (Hs (j_from j)); eauto. rewrite Ej. reflexivity. }
  destruct ok; simpl in H; [|inv H; now rewrite fs_set_phase].
  destruct (if nv then vpp_seq F 10 else OGo);
    [destruct (seq_oc _); [destruct (f_hr F)| |]| |];
    inv H; rewrite ?fs_set_phase, ?fs_restore_ginst, ?fs_restore_curm; assumption.
Qed.

Lemma auto_rollback_other v F w w' r ps :
  auto_rollback v F w = (w', r) -> rb_scope w ps ->
  (forall q, ~ In q ps -> fs w' q = fs w q) /\ kx w' = kx w.
Proof.
  unfold auto_rollback. intros H Hs.
  destruct (crash_at F 52); [inv H; auto|].
  destruct (rollback_flow v F w) as [w1 rr] eqn:E.
  pose proof (rollback_other _ _ _ _ _ _ E Hs) as Ho.
  pose proof (kx_of_frame _ _ (rollback_frame _ _ _ _ _ E)) as Hk.
  destruct rr; inv H; split; auto; try (intros; rewrite fs_set_phase; auto).
  rewrite <- Hk. apply kx_of_frame, frame_set_phase.
Qed.

Lemma post_swap_other v T F from w7 w' r ps :
  post_swap v T F from w7 = (w', r) -> rb_scope w7 ps ->
  (forall q, ~ In q ps -> fs w' q = fs w7 q) /\ kx w' = kx w7.
Proof.
  unfold post_swap. intros H Hs.
  assert (Hauto : forall wa, frame wa = frame w7 -> fs wa = fs w7 -> auto_rollback v F wa = (w', r) ->
    (forall q, ~ In q ps -> fs w' q = fs w7 q) /\ kx w' = kx w7).
  { intros wa Hf Hfs Ha.
    destruct (auto_rollback_other _ _ _ _ _ ps Ha) as [A1 A2].
    { eapply rb_scope_frame4; [|exact Hs]. now apply frame_frame4. }
    split; [intros q Hq; rewrite (A1 q Hq); now rewrite Hfs|]. rewrite A2. now apply kx_of_frame. }
  destruct (if needs_vpp (t_arts T) then vpp_seq F 0 else OGo);
    [|apply (Hauto _ (frame_set_phase _ _) (fs_set_phase _ _) H)|inv H; auto].
  destruct (seq_oc _);
    [|apply (Hauto _ (frame_set_phase _ _) (fs_set_phase _ _) H)|inv H; auto].
  assert (K8 : kx (set_phase w7 PDaemonStarted) = kx w7) by apply kx_of_frame, frame_set_phase.
  destruct (crash_at F 31); [inv H; split; [intros; now rewrite fs_set_phase|assumption]|].
  destruct (f_ha F); simpl in H.
  2:{ destruct (crash_at F 53); [inv H; split; [intros; now rewrite fs_set_phase|assumption]|].
      apply (Hauto _ (eq_trans (frame_set_phase _ _) (frame_set_phase _ _))
                     (eq_trans (fs_set_phase _ _) (fs_set_phase _ _)) H). }
  destruct (crash_at F 32); [inv H; split; [intros; now rewrite fs_set_phase|assumption]|].
  destruct (crash_at F 35); [inv H; split; [intros; simpl; now rewrite fs_set_phase|exact K8]|].
  assert (F9 : forall q, fs (set_phase (set_ginst (set_cur (set_phase w7 PDaemonStarted) (t_to T)) (t_to T)) PCompleted) q = fs w7 q).
  { intros q. rewrite fs_set_phase. simpl. now rewrite fs_set_phase. }
  assert (K9 : kx (set_phase (set_ginst (set_cur (set_phase w7 PDaemonStarted) (t_to T)) (t_to T)) PCompleted) = kx w7).
  { rewrite <- K8. apply kx_of_frame. rewrite frame_set_phase. reflexivity. }
  destruct (crash_at F 33); [inv H; split; [intros; apply F9|exact K9]|].
  destruct (crash_at F 34); inv H; (split; [intros; unfold prune; simpl; apply F9|exact K9]).
Qed.

Lemma do_snapshot_scope v w from arts w1 :
  do_snapshot v w from arts = (w1, true) ->
  exists d nv es, snaps w1 from = Some d /\ s_meta d = Some (nv, es) /\
                  forall e, In e es -> In (e_path e) (map a_path arts).
Proof.
  intros H. apply do_snapshot_spec in H as (_ & _ & _ & _ & _ & _ & S7).
  destruct (S7 eq_refl) as (d & nv & es & D1 & D2 & [D3 _] & _).
  exists d, nv, es. splits; auto. intros e He. destruct (D3 e He) as (f & Hin & _).
  unfold base_of in Hin. apply in_map_iff in Hin as (a & Ea & Ha). inv Ea.
  apply in_map_iff. exists a. auto.
Qed.

Lemma apply_flow_other v T F w w' r :
  apply_flow v T F w = (w', r) ->
  (forall q, ~ In q (map a_path (t_arts T)) -> fs w' q = fs w q) /\ kx w' = (fs w, true).
Proof.
  unfold apply_flow. intros H.
  set (w0 := set_gfs0 _ _ _) in H.
  destruct (crash_at F 25); [inv H; split; [reflexivity|reflexivity]|].
  destruct (do_snapshot v w0 (cur w) (t_arts T)) as [w1 ok] eqn:Es.
  pose proof Es as Es'. apply do_snapshot_spec in Es' as (S1 & S2 & _ & _ & _ & _ & _).
  assert (K1 : kx w1 = (fs w, true)).
  { unfold do_snapshot in Es. destruct (snap_loop _ _ _ _) as [b [l|]]; inv Es; reflexivity. }
  destruct ok; simpl in H; [|inv H; split; [intros; now rewrite S2|assumption]].
  destruct (do_snapshot_scope _ _ _ _ _ Es) as (d & nv & es & D1 & D2 & D3).
  set (w2 := set_phase (set_gbase w1 _) PSnapshotDone) in H.
  assert (Hfs2 : fs w2 = fs w) by (unfold w2; rewrite fs_set_phase; simpl; exact S2).
  assert (K2 : kx w2 = (fs w, true)).
  { unfold w2. rewrite <- K1. unfold kx, set_phase. simpl. destruct (jr w1); reflexivity. }
  assert (Sc2 : rb_scope w2 (map a_path (t_arts T))).
  { unfold rb_scope, w2, set_phase. simpl. rewrite S1. simpl. intros k d0 nv0 es0 Hk Hd Hm e He.
    inv Hk. rewrite D1 in Hd. inv Hd. rewrite D2 in Hm. inv Hm. now apply D3. }
  assert (Hexit : forall wx, frame wx = frame w2 -> fs wx = fs w2 ->
     (forall q, ~ In q (map a_path (t_arts T)) -> fs wx q = fs w q) /\ kx wx = (fs w, true)).
  { intros wx Hf Hx. split; [intros; now rewrite Hx, Hfs2|]. rewrite (kx_of_frame _ _ Hf). exact K2. }
  destruct (crash_at F 26); [inv H; now apply Hexit|].
  destruct (t_hook_ok T); simpl in H; [|inv H; now apply Hexit].
  destruct (seq_oc _); try (inv H; apply Hexit; [apply frame_set_phase|apply fs_set_phase]).
  destruct (seq_oc _); try (inv H; apply Hexit; [now rewrite !frame_set_phase|now rewrite !fs_set_phase]).
  destruct (crash_at F 29); [inv H; apply Hexit; [now rewrite !frame_set_phase|now rewrite !fs_set_phase]|].
  destruct (swap_loop _ _) as [w7 sok] eqn:Esw.
  pose proof (swap_loop_other _ _ _ _ Esw) as O7. simpl in O7. rewrite !fs_set_phase in O7.
  apply swap_loop_frame in Esw as (F7 & _ & _). rewrite frame_set_obst, !frame_set_phase in F7.
  assert (Sc7 : rb_scope w7 (map a_path (t_arts T))).
  { eapply rb_scope_frame4; [|exact Sc2]. now apply frame_frame4. }
  assert (K7 : kx w7 = (fs w, true)) by (rewrite (kx_of_frame _ _ F7); exact K2).
  assert (O7' : forall q, ~ In q (map a_path (t_arts T)) -> fs w7 q = fs w q).
  { intros q Hq. rewrite (O7 q Hq). now rewrite Hfs2. }
  destruct sok; simpl in H.
  - destruct (post_swap_other _ _ _ _ _ _ _ _ H Sc7) as [P1 P2].
    split; [intros q Hq; rewrite (P1 q Hq); auto|]. now rewrite P2.
  - destruct (crash_at F 51); [inv H; auto|].
    destruct (auto_rollback_other _ _ _ _ _ (map a_path (t_arts T)) H) as [A1 A2].
    { eapply rb_scope_frame4; [|exact Sc7]. apply frame_frame4, frame_set_phase. }
    split; [intros q Hq; rewrite (A1 q Hq), fs_set_phase; auto|].
    rewrite A2. rewrite <- K7. apply kx_of_frame, frame_set_phase.
Qed.

Definition K (w : world) : Prop :=
  match g_base w with
  | Some (true, base, _) =>
      g_clean w = true ->
      (forall q, ~ In q (map fst base) -> fs w q = g_fs0 w q) /\
      (forall p f, In (p, f) base -> g_fs0 w p = f)
  | _ => True
  end.

Lemma Inv_scope v w base gi : Inv v w -> g_base w = Some (true, base, gi) -> rb_scope w (map fst base).
Proof.
  unfold Inv. intros Hi Hg. rewrite Hg in Hi. destruct Hi as (fr & d & nv & es & H1 & H2 & H3 & [E1 _] & _).
  intros k d0 nv0 es0 Hk Hd Hm e He. rewrite H1 in Hk. inv Hk. rewrite H2 in Hd. inv Hd. rewrite H3 in Hm. inv Hm.
  destruct (E1 e He) as (f & Hin & _). apply in_map_iff. exists (e_path e, f). auto.
Qed.

Lemma step_K v w o : Inv v w -> K w -> K (fst (step v w o)).
Proof.
  intros Hi Hk. destruct o as [T Q F|F| |p f]; simpl.
  - destruct (apply v T Q F w) as [w1 r1] eqn:Ea. simpl. unfold apply in Ea.
    destruct (admits T Q w) eqn:Ead; [|inv Ea; exact Hk].
    destruct (apply_flow_other _ _ _ _ _ _ Ea) as [O1 O2].
    destruct (apply_flow_spec _ _ _ _ _ _ Ea (admits_nodup _ _ _ Ead)) as (_ & _ & _ & _ & P5).
    unfold K. destruct (g_base w1) as [[[[] b] gi]|] eqn:Eg; auto.
    destruct (P5 _ _ eq_refl) as [-> _]. unfold kx in O2. injection O2 as -> _. intros _.
    assert (Hm : map fst (base_of w (t_arts T)) = map a_path (t_arts T)).
    { unfold base_of. rewrite map_map. reflexivity. }
    rewrite Hm. split; [exact O1|].
    intros p f Hin. unfold base_of in Hin. apply in_map_iff in Hin as (a & Ea' & _). now inv Ea'.
  - destruct (rollback_flow v F w) as [w1 rr] eqn:Er.
    assert (K w1).
    { pose proof (rollback_frame _ _ _ _ _ Er) as Hf.
      unfold K. rewrite (gbase_of_frame _ _ Hf).
      destruct (g_base w) as [[[[] b] gi]|] eqn:Eg; auto.
      pose proof (kx_of_frame _ _ Hf) as Hkx. unfold kx in Hkx. injection Hkx as -> ->.
      unfold K in Hk. rewrite Eg in Hk. intros Hc. destruct (Hk Hc) as [K1 K2]. split; [|exact K2].
      intros q Hq. rewrite (rollback_other _ _ _ _ _ _ Er (Inv_scope _ _ _ _ Hi Eg) q Hq). auto. }
    destruct rr; exact H.
  - exact Hk.
  - unfold K. simpl. destruct (g_base w) as [[[[] b] gi]|]; auto. discriminate.
Qed.

Lemma K_init c f : K (init_world c f).
Proof. exact I. Qed.

Lemma exec_IK v : v_mode_fix v = true -> forall ops w, Inv v w -> K w ->
  Inv v (exec v w ops) /\ K (exec v w ops).
Proof.
  intros Hv. induction ops as [|o ops IH]; simpl; intros w Hi Hk; [auto|].
  apply IH; [|now apply step_K].
  destruct (step v w o) as [w1 [r1 m1]] eqn:Es. simpl. now destruct (step_spec _ _ _ _ _ _ Es Hi Hv).
Qed.

Lemma resolve_ext f g : (forall q, f q = g q) -> forall n p, resolve f p n = resolve g p n.
Proof.
  intros H. induction n as [|n IH]; simpl; intros p; [reflexivity|].
  rewrite H. destruct (g p) as [[| |]|]; auto.
Qed.

Lemma ocontent_eqb_refl a : ocontent_eqb a a = true.
Proof. destruct a; simpl; [apply N.eqb_refl|reflexivity]. Qed.

(* K + restored artifact paths = the whole tree is the tree at the beginning of the upgrade *)
Lemma restored_whole_tree w base gi :
  g_base w = Some (true, base, gi) -> g_clean w = true -> K w ->
  (forall p f, In (p, f) base -> fs w p = f) -> forall q, fs w q = g_fs0 w q.
Proof.
  intros Hg Hc Hk Hr q. unfold K in Hk. rewrite Hg in Hk. destruct (Hk Hc) as [K1 K2].
  destruct (in_dec N.eq_dec q (map fst base)) as [Hin|Hni]; [|now apply K1].
  apply in_map_iff in Hin as ([p f] & <- & Hin). simpl. rewrite (Hr p f Hin). symmetry. eauto.
Qed.

Lemma mon_resolved_ok w base gi :
  g_base w = Some (true, base, gi) -> K w -> (forall p f, In (p, f) base -> fs w p = f) ->
  mon_resolved w <> MonMixed.
Proof.
  intros Hg Hk Hr. unfold mon_resolved. rewrite Hg. destruct (g_clean w) eqn:Hc; [|discriminate].
  assert (forallb (fun pf => ocontent_eqb (resolve (fs w) (fst pf) 16) (resolve (g_fs0 w) (fst pf) 16)) base = true) as ->;
    [|discriminate].
  apply forallb_forall. intros pf _.
  rewrite (resolve_ext (fs w) (g_fs0 w) (restored_whole_tree _ _ _ Hg Hc Hk Hr)). apply ocontent_eqb_refl.
Qed.

Lemma step_resolved v w o w' r m :
  v_mode_fix v = true -> Inv v w -> K w -> step v w o = (w', (r, m)) -> step_res o w' r <> MonMixed.
Proof.
  intros Hv Hi Hk Hs.
  assert (Hk' : K w') by (pose proof (step_K v w o Hi Hk) as X; now rewrite Hs in X).
  destruct o as [T Q F|F| |p f]; simpl in *; try discriminate.
  - destruct (apply v T Q F w) as [w1 r1] eqn:Ea. inv Hs. destruct r; try discriminate.
    unfold apply in Ea. destruct (admits T Q w) eqn:Ead; [|discriminate].
    destruct (apply_flow_spec _ _ _ _ _ _ Ea (admits_nodup _ _ _ Ead)) as (_ & _ & P3 & _).
    destruct (P3 eq_refl) as (Q1 & Q2 & _).
    eapply mon_resolved_ok; eauto. intros p f Hin. rewrite (Q2 p f Hin). now apply normf_fixed.
  - destruct (rollback_flow v F w) as [w1 rr] eqn:Er.
    destruct (rollback_step_spec _ _ _ _ _ Er Hi Hv) as (_ & R2 & R3).
    destruct rr; inv Hs; try discriminate.
    destruct (g_base w) as [[[[] b] gi]|] eqn:Eg.
    + destruct (R3 eq_refl) as [_ R4]. eapply mon_resolved_ok; [exact R2|assumption|]. eapply R4; reflexivity.
    + unfold mon_resolved. rewrite R2. discriminate.
    + unfold mon_resolved. rewrite R2. discriminate.
Qed.

Lemma reachable_resolved c f ops o w' r m :
  step repaired (exec repaired (init_world c f) ops) o = (w', (r, m)) -> step_res o w' r <> MonMixed.
Proof.
  destruct (exec_IK repaired eq_refl ops _ (Inv_init repaired c f) (K_init c f)) as [Hi Hk].
  now apply (step_resolved repaired _ o w' r m eq_refl Hi Hk).
Qed.

(* rollback attempts only: the whole tree, hence what every path resolves to, is back *)
Lemma rb_only_K v : forall ops w, rb_only ops -> Inv v w -> K w -> v_mode_fix v = true ->
  forall w' out, In (w', out) (run v w ops) -> K w' /\ kx w' = kx w /\ g_base w' = g_base w.
Proof.
  induction ops as [|o ops IH]; simpl; intros w Hrb Hi Hk Hv w' out Hin; [contradiction|].
  inv Hrb. destruct (step v w o) as [w1 [r1 m1]] eqn:Es.
  assert (N : Inv v w1 /\ K w1 /\ kx w1 = kx w /\ g_base w1 = g_base w).
  { split; [now destruct (step_spec _ _ _ _ _ _ Es Hi Hv)|].
    split; [pose proof (step_K v w o Hi Hk) as X; now rewrite Es in X|].
    destruct o as [T Q F|F| |p0 f0]; try contradiction; simpl in Es.
    - destruct (rollback_flow v F w) as [w2 rr] eqn:Er.
      pose proof (rollback_frame _ _ _ _ _ Er) as Hf.
      destruct rr; inv Es; split; try (now apply kx_of_frame); now apply gbase_of_frame.
    - inv Es. auto. }
  destruct N as (N1 & N2 & N3 & N4).
  destruct Hin as [Heq|Hin]; [inv Heq; auto|].
  destruct (IH w1 H2 N1 N2 Hv w' out Hin) as (A & B & C). splits; auto; congruence.
Qed.

Lemma crash_then_rollback_resolved c f ops0 T Q F w1 r1 b gi :
  let w := exec repaired (init_world c f) ops0 in
  apply repaired T Q F w = (w1, r1) -> admits T Q w = true ->
  g_base w1 = Some (true, b, gi) ->
  forall ops, rb_only ops ->
  forall w' r m, In (w', (r, m)) (run repaired w1 ops) -> r = RRbOk ->
  (forall q, fs w' q = fs w q) /\ (forall p n, resolve (fs w') p n = resolve (fs w) p n).
Proof.
  intros w Ha Had Hg ops Hrb w' r m Hin Hr.
  destruct (exec_IK repaired eq_refl ops0 _ (Inv_init repaired c f) (K_init c f)) as [Hi Hk]. fold w in Hi, Hk.
  pose proof Ha as Ha'. unfold apply in Ha'. rewrite Had in Ha'.
  destruct (apply_flow_spec _ _ _ _ _ _ Ha' (admits_nodup _ _ _ Had)) as (I1 & _ & _ & _ & P5).
  destruct (P5 _ _ Hg) as [-> _].
  destruct (apply_flow_other _ _ _ _ _ _ Ha') as [_ O2].
  assert (K1 : K w1).
  { pose proof (step_K repaired w (OpApply T Q F) Hi Hk) as X. simpl in X. now rewrite Ha in X. }
  destruct (rb_only_K repaired ops w1 Hrb I1 K1 eq_refl w' (r, m) Hin) as (Kw' & Kx & Gb).
  assert (Hall : forall q, fs w' q = fs w q).
  { rewrite O2 in Kx. unfold kx in Kx. injection Kx as E1 E2.
    intros q. rewrite <- E1.
    apply (restored_whole_tree w' (base_of w (t_arts T)) gi); auto; [congruence|].
    eapply (rb_only_restores repaired eq_refl ops w1 _ gi Hrb I1 Hg w' r m Hin Hr). }
  split; [exact Hall|]. intros p n. now apply resolve_ext.
Qed.
