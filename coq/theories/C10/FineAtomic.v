(* C10/FineAtomic.v — a Manager call whose critical sections run without interruption is the coarse handler *)
From OV Require Import Common.Base C10.Model C10.Fine C10.Proofs.
From Coq Require Import ZifyBool ZifyNat ZifyN.
Local Open Scope Z_scope.

(* ------------------------------------------------------------------ a call run alone = the coarse handler *)
Lemma lost_atomic v c n : trun 8 v c n TLost0 = handle_peer_lost n.
Proof.
  destruct n as [st e p ps k cnt d]. unfold handle_peer_lost.
  destruct st; cbn; try reflexivity. destruct (0 <? cnt); reflexivity.
Qed.

Lemma if_atomic v c n k d : trun 8 v c n (TIf0 k d) = handle_if v c n k d.
Proof.
  rewrite handle_if_eq. cbn [trun tstep]. destruct (tracked c k); cbn [negb]; [|reflexivity].
  set (n1 := track_update v n k d).
  assert (Hst : forall x, n_st (adjust_priority c n1 x) = n_st n1) by reflexivity.
  unfold adjust_or_skip.
  destruct (c_coalesce c && (n_cnt n1 =? n_cnt n)) eqn:Q; destruct (fix_ia v), d;
    cbn [orb trun tstep andb]; rewrite ?Q; cbn [orb trun tstep andb]; rewrite ?Hst;
    try (destruct (sst_eqb (n_st n1) StandbyAlone); cbn [trun tstep];
         try (destruct (tracker_promote _) as [n2 t2]); rewrite ?app_nil_r; reflexivity);
    reflexivity.
Qed.

Lemma hb_atomic v c n m : trun 8 v c n (THb0 m) = handle_hb v c n m.
Proof.
  destruct n as [st e p ps k cnt d], m as [mid mst mp mreq], v as [fh fi ff fs fa], c as [id pr pre dec nifs ov co].
  unfold handle_hb.
  destruct st, k, pre, fh, ff, fs, mst;
    repeat (cbn -[wins]; unfold hb_update, elect, peer_discovered, transition_to, set_peer, set_st, set_pknown);
    rewrite ?wins_eq; cbn -[wins_raw];
    set (W := wins_raw id e mp mid); clearbody W; destruct W; reflexivity.
Qed.

