(* C10/FineProofs.v — invariants of the fine-grained step model (Fine.v) *)
From OV Require Import Common.Base C10.Model C10.Fine C10.Proofs C10.FineAtomic.
From Coq Require Import ZifyBool ZifyNat ZifyN.
Local Open Scope Z_scope.

(* ------------------------------------------------------------------ list surgery *)
Lemma nth_split {X} (l : list X) : forall j x, nth_error l j = Some x ->
  l = firstn j l ++ x :: skipn (S j) l.
Proof.
  induction l as [|y r IH]; intros [|j] x H; cbn in *; try discriminate.
  - now inversion H.
  - f_equal. now apply IH.
Qed.
Lemma replace_nth_split {X} (l : list X) : forall j x y, nth_error l j = Some x ->
  replace_nth j l y = firstn j l ++ y :: skipn (S j) l.
Proof.
  induction l as [|z r IH]; intros [|j] x y H; cbn in *; try discriminate; try reflexivity.
  f_equal. eapply IH; eauto.
Qed.
Lemma remove_nth_split {X} (l : list X) : forall j x, nth_error l j = Some x ->
  remove_nth j l = firstn j l ++ skipn (S j) l.
Proof.
  induction l as [|z r IH]; intros [|j] x H; cbn in *; try discriminate; try reflexivity.
  f_equal. eapply IH; eauto.
Qed.

(* ------------------------------------------------------------------ READY is owned by a heartbeat thread *)
Definition owns_ready (t : thr) : bool :=
  match t with THbChk _ | THbElect _ => true | _ => false end.

Definition ready_inv (s : fpair) : Prop :=
  forall w, n_st (node_of w (f_p s)) = Ready -> existsb owns_ready (thrs_of w s) = true.

Definition next_owns (nx : option thr) : bool := match nx with Some t' => owns_ready t' | None => false end.

Ltac split_ifs :=
  repeat match goal with
         | |- context [if ?b then _ else _] => destruct b
         | |- context [match ?l with [] => _ | _ :: _ => _ end] => destruct l
         end.

(* one critical section that leaves the group READY: the thread continues as the owner of READY, or
   the group was READY before and this thread is not an owner *)
Lemma tstep_ready v c n t :
  n_st (fst (fst (tstep v c n t))) = Ready ->
  next_owns (snd (tstep v c n t)) = true \/ (n_st n = Ready /\ owns_ready t = false).
Proof.
  destruct n as [st e p ps k cnt d].
  destruct t; cbn -[wins tracked track_update if_delta adjust_priority];
    unfold peer_discovered, elect, hb_update, peer_lost, tracker_promote, transition_to;
    cbn -[wins tracked track_update if_delta adjust_priority].
  all: try (destruct st; cbn -[wins tracked track_update if_delta adjust_priority]; split_ifs;
            cbn -[wins tracked track_update if_delta adjust_priority]; intros H;
            first [ discriminate H | left; reflexivity | right; split; reflexivity ]).
  (* TIf0: the node after track_update keeps its state *)
  - destruct (tracked c k0); cbn [negb].
    2:{ cbn. intros H. right. split; [exact H | reflexivity]. }
    destruct (track_update_st v (mkNode st e p ps k cnt d) k0 d0) as [Hs _]. cbn [n_st] in Hs.
    destruct (fix_ia v); cbn; rewrite Hs; intros H; right; split; auto.
Qed.

Lemma existsb_split {X} (P : X -> bool) l j x :
  nth_error l j = Some x ->
  existsb P l = existsb P (firstn j l) || P x || existsb P (skipn (S j) l).
Proof.
  intros H. rewrite (nth_split l j x H) at 1. rewrite existsb_app. cbn [existsb].
  now rewrite Bool.orb_assoc.
Qed.

(* effect of a micro step on the node and threads of the stepping side *)
Lemma fstep_micro v cs s w i t :
  nth_error (thrs_of w s) (i mod length (thrs_of w s))%nat = Some t ->
  let j := (i mod length (thrs_of w s))%nat in
  let r := tstep v (cfg_of w cs) (node_of w (f_p s)) t in
  let s' := fst (fstep v cs s (FMicro w i)) in
  node_of w (f_p s') = fst (fst r) /\
  node_of (other w) (f_p s') = node_of (other w) (f_p s) /\
  thrs_of (other w) s' = thrs_of (other w) s /\
  thrs_of w s' = match snd r with
                 | Some t' => replace_nth j (thrs_of w s) t'
                 | None => remove_nth j (thrs_of w s)
                 end.
Proof.
  intros H. cbn zeta. unfold fstep. rewrite H.
  destruct (tstep v (cfg_of w cs) (node_of w (f_p s)) t) as [[n tr] nx]. cbn [fst snd].
  destruct nx as [t'|]; cbn [fst].
  - destruct s as [p ta tb], w; cbn; rewrite ?node_of_set_node; cbn; auto.
  - destruct (thr_msg t) as [m|]; [destruct (h_req m)|];
      destruct s as [p ta tb], w; destruct p; cbn; auto.
Qed.

Lemma fstep_ready_inv v cs s e : ready_inv s -> ready_inv (fst (fstep v cs s e)).
Proof.
  intros Inv. destruct e as [e|w' i|w'|w' k d|w' i].
  - (* whole call *)
    intros w. cbn [fstep]. destruct (step v cs (f_p s) e) as [p t] eqn:E. cbn [fst].
    assert (Hp : p = fst (step v cs (f_p s) e)) by now rewrite E.
    replace (node_of w (f_p (set_p s p))) with (node_of w p) by (destruct s; reflexivity).
    replace (thrs_of w (set_p s p)) with (thrs_of w s) by (destruct s, w; reflexivity).
    rewrite Hp, step_node. intros Hr. apply Inv.
    destruct (sst_eqb (n_st (node_of w (f_p s))) Ready) eqn:Q; [now apply sst_eqb_eq in Q|].
    exfalso. apply (coarse_not_ready v cs (f_p s) e w); [|exact Hr].
    intros E'. rewrite E' in Q. discriminate Q.
  - intros w. cbn [fstep]. destruct (nth_error _ _) as [m|]; [|apply Inv]. cbn [fst].
    intros Hr. specialize (Inv w).
    destruct s as [p ta tb], w, w'; destruct p; cbn in *; rewrite ?existsb_app; auto;
      rewrite Inv; auto.
  - intros w Hr. specialize (Inv w). destruct s as [p ta tb], w, w'; cbn in *; rewrite ?existsb_app; auto;
      rewrite Inv; auto.
  - intros w Hr. specialize (Inv w). destruct s as [p ta tb], w, w'; cbn in *; rewrite ?existsb_app; auto;
      rewrite Inv; auto.
  - destruct (nth_error (thrs_of w' s) (i mod length (thrs_of w' s))%nat) as [t|] eqn:H.
    2:{ unfold fstep. rewrite H. exact Inv. }
    destruct (fstep_micro v cs s w' i t H) as (Hn & Hon & Hot & Ht). cbn zeta in *.
    intros w. destruct (who_eqb w w') eqn:Ew.
    + apply who_eqb_true in Ew. subst w'. rewrite Hn, Ht. intros Hr.
      destruct (tstep_ready v (cfg_of w cs) (node_of w (f_p s)) t Hr) as [Ho | [Hs Hno]].
      * destruct (snd (tstep v (cfg_of w cs) (node_of w (f_p s)) t)) as [t'|]; [|discriminate Ho].
        rewrite (replace_nth_split _ _ t t' H), existsb_app. cbn [existsb next_owns] in *.
        rewrite Ho. now rewrite Bool.orb_true_r.
      * pose proof (Inv w Hs) as Hex. rewrite (existsb_split owns_ready _ _ t H), Hno, Bool.orb_false_r in Hex.
        destruct (snd (tstep v (cfg_of w cs) (node_of w (f_p s)) t)) as [t'|].
        -- rewrite (replace_nth_split _ _ t t' H), existsb_app. cbn [existsb].
           apply Bool.orb_true_iff in Hex. destruct Hex as [Hx|Hx]; rewrite Hx; auto.
           now rewrite !Bool.orb_true_r.
        -- rewrite (remove_nth_split _ _ t H), existsb_app. exact Hex.
    + assert (w = other w') by (destruct w, w'; try discriminate Ew; reflexivity). subst w.
      rewrite Hon, Hot. apply Inv.
Qed.

Lemma frun_snoc v cs es : forall s e, frun v cs s (es ++ [e]) = fst (fstep v cs (frun v cs s es) e).
Proof. induction es as [|x r IH]; intros s e; cbn [frun app]; [reflexivity | apply IH]. Qed.

Lemma frun_ready_inv v cs es : ready_inv (frun v cs (finit cs) es).
Proof.
  induction es as [|e es IH] using rev_ind.
  - intros w. destruct w; cbn; discriminate.
  - rewrite frun_snoc. now apply fstep_ready_inv.
Qed.

(* when no call is in progress on a node, its group is not READY *)
Lemma quiescent_not_ready v cs es w :
  thrs_of w (frun v cs (finit cs) es) = [] ->
  n_st (node_of w (f_p (frun v cs (finit cs) es))) <> Ready.
Proof.
  intros Hq Hr. pose proof (frun_ready_inv v cs es w Hr) as H. rewrite Hq in H. discriminate H.
Qed.

(* ------------------------------------------------------------------ no stable headless pair, fine histories *)
Lemma fine_converges v cs es w1 w2 w3 :
  fix_hb v = true -> fix_sa v = true -> ids_ok cs ->
  let s := frun v cs (finit cs) es in
  quiescent s = true -> n_st (p_a (f_p s)) <> Init -> n_st (p_b (f_p s)) <> Init ->
  let r := xchgs v cs [w1; w2; w3] (p_a (f_p s), p_b (f_p s)) in
  pair_one_active r = true /\ absn (xchg v cs A r) = absn r /\ absn (xchg v cs B r) = absn r.
Proof.
  intros Hh Hs Hid s Hq Ha Hb.
  assert (Qa : thrs_of A s = []) by (unfold quiescent in Hq; cbn; destruct (f_ta s); [reflexivity | discriminate]).
  assert (Qb : thrs_of B s = []) by (unfold quiescent in Hq; cbn; destruct (f_ta s); [|discriminate];
                                      destruct (f_tb s); [reflexivity | discriminate]).
  pose proof (quiescent_not_ready v cs es A Qa) as Ra. pose proof (quiescent_not_ready v cs es B Qb) as Rb.
  cbn [node_of] in Ra, Rb. fold s in Ra, Rb.
  apply converges; auto; unfold n_ok, pre_ok; rewrite Hs.
  - destruct (n_st (p_a (f_p s))); cbn; congruence.
  - destruct (n_st (p_b (f_p s))); cbn; congruence.
Qed.

(* ------------------------------------------------------------------ what can make a group active *)
Lemma tstep_promotion v c n t :
  is_active (n_st n) = false -> is_active (n_st (fst (fst (tstep v c n t)))) = true ->
  match t with
  | THbElect m => n_st n = Ready /\ wins c n (h_id m) = true
  | THbUpd m => n_st n = Standby /\ wins c (set_peer n (h_prio m) (h_st m)) (h_id m) = true /\
                (c_preempt c = true \/ (fix_hb v = true /\ h_st m = Standby))
  | TLostSm => n_st n = Waiting
  | TLostPromote | TIfPromote => n_st n = StandbyAlone
  | _ => False
  end.
Proof.
  destruct n as [st e p ps k cnt d], v as [fh fi ff fs fa], c as [id pr pre dec nifs].
  destruct t; cbn -[wins tracked track_update if_delta adjust_priority];
    unfold peer_discovered, elect, hb_update, peer_lost, tracker_promote, transition_to, set_peer;
    cbn -[wins tracked track_update if_delta adjust_priority].
  all: try (destruct st; cbn -[wins tracked track_update if_delta adjust_priority]; try discriminate;
            try (destruct m as [mid mst mp mreq]; destruct mst, pre, fh, ff);
            cbn -[wins tracked track_update if_delta adjust_priority];
            repeat match goal with
                   | |- context [if ?b then _ else _] => destruct b eqn:?
                   end;
            cbn -[wins tracked track_update if_delta adjust_priority]; intros H1 H2;
            first [ discriminate H1 | discriminate H2 | solve [auto 6] ]).
  all: try (cbn; intros H1 H2; congruence).
  - (* TIf0 *)
    match goal with |- context [tracked ?cc ?kk] => destruct (tracked cc kk) end; cbn [negb].
    2:{ cbn. intros H1 H2. congruence. }
    match goal with |- context [track_update ?v ?n ?a ?b] =>
      destruct (track_update_st v n a b) as [Hs _] end. cbn [n_st] in Hs.
    destruct fa; cbn; rewrite Hs; intros H1 H2; congruence.
Qed.

(* where the promoting threads come from *)
Lemma thr_provenance v c n t :
  match snd (tstep v c n t) with
  | Some TLostPromote => t = TLostCnt /\ 0 < n_cnt n
  | Some TLostCnt => t = TLostSm /\ n_st n = Standby
  | Some TIfPromote => t = TIfChk /\ n_st n = StandbyAlone
  | Some TIfChk => (exists k, t = TIf0 k true /\ tracked c k = true) \/ (exists delta, t = TIfAdj true delta)
  | Some (TIfAdj d delta) => exists k, t = TIf0 k d /\ tracked c k = true
  | _ => True
  end.
Proof.
  destruct n as [st e p ps k cnt d].
  destruct t; destruct st;
    cbn -[tracked track_update if_delta adjust_priority wins];
    unfold peer_discovered, elect, hb_update, peer_lost, tracker_promote, transition_to;
    cbn -[tracked track_update if_delta adjust_priority wins];
    repeat match goal with |- context [if ?b then _ else _] => destruct b eqn:? end;
    cbn -[tracked track_update if_delta adjust_priority wins];
    repeat match goal with
           | H : (0 <? _) = true |- _ => apply Z.ltb_lt in H
           | H : negb _ = false |- _ => apply Bool.negb_false_iff in H
           end;
    first [ exact I | solve [eauto 6] ].
Qed.

(* ------------------------------------------------------------------ priority always matches the down count (fix_ia) *)
(* the value AdjustPriority computes from a down count *)
Definition eff_code (c : cfg) (cnt : Z) : Z :=
  let newp := i32 (i32 (c_prio c) + i32 (i32 (- i32 (c_dec c)) * i32 cnt)) in
  if newp <? 0 then 0 else newp.
Definition eff_ok (c : cfg) (n : node) : Prop := n_eff n = eff_code c (n_cnt n).
Definition not_adj (t : thr) : bool := match t with TIfAdj _ _ => false | _ => true end.

Lemma adjust_eff_ok c n : eff_ok c (adjust_priority c n (if_delta c n)).
Proof. reflexivity. Qed.

Lemma same_track_eff_ok c n n' : same_track n n' -> eff_ok c n -> eff_ok c n'.
Proof. intros (He & Hc & _) H. unfold eff_ok in *. now rewrite He, Hc. Qed.

Lemma tstep_eff_ok v c n t :
  fix_ia v = true -> not_adj t = true -> eff_ok c n ->
  eff_ok c (fst (fst (tstep v c n t))) /\
  match snd (tstep v c n t) with Some t' => not_adj t' = true | None => True end.
Proof.
  intros Hf Hna H. destruct t; try discriminate Hna.
  all: try (destruct n as [st e p ps k cnt d]; unfold eff_ok in *; cbn -[wins eff_code] in *;
            unfold peer_discovered, elect, hb_update, peer_lost, tracker_promote, transition_to;
            cbn -[wins eff_code]; destruct st; cbn -[wins eff_code];
            repeat match goal with |- context [if ?b then _ else _] => destruct b end;
            cbn -[wins eff_code]; auto; fail).
  (* TIf0 *)
  cbn -[eff_code tracked track_update if_delta adjust_priority]. rewrite Hf.
  destruct (tracked c k); cbn [negb]; cbn -[eff_code track_update if_delta adjust_priority].
  - split; [apply adjust_eff_ok | destruct d; exact I || reflexivity].
  - auto.
Qed.

Lemma coarse_eff_ok v cs p e w :
  eff_ok (cfg_of w cs) (node_of w p) -> eff_ok (cfg_of w cs) (step_node_fn v cs p e w).
Proof.
  intros H. unfold step_node_fn.
  destruct e as [w'|w'|w' i|w' i|w'|w' k d|w' f|w'|w' i|w' i]; try exact H; destruct (who_eqb w w'); try exact H.
  - eapply same_track_eff_ok; [apply start_facts | exact H].
  - destruct (nth_error _ _) as [m|]; [|exact H]. eapply same_track_eff_ok; [apply hb_facts | exact H].
  - eapply same_track_eff_ok; [apply peer_lost_facts | exact H].
  - destruct (if_facts v (cfg_of w cs) (node_of w p) k d) as (_ & _ & Hun & Htr). cbn zeta in *.
    destruct (tracked (cfg_of w cs) k) eqn:T.
    + destruct (Htr eq_refl) as (Hc & _ & He). unfold eff_ok. rewrite He, Hc. apply adjust_eff_ok.
    + now rewrite (Hun eq_refl).
  - eapply same_track_eff_ok; [apply switchover_facts | exact H].
  - eapply same_track_eff_ok; [apply switchover_facts | exact H].
  - destruct (nth_error _ _); exact H.
Qed.

Definition eff_inv (cs : cfgs) (s : fpair) : Prop :=
  forall w, eff_ok (cfg_of w cs) (node_of w (f_p s)) /\ forallb not_adj (thrs_of w s) = true.

Lemma forallb_split {X} (P : X -> bool) l j x :
  nth_error l j = Some x ->
  forallb P l = forallb P (firstn j l) && P x && forallb P (skipn (S j) l).
Proof.
  intros H. rewrite (nth_split l j x H) at 1. rewrite forallb_app. cbn [forallb].
  now rewrite Bool.andb_assoc.
Qed.

Lemma fstep_eff_inv v cs s e : fix_ia v = true -> eff_inv cs s -> eff_inv cs (fst (fstep v cs s e)).
Proof.
  intros Hf Inv. destruct e as [e|w' i|w'|w' k d|w' i].
  - intros w. cbn [fstep]. destruct (step v cs (f_p s) e) as [p t] eqn:E. cbn [fst].
    assert (Hp : p = fst (step v cs (f_p s) e)) by now rewrite E.
    replace (node_of w (f_p (set_p s p))) with (node_of w p) by (destruct s; reflexivity).
    replace (thrs_of w (set_p s p)) with (thrs_of w s) by (destruct s, w; reflexivity).
    rewrite Hp, step_node. split; [apply coarse_eff_ok|]; apply Inv.
  - intros w. cbn [fstep]. destruct (nth_error _ _) as [m|]; [|apply Inv]. cbn [fst].
    specialize (Inv w). destruct Inv as [I1 I2].
    destruct s as [p ta tb], w, w'; destruct p; cbn in *; rewrite ?forallb_app; cbn; rewrite ?I2; auto.
  - intros w. specialize (Inv w). destruct Inv as [I1 I2].
    destruct s as [p ta tb], w, w'; cbn in *; rewrite ?forallb_app; cbn; rewrite ?I2; auto.
  - intros w. specialize (Inv w). destruct Inv as [I1 I2].
    destruct s as [p ta tb], w, w'; cbn in *; rewrite ?forallb_app; cbn; rewrite ?I2; auto.
  - destruct (nth_error (thrs_of w' s) (i mod length (thrs_of w' s))%nat) as [t|] eqn:H.
    2:{ unfold fstep. rewrite H. exact Inv. }
    destruct (fstep_micro v cs s w' i t H) as (Hn & Hon & Hot & Ht). cbn zeta in *.
    intros w. destruct (who_eqb w w') eqn:Ew.
    + apply who_eqb_true in Ew. subst w'. destruct (Inv w) as [I1 I2].
      rewrite (forallb_split not_adj _ _ t H) in I2.
      apply andb_prop in I2. destruct I2 as [I2 I4]. apply andb_prop in I2. destruct I2 as [I2 I3].
      destruct (tstep_eff_ok v (cfg_of w cs) (node_of w (f_p s)) t Hf I3 I1) as [E1 E2].
      rewrite Hn, Ht. split; [exact E1|].
      destruct (snd (tstep v (cfg_of w cs) (node_of w (f_p s)) t)) as [t'|].
      * rewrite (replace_nth_split _ _ t t' H), forallb_app. cbn [forallb]. now rewrite I2, E2, I4.
      * rewrite (remove_nth_split _ _ t H), forallb_app. now rewrite I2, I4.
    + assert (w = other w') by (destruct w, w'; try discriminate Ew; reflexivity). subst w.
      rewrite Hon, Hot. apply Inv.
Qed.

Lemma eff_code_zero c : 0 <= c_prio c < 2147483648 -> eff_code c 0 = c_prio c.
Proof.
  intros H. unfold eff_code. rewrite Z.mul_0_r. change (i32 0) with 0.
  rewrite (i32_id (c_prio c)) by lia. rewrite Z.add_0_r, (i32_id (c_prio c)) by lia.
  destruct (Z.ltb_spec (c_prio c) 0); lia.
Qed.

(* under every interleaving of critical sections: the effective priority is the one AdjustPriority
   computes from the CURRENT down count *)
Lemma fine_priority_matches_count v cs es w :
  fix_ia v = true -> 0 <= c_prio (fst cs) < 2147483648 -> 0 <= c_prio (snd cs) < 2147483648 ->
  let n := node_of w (f_p (frun v cs (finit cs) es)) in
  n_eff n = eff_code (cfg_of w cs) (n_cnt n).
Proof.
  intros Hf Ha Hb. cbn zeta.
  assert (Inv : eff_inv cs (frun v cs (finit cs) es)).
  { induction es as [|e es IH] using rev_ind.
    - intros w'. split; [|destruct w'; reflexivity].
      destruct w'; unfold eff_ok; cbn -[eff_code]; now rewrite eff_code_zero.
    - rewrite frun_snoc. now apply fstep_eff_inv. }
  apply Inv.
Qed.
