(* C10/FineProofs.v — invariants of the fine-grained step model (Fine.v) *)
From OV Require Import Common.Base C10.Model C10.Fine C10.Proofs C10.FineAtomic.
From Coq Require Import ZifyBool ZifyNat ZifyN.
Local Open Scope Z_scope.

(* ------------------------------------------------------------------ list surgery *)
Lemma nth_split {X} (l : list X) : forall j x, nth_error l j = Some x ->
  l = firstn j l ++ x :: skipn (S j) l.
Proof.
  induction l as [|y r IH]; intros [|j] x H; cbn in *; try discriminate.
  - now inversion H.
  - f_equal. now apply IH.
Qed.
Lemma replace_nth_split {X} (l : list X) : forall j x y, nth_error l j = Some x ->
  replace_nth j l y = firstn j l ++ y :: skipn (S j) l.
Proof.
  induction l as [|z r IH]; intros [|j] x y H; cbn in *; try discriminate; try reflexivity.
  f_equal. eapply IH; eauto.
Qed.
Lemma remove_nth_split {X} (l : list X) : forall j x, nth_error l j = Some x ->
  remove_nth j l = firstn j l ++ skipn (S j) l.
Proof.
  induction l as [|z r IH]; intros [|j] x H; cbn in *; try discriminate; try reflexivity.
  f_equal. eapply IH; eauto.
Qed.

(* ------------------------------------------------------------------ READY is owned by a heartbeat thread *)
Definition owns_ready (t : thr) : bool :=
  match t with THbChk _ | THbElect _ => true | _ => false end.

Definition ready_inv (s : fpair) : Prop :=
  forall w, n_st (node_of w (f_p s)) = Ready -> existsb owns_ready (thrs_of w s) = true.

Definition next_owns (nx : option thr) : bool := match nx with Some t' => owns_ready t' | None => false end.

Ltac split_ifs :=
  repeat match goal with
         | |- context [if ?b then _ else _] => destruct b
         | |- context [match ?l with [] => _ | _ :: _ => _ end] => destruct l
         end.

(* one critical section that leaves the group READY: the thread continues as the owner of READY, or
   the group was READY before and this thread is not an owner *)
Lemma tstep_ready v c n t :
  n_st (fst (fst (tstep v c n t))) = Ready ->
  next_owns (snd (tstep v c n t)) = true \/ (n_st n = Ready /\ owns_ready t = false).
Proof.
  destruct n as [st e p ps k cnt d].
  destruct t; cbn -[wins tracked track_update if_delta adjust_priority adjust_or_skip];
    unfold peer_discovered, elect, hb_update, peer_lost, tracker_promote, transition_to;
    cbn -[wins tracked track_update if_delta adjust_priority adjust_or_skip].
  all: try (destruct st; cbn -[wins tracked track_update if_delta adjust_priority adjust_or_skip]; split_ifs;
            cbn -[wins tracked track_update if_delta adjust_priority adjust_or_skip]; intros H;
            first [ discriminate H | left; reflexivity | right; split; reflexivity ]).
  (* TIf0: the node after track_update keeps its state *)
  - destruct (tracked c k0); cbn [negb].
    2:{ cbn. intros H. right. split; [exact H | reflexivity]. }
    destruct (track_update_st v (mkNode st e p ps k cnt d) k0 d0) as [Hs _]. cbn [n_st] in Hs.
    destruct (fix_ia v || _); cbn -[adjust_or_skip track_update];
      rewrite ?(proj1 (adjust_or_skip_frame _ _ _ _)), ?Hs; intros H; right; split; auto.
Qed.

Lemma existsb_split {X} (P : X -> bool) l j x :
  nth_error l j = Some x ->
  existsb P l = existsb P (firstn j l) || P x || existsb P (skipn (S j) l).
Proof.
  intros H. rewrite (nth_split l j x H) at 1. rewrite existsb_app. cbn [existsb].
  now rewrite Bool.orb_assoc.
Qed.

(* effect of a micro step on the node and threads of the stepping side *)
Lemma fstep_micro v cs s w i t :
  nth_error (thrs_of w s) (i mod length (thrs_of w s))%nat = Some t ->
  let j := (i mod length (thrs_of w s))%nat in
  let r := tstep v (cfg_of w cs) (node_of w (f_p s)) t in
  let s' := fst (fstep v cs s (FMicro w i)) in
  node_of w (f_p s') = fst (fst r) /\
  node_of (other w) (f_p s') = node_of (other w) (f_p s) /\
  thrs_of (other w) s' = thrs_of (other w) s /\
  thrs_of w s' = match snd r with
                 | Some t' => replace_nth j (thrs_of w s) t'
                 | None => remove_nth j (thrs_of w s)
                 end.
Proof.
  intros H. cbn zeta. unfold fstep. rewrite H.
  destruct (tstep v (cfg_of w cs) (node_of w (f_p s)) t) as [[n tr] nx]. cbn [fst snd].
  destruct nx as [t'|]; cbn [fst].
  - destruct s as [p ta tb], w; cbn; rewrite ?node_of_set_node; cbn; auto.
  - destruct (thr_msg t) as [m|]; [destruct (h_req m)|];
      destruct s as [p ta tb], w; destruct p; cbn; auto.
Qed.

Lemma fstep_ready_inv v cs s e : ready_inv s -> ready_inv (fst (fstep v cs s e)).
Proof.
  intros Inv. destruct e as [e|w' i|w'|w' k d|w' i].
  - (* whole call *)
    intros w. cbn [fstep]. destruct (step v cs (f_p s) e) as [p t] eqn:E. cbn [fst].
    assert (Hp : p = fst (step v cs (f_p s) e)) by now rewrite E.
    replace (node_of w (f_p (set_p s p))) with (node_of w p) by (destruct s; reflexivity).
    replace (thrs_of w (set_p s p)) with (thrs_of w s) by (destruct s, w; reflexivity).
    rewrite Hp, step_node. intros Hr. apply Inv.
    destruct (sst_eqb (n_st (node_of w (f_p s))) Ready) eqn:Q; [now apply sst_eqb_eq in Q|].
    exfalso. apply (coarse_not_ready v cs (f_p s) e w); [|exact Hr].
    intros E'. rewrite E' in Q. discriminate Q.
  - intros w. cbn [fstep]. destruct (nth_error _ _) as [m|]; [|apply Inv]. cbn [fst].
    intros Hr. specialize (Inv w).
    destruct s as [p ta tb], w, w'; destruct p; cbn in *; rewrite ?existsb_app; auto;
      rewrite Inv; auto.
  - intros w Hr. specialize (Inv w). destruct s as [p ta tb], w, w'; cbn in *; rewrite ?existsb_app; auto;
      rewrite Inv; auto.
  - intros w Hr. specialize (Inv w). destruct s as [p ta tb], w, w'; cbn in *; rewrite ?existsb_app; auto;
      rewrite Inv; auto.
  - destruct (nth_error (thrs_of w' s) (i mod length (thrs_of w' s))%nat) as [t|] eqn:H.
    2:{ unfold fstep. rewrite H. exact Inv. }
    destruct (fstep_micro v cs s w' i t H) as (Hn & Hon & Hot & Ht). cbn zeta in *.
    intros w. destruct (who_eqb w w') eqn:Ew.
    + apply who_eqb_true in Ew. subst w'. rewrite Hn, Ht. intros Hr.
      destruct (tstep_ready v (cfg_of w cs) (node_of w (f_p s)) t Hr) as [Ho | [Hs Hno]].
      * destruct (snd (tstep v (cfg_of w cs) (node_of w (f_p s)) t)) as [t'|]; [|discriminate Ho].
        rewrite (replace_nth_split _ _ t t' H), existsb_app. cbn [existsb next_owns] in *.
        rewrite Ho. now rewrite Bool.orb_true_r.
      * pose proof (Inv w Hs) as Hex. rewrite (existsb_split owns_ready _ _ t H), Hno, Bool.orb_false_r in Hex.
        destruct (snd (tstep v (cfg_of w cs) (node_of w (f_p s)) t)) as [t'|].
        -- rewrite (replace_nth_split _ _ t t' H), existsb_app. cbn [existsb].
           apply Bool.orb_true_iff in Hex. destruct Hex as [Hx|Hx]; rewrite Hx; auto.
           now rewrite !Bool.orb_true_r.
        -- rewrite (remove_nth_split _ _ t H), existsb_app. exact Hex.
    + assert (w = other w') by (destruct w, w'; try discriminate Ew; reflexivity). subst w.
      rewrite Hon, Hot. apply Inv.
Qed.

Lemma frun_snoc v cs es : forall s e, frun v cs s (es ++ [e]) = fst (fstep v cs (frun v cs s es) e).
Proof. induction es as [|x r IH]; intros s e; cbn [frun app]; [reflexivity | apply IH]. Qed.

Lemma frun_ready_inv v cs es : ready_inv (frun v cs (finit cs) es).
Proof.
  induction es as [|e es IH] using rev_ind.
  - intros w. destruct w; cbn; discriminate.
  - rewrite frun_snoc. now apply fstep_ready_inv.
Qed.

(* when no call is in progress on a node, its group is not READY *)
Lemma quiescent_not_ready v cs es w :
  thrs_of w (frun v cs (finit cs) es) = [] ->
  n_st (node_of w (f_p (frun v cs (finit cs) es))) <> Ready.
Proof.
  intros Hq Hr. pose proof (frun_ready_inv v cs es w Hr) as H. rewrite Hq in H. discriminate H.
Qed.

(* ------------------------------------------------------------------ no stable headless pair, fine histories *)
Lemma fine_converges v cs es w1 w2 w3 :
  fix_hb v = true -> fix_sa v = true -> ids_ok cs ->
  let s := frun v cs (finit cs) es in
  quiescent s = true -> n_st (p_a (f_p s)) <> Init -> n_st (p_b (f_p s)) <> Init ->
  let r := xchgs v cs [w1; w2; w3] (p_a (f_p s), p_b (f_p s)) in
  pair_one_active r = true /\ absn (xchg v cs A r) = absn r /\ absn (xchg v cs B r) = absn r.
Proof.
  intros Hh Hs Hid s Hq Ha Hb.
  assert (Qa : thrs_of A s = []) by (unfold quiescent in Hq; cbn; destruct (f_ta s); [reflexivity | discriminate]).
  assert (Qb : thrs_of B s = []) by (unfold quiescent in Hq; cbn; destruct (f_ta s); [|discriminate];
                                      destruct (f_tb s); [reflexivity | discriminate]).
  pose proof (quiescent_not_ready v cs es A Qa) as Ra. pose proof (quiescent_not_ready v cs es B Qb) as Rb.
  cbn [node_of] in Ra, Rb. fold s in Ra, Rb.
  apply converges; auto; unfold n_ok, pre_ok; rewrite Hs.
  - destruct (n_st (p_a (f_p s))); cbn; congruence.
  - destruct (n_st (p_b (f_p s))); cbn; congruence.
Qed.

(* ------------------------------------------------------------------ what can make a group active *)
Lemma tstep_promotion v c n t :
  is_active (n_st n) = false -> is_active (n_st (fst (fst (tstep v c n t)))) = true ->
  match t with
  | THbElect m => n_st n = Ready /\ wins c n (h_id m) = true
  | THbUpd m => n_st n = Standby /\ wins c (set_peer n (h_prio m) (h_st m)) (h_id m) = true /\
                (c_preempt c = true \/ (fix_hb v = true /\ h_st m = Standby))
  | TLostSm => n_st n = Waiting
  | TLostPromote | TIfPromote => n_st n = StandbyAlone
  | _ => False
  end.
Proof.
  destruct n as [st e p ps k cnt d], v as [fh fi ff fs fa], c as [id pr pre dec nifs ov co].
  destruct t; cbn -[wins tracked track_update if_delta adjust_priority adjust_or_skip];
    unfold peer_discovered, elect, hb_update, peer_lost, tracker_promote, transition_to, set_peer;
    cbn -[wins tracked track_update if_delta adjust_priority adjust_or_skip].
  all: try (destruct st; cbn -[wins tracked track_update if_delta adjust_priority adjust_or_skip]; try discriminate;
            try (destruct m as [mid mst mp mreq]; destruct mst, pre, fh, ff);
            cbn -[wins tracked track_update if_delta adjust_priority adjust_or_skip];
            repeat match goal with
                   | |- context [if ?b then _ else _] => destruct b eqn:?
                   end;
            cbn -[wins tracked track_update if_delta adjust_priority adjust_or_skip]; intros H1 H2;
            first [ discriminate H1 | discriminate H2 | solve [auto 6] ]).
  all: try (cbn; intros H1 H2; congruence).
  - (* TIf0 *)
    match goal with |- context [tracked ?cc ?kk] => destruct (tracked cc kk) end; cbn [negb].
    2:{ cbn. intros H1 H2. congruence. }
    match goal with |- context [track_update ?v ?n ?a ?b] =>
      destruct (track_update_st v n a b) as [Hs _] end. cbn [n_st] in Hs.
    match goal with |- context [if ?b then _ else _] => destruct b end;
      cbn -[adjust_or_skip track_update];
      rewrite ?(proj1 (adjust_or_skip_frame _ _ _ _)), ?Hs; intros H1 H2; congruence.
Qed.

(* where the promoting threads come from *)
Lemma thr_provenance v c n t :
  match snd (tstep v c n t) with
  | Some TLostPromote => t = TLostCnt /\ 0 < n_cnt n
  | Some TLostCnt => t = TLostSm /\ n_st n = Standby
  | Some TIfPromote => t = TIfChk /\ n_st n = StandbyAlone
  | Some TIfChk => (exists k, t = TIf0 k true /\ tracked c k = true) \/ (exists delta, t = TIfAdj true delta)
  | Some (TIfAdj d delta) => exists k, t = TIf0 k d /\ tracked c k = true
  | _ => True
  end.
Proof.
  destruct n as [st e p ps k cnt d].
  destruct t; destruct st;
    cbn -[tracked track_update if_delta adjust_priority adjust_or_skip wins];
    unfold peer_discovered, elect, hb_update, peer_lost, tracker_promote, transition_to;
    cbn -[tracked track_update if_delta adjust_priority adjust_or_skip wins];
    repeat match goal with |- context [if ?b then _ else _] => destruct b eqn:? end;
    cbn -[tracked track_update if_delta adjust_priority adjust_or_skip wins];
    repeat match goal with
           | H : (0 <? _) = true |- _ => apply Z.ltb_lt in H
           | H : negb _ = false |- _ => apply Bool.negb_false_iff in H
           end;
    first [ exact I | solve [eauto 6] ].
Qed.

(* ------------------------------------------------------------------ priority always matches the down count (fix_ia) *)
(* the value AdjustPriority computes from a down count *)
Definition eff_code (c : cfg) (cnt : Z) : Z :=
  let newp := i32 (i32 (c_prio c) + i32 (i32 (- i32 (c_dec c)) * i32 cnt)) in
  if cfg_smallb c then (if newp <? 0 then 0 else newp) else c_over c cnt.
Definition eff_ok (c : cfg) (n : node) : Prop := n_eff n = eff_code c (n_cnt n).
Definition not_adj (t : thr) : bool := match t with TIfAdj _ _ => false | _ => true end.

Lemma adjust_eff_ok c n : eff_ok c (adjust_priority c n (if_delta c n)).
Proof. reflexivity. Qed.

Lemma track_update_eff v n k d : n_eff (track_update v n k d) = n_eff n.
Proof. unfold track_update. destruct (fix_if v), (Bool.eqb d (mem_nat k (n_down n))), d, (0 <? n_cnt n); reflexivity. Qed.

Lemma adjust_or_skip_eff_ok c n0 n1 :
  eff_ok c n0 -> n_eff n1 = n_eff n0 -> eff_ok c (adjust_or_skip c n0 n1 (if_delta c n1)).
Proof.
  intros H He. unfold adjust_or_skip. destruct (c_coalesce c && (n_cnt n1 =? n_cnt n0)) eqn:Q.
  - apply andb_prop in Q. destruct Q as [_ Q]. apply Z.eqb_eq in Q. unfold eff_ok in *. now rewrite He, Q.
  - apply adjust_eff_ok.
Qed.

Lemma same_track_eff_ok c n n' : same_track n n' -> eff_ok c n -> eff_ok c n'.
Proof. intros (He & Hc & _) H. unfold eff_ok in *. now rewrite He, Hc. Qed.

Lemma tstep_eff_ok v c n t :
  fix_ia v = true -> not_adj t = true -> eff_ok c n ->
  eff_ok c (fst (fst (tstep v c n t))) /\
  match snd (tstep v c n t) with Some t' => not_adj t' = true | None => True end.
Proof.
  intros Hf Hna H. destruct t; try discriminate Hna.
  all: try (destruct n as [st e p ps k cnt d]; unfold eff_ok in *; cbn -[wins eff_code] in *;
            unfold peer_discovered, elect, hb_update, peer_lost, tracker_promote, transition_to;
            cbn -[wins eff_code]; destruct st; cbn -[wins eff_code];
            repeat match goal with |- context [if ?b then _ else _] => destruct b end;
            cbn -[wins eff_code]; auto; fail).
  (* TIf0 *)
  cbn -[eff_code tracked track_update if_delta adjust_priority adjust_or_skip]. rewrite Hf.
  destruct (tracked c k); cbn [negb orb]; cbn -[eff_code track_update if_delta adjust_priority adjust_or_skip].
  - split; [apply adjust_or_skip_eff_ok; [exact H | apply track_update_eff] | destruct d; exact I || reflexivity].
  - auto.
Qed.

Lemma coarse_eff_ok v cs p e w :
  eff_ok (cfg_of w cs) (node_of w p) -> eff_ok (cfg_of w cs) (step_node_fn v cs p e w).
Proof.
  intros H. unfold step_node_fn.
  destruct e as [w'|w'|w' i|w' i|w'|w' k d|w' f|w'|w' i|w' i]; try exact H; destruct (who_eqb w w'); try exact H.
  - eapply same_track_eff_ok; [apply start_facts | exact H].
  - destruct (nth_error _ _) as [m|]; [|exact H]. eapply same_track_eff_ok; [apply hb_facts | exact H].
  - eapply same_track_eff_ok; [apply peer_lost_facts | exact H].
  - destruct (if_facts v (cfg_of w cs) (node_of w p) k d) as (_ & _ & Hun & Htr). cbn zeta in *.
    destruct (tracked (cfg_of w cs) k) eqn:T.
    + destruct (Htr eq_refl) as (Hc & _ & He).
      pose proof (adjust_or_skip_eff_ok (cfg_of w cs) (node_of w p) (track_update v (node_of w p) k d) H
                    (track_update_eff v (node_of w p) k d)) as Ho.
      unfold eff_ok in *. rewrite He, Hc.
      rewrite <- (proj1 (proj2 (proj2 (adjust_or_skip_frame (cfg_of w cs) (node_of w p) (track_update v (node_of w p) k d)
                    (if_delta (cfg_of w cs) (track_update v (node_of w p) k d)))))). exact Ho.
    + now rewrite (Hun eq_refl).
  - eapply same_track_eff_ok; [apply switchover_facts | exact H].
  - eapply same_track_eff_ok; [apply switchover_facts | exact H].
  - destruct (nth_error _ _); exact H.
Qed.

Definition eff_inv (cs : cfgs) (s : fpair) : Prop :=
  forall w, eff_ok (cfg_of w cs) (node_of w (f_p s)) /\ forallb not_adj (thrs_of w s) = true.

Lemma forallb_split {X} (P : X -> bool) l j x :
  nth_error l j = Some x ->
  forallb P l = forallb P (firstn j l) && P x && forallb P (skipn (S j) l).
Proof.
  intros H. rewrite (nth_split l j x H) at 1. rewrite forallb_app. cbn [forallb].
  now rewrite Bool.andb_assoc.
Qed.

Lemma fstep_eff_inv v cs s e : fix_ia v = true -> eff_inv cs s -> eff_inv cs (fst (fstep v cs s e)).
Proof.
  intros Hf Inv. destruct e as [e|w' i|w'|w' k d|w' i].
  - intros w. cbn [fstep]. destruct (step v cs (f_p s) e) as [p t] eqn:E. cbn [fst].
    assert (Hp : p = fst (step v cs (f_p s) e)) by now rewrite E.
    replace (node_of w (f_p (set_p s p))) with (node_of w p) by (destruct s; reflexivity).
    replace (thrs_of w (set_p s p)) with (thrs_of w s) by (destruct s, w; reflexivity).
    rewrite Hp, step_node. split; [apply coarse_eff_ok|]; apply Inv.
  - intros w. cbn [fstep]. destruct (nth_error _ _) as [m|]; [|apply Inv]. cbn [fst].
    specialize (Inv w). destruct Inv as [I1 I2].
    destruct s as [p ta tb], w, w'; destruct p; cbn in *; rewrite ?forallb_app; cbn; rewrite ?I2; auto.
  - intros w. specialize (Inv w). destruct Inv as [I1 I2].
    destruct s as [p ta tb], w, w'; cbn in *; rewrite ?forallb_app; cbn; rewrite ?I2; auto.
  - intros w. specialize (Inv w). destruct Inv as [I1 I2].
    destruct s as [p ta tb], w, w'; cbn in *; rewrite ?forallb_app; cbn; rewrite ?I2; auto.
  - destruct (nth_error (thrs_of w' s) (i mod length (thrs_of w' s))%nat) as [t|] eqn:H.
    2:{ unfold fstep. rewrite H. exact Inv. }
    destruct (fstep_micro v cs s w' i t H) as (Hn & Hon & Hot & Ht). cbn zeta in *.
    intros w. destruct (who_eqb w w') eqn:Ew.
    + apply who_eqb_true in Ew. subst w'. destruct (Inv w) as [I1 I2].
      rewrite (forallb_split not_adj _ _ t H) in I2.
      apply andb_prop in I2. destruct I2 as [I2 I4]. apply andb_prop in I2. destruct I2 as [I2 I3].
      destruct (tstep_eff_ok v (cfg_of w cs) (node_of w (f_p s)) t Hf I3 I1) as [E1 E2].
      rewrite Hn, Ht. split; [exact E1|].
      destruct (snd (tstep v (cfg_of w cs) (node_of w (f_p s)) t)) as [t'|].
      * rewrite (replace_nth_split _ _ t t' H), forallb_app. cbn [forallb]. now rewrite I2, E2, I4.
      * rewrite (remove_nth_split _ _ t H), forallb_app. now rewrite I2, I4.
    + assert (w = other w') by (destruct w, w'; try discriminate Ew; reflexivity). subst w.
      rewrite Hon, Hot. apply Inv.
Qed.

Lemma eff_code_zero c : cfg_small c -> eff_code c 0 = c_prio c.
Proof.
  intros Hs. unfold eff_code. rewrite (cfg_small_b c Hs). destruct Hs as (H & _).
  rewrite Z.mul_0_r. change (i32 0) with 0.
  rewrite (i32_id (c_prio c)) by lia. rewrite Z.add_0_r, (i32_id (c_prio c)) by lia.
  destruct (Z.ltb_spec (c_prio c) 0); lia.
Qed.

(* under every interleaving of critical sections: the effective priority is the one AdjustPriority
   computes from the CURRENT down count *)
Lemma fine_priority_matches_count v cs es w :
  fix_ia v = true -> cfg_small (fst cs) -> cfg_small (snd cs) ->
  let n := node_of w (f_p (frun v cs (finit cs) es)) in
  n_eff n = eff_code (cfg_of w cs) (n_cnt n).
Proof.
  intros Hf Ha Hb. cbn zeta.
  assert (Inv : eff_inv cs (frun v cs (finit cs) es)).
  { induction es as [|e es IH] using rev_ind.
    - intros w'. split; [|destruct w'; reflexivity].
      destruct w'; unfold eff_ok; cbn -[eff_code]; now rewrite eff_code_zero.
    - rewrite frun_snoc. now apply fstep_eff_inv. }
  apply Inv.
Qed.

(* ------------------------------------------------------------------ history level: no promotion without a cause *)
(* the fine events through which node w can possibly become active *)
Definition cause_capable (w : who) (e : fev) : bool :=
  match e with
  | FCoarse (ESwLocal w' _) | FCoarse (ESwRemote w') | FCoarse (EPeerLost w') | FCoarse (EDeliver w' _) => who_eqb w w'
  | FCoarse (EIf w' _ d) => who_eqb w w' && d
  | FHb w' _ | FLost w' | FIf w' _ _ => who_eqb w w'
  | _ => false
  end.

Lemma quiet_step v cs s e w :
  thrs_of w s = [] -> n_st (node_of w (f_p s)) <> Init -> cause_capable w e = false ->
  thrs_of w (fst (fstep v cs s e)) = [] /\
  n_st (node_of w (f_p (fst (fstep v cs s e)))) = n_st (node_of w (f_p s)).
Proof.
  intros Hq Hi Hc. destruct e as [e|w' i|w'|w' k d|w' i].
  - cbn [fstep]. destruct (step v cs (f_p s) e) as [p t] eqn:E. cbn [fst].
    assert (Hp : p = fst (step v cs (f_p s) e)) by now rewrite E.
    replace (node_of w (f_p (set_p s p))) with (node_of w p) by (destruct s; reflexivity).
    replace (thrs_of w (set_p s p)) with (thrs_of w s) by (destruct s, w; reflexivity).
    split; [exact Hq|]. rewrite Hp, step_node. unfold step_node_fn.
    destruct e as [w'|w'|w' i|w' i|w'|w' k d|w' f|w'|w' i|w' i]; cbn [cause_capable] in Hc;
      try reflexivity; try (rewrite Hc; reflexivity).
    + destruct (who_eqb w w'); [|reflexivity].
      destruct (start_facts (node_of w (f_p s))) as (_ & _ & Hs). rewrite Hs.
      destruct (n_st (node_of w (f_p s))); congruence.
    + destruct (who_eqb w w') eqn:Ew; [|reflexivity]. cbn [andb] in Hc. subst d.
      destruct (if_facts v (cfg_of w cs) (node_of w (f_p s)) k false) as (_ & Hs & _). rewrite Hs.
      now rewrite Bool.andb_false_r.
    + destruct (who_eqb w w'); [|reflexivity]. destruct (nth_error _ _); reflexivity.
  - cbn [cause_capable] in Hc. cbn [fstep]. destruct (nth_error _ _) as [m|]; [|auto]. cbn [fst].
    destruct s as [p ta tb], w, w'; try discriminate Hc; destruct p; cbn in *; auto.
  - cbn [cause_capable] in Hc. destruct s as [p ta tb], w, w'; try discriminate Hc; cbn in *; auto.
  - cbn [cause_capable] in Hc. destruct s as [p ta tb], w, w'; try discriminate Hc; cbn in *; auto.
  - destruct (who_eqb w w') eqn:Ew.
    + apply who_eqb_true in Ew. subst w'. unfold fstep. rewrite Hq.
      replace (nth_error (@nil thr) (i mod length (@nil thr))%nat) with (@None thr)
        by (destruct (i mod length (@nil thr))%nat; reflexivity).
      auto.
    + assert (w = other w') by (destruct w, w'; try discriminate Ew; reflexivity). subst w.
      destruct (nth_error (thrs_of w' s) (i mod length (thrs_of w' s))%nat) as [t|] eqn:H.
      * destruct (fstep_micro v cs s w' i t H) as (_ & Hon & Hot & _). cbn zeta in *. now rewrite Hon, Hot.
      * unfold fstep. rewrite H. auto.
Qed.

(* over ANY interleaving of critical sections: from a moment at which node w has no call in progress, as
   long as none of the cause-capable events happens on w, its group keeps its state and stays quiescent *)
Lemma quiet_run v cs w : forall es s,
  thrs_of w s = [] -> n_st (node_of w (f_p s)) <> Init ->
  forallb (fun e => negb (cause_capable w e)) es = true ->
  thrs_of w (frun v cs s es) = [] /\
  n_st (node_of w (f_p (frun v cs s es))) = n_st (node_of w (f_p s)).
Proof.
  induction es as [|e es IH]; intros s Hq Hi Hall; cbn [frun]; [auto|].
  cbn [forallb] in Hall. apply andb_prop in Hall. destruct Hall as [H1 H2].
  apply Bool.negb_true_iff in H1.
  destruct (quiet_step v cs s e w Hq Hi H1) as [Q1 Q2].
  destruct (IH (fst (fstep v cs s e)) Q1) as [R1 R2]; [now rewrite Q2 | exact H2 |].
  split; [exact R1 | now rewrite R2, Q2].
Qed.

Lemma fine_no_self_promotion v cs w es1 es2 :
  let s1 := frun v cs (finit cs) es1 in
  thrs_of w s1 = [] ->
  (n_st (node_of w (f_p s1)) = Standby \/ n_st (node_of w (f_p s1)) = StandbyAlone) ->
  is_active (n_st (node_of w (f_p (frun v cs s1 es2)))) = true ->
  existsb (cause_capable w) es2 = true.
Proof.
  intros s1 Hq Hst Hact.
  destruct (existsb (cause_capable w) es2) eqn:E; [reflexivity|]. exfalso.
  assert (Hall : forallb (fun e => negb (cause_capable w e)) es2 = true).
  { clear -E. induction es2 as [|e r IH]; cbn in *; [reflexivity|].
    apply Bool.orb_false_iff in E. destruct E as [E1 E2]. now rewrite E1, IH. }
  destruct (quiet_run v cs w es2 s1 Hq) as [_ R]; [destruct Hst as [H|H]; rewrite H; discriminate | exact Hall |].
  rewrite R in Hact. destruct Hst as [H|H]; rewrite H in Hact; discriminate Hact.
Qed.

(* ------------------------------------------------------------------ history level: effective priority *)
(* the interface notifications of a fine history IN HANDLING ORDER: an atomic call counts when it runs, an
   interleaved one when its first critical section (the m.mu section that updates ifDown) runs *)
Definition log_here (s : fpair) (e : fev) : list ev :=
  match e with
  | FCoarse (EIf w k d) => [EIf w k d]
  | FMicro w i =>
      match nth_error (thrs_of w s) (i mod length (thrs_of w s))%nat with
      | Some (TIf0 k d) => [EIf w k d]
      | _ => []
      end
  | _ => []
  end.
Fixpoint flog (v : variant) (cs : cfgs) (s : fpair) (es : list fev) : list ev :=
  match es with
  | [] => []
  | e :: r => log_here s e ++ flog v cs (fst (fstep v cs s e)) r
  end.

Lemma track_inv_same c w log n n' : same_track n n' -> track_inv c w log n -> track_inv c w log n'.
Proof. intros (He & Hc & Hd) (I1 & I2 & I3). unfold track_inv. now rewrite He, Hc, Hd. Qed.

Lemma coarse_same_track v cs p e w :
  (forall k d, e <> EIf w k d) -> same_track (node_of w p) (step_node_fn v cs p e w).
Proof.
  intros Hne. unfold step_node_fn.
  destruct e as [w'|w'|w' i|w' i|w'|w' k d|w' f|w'|w' i|w' i]; try (unfold same_track; auto; fail);
    destruct (who_eqb w w') eqn:Ew; try (unfold same_track; auto; fail).
  - apply start_facts.
  - destruct (nth_error _ _); [apply hb_facts | unfold same_track; auto].
  - apply peer_lost_facts.
  - apply who_eqb_true in Ew. subst w'. exfalso. now apply (Hne k d).
  - apply switchover_facts.
  - apply switchover_facts.
  - destruct (nth_error _ _); unfold same_track; auto.
Qed.

Lemma tstep_same_track v c n t :
  not_adj t = true -> (forall k d, t <> TIf0 k d) ->
  same_track n (fst (fst (tstep v c n t))).
Proof.
  intros Hna Hni. destruct t; try discriminate Hna; try (exfalso; eapply Hni; reflexivity).
  all: destruct n as [st e p ps k cnt d]; unfold same_track;
       cbn -[wins]; unfold peer_discovered, elect, hb_update, peer_lost, tracker_promote, transition_to;
       cbn -[wins]; destruct st; cbn -[wins];
       repeat match goal with |- context [if ?b then _ else _] => destruct b end; cbn; auto.
Qed.

Lemma tif0_same_track v c n k d :
  fix_ia v = true ->
  same_track (fst (handle_if v c n k d)) (fst (fst (tstep v c n (TIf0 k d)))).
Proof.
  intros Hf. destruct (if_facts v c n k d) as (_ & _ & Hun & Htr). cbn zeta in *.
  cbn -[tracked track_update if_delta adjust_priority adjust_or_skip]. rewrite Hf.
  destruct (tracked c k) eqn:T; cbn [negb].
  - destruct (Htr eq_refl) as (Hc & Hd & He). cbn [orb]. cbn -[track_update if_delta adjust_priority adjust_or_skip].
    destruct (adjust_or_skip_frame c n (track_update v n k d) (if_delta c (track_update v n k d))) as (_ & _ & F3 & F4).
    unfold same_track. rewrite Hc, Hd, He, F3, F4. auto.
  - rewrite (Hun eq_refl). cbn. unfold same_track; auto.
Qed.

Definition log_inv (cs : cfgs) (s : fpair) (log : list ev) : Prop :=
  forall w, track_inv (cfg_of w cs) w log (node_of w (f_p s)) /\ forallb not_adj (thrs_of w s) = true.

Lemma track_inv_other c w log n w' k d :
  who_eqb w w' = false -> track_inv c w log n -> track_inv c w (log ++ [EIf w' k d]) n.
Proof.
  intros Ew. apply track_inv_frame; [|unfold same_track; auto].
  intros k' d' E. inversion E; subst. rewrite who_eqb_refl in Ew. discriminate Ew.
Qed.

Lemma fstep_log_inv v cs s e log :
  fix_if v = true -> fix_ia v = true -> cfg_small (fst cs) -> cfg_small (snd cs) ->
  log_inv cs s log -> log_inv cs (fst (fstep v cs s e)) (log ++ log_here s e).
Proof.
  intros Hfi Hfa Sa Sb Inv.
  assert (Hsm : forall w, cfg_small (cfg_of w cs)) by (intros [|]; assumption).
  destruct v as [fh fi2 ff fs fa2]. cbn [fix_if fix_ia] in Hfi, Hfa. subst fi2 fa2.
  set (v := mkVariant fh true ff fs true) in *.
  assert (Hfi : fix_if v = true) by reflexivity. assert (Hfa : fix_ia v = true) by reflexivity.
  destruct e as [e|w' i|w'|w' k d|w' i].
  - intros w. cbn [fstep]. destruct (step v cs (f_p s) e) as [p t] eqn:E. cbn [fst].
    assert (Hp : p = fst (step v cs (f_p s) e)) by now rewrite E.
    replace (node_of w (f_p (set_p s p))) with (node_of w p) by (destruct s; reflexivity).
    replace (thrs_of w (set_p s p)) with (thrs_of w s) by (destruct s, w; reflexivity).
    destruct (Inv w) as [I1 I2]. split; [|exact I2]. rewrite Hp, step_node.
    destruct e as [w2|w2|w2 i|w2 i|w2|w2 k d|w2 f|w2|w2 i|w2 i]; cbn [log_here]; rewrite ?app_nil_r;
      try (eapply track_inv_same; [apply coarse_same_track; discriminate | exact I1]).
    destruct (who_eqb w w2) eqn:Ew.
    + apply who_eqb_true in Ew. subst w2. unfold step_node_fn. rewrite who_eqb_refl.
      apply track_inv_if; auto.
    + unfold step_node_fn. rewrite Ew. now apply track_inv_other.
  - intros w. cbn [fstep log_here]. rewrite app_nil_r. destruct (nth_error _ _) as [m|]; [|apply Inv]. cbn [fst].
    destruct (Inv w) as [I1 I2]. destruct s as [p ta tb], w, w'; destruct p; cbn in *; rewrite ?forallb_app; cbn;
      rewrite ?I2; auto.
  - intros w. cbn [log_here]. rewrite app_nil_r. destruct (Inv w) as [I1 I2].
    destruct s as [p ta tb], w, w'; cbn in *; rewrite ?forallb_app; cbn; rewrite ?I2; auto.
  - intros w. cbn [log_here]. rewrite app_nil_r. destruct (Inv w) as [I1 I2].
    destruct s as [p ta tb], w, w'; cbn in *; rewrite ?forallb_app; cbn; rewrite ?I2; auto.
  - cbn [log_here].
    destruct (nth_error (thrs_of w' s) (i mod length (thrs_of w' s))%nat) as [t|] eqn:H.
    2:{ rewrite app_nil_r. unfold fstep. rewrite H. exact Inv. }
    destruct (fstep_micro v cs s w' i t H) as (Hn & Hon & Hot & Ht). cbn zeta in *.
    destruct (Inv w') as [I1 I2].
    rewrite (forallb_split not_adj _ _ t H) in I2.
    apply andb_prop in I2. destruct I2 as [I2 I4]. apply andb_prop in I2. destruct I2 as [I2 I3].
    assert (Hnext : match snd (tstep v (cfg_of w' cs) (node_of w' (f_p s)) t) with
                    | Some t' => not_adj t' = true | None => True end).
    { destruct t; try discriminate I3; cbn -[tracked track_update if_delta adjust_priority adjust_or_skip];
        try (destruct (peer_discovered _ _ _)); try (destruct (elect _ _ _)); try (destruct (hb_update _ _ _ _ _ _));
        try (destruct (peer_lost _) as [? [|? ?]]); try (destruct (tracker_promote _));
        unfold v; cbn; repeat match goal with |- context [if ?b then _ else _] => destruct b end; cbn; auto. }
    assert (Hthr : forallb not_adj (thrs_of w' (fst (fstep v cs s (FMicro w' i)))) = true).
    { rewrite Ht. destruct (snd (tstep v (cfg_of w' cs) (node_of w' (f_p s)) t)) as [t'|].
      - rewrite (replace_nth_split _ _ t t' H), forallb_app. cbn [forallb]. now rewrite I2, Hnext, I4.
      - rewrite (remove_nth_split _ _ t H), forallb_app. now rewrite I2, I4. }
    intros w. destruct (who_eqb w w') eqn:Ew.
    + apply who_eqb_true in Ew. subst w'. split; [|exact Hthr]. rewrite Hn.
      destruct t; try discriminate I3;
        try (rewrite app_nil_r; eapply track_inv_same; [apply tstep_same_track; [reflexivity | discriminate] | exact I1]).
      eapply track_inv_same; [apply tif0_same_track; exact Hfa|]. apply track_inv_if; auto.
    + assert (w = other w') by (destruct w, w'; try discriminate Ew; reflexivity). subst w.
      rewrite Hon, Hot. destruct (Inv (other w')) as [J1 J2]. split; [|exact J2].
      destruct t; rewrite ?app_nil_r; try exact J1. now apply track_inv_other.
Qed.

Lemma frun_log_inv v cs :
  fix_if v = true -> fix_ia v = true -> cfg_small (fst cs) -> cfg_small (snd cs) ->
  forall es s log, log_inv cs s log -> log_inv cs (frun v cs s es) (log ++ flog v cs s es).
Proof.
  intros Hfi Hfa Sa Sb. induction es as [|e es IH]; intros s log Inv; cbn [frun flog].
  - now rewrite app_nil_r.
  - rewrite app_assoc. apply IH. now apply fstep_log_inv.
Qed.

(* under every interleaving of critical sections: the effective priority and the down count are what the
   interface notifications, in the order in which they were handled, say *)
Lemma fine_effective_priority v cs es w :
  fix_if v = true -> fix_ia v = true -> cfg_small (fst cs) -> cfg_small (snd cs) ->
  let n := node_of w (f_p (frun v cs (finit cs) es)) in
  let log := flog v cs (finit cs) es in
  n_eff n = spec_eff (cfg_of w cs) w log /\ n_cnt n = spec_cnt (cfg_of w cs) w log.
Proof.
  intros Hfi Hfa Sa Sb. cbn zeta.
  assert (I0 : log_inv cs (finit cs) []).
  { intros w'. split; [|destruct w'; reflexivity].
    destruct w'; cbn [finit f_p node_of init_pair p_a p_b cfg_of]; apply track_inv_init;
      [destruct Sa | destruct Sb]; lia. }
  pose proof (frun_log_inv v cs Hfi Hfa Sa Sb es (finit cs) [] I0 w) as [(_ & H2 & H3) _].
  cbn [app] in *. split; assumption.
Qed.
