(* C10/Stale.v — when is an in-flight heartbeat stale?  Specification-level bookkeeping beside the pair:
   every in-flight message carries the (global) time at which its sender built it; each node remembers the
   time of its last peer-loss detection and the build time of the newest heartbeat it has handled.
   Real code: HeartbeatMessage.TimestampNs is the sender's build time; comparing two timestamps of the SAME
   sender needs no clock synchronisation (fix_so: in /repo since f8a6845, Manager.lastPeerTimestampNs), comparing
   one with the receiver's loss time does (fix_sl: specification only, open finding).  [sdecide] turns a delivery of a stale message into [EStale]. *)
From OV Require Import Common.Base C10.Model.

Record sfix := mkSfix {
  fix_so : bool;   (* discard heartbeats built before one that was already handled (re-ordered delivery) *)
  fix_sl : bool }. (* discard heartbeats built before the receiver's last peer-loss detection *)

Record sstate := mkSs {
  s_ta : list nat; s_tb : list nat;     (* build times of the messages in q_a / q_b, position by position *)
  s_clock : nat;
  s_lost_a : nat; s_lost_b : nat;       (* time of the last handlePeerLost *)
  s_last_a : nat; s_last_b : nat }.     (* build time of the newest heartbeat handled since then (0: none) *)

Definition sinit : sstate := mkSs [] [] 0 0 0 0 0.

Definition tags_to (w : who) (t : sstate) : list nat := match w with A => s_ta t | B => s_tb t end.
Definition lost_of (w : who) (t : sstate) : nat := match w with A => s_lost_a t | B => s_lost_b t end.
Definition last_of (w : who) (t : sstate) : nat := match w with A => s_last_a t | B => s_last_b t end.
Definition set_tags (w : who) (t : sstate) (l : list nat) : sstate :=
  match w with
  | A => mkSs l (s_tb t) (s_clock t) (s_lost_a t) (s_lost_b t) (s_last_a t) (s_last_b t)
  | B => mkSs (s_ta t) l (s_clock t) (s_lost_a t) (s_lost_b t) (s_last_a t) (s_last_b t)
  end.
Definition set_lost (w : who) (t : sstate) (x : nat) : sstate :=
  match w with   (* handlePeerLost also forgets the newest handled build time *)
  | A => mkSs (s_ta t) (s_tb t) (s_clock t) x (s_lost_b t) 0 (s_last_b t)
  | B => mkSs (s_ta t) (s_tb t) (s_clock t) (s_lost_a t) x (s_last_a t) 0
  end.
Definition set_last (w : who) (t : sstate) (x : nat) : sstate :=
  match w with
  | A => mkSs (s_ta t) (s_tb t) (s_clock t) (s_lost_a t) (s_lost_b t) x (s_last_b t)
  | B => mkSs (s_ta t) (s_tb t) (s_clock t) (s_lost_a t) (s_lost_b t) (s_last_a t) x
  end.
Definition tick (t : sstate) : sstate :=
  mkSs (s_ta t) (s_tb t) (S (s_clock t)) (s_lost_a t) (s_lost_b t) (s_last_a t) (s_last_b t).

Definition is_stale (f : sfix) (t : sstate) (w : who) (tag : nat) : bool :=
  (fix_so f && (tag <? last_of w t)%nat) || (fix_sl f && (tag <=? lost_of w t)%nat).

(* before the event: remove the tag of a consumed message, decide staleness, note losses.
   p = the pair BEFORE the event (for the queue length) *)
Definition sdecide (f : sfix) (t : sstate) (p : pair) (e : ev) : ev * sstate :=
  let t := tick t in
  let consume w i (k : who -> nat -> ev) :=
    let q := queue_to w p in
    let j := (i mod length q)%nat in
    match nth_error (tags_to w t) j with
    | None => (k w i, t)
    | Some tag =>
        let t1 := set_tags w t (remove_nth j (tags_to w t)) in
        if is_stale f t w tag then (EStale w i, t1)
        else (k w i, set_last w t1 (Nat.max (last_of w t1) tag))
    end in
  match e with
  | EDeliver w i => consume w i EDeliver
  | ETouch w i => consume w i ETouch
  | EStale w i | EDrop w i =>
      let q := queue_to w p in
      (e, set_tags w t (remove_nth (i mod length q)%nat (tags_to w t)))
  | EPeerLost w => (e, set_lost w t (s_clock t))
  | _ => (e, t)
  end.

(* after any step: a queue that grew got a message built now *)
Definition ssync (t : sstate) (p : pair) : sstate :=
  let fill w t :=
    if (length (tags_to w t) <? length (queue_to w p))%nat
    then set_tags w t (tags_to w t ++ [s_clock t]) else t in
  fill B (fill A t).

Definition sstep (v : variant) (f : sfix) (cs : cfgs) (st : sstate * pair) (e : ev) : sstate * pair :=
  let '(t, p) := st in
  let '(e', t1) := sdecide f t p e in
  let p1 := fst (step v cs p e') in
  (ssync t1 p1, p1).

Fixpoint srun (v : variant) (f : sfix) (cs : cfgs) (st : sstate * pair) (es : list ev) : sstate * pair :=
  match es with
  | [] => st
  | e :: r => srun v f cs (sstep v f cs st e) r
  end.
