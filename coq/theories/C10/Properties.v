(* C10/Properties.v — the property theorems only.  Each is closed by [exact] of a lemma from
   Proofs.v and followed by Print Assumptions.

   Reading guide.  [run v cs (init_pair cs) es] is the pair of nodes after the event history
   [es] (any interleaving of starts, heartbeat sends / deliveries in any order / losses,
   one-sided peer-loss detections, interface notifications, local and remote switchover
   halves) under configuration [cs]; [v] selects current or repaired behaviour for each of
   the three recorded defects (Model.v).  Theorems with a hypothesis [fix_xx v = true] hold
   for the repaired behaviour of that defect only; the matching [_refuted] example shows the
   current code ([Defective]) violating the same statement.  Theorems without such a
   hypothesis hold for every variant, in particular for the code as it is today. *)
From OV Require Import Common.Base C10.Model C10.Proofs.
Local Open Scope Z_scope.

(* ---- election is deterministic (a function) and antisymmetric ---- *)
Theorem C10_election_antisym : forall ca cb na nb,
  c_id ca <> c_id cb ->
  n_pprio na = n_eff nb -> n_pprio nb = n_eff na ->
  wins ca na (c_id cb) = negb (wins cb nb (c_id ca)).
Proof. exact wins_antisym. Qed.
Print Assumptions C10_election_antisym.

Theorem C10_election_exactly_one : forall ca cb na nb,
  c_id ca <> c_id cb -> n_st na = Ready -> n_st nb = Ready ->
  n_pprio na = n_eff nb -> n_pprio nb = n_eff na ->
  let sa := n_st (fst (elect ca na (c_id cb))) in
  let sb := n_st (fst (elect cb nb (c_id ca))) in
  (sa = Active /\ sb = Standby) \/ (sa = Standby /\ sb = Active).
Proof. exact elect_exactly_one. Qed.
Print Assumptions C10_election_exactly_one.

(* finite-abstraction lemma: what handlePeerHeartbeat does depends on priorities and node ids
   only through the outcome of winsElection *)
Theorem C10_heartbeat_depends_on_election_only : forall v c n m,
  fst (handle_hb v c n m) =
  mkNode (hb_core v (c_preempt c) (negb (n_pknown n)) (n_st n) (h_st m)
                  (wins_raw (c_id c) (n_eff n) (h_prio m) (h_id m)))
         (n_eff n) (h_prio m) (Some (h_st m)) true (n_cnt n) (n_down n).
Proof. exact handle_hb_spec. Qed.
Print Assumptions C10_heartbeat_depends_on_election_only.

(* a fresh exchange in the model is exactly: send, deliver request (reply enqueued), deliver reply *)
Theorem C10_exchange_is_three_events : forall v cs w s,
  q_a s = [] -> q_b s = [] ->
  let s' := run v cs s [ESend w; EDeliver (other w) 0; EDeliver w 0] in
  (p_a s', p_b s') = xchg v cs w (p_a s, p_b s) /\ q_a s' = [] /\ q_b s' = [].
Proof. exact xchg_is_events. Qed.
Print Assumptions C10_exchange_is_three_events.

(* READY is never visible between two events, STANDBY_ALONE implies "peer unknown" *)
Theorem C10_reachable_well_formed : forall v cs es w,
  let n := node_of w (run v cs (init_pair cs) es) in
  n_st n <> Ready /\ (n_st n <> Init -> n_ok n = true).
Proof. intros v cs es w; split; [apply ready_is_transient | apply run_started_ok]. Qed.
Print Assumptions C10_reachable_well_formed.

(* ---- a standby never promotes itself ---- *)
(* After ANY history, if a node that is STANDBY or STANDBY_ALONE is active after one more event,
   that event is: a switchover request on that node (forced, when STANDBY_ALONE); a down
   notification for one of its tracked interfaces while STANDBY_ALONE; its own peer-loss
   detection while STANDBY with a non-zero interface down count; or a heartbeat from the peer.
   Holds for every variant. *)
Theorem C10_no_self_promotion : forall v cs es e w,
  let s := run v cs (init_pair cs) es in
  let st := n_st (node_of w s) in
  (st = Standby \/ st = StandbyAlone) ->
  is_active (n_st (node_of w (fst (step v cs s e)))) = true ->
  match e with
  | ESwLocal w' f => w' = w /\ (st = StandbyAlone -> f = true)
  | ESwRemote w' => w' = w /\ st = Standby
  | EIf w' k d => w' = w /\ d = true /\ tracked (cfg_of w cs) k = true /\ st = StandbyAlone
  | EPeerLost w' => w' = w /\ st = Standby /\ 0 < n_cnt (node_of w s)
  | EDeliver w' i => w' = w /\ queue_to w s <> []
  | _ => False
  end.
Proof. exact no_self_promotion_run. Qed.
Print Assumptions C10_no_self_promotion.

(* ... and with the interface-count repair the down count is the number of tracked interfaces
   that the notifications seen so far say are down, so a STANDBY that loses its peer becomes
   STANDBY_ALONE unless such an interface exists *)
Theorem C10_standby_peer_lost : forall v cs es w,
  fix_if v = true -> cfg_small (cfg_of w cs) ->
  let s := run v cs (init_pair cs) es in
  n_st (node_of w s) = Standby ->
  n_st (node_of w (fst (step v cs s (EPeerLost w)))) =
  if 0 <? spec_cnt (cfg_of w cs) w es then ActiveSolo else StandbyAlone.
Proof. exact standby_peer_lost_spec. Qed.
Print Assumptions C10_standby_peer_lost.

Definition cs_track : cfgs := (mkCfg 1 100 false 50 2, mkCfg 2 200 false 50 2).
Definition to_standby_a : list ev := [EStart A; EStart B; ESend A; EDeliver B 0; EDeliver A 0].
(* current code: down, deleted, up for ONE interface leave a phantom count; the STANDBY node
   then promotes itself on peer loss although no tracked interface is down *)
Example C10_standby_peer_lost_refuted :
  let es := to_standby_a ++ [EIf A 0 true; EIf A 0 true; EIf A 0 false] in
  let s := run Defective cs_track (init_pair cs_track) es in
  cfg_small (fst cs_track) /\ n_st (p_a s) = Standby /\ spec_cnt (fst cs_track) A es = 0 /\
  n_st (p_a (fst (step Defective cs_track s (EPeerLost A)))) = ActiveSolo.
Proof. vm_compute. repeat split; intros; discriminate. Qed.
Print Assumptions C10_standby_peer_lost_refuted.

(* ---- dual active resolves within one heartbeat exchange ---- *)
Theorem C10_dual_active_resolves : forall v cs a b,
  fix_fc v = true -> c_id (fst cs) <> c_id (snd cs) ->
  is_active (n_st a) = true -> is_active (n_st b) = true ->
  pair_one_active (xchg v cs A (a, b)) = true /\
  pair_one_active (xchg v cs B (a, b)) = true /\
  pair_one_active (xchg_crossed v cs (a, b)) = true.
Proof. exact dual_active_resolves. Qed.
Print Assumptions C10_dual_active_resolves.

(* every variant, the current code included: two exchanges always suffice *)
Theorem C10_dual_active_resolves_in_two : forall v cs a b w1 w2,
  c_id (fst cs) <> c_id (snd cs) ->
  is_active (n_st a) = true -> is_active (n_st b) = true ->
  pair_one_active (xchgs v cs [w1; w2] (a, b)) = true.
Proof. exact dual_active_resolves_two. Qed.
Print Assumptions C10_dual_active_resolves_in_two.

Definition cs_plain : cfgs := (mkCfg 1 100 false 0 0, mkCfg 2 200 false 0 0).
(* current code: A forced out of STANDBY_ALONE while B is ACTIVE_SOLO; a complete exchange
   initiated by B leaves both ACTIVE *)
Example C10_dual_active_resolves_refuted :
  let es := to_standby_a ++ [EPeerLost A; EPeerLost B; ESwLocal A true] in
  let s := run Defective cs_plain (init_pair cs_plain) es in
  is_active (n_st (p_a s)) = true /\ is_active (n_st (p_b s)) = true /\
  pair_one_active (xchg Defective cs_plain B (p_a s, p_b s)) = false.
Proof. vm_compute. repeat split. Qed.
Print Assumptions C10_dual_active_resolves_refuted.

(* ---- the pair does not settle without an active node ---- *)
(* with the dual-standby repair: after any history that has started both nodes, ANY three fresh
   heartbeat exchanges leave exactly one active node, and further exchanges change neither state *)
Theorem C10_no_stable_headless : forall v cs es w1 w2 w3,
  fix_hb v = true -> c_id (fst cs) <> c_id (snd cs) ->
  let s := run v cs (init_pair cs) es in
  n_st (p_a s) <> Init -> n_st (p_b s) <> Init ->
  let r := xchgs v cs [w1; w2; w3] (p_a s, p_b s) in
  pair_one_active r = true /\ absn (xchg v cs A r) = absn r /\ absn (xchg v cs B r) = absn r.
Proof. exact converges_run. Qed.
Print Assumptions C10_no_stable_headless.

(* the same for every well-formed pair, reachable or not *)
Theorem C10_no_stable_headless_all_states : forall v cs a b w1 w2 w3,
  fix_hb v = true -> c_id (fst cs) <> c_id (snd cs) -> n_ok a = true -> n_ok b = true ->
  let r := xchgs v cs [w1; w2; w3] (a, b) in
  pair_one_active r = true /\ absn (xchg v cs A r) = absn r /\ absn (xchg v cs B r) = absn r.
Proof. exact converges. Qed.
Print Assumptions C10_no_stable_headless_all_states.

(* every fix-point of the fresh exchanges (both directions) between nodes in contact has
   exactly one active node *)
Theorem C10_fixpoint_has_active : forall v cs a b,
  fix_hb v = true -> c_id (fst cs) <> c_id (snd cs) ->
  n_ok a = true -> n_ok b = true -> n_pknown a = true -> n_pknown b = true ->
  (forall w, n_st (fst (xchg v cs w (a, b))) = n_st a /\ n_st (snd (xchg v cs w (a, b))) = n_st b) ->
  pair_one_active (a, b) = true.
Proof. exact fixpoint_has_active. Qed.
Print Assumptions C10_fixpoint_has_active.

Definition cs_design : cfgs := (mkCfg 1 200 false 50 3, mkCfg 2 100 false 50 3).
(* current code (DESIGN.md section 6): priorities 200/100, no preempt, the active node is
   decremented to 50, loses its peer one-sidedly, re-elects and loses: both STANDBY, in contact,
   not moved by exchanges in either direction *)
Example C10_no_stable_headless_refuted :
  let es := to_standby_a ++ [EIf A 0 true; EIf A 1 true; EIf A 2 true; EPeerLost A;
                             ESend B; EDeliver A 0; EDeliver B 0] in
  let s := run Defective cs_design (init_pair cs_design) es in
  let a := p_a s in let b := p_b s in
  n_ok a = true /\ n_ok b = true /\ n_pknown a = true /\ n_pknown b = true /\
  n_st a = Standby /\ n_st b = Standby /\ n_eff a = 50 /\
  absn (xchg Defective cs_design A (a, b)) = absn (a, b) /\
  absn (xchg Defective cs_design B (a, b)) = absn (a, b) /\
  absn (xchgs Defective cs_design [A; B; A; B; A; B] (a, b)) = absn (a, b).
Proof. vm_compute. repeat split. Qed.
Print Assumptions C10_no_stable_headless_refuted.

(* ---- effective priority ---- *)
(* with the interface-count repair, after ANY history the effective priority is the base
   priority minus the decrement for every tracked interface whose last notification was
   down/deleted (floored at 0); [spec_eff] is computed from the event history alone *)
Theorem C10_effective_priority : forall v cs w es,
  fix_if v = true -> cfg_small (cfg_of w cs) ->
  n_eff (node_of w (run v cs (init_pair cs) es)) = spec_eff (cfg_of w cs) w es.
Proof. exact effective_priority. Qed.
Print Assumptions C10_effective_priority.

Example C10_effective_priority_refuted :
  let es := [EIf A 0 true; EIf A 0 true] in
  cfg_small (fst cs_design) /\
  n_eff (p_a (run Defective cs_design (init_pair cs_design) es)) = 100 /\
  spec_eff (fst cs_design) A es = 150.
Proof. vm_compute. repeat split; intros; discriminate. Qed.
Print Assumptions C10_effective_priority_refuted.

(* ---- non-vacuity ---- *)
Example C10_nonvacuous :
  (* antisymmetry: equal priorities, decided by node id *)
  (let a := mkNode Ready 100 100 None true 0 [] in
   c_id (fst cs_plain) <> c_id (snd cs_plain) /\ n_pprio a = n_eff a /\
   wins (fst cs_plain) a 2 = true /\ wins (snd cs_plain) a 1 = false) /\
  (* repaired behaviour on the three defect witnesses *)
  (let es := to_standby_a ++ [EIf A 0 true; EIf A 1 true; EIf A 2 true; EPeerLost A;
                              ESend B; EDeliver A 0] in
   let s := run Repaired cs_design (init_pair cs_design) es in
   n_st (p_a s) = Standby /\ n_st (p_b s) = Standby /\ n_st (p_a s) <> Init /\ n_st (p_b s) <> Init /\
   a_states (absn (xchgs Repaired cs_design [A; A; A] (p_a s, p_b s))) = (Standby, Active)) /\
  (let es := to_standby_a ++ [EPeerLost A; EPeerLost B; ESwLocal A true] in
   let s := run Repaired cs_plain (init_pair cs_plain) es in
   is_active (n_st (p_a s)) = true /\ is_active (n_st (p_b s)) = true /\
   a_states (absn (xchg Repaired cs_plain B (p_a s, p_b s))) = (Standby, Active)) /\
  (let es := [EIf A 0 true; EIf A 0 true; EIf A 1 true; EIf A 0 false; EIf A 7 true] in
   n_eff (p_a (run Repaired cs_design (init_pair cs_design) es)) = 150 /\ spec_eff (fst cs_design) A es = 150) /\
  (* a fix-point with one active node; promotions with each admissible cause *)
  (let s := run Repaired cs_plain (init_pair cs_plain) to_standby_a in
   n_ok (p_a s) = true /\ n_pknown (p_a s) = true /\ n_pknown (p_b s) = true /\
   absn (xchg Repaired cs_plain A (p_a s, p_b s)) = absn (p_a s, p_b s) /\
   absn (p_a s, p_b s) = (Standby, true, Active, true) /\
   n_st (p_a (fst (step Repaired cs_plain s (EPeerLost A)))) = StandbyAlone /\
   n_st (p_a (run Repaired cs_plain s [EPeerLost A; ESwLocal A false])) = StandbyAlone /\
   n_st (p_a (run Repaired cs_plain s [EPeerLost A; ESwLocal A true])) = Active).
Proof. vm_compute. repeat split; try reflexivity; intros; discriminate. Qed.
Print Assumptions C10_nonvacuous.
