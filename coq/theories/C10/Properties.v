From OV Require Import Common.Base C10.Model C10.Proofs.
Local Open Scope Z_scope.

Theorem C10_election_antisym : forall ca cb na nb,
  c_id ca <> c_id cb ->
  n_pprio na = n_eff nb -> n_pprio nb = n_eff na ->
  wins ca na (c_id cb) = negb (wins cb nb (c_id ca)).
Proof. exact wins_antisym. Qed.
Print Assumptions C10_election_antisym.
