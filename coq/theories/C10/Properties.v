(* C10/Properties.v — the property theorems only.  Each is closed by [exact] of a lemma from
   Proofs.v and followed by Print Assumptions.

   Reading guide.  [run v cs (init_pair cs) es] is the pair of nodes after the event history
   [es] (any interleaving of starts, heartbeat sends / deliveries in any order / losses,
   one-sided peer-loss detections, interface notifications, local and remote switchover
   halves) under configuration [cs], every Manager call being one atomic step; [frun] (Fine.v)
   is the same with every critical section of a call as one step and any number of calls in
   progress.  [v] selects, per defect found and since fixed in /repo, the original or the HEAD
   behaviour (Model.v): [Head] (= [Repaired]) is /repo HEAD, all five fixes committed (8396862,
   82065c3, b0a3819, 466d014, e4bb362); [BeforeRaceFixes] is /repo before the last two;
   [Defective] is /repo before any of them.
   Stale heartbeats (Stale.v says when a delivery is stale): a heartbeat older than one already handled is
   ignored since f8a6845 ([fix_so]); HEAD is [srun] with [mkSfix true false].  One finding is open
   (KNOWN_FINDINGS.txt): HEAD still handles a heartbeat built before its own peer-loss detection
   ([fix_sl]: specification only, needs a common clock or an epoch handshake).
   A theorem with a hypothesis [fix_xx v = true] needs that fix (so it holds for HEAD); the matching
   [_refuted] example is the historical witness: the same statement fails for the original behaviour.
   Theorems without such a hypothesis hold for every variant.
   A Manager serving several groups is the product of one model per group; the groups share only
   peerNodeID, and a heartbeat lacking this group's status is the event [ETouch]: every theorem over
   [run] / [frun] histories therefore also speaks about a group inside a multi-group Manager.
   [ids_ok cs]: the two node ids are non-empty and different Go strings. *)
From OV Require Import Common.Base C10.Model C10.Fine C10.Stale C10.Timer C10.Proofs C10.FineAtomic C10.FineProofs.
Local Open Scope Z_scope.

(* ---- election is deterministic (a function) and antisymmetric ---- *)
Theorem C10_election_antisym : forall ca cb na nb,
  c_id ca <> c_id cb ->
  n_pprio na = n_eff nb -> n_pprio nb = n_eff na ->
  wins ca na (c_id cb) = negb (wins cb nb (c_id ca)).
Proof. exact wins_antisym. Qed.
Print Assumptions C10_election_antisym.

(* the hypotheses of the two theorems above (each side knows the other's current priority) are
   established by ONE fresh heartbeat exchange, whatever each side believed before *)
Theorem C10_exchange_refreshes_views : forall v cs w a b,
  let r := xchg v cs w (a, b) in
  n_eff (fst r) = n_eff a /\ n_eff (snd r) = n_eff b /\
  n_pprio (fst r) = n_eff (snd r) /\ n_pprio (snd r) = n_eff (fst r).
Proof. exact exchange_refreshes_views. Qed.
Print Assumptions C10_exchange_refreshes_views.

Theorem C10_election_antisym_after_exchange : forall v cs w a b,
  c_id (fst cs) <> c_id (snd cs) ->
  let r := xchg v cs w (a, b) in
  wins (fst cs) (fst r) (c_id (snd cs)) = negb (wins (snd cs) (snd r) (c_id (fst cs))).
Proof. exact antisym_after_exchange. Qed.
Print Assumptions C10_election_antisym_after_exchange.

(* with views one heartbeat behind both READY nodes can win (here: both still believe the other has
   priority 50); this is the transient dual-active that C10_dual_active_resolves removes within one
   fresh exchange *)
Example C10_stale_views_both_win :
  let ca := mkCfg [97%N] 100 false 0 0 (fun _ => 0) false in let cb := mkCfg [98%N] 200 false 0 0 (fun _ => 0) false in
  let na := mkNode Ready 100 50 (Some Waiting) true 0 [] in
  let nb := mkNode Ready 200 50 (Some Waiting) true 0 [] in
  n_st (fst (elect ca na (c_id cb))) = Active /\ n_st (fst (elect cb nb (c_id ca))) = Active /\
  pair_one_active (xchg Head (ca, cb) A (fst (elect ca na (c_id cb)), fst (elect cb nb (c_id ca)))) = true.
Proof. vm_compute. repeat split. Qed.
Print Assumptions C10_stale_views_both_win.

Theorem C10_election_exactly_one : forall ca cb na nb,
  c_id ca <> c_id cb -> n_st na = Ready -> n_st nb = Ready ->
  n_pprio na = n_eff nb -> n_pprio nb = n_eff na ->
  let sa := n_st (fst (elect ca na (c_id cb))) in
  let sb := n_st (fst (elect cb nb (c_id ca))) in
  (sa = Active /\ sb = Standby) \/ (sa = Standby /\ sb = Active).
Proof. exact elect_exactly_one. Qed.
Print Assumptions C10_election_exactly_one.

(* finite-abstraction lemma: what handlePeerHeartbeat does depends on priorities and node ids
   only through the outcome of winsElection *)
Theorem C10_heartbeat_depends_on_election_only : forall v c n m,
  fst (handle_hb v c n m) =
  mkNode (hb_core v (c_preempt c) (negb (n_pknown n)) (n_st n) (h_st m)
                  (wins_raw (c_id c) (n_eff n) (h_prio m) (h_id m)))
         (n_eff n) (h_prio m) (Some (h_st m)) (nonempty (h_id m)) (n_cnt n) (n_down n).
Proof. exact handle_hb_spec. Qed.
Print Assumptions C10_heartbeat_depends_on_election_only.

(* a fresh exchange in the model is exactly: send, deliver request (reply enqueued), deliver reply *)
Theorem C10_exchange_is_three_events : forall v cs w s,
  q_a s = [] -> q_b s = [] ->
  let s' := run v cs s [ESend w; EDeliver (other w) 0; EDeliver w 0] in
  (p_a s', p_b s') = xchg v cs w (p_a s, p_b s) /\ q_a s' = [] /\ q_b s' = [].
Proof. exact xchg_is_events. Qed.
Print Assumptions C10_exchange_is_three_events.

(* when every Manager call is atomic: READY is never visible between two calls; a started node is [n_ok]:
   with fix_sa (HEAD) nothing more, without it STANDBY_ALONE implies "peer unknown" provided no heartbeat for
   another group of the same Manager ([ETouch]) was handled.  NOT true when calls interleave: see C10_fine_quiescent_not_ready (what survives) and
   C10_fine_standby_alone_known_peer_refuted (what does not) *)
Theorem C10_reachable_well_formed : forall v cs es w,
  let n := node_of w (run v cs (init_pair cs) es) in
  n_st n <> Ready /\ (fix_sa v = true \/ no_touch es = true -> n_st n <> Init -> n_ok v n = true).
Proof. intros v cs es w; split; [apply ready_is_transient | apply run_started_ok]. Qed.
Print Assumptions C10_reachable_well_formed.

(* ---- a standby never promotes itself ---- *)
(* After ANY history, if a node that is STANDBY or STANDBY_ALONE is active after one more event,
   that event is: a switchover request on that node (forced, when STANDBY_ALONE); a down
   notification for one of its tracked interfaces while STANDBY_ALONE; its own peer-loss
   detection while STANDBY with a non-zero interface down count; or a heartbeat [m] from the peer
   against whose priority it wins the election (from STANDBY additionally: preempt is configured, or
   the heartbeat reports the peer STANDBY too).  Holds for every variant.  The code cannot tell a
   heartbeat sent before the loss from a fresh one (C10_stale_heartbeat_repromotes). *)
Theorem C10_no_self_promotion : forall v cs es e w,
  let s := run v cs (init_pair cs) es in
  let st := n_st (node_of w s) in
  (st = Standby \/ st = StandbyAlone) ->
  is_active (n_st (node_of w (fst (step v cs s e)))) = true ->
  match e with
  | ESwLocal w' f => w' = w /\ (st = StandbyAlone -> f = true)
  | ESwRemote w' => w' = w /\ st = Standby
  | EIf w' k d => w' = w /\ d = true /\ tracked (cfg_of w cs) k = true /\ st = StandbyAlone
  | EPeerLost w' => w' = w /\ st = Standby /\ 0 < n_cnt (node_of w s)
  | EDeliver w' i =>
      w' = w /\ exists m, nth_error (queue_to w s) (i mod length (queue_to w s))%nat = Some m /\
                         wins_raw (c_id (cfg_of w cs)) (n_eff (node_of w s)) (h_prio m) (h_id m) = true /\
                         (st = Standby -> c_preempt (cfg_of w cs) = true \/ (fix_hb v = true /\ h_st m = Standby))
  | _ => False
  end.
Proof. exact no_self_promotion_run. Qed.
Print Assumptions C10_no_self_promotion.

(* the same for ANY pair state (also the ones only reachable when calls interleave) *)
Theorem C10_no_self_promotion_any_state : forall v cs s e w,
  (n_st (node_of w s) = Standby \/ n_st (node_of w s) = StandbyAlone) ->
  is_active (n_st (node_of w (fst (step v cs s e)))) = true ->
  promotion_cause v cs s w e.
Proof. exact promotion_justified. Qed.
Print Assumptions C10_no_self_promotion_any_state.

(* ... and with the interface-count repair the down count is the number of tracked interfaces
   that the notifications seen so far say are down, so a STANDBY that loses its peer becomes
   STANDBY_ALONE unless such an interface exists *)
Theorem C10_standby_peer_lost : forall v cs es w,
  fix_if v = true -> cfg_small (cfg_of w cs) ->
  let s := run v cs (init_pair cs) es in
  n_st (node_of w s) = Standby ->
  n_st (node_of w (fst (step v cs s (EPeerLost w)))) =
  if 0 <? spec_cnt (cfg_of w cs) w es then ActiveSolo else StandbyAlone.
Proof. exact standby_peer_lost_spec. Qed.
Print Assumptions C10_standby_peer_lost.

Definition cs_track : cfgs := (mkCfg [49%N] 100 false 50 2 (fun _ => 0) false, mkCfg [50%N] 200 false 50 2 (fun _ => 0) false).
Definition to_standby_a : list ev := [EStart A; EStart B; ESend A; EDeliver B 0; EDeliver A 0].
(* before 82065c3: down, deleted, up for ONE interface leave a phantom count; the STANDBY node
   then promotes itself on peer loss although no tracked interface is down *)
Example C10_standby_peer_lost_refuted :
  let es := to_standby_a ++ [EIf A 0 true; EIf A 0 true; EIf A 0 false] in
  let s := run Defective cs_track (init_pair cs_track) es in
  cfg_small (fst cs_track) /\ n_st (p_a s) = Standby /\ spec_cnt (fst cs_track) A es = 0 /\
  n_st (p_a (fst (step Defective cs_track s (EPeerLost A)))) = ActiveSolo.
Proof. vm_compute. repeat split; intros; discriminate. Qed.
Print Assumptions C10_standby_peer_lost_refuted.

(* ---- dual active resolves within one heartbeat exchange ---- *)
Theorem C10_dual_active_resolves : forall v cs a b,
  fix_fc v = true -> ids_ok cs ->
  is_active (n_st a) = true -> is_active (n_st b) = true ->
  pair_one_active (xchg v cs A (a, b)) = true /\
  pair_one_active (xchg v cs B (a, b)) = true /\
  pair_one_active (xchg_crossed v cs (a, b)) = true.
Proof. exact dual_active_resolves. Qed.
Print Assumptions C10_dual_active_resolves.

(* every variant (also the original code): two exchanges always suffice *)
Theorem C10_dual_active_resolves_in_two : forall v cs a b w1 w2,
  ids_ok cs ->
  is_active (n_st a) = true -> is_active (n_st b) = true ->
  pair_one_active (xchgs v cs [w1; w2] (a, b)) = true.
Proof. exact dual_active_resolves_two. Qed.
Print Assumptions C10_dual_active_resolves_in_two.

Definition cs_plain_ab : cfgs := (mkCfg [49%N] 200 false 0 0 (fun _ => 0) false, mkCfg [50%N] 100 false 0 0 (fun _ => 0) false).
(* A (200) ACTIVE, B (100) STANDBY *)
Definition to_standby_b : list ev := [EStart A; EStart B; ESend A; EDeliver B 0; EDeliver A 0].
Definition cs_plain : cfgs := (mkCfg [49%N] 100 false 0 0 (fun _ => 0) false, mkCfg [50%N] 200 false 0 0 (fun _ => 0) false).
(* before b0a3819: A forced out of STANDBY_ALONE while B is ACTIVE_SOLO; a complete exchange
   initiated by B leaves both ACTIVE *)
Example C10_dual_active_resolves_refuted :
  let es := to_standby_a ++ [EPeerLost A; EPeerLost B; ESwLocal A true] in
  let s := run Defective cs_plain (init_pair cs_plain) es in
  is_active (n_st (p_a s)) = true /\ is_active (n_st (p_b s)) = true /\
  pair_one_active (xchg Defective cs_plain B (p_a s, p_b s)) = false.
Proof. vm_compute. repeat split. Qed.
Print Assumptions C10_dual_active_resolves_refuted.

(* ---- the pair does not settle without an active node ---- *)
(* with the dual-standby repair: after any history that has started both nodes, ANY three fresh
   heartbeat exchanges leave exactly one active node, and further exchanges change neither state *)
Theorem C10_no_stable_headless : forall v cs es w1 w2 w3,
  fix_hb v = true -> ids_ok cs -> fix_sa v = true \/ no_touch es = true ->
  let s := run v cs (init_pair cs) es in
  n_st (p_a s) <> Init -> n_st (p_b s) <> Init ->
  let r := xchgs v cs [w1; w2; w3] (p_a s, p_b s) in
  pair_one_active r = true /\ absn (xchg v cs A r) = absn r /\ absn (xchg v cs B r) = absn r.
Proof. exact converges_run. Qed.
Print Assumptions C10_no_stable_headless.

(* the same for every well-formed pair, reachable or not *)
Theorem C10_no_stable_headless_all_states : forall v cs a b w1 w2 w3,
  fix_hb v = true -> ids_ok cs -> n_ok v a = true -> n_ok v b = true ->
  let r := xchgs v cs [w1; w2; w3] (a, b) in
  pair_one_active r = true /\ absn (xchg v cs A r) = absn r /\ absn (xchg v cs B r) = absn r.
Proof. exact converges. Qed.
Print Assumptions C10_no_stable_headless_all_states.

(* every fix-point of the fresh exchanges (both directions) between nodes in contact has
   exactly one active node *)
Theorem C10_fixpoint_has_active : forall v cs a b,
  fix_hb v = true -> ids_ok cs ->
  n_ok v a = true -> n_ok v b = true -> n_pknown a = true -> n_pknown b = true ->
  (forall w, n_st (fst (xchg v cs w (a, b))) = n_st a /\ n_st (snd (xchg v cs w (a, b))) = n_st b) ->
  pair_one_active (a, b) = true.
Proof. exact fixpoint_has_active. Qed.
Print Assumptions C10_fixpoint_has_active.

Definition cs_design : cfgs := (mkCfg [49%N] 200 false 50 3 (fun _ => 0) false, mkCfg [50%N] 100 false 50 3 (fun _ => 0) false).
(* before 8396862 (DESIGN.md section 6): priorities 200/100, no preempt, the active node is
   decremented to 50, loses its peer one-sidedly, re-elects and loses: both STANDBY, in contact,
   not moved by exchanges in either direction *)
Example C10_no_stable_headless_refuted :
  let es := to_standby_a ++ [EIf A 0 true; EIf A 1 true; EIf A 2 true; EPeerLost A;
                             ESend B; EDeliver A 0; EDeliver B 0] in
  let s := run Defective cs_design (init_pair cs_design) es in
  let a := p_a s in let b := p_b s in
  n_ok Defective a = true /\ n_ok Defective b = true /\ n_pknown a = true /\ n_pknown b = true /\
  n_st a = Standby /\ n_st b = Standby /\ n_eff a = 50 /\
  absn (xchg Defective cs_design A (a, b)) = absn (a, b) /\
  absn (xchg Defective cs_design B (a, b)) = absn (a, b) /\
  absn (xchgs Defective cs_design [A; B; A; B; A; B] (a, b)) = absn (a, b).
Proof. vm_compute. repeat split. Qed.
Print Assumptions C10_no_stable_headless_refuted.

(* ---- effective priority ---- *)
(* with the interface-count repair, after ANY history the effective priority is the base
   priority minus the decrement for every tracked interface whose last notification was
   down/deleted (floored at 0); [spec_eff] is computed from the event history alone *)
Theorem C10_effective_priority : forall v cs w es,
  fix_if v = true -> cfg_small (cfg_of w cs) ->
  n_eff (node_of w (run v cs (init_pair cs) es)) = spec_eff (cfg_of w cs) w es.
Proof. exact effective_priority. Qed.
Print Assumptions C10_effective_priority.

Example C10_effective_priority_refuted :
  let es := [EIf A 0 true; EIf A 0 true] in
  cfg_small (fst cs_design) /\
  n_eff (p_a (run Defective cs_design (init_pair cs_design) es)) = 100 /\
  spec_eff (fst cs_design) A es = 150.
Proof. vm_compute. repeat split; intros; discriminate. Qed.
Print Assumptions C10_effective_priority_refuted.

(* ---- stale heartbeats (open finding stale-heartbeat-built-before-peer-loss; -older-than-handled fixed in f8a6845) ---- *)
(* what the staleness filter lets through to a handler was built after the receiver's last peer-loss
   detection (fix_sl) and is not older than anything handled since (fix_so) *)
Theorem C10_stale_filter_sound : forall f t p e w i,
  (fst (sdecide f t p e) = EDeliver w i \/ fst (sdecide f t p e) = ETouch w i) ->
  (e = EDeliver w i \/ e = ETouch w i) /\
  forall tag, nth_error (tags_to w t) (i mod length (queue_to w p))%nat = Some tag ->
    (fix_sl f = true -> (lost_of w t < tag)%nat) /\ (fix_so f = true -> (last_of w t <= tag)%nat).
Proof. exact sdecide_sound. Qed.
Print Assumptions C10_stale_filter_sound.

(* HEAD ([mkSfix true false]).  A (priority 200) is STANDBY after an operator switchover, B (100) is ACTIVE and has a
   heartbeat in flight.  A loses its peer (STANDBY_ALONE); the heartbeat built BEFORE the loss arrives afterwards:
   A re-elects, wins and is ACTIVE although nothing says the peer is back.  With the filter A stays STANDBY_ALONE. *)
Example C10_stale_before_loss_refuted :
  let cs := (mkCfg [49%N] 200 false 0 0 (fun _ => 0) false, mkCfg [50%N] 100 false 0 0 (fun _ => 0) false) in
  let es := [EStart A; EStart B; ESend A; EDeliver B 0; EDeliver A 0; ESwLocal A false; ESwRemote B;
             ESend B; EPeerLost A; EDeliver A 0] in
  n_st (p_a (snd (srun Head (mkSfix true false) cs (sinit, init_pair cs) es))) = Active /\
  n_st (p_a (snd (srun Head (mkSfix true true) cs (sinit, init_pair cs) es))) = StandbyAlone /\
  snd (srun Head (mkSfix false false) cs (sinit, init_pair cs) es) = run Head cs (init_pair cs) es.
Proof. vm_compute. repeat split. Qed.
Print Assumptions C10_stale_before_loss_refuted.

(* before f8a6845 (no filter).  B's STANDBY snapshot built before the switchover is delivered after the newer ACTIVE one:
   A (STANDBY, wins) applies the dual-standby rule to the outdated snapshot and undoes the switchover.
   HEAD ([mkSfix true false]) ignores it. *)
Example C10_stale_reordered_refuted :
  let cs := (mkCfg [49%N] 200 false 0 0 (fun _ => 0) false, mkCfg [50%N] 100 false 0 0 (fun _ => 0) false) in
  let es := [EStart A; EStart B; ESend A; EDeliver B 0; EDeliver A 0; ESend B; ESwLocal A false; ESwRemote B;
             ESend B; EDeliver A 1; EDeliver A 0] in
  n_st (p_a (snd (srun Head (mkSfix false false) cs (sinit, init_pair cs) es))) = Active /\
  n_st (p_b (snd (srun Head (mkSfix false false) cs (sinit, init_pair cs) es))) = Active /\
  n_st (p_a (snd (srun Head (mkSfix true false) cs (sinit, init_pair cs) es))) = Standby.
Proof. vm_compute. repeat split. Qed.
Print Assumptions C10_stale_reordered_refuted.

(* the first witness without the bookkeeping; the dual-active pair is resolved by the next fresh exchange *)
Example C10_stale_heartbeat_repromotes :
  let cs := (mkCfg [49%N] 200 false 0 0 (fun _ => 0) false, mkCfg [50%N] 100 false 0 0 (fun _ => 0) false) in
  let es := [EStart A; EStart B; ESend A; EDeliver B 0; EDeliver A 0; ESwLocal A false; ESwRemote B;
             ESend B; EPeerLost A] in
  let s := run Head cs (init_pair cs) es in
  n_st (p_a s) = StandbyAlone /\ n_st (p_b s) = Active /\
  n_st (p_a (fst (step Head cs s (EDeliver A 0)))) = Active /\
  pair_one_active (xchg Head cs B (p_a (fst (step Head cs s (EDeliver A 0))), p_b s)) = true.
Proof. vm_compute. repeat split. Qed.
Print Assumptions C10_stale_heartbeat_repromotes.

(* ---- several groups per Manager ---- *)
(* before 466d014 no interleaving was needed in a Manager with two groups: A's group is STANDBY_ALONE, a
   heartbeat that carries only the OTHER group's status arrives ([ETouch]: peerNodeID is set), and from then on
   this group ignores complete heartbeats.  HEAD re-discovers the peer. *)
Example C10_other_group_heartbeat_refuted :
  let es := to_standby_a ++ [EPeerLost A; ESend B; ETouch A 0; ESend B; EDeliver A 0; ESend B; EDeliver A 0] in
  n_st (p_a (run BeforeRaceFixes cs_plain (init_pair cs_plain) es)) = StandbyAlone /\
  n_pknown (p_a (run BeforeRaceFixes cs_plain (init_pair cs_plain) es)) = true /\
  n_st (p_a (run Head cs_plain (init_pair cs_plain) es)) = Standby /\ no_touch es = false.
Proof. vm_compute. repeat split. Qed.
Print Assumptions C10_other_group_heartbeat_refuted.

(* ==== every critical section one step (Fine.v): any number of Manager calls in progress ==== *)

(* a call whose critical sections run without interruption is exactly the atomic handler of Model.v,
   so every [run] history is an [frun] history *)
Theorem C10_fine_call_atomic : forall v c n,
  (forall m, trun 8 v c n (THb0 m) = handle_hb v c n m) /\
  trun 8 v c n TLost0 = handle_peer_lost n /\
  (forall k d, trun 8 v c n (TIf0 k d) = handle_if v c n k d).
Proof. intros v c n. split; [intros m; apply hb_atomic | split; [apply lost_atomic | intros k d; apply if_atomic]]. Qed.
Print Assumptions C10_fine_call_atomic.

(* READY is visible while calls interleave, but it is always owned by a heartbeat handler that is between
   PeerDiscovered and Elect: whenever no call is in progress on a node its group is not READY (all variants) *)
Theorem C10_fine_quiescent_not_ready : forall v cs es w,
  thrs_of w (frun v cs (finit cs) es) = [] ->
  n_st (node_of w (f_p (frun v cs (finit cs) es))) <> Ready.
Proof. exact quiescent_not_ready. Qed.
Print Assumptions C10_fine_quiescent_not_ready.

(* which critical section can turn a non-active group active, in ANY node state (all variants):
   Elect from READY when it wins; PeerHeartbeatUpdate from STANDBY when it wins (preempt, or peer STANDBY);
   PeerLost in WAITING (the node came up alone); TrackerPromote from STANDBY_ALONE *)
Theorem C10_fine_promotion_causes : forall v c n t,
  is_active (n_st n) = false -> is_active (n_st (fst (fst (tstep v c n t)))) = true ->
  match t with
  | THbElect m => n_st n = Ready /\ wins c n (h_id m) = true
  | THbUpd m => n_st n = Standby /\ wins c (set_peer n (h_prio m) (h_st m)) (h_id m) = true /\
                (c_preempt c = true \/ (fix_hb v = true /\ h_st m = Standby))
  | TLostSm => n_st n = Waiting
  | TLostPromote | TIfPromote => n_st n = StandbyAlone
  | _ => False
  end.
Proof. exact tstep_promotion. Qed.
Print Assumptions C10_fine_promotion_causes.

(* ... and a TrackerPromote section is only ever reached from a tracked interface going down (having seen
   STANDBY_ALONE) or from the peer-loss call that itself moved STANDBY -> STANDBY_ALONE and read a positive
   down count *)
Theorem C10_fine_promotion_provenance : forall v c n t,
  match snd (tstep v c n t) with
  | Some TLostPromote => t = TLostCnt /\ 0 < n_cnt n
  | Some TLostCnt => t = TLostSm /\ n_st n = Standby
  | Some TIfPromote => t = TIfChk /\ n_st n = StandbyAlone
  | Some TIfChk => (exists k, t = TIf0 k true /\ tracked c k = true) \/ (exists delta, t = TIfAdj true delta)
  | Some (TIfAdj d delta) => exists k, t = TIf0 k d /\ tracked c k = true
  | _ => True
  end.
Proof. exact thr_provenance. Qed.
Print Assumptions C10_fine_promotion_provenance.

(* before 466d014: handlePeerLost parked between "peerNodeID = ''" and sm.PeerLost while a heartbeat is handled:
   B ends STANDBY_ALONE with a known peer, no call in progress.  After a switchover of A the pair is
   STANDBY / STANDBY_ALONE and no heartbeat exchange moves it: headless for ever.
   (was replayed on the real code by the forced-overlap harness; corpus/C10/overlap.case now passes) *)
Example C10_fine_standby_alone_known_peer_refuted :
  let es := map FCoarse to_standby_b ++
            [FLost B; FMicro B 0; FCoarse (ESend A); FCoarse (EDeliver B 0); FMicro B 0; FMicro B 0; FCoarse (EDeliver A 0);
             FCoarse (ESwLocal A false); FCoarse (ESwRemote B)] in
  let s := frun BeforeRaceFixes cs_plain_ab (finit cs_plain_ab) es in
  let a := p_a (f_p s) in let b := p_b (f_p s) in
  quiescent s = true /\ n_st a = Standby /\ n_st b = StandbyAlone /\ n_pknown b = true /\
  absn (xchg BeforeRaceFixes cs_plain_ab A (a, b)) = absn (a, b) /\
  absn (xchg BeforeRaceFixes cs_plain_ab B (a, b)) = absn (a, b) /\
  absn (xchgs BeforeRaceFixes cs_plain_ab [A; B; A; B; A; B] (a, b)) = absn (a, b) /\
  (* repaired: the same schedule, then three exchanges *)
  (let s' := frun Repaired cs_plain_ab (finit cs_plain_ab) es in
   pair_one_active (xchgs Repaired cs_plain_ab [A; A; A] (p_a (f_p s'), p_b (f_p s'))) = true).
Proof. vm_compute. repeat split. Qed.
Print Assumptions C10_fine_standby_alone_known_peer_refuted.

(* with the STANDBY_ALONE fix (fix_sa, 466d014: HEAD) the pair cannot stay headless after ANY interleaving of critical
   sections: whenever no call is in progress and both nodes are started, any three fresh exchanges leave
   exactly one active node and a pair no exchange moves *)
Theorem C10_fine_no_stable_headless : forall v cs es w1 w2 w3,
  fix_hb v = true -> fix_sa v = true -> ids_ok cs ->
  let s := frun v cs (finit cs) es in
  quiescent s = true -> n_st (p_a (f_p s)) <> Init -> n_st (p_b (f_p s)) <> Init ->
  let r := xchgs v cs [w1; w2; w3] (p_a (f_p s), p_b (f_p s)) in
  pair_one_active r = true /\ absn (xchg v cs A r) = absn r /\ absn (xchg v cs B r) = absn r.
Proof. exact fine_converges. Qed.
Print Assumptions C10_fine_no_stable_headless.

(* with AdjustPriority inside the m.mu section (fix_ia, e4bb362: HEAD): under every interleaving, at every moment, the
   effective priority is the value AdjustPriority computes from the CURRENT down count *)
Theorem C10_fine_priority_matches_count : forall v cs es w,
  fix_ia v = true -> cfg_small (fst cs) -> cfg_small (snd cs) ->
  let n := node_of w (f_p (frun v cs (finit cs) es)) in
  n_eff n = eff_code (cfg_of w cs) (n_cnt n).
Proof. exact fine_priority_matches_count. Qed.
Print Assumptions C10_fine_priority_matches_count.

(* HISTORY level, every interleaving: from any moment at which node w has no call in progress and is STANDBY or
   STANDBY_ALONE, it can only be active later if in between a switchover reached it, a down notification for it
   was handled, it detected a peer loss, or it handled a heartbeat (cause-capable events; which of them promote
   and when is C10_fine_promotion_causes / C10_no_self_promotion_any_state) *)
Theorem C10_fine_no_self_promotion : forall v cs w es1 es2,
  let s1 := frun v cs (finit cs) es1 in
  thrs_of w s1 = [] ->
  (n_st (node_of w (f_p s1)) = Standby \/ n_st (node_of w (f_p s1)) = StandbyAlone) ->
  is_active (n_st (node_of w (f_p (frun v cs s1 es2)))) = true ->
  existsb (cause_capable w) es2 = true.
Proof. exact fine_no_self_promotion. Qed.
Print Assumptions C10_fine_no_self_promotion.

(* ... and as long as none of them happens the group keeps its state and stays quiescent (any start state) *)
Theorem C10_fine_quiet : forall v cs w es s,
  thrs_of w s = [] -> n_st (node_of w (f_p s)) <> Init ->
  forallb (fun e => negb (cause_capable w e)) es = true ->
  thrs_of w (frun v cs s es) = [] /\
  n_st (node_of w (f_p (frun v cs s es))) = n_st (node_of w (f_p s)).
Proof. exact quiet_run. Qed.
Print Assumptions C10_fine_quiet.

(* HISTORY level, every interleaving (HEAD: fix_if, fix_ia): effective priority and down count are what the
   interface notifications say, taken in the order in which their m.mu sections ran ([flog]) *)
Theorem C10_fine_effective_priority : forall v cs es w,
  fix_if v = true -> fix_ia v = true -> cfg_small (fst cs) -> cfg_small (snd cs) ->
  let n := node_of w (f_p (frun v cs (finit cs) es)) in
  let log := flog v cs (finit cs) es in
  n_eff n = spec_eff (cfg_of w cs) w log /\ n_cnt n = spec_cnt (cfg_of w cs) w log.
Proof. exact fine_effective_priority. Qed.
Print Assumptions C10_fine_effective_priority.

(* before e4bb362: two interface events whose m.mu sections run in one order and whose AdjustPriority calls run in
   the other: both interfaces down, no call in progress, priority decremented once
   (was reproduced on the real code by stress only: 3 of 400000 overlapping pairs, notes/C10.md) *)
Example C10_fine_priority_matches_count_refuted :
  let es := [FIf A 0 true; FIf A 1 true; FMicro A 0; FMicro A 1; FMicro A 1; FMicro A 0; FMicro A 0; FMicro A 0] in
  let s := frun BeforeRaceFixes cs_design (finit cs_design) es in
  quiescent s = true /\ n_cnt (p_a (f_p s)) = 2 /\ n_eff (p_a (f_p s)) = 150 /\
  eff_code (fst cs_design) 2 = 100 /\
  n_eff (p_a (f_p (frun Repaired cs_design (finit cs_design) es))) = 100.
Proof. vm_compute. repeat split. Qed.
Print Assumptions C10_fine_priority_matches_count_refuted.

(* ---- timer ticks: HeartbeatLoop.checkPeerTimeout + Manager.hasWaitingSRGs (Timer.v) ---- *)
(* a tick is [tick_calls] (0, 1 or 2) peer-loss detections, i.e. a piece of a [run] history: all theorems above
   cover timer-driven losses.  What the timer itself guarantees: *)
Theorem C10_tick_quiet : forall v cs s w i,
  t_conn i = true -> t_hbold i = false -> t_skew i = false -> run_tick v cs s w i = s.
Proof. exact tick_quiet. Qed.
Print Assumptions C10_tick_quiet.

(* start-up: a WAITING group whose peer never connected becomes ACTIVE_SOLO exactly when the timeout has expired *)
Theorem C10_tick_startup : forall v cs s w i,
  n_st (node_of w s) = Waiting -> t_conn i = false ->
  n_st (node_of w (run_tick v cs s w i)) = if t_upexp i then ActiveSolo else Waiting.
Proof. exact tick_startup. Qed.
Print Assumptions C10_tick_startup.

(* whatever a tick sees (also the double detection "heartbeat too old AND clock skew refused"): a STANDBY group
   ends STANDBY or STANDBY_ALONE, or ACTIVE_SOLO only with a tracked interface down *)
Theorem C10_tick_never_promotes_standby : forall v cs s w i,
  n_st (node_of w s) = Standby ->
  let st' := n_st (node_of w (run_tick v cs s w i)) in
  st' = Standby \/ st' = StandbyAlone \/ (st' = ActiveSolo /\ 0 < n_cnt (node_of w s)).
Proof. exact tick_standby. Qed.
Print Assumptions C10_tick_never_promotes_standby.

Example C10_tick_nonvacuous :
  let s := run Head cs_plain (init_pair cs_plain) [EStart A] in
  n_st (p_a (run_tick Head cs_plain s A (mkTick false true false false false))) = ActiveSolo /\
  n_st (p_a (run_tick Head cs_plain s A (mkTick false false false false false))) = Waiting /\
  tick_calls (mkTick true false true true false) Standby = 2%nat /\
  (let s2 := run Head cs_plain (init_pair cs_plain) to_standby_a in
   n_st (p_a s2) = Standby /\
   n_st (p_a (run_tick Head cs_plain s2 A (mkTick true false true true false))) = StandbyAlone /\
   (* node-global hasWaitingSRGs: another WAITING group makes the tick hit this STANDBY group too *)
   n_st (p_a (run_tick Head cs_plain s2 A (mkTick false true false false true))) = StandbyAlone /\
   n_st (p_a (run_tick Head cs_plain s2 A (mkTick false true false false false))) = Standby).
Proof. vm_compute. repeat split. Qed.
Print Assumptions C10_tick_nonvacuous.

(* ---- configurations outside the no-overflow domain ---- *)
(* there the effective priority after an interface notification is [c_over c count], any function: every
   theorem above quantifies over all [cfg] and so over every such policy (the ones about its VALUE assume
   [cfg_small]).  /repo d2827a3's wrapped int32 computation is one of them: *)
Theorem C10_head_overflow_policy_admissible : forall c n,
  c_over c = over_int32 (c_prio c) (c_dec c) ->
  n_eff (adjust_priority c n (if_delta c n)) = over_int32 (c_prio c) (c_dec c) (n_cnt n).
Proof. exact head_overflow_policy. Qed.
Print Assumptions C10_head_overflow_policy_admissible.

(* ---- equal node ids (configuration error, excluded by ids_ok) ---- *)
(* with equal ids and equal priorities both nodes lose every tie: both STANDBY, for ever *)
Example C10_equal_ids_observation :
  let cs := (mkCfg [120%N] 100 false 0 0 (fun _ => 0) false, mkCfg [120%N] 100 false 0 0 (fun _ => 0) false) in
  let s := run Head cs (init_pair cs) [EStart A; EStart B; ESend A; EDeliver B 0; EDeliver A 0] in
  absn (p_a s, p_b s) = (Standby, true, Standby, true) /\
  absn (xchgs Head cs [A; B; A; B] (p_a s, p_b s)) = (Standby, true, Standby, true).
Proof. vm_compute. repeat split. Qed.
Print Assumptions C10_equal_ids_observation.

(* ---- non-vacuity ---- *)
Example C10_nonvacuous :
  (* antisymmetry: equal priorities, decided by node id *)
  (let a := mkNode Ready 100 100 None true 0 [] in
   c_id (fst cs_plain) <> c_id (snd cs_plain) /\ n_pprio a = n_eff a /\
   wins (fst cs_plain) a [50%N] = true /\ wins (snd cs_plain) a [49%N] = false /\
   (* Go string order: "10" < "9", "node-10" < "node-2", "B" < "a", "bng" < "bng-1" *)
   str_ltb [49;48]%N [57%N] = true /\ str_ltb [66%N] [97%N] = true /\ str_ltb [98;110;103]%N [98;110;103;45;49]%N = true /\
   ids_ok cs_plain /\ ids_ok cs_design) /\
  (* repaired behaviour on the three defect witnesses *)
  (let es := to_standby_a ++ [EIf A 0 true; EIf A 1 true; EIf A 2 true; EPeerLost A;
                              ESend B; EDeliver A 0] in
   let s := run Repaired cs_design (init_pair cs_design) es in
   n_st (p_a s) = Standby /\ n_st (p_b s) = Standby /\ n_st (p_a s) <> Init /\ n_st (p_b s) <> Init /\
   a_states (absn (xchgs Repaired cs_design [A; A; A] (p_a s, p_b s))) = (Standby, Active)) /\
  (let es := to_standby_a ++ [EPeerLost A; EPeerLost B; ESwLocal A true] in
   let s := run Repaired cs_plain (init_pair cs_plain) es in
   is_active (n_st (p_a s)) = true /\ is_active (n_st (p_b s)) = true /\
   a_states (absn (xchg Repaired cs_plain B (p_a s, p_b s))) = (Standby, Active)) /\
  (let es := [EIf A 0 true; EIf A 0 true; EIf A 1 true; EIf A 0 false; EIf A 7 true] in
   n_eff (p_a (run Repaired cs_design (init_pair cs_design) es)) = 150 /\ spec_eff (fst cs_design) A es = 150) /\
  (* a fix-point with one active node; promotions with each admissible cause *)
  (let s := run Repaired cs_plain (init_pair cs_plain) to_standby_a in
   n_ok Repaired (p_a s) = true /\ n_pknown (p_a s) = true /\ n_pknown (p_b s) = true /\
   absn (xchg Repaired cs_plain A (p_a s, p_b s)) = absn (p_a s, p_b s) /\
   absn (p_a s, p_b s) = (Standby, true, Active, true) /\
   n_st (p_a (fst (step Repaired cs_plain s (EPeerLost A)))) = StandbyAlone /\
   n_st (p_a (run Repaired cs_plain s [EPeerLost A; ESwLocal A false])) = StandbyAlone /\
   n_st (p_a (run Repaired cs_plain s [EPeerLost A; ESwLocal A true])) = Active).
Proof. vm_compute. repeat split; try reflexivity; intros; discriminate. Qed.
Print Assumptions C10_nonvacuous.
