From OV Require Import Common.Base C10.Model C10.Proofs.
Local Open Scope Z_scope.

Theorem C10_election_antisym : forall ida idb ea eb : _,
  ida <> idb ->
  forall ca cb na nb,
  c_id ca = ida -> c_id cb = idb ->
  n_eff na = ea -> n_eff nb = eb -> n_pprio na = eb -> n_pprio nb = ea ->
  wins ca na idb = negb (wins cb nb ida).
Proof. exact wins_antisym. Qed.
Print Assumptions C10_election_antisym.
