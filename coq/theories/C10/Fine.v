(* C10/Fine.v — fine-grained step model: every critical section (sm.mu or m.mu) of a Manager call
   is ONE step, and any number of Manager calls on a node may be in progress at the same time
   (gRPC server handler, ReceiveLoop, timeout ticker, event-bus goroutines, switchover RPC).
   Definitions only.  The coarse model of Model.v is the special case in which every call runs
   to completion before the next one starts (FineProofs.v: [call_atomic]).

   A thread is a program point of one call (local variables included):
     handlePeerHeartbeat(msg)   THb0 -> [THbW -> THbAS -> (THbSA)] -> THbDisc -> THbChk -> THbElect | THbUpd
     handlePeerLost()           TLost0 -> TLostSm -> TLostCnt -> TLostPromote
     handleInterfaceEvent(ev)   TIf0 -> TIfAdj -> TIfChk -> TIfPromote
   sm.Switchover is a single critical section: the coarse events ESwLocal / ESwRemote are kept. *)
From OV Require Import Common.Base C10.Model.
Local Open Scope Z_scope.

Inductive thr :=
| THb0 (m : hb)        (* m.mu: firstContact := peerNodeID == ""; peerNodeID = msg.NodeId *)
| THbW (m : hb)        (* sm.State() == WAITING ?        (not evaluated on first contact) *)
| THbAS (m : hb)       (* sm.State() == ACTIVE_SOLO ? *)
| THbSA (m : hb)       (* sm.State() == STANDBY_ALONE ?  (fix_sa only) *)
| THbDisc (m : hb)     (* sm.PeerDiscovered *)
| THbChk (m : hb)      (* sm.State() == READY ? *)
| THbElect (m : hb)    (* sm.Elect *)
| THbUpd (m : hb)      (* sm.PeerHeartbeatUpdate *)
| TLost0               (* m.mu: peerNodeID = "" *)
| TLostSm              (* sm.PeerLost *)
| TLostCnt             (* m.mu: downCount := ifDownCount[srg]   (only after a transition to STANDBY_ALONE) *)
| TLostPromote         (* sm.TrackerPromote *)
| TIf0 (k : nat) (d : bool)      (* m.mu: ifDown / ifDownCount update, delta computed *)
| TIfAdj (d : bool) (delta : Z)  (* sm.AdjustPriority(delta) *)
| TIfChk               (* sm.State() == STANDBY_ALONE ? *)
| TIfPromote.          (* sm.TrackerPromote *)

(* one critical section of a thread: new node, published transitions, rest of the thread *)
Definition tstep (v : variant) (c : cfg) (n : node) (t : thr) : node * list trans * option thr :=
  match t with
  | THb0 m =>
      let first := negb (n_pknown n) in
      (set_pknown n (nonempty (h_id m)), [], Some (if first then THbDisc m else THbW m))
  | THbW m => (n, [], Some (if sst_eqb (n_st n) Waiting then THbDisc m else THbAS m))
  | THbAS m => (n, [], Some (if sst_eqb (n_st n) ActiveSolo then THbDisc m
                             else if fix_sa v then THbSA m else THbUpd m))
  | THbSA m => (n, [], Some (if sst_eqb (n_st n) StandbyAlone then THbDisc m else THbUpd m))
  | THbDisc m => let '(n1, t1) := peer_discovered n (h_prio m) (h_st m) in (n1, t1, Some (THbChk m))
  | THbChk m => (n, [], if sst_eqb (n_st n) Ready then Some (THbElect m)
                        else if fix_fc v then Some (THbUpd m) else None)
  | THbElect m => let '(n1, t1) := elect c n (h_id m) in (n1, t1, None)
  | THbUpd m => let '(n1, t1) := hb_update v c n (h_prio m) (h_id m) (h_st m) in (n1, t1, None)
  | TLost0 => (set_pknown n false, [], Some TLostSm)
  | TLostSm =>
      let '(n1, t1) := peer_lost n in
      (n1, t1, match t1 with
               | [] => None
               | _ => if sst_eqb (n_st n1) StandbyAlone then Some TLostCnt else None
               end)
  | TLostCnt => (n, [], if 0 <? n_cnt n then Some TLostPromote else None)
  | TLostPromote => let '(n1, t1) := tracker_promote n in (n1, t1, None)
  | TIf0 k d =>
      if negb (tracked c k) then (n, [], None) else
      let n1 := track_update v n k d in
      let delta := if_delta c n1 in
      if fix_ia v || (c_coalesce c && (n_cnt n1 =? n_cnt n))
      then (adjust_or_skip c n n1 delta, [], if d then Some TIfChk else None)
      else (n1, [], Some (TIfAdj d delta))
  | TIfAdj d delta => (adjust_priority c n delta, [], if d then Some TIfChk else None)
  | TIfChk => (n, [], if sst_eqb (n_st n) StandbyAlone then Some TIfPromote else None)
  | TIfPromote => let '(n1, t1) := tracker_promote n in (n1, t1, None)
  end.

(* run one thread alone until it ends (fuel 8 suffices: the longest call has 7 sections) *)
Fixpoint trun (fuel : nat) (v : variant) (c : cfg) (n : node) (t : thr) : node * list trans :=
  match fuel with
  | O => (n, [])
  | S f => let '(n1, t1, nx) := tstep v c n t in
           match nx with
           | None => (n1, t1)
           | Some t' => let '(n2, t2) := trun f v c n1 t' in (n2, t1 ++ t2)
           end
  end.

(* the message a heartbeat thread is handling (the server replies when the call returns) *)
Definition thr_msg (t : thr) : option hb :=
  match t with
  | THb0 m | THbW m | THbAS m | THbSA m | THbDisc m | THbChk m | THbElect m | THbUpd m => Some m
  | _ => None
  end.

Record fpair := mkF { f_p : pair; f_ta : list thr; f_tb : list thr }.
Definition thrs_of (w : who) (s : fpair) : list thr := match w with A => f_ta s | B => f_tb s end.
Definition set_thrs (w : who) (s : fpair) (l : list thr) : fpair :=
  match w with A => mkF (f_p s) l (f_tb s) | B => mkF (f_p s) (f_ta s) l end.
Definition set_p (s : fpair) (p : pair) : fpair := mkF p (f_ta s) (f_tb s).

Inductive fev :=
| FCoarse (e : ev)                 (* a whole call, atomically (Model.step) *)
| FHb (w : who) (i : nat)          (* w starts handling in-flight heartbeat #(i mod len) *)
| FLost (w : who)                  (* w starts handlePeerLost *)
| FIf (w : who) (k : nat) (d : bool)   (* w starts handleInterfaceEvent *)
| FMicro (w : who) (i : nat).      (* thread #(i mod len) of w executes its next critical section *)

Fixpoint replace_nth {X} (i : nat) (l : list X) (x : X) : list X :=
  match l, i with
  | [], _ => []
  | _ :: r, O => x :: r
  | y :: r, S j => y :: replace_nth j r x
  end.

Definition fstep (v : variant) (cs : cfgs) (s : fpair) (e : fev) : fpair * list (who * trans) :=
  match e with
  | FCoarse e => let '(p, t) := step v cs (f_p s) e in (set_p s p, t)
  | FHb w i =>
      let q := queue_to w (f_p s) in
      match nth_error q (i mod length q)%nat with
      | None => (s, [])
      | Some m =>
          let s1 := set_p s (set_queue w (f_p s) (remove_nth (i mod length q)%nat q)) in
          (set_thrs w s1 (thrs_of w s1 ++ [THb0 m]), [])
      end
  | FLost w => (set_thrs w s (thrs_of w s ++ [TLost0]), [])
  | FIf w k d => (set_thrs w s (thrs_of w s ++ [TIf0 k d]), [])
  | FMicro w i =>
      let ts := thrs_of w s in
      match nth_error ts (i mod length ts)%nat with
      | None => (s, [])
      | Some t =>
          let j := (i mod length ts)%nat in
          let '(n, tr, nx) := tstep v (cfg_of w cs) (node_of w (f_p s)) t in
          let p1 := set_node w (f_p s) n in
          match nx with
          | Some t' => (set_thrs w (set_p s p1) (replace_nth j ts t'), tag w tr)
          | None =>
              let p2 := match thr_msg t with
                        | Some m => if h_req m
                                    then set_queue (other w) p1
                                           (queue_to (other w) p1 ++ [snapshot (cfg_of w cs) n false])
                                    else p1
                        | None => p1
                        end in
              (set_thrs w (set_p s p2) (remove_nth j ts), tag w tr)
          end
      end
  end.

Fixpoint frun (v : variant) (cs : cfgs) (s : fpair) (es : list fev) : fpair :=
  match es with
  | [] => s
  | e :: r => frun v cs (fst (fstep v cs s e)) r
  end.

Definition finit (cs : cfgs) : fpair := mkF (init_pair cs) [] [].
Definition quiescent (s : fpair) : bool :=
  match f_ta s, f_tb s with [], [] => true | _, _ => false end.
