(* C10/Timer.v — HeartbeatLoop.checkPeerTimeout and Manager.hasWaitingSRGs (pkg/ha/heartbeat.go, manager.go):
   WHEN does a timer tick call handlePeerLost, and how often.  A tick expands to 0, 1 or 2 [EPeerLost] events,
   so every theorem over [run] / [frun] histories covers timer-driven peer losses. Definitions only. *)
From OV Require Import Common.Base C10.Model.

(* what checkPeerTimeout sees: peer.GetState().Connected, time.Since(startedAt) > timeout,
   time.Since(LastHeartbeat) > timeout, |ClockSkew| > clockSkewRefuseThreshold, and whether SOME group of the
   Manager is WAITING (hasWaitingSRGs loops over all groups) *)
Record tick_in := mkTick { t_conn : bool; t_upexp : bool; t_hbold : bool; t_skew : bool; t_otherw : bool }.

(* number of handlePeerLost calls of one tick *)
Definition tick_calls (i : tick_in) (st : sst) : nat :=
  if negb (t_conn i) then
    (if t_upexp i && (sst_eqb st Waiting || t_otherw i) then 1 else 0)%nat
  else ((if t_hbold i then 1 else 0) + (if t_skew i then 1 else 0))%nat.

Definition tick_events (w : who) (i : tick_in) (s : pair) : list ev :=
  repeat (EPeerLost w) (tick_calls i (n_st (node_of w s))).

Definition run_tick (v : variant) (cs : cfgs) (s : pair) (w : who) (i : tick_in) : pair :=
  run v cs s (tick_events w i s).
