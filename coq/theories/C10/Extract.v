From Coq Require Import Extraction ExtrOcamlBasic.
From OV Require Import Common.Base C10.Model C10.Fine C10.Stale C10.Timer.
Extraction Language OCaml.
Extraction "C10_model.ml" mkVariant mkCfg init_pair step run is_active xchg xchg_crossed xchgs spec_eff
  finit fstep frun thrs_of quiescent tracked cfg_smallb sinit sdecide ssync sstep tick_calls tick_events.
