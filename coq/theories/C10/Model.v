(* C10/Model.v — executable model of the HA redundancy-group election / failover code
     pkg/ha/srg.go        SRGStateMachine: Start, PeerDiscovered, Elect, winsElection, PeerLost,
                          Switchover, TrackerPromote, AdjustPriority, PeerHeartbeatUpdate
     pkg/ha/manager.go    handlePeerHeartbeat, handlePeerLost, handleInterfaceEvent,
                          RequestSwitchover (local half), buildHeartbeatMessage
     pkg/ha/server.go     Heartbeat (handle, then reply with a fresh snapshot), RequestSwitchover
     pkg/ha/heartbeat.go  sendHeartbeat / the body of ReceiveLoop / checkPeerTimeout -> handlePeerLost
   for ONE redundancy group shared by TWO nodes, plus the "network" between them (two bags
   of in-flight heartbeat snapshots).  Definitions only; proofs are in Proofs.v.
   A Manager that serves several groups is the product of one such model per group: the groups
   share only peerNodeID, and a heartbeat that lacks a group's status is that group's [ETouch].

   A [variant] selects, independently for each of the five defects found and since fixed in /repo
   (notes/C10.md section 4), the ORIGINAL behaviour (flag false) or the behaviour of /repo HEAD
   (flag true).  The original behaviours are kept only for the historical [_refuted] witnesses; the
   correspondence check runs [Head] alone.
     fix_hb  (8396862)  original: PeerHeartbeatUpdate never promotes a STANDBY node without preempt, even
                        when the peer reports STANDBY too.  HEAD: + rule "STANDBY, peer STANDBY, I win -> ACTIVE"
     fix_if  (82065c3)  original: handleInterfaceEvent counts notifications (ifDownCount++ / --).
                        HEAD: counts interfaces (set of interfaces that are down)
     fix_fc  (b0a3819)  original: the first heartbeat after a peer loss is only recorded when the group is
                        ACTIVE or STANDBY, and ACTIVE yields to ACTIVE only.  HEAD: the PeerHeartbeatUpdate
                        rules are applied to that heartbeat too; ACTIVE also yields to ACTIVE_SOLO
     fix_sa  (466d014)  original: handlePeerHeartbeat re-discovers the peer only on first contact, in WAITING
                        or in ACTIVE_SOLO (relying on "STANDBY_ALONE implies peerNodeID == ''", which
                        interleaved calls break).  HEAD: also in STANDBY_ALONE
     fix_ia  (e4bb362)  original: handleInterfaceEvent calls AdjustPriority after releasing m.mu (two critical
                        sections).  HEAD: before releasing it (one critical section)

   Node ids are Go strings compared bytewise: lists of bytes with [str_ltb].
   Priorities are uint32 in Go; they are Z here, the int32 conversions of
   handleInterfaceEvent / AdjustPriority are written out with [i32]. *)
From OV Require Import Common.Base.
Local Open Scope Z_scope.

Record variant := mkVariant { fix_hb : bool; fix_if : bool; fix_fc : bool; fix_sa : bool; fix_ia : bool }.
Definition Head      := mkVariant true true true true true.       (* /repo HEAD: all five fixes committed *)
Definition Repaired  := Head.                                     (* older name, same thing *)
Definition BeforeRaceFixes := mkVariant true true true false false. (* /repo at 43d3a11: before 466d014 and e4bb362 *)
Definition Defective := mkVariant false false false false false.  (* /repo at c51605a: before any fix *)

(* SRGState *)
Inductive sst := Init | Waiting | Ready | Active | Standby | ActiveSolo | StandbyAlone.

Definition sst_eqb (x y : sst) : bool :=
  match x, y with
  | Init, Init | Waiting, Waiting | Ready, Ready | Active, Active | Standby, Standby
  | ActiveSolo, ActiveSolo | StandbyAlone, StandbyAlone => true
  | _, _ => false
  end.

(* SRGStateMachine.IsActive *)
Definition is_active (s : sst) : bool :=
  match s with Active | ActiveSolo => true | _ => false end.

(* per-node configuration: HAConfig.NodeID and the SRGConfig of the group.
   c_nifs = number of configured interfaces that resolve (interface k has sw_if_index k) *)
Record cfg := mkCfg {
  c_id : list N; c_prio : Z; c_preempt : bool; c_dec : Z; c_nifs : nat;
  (* what the implementation makes of the effective priority, as a function of the down count, OUTSIDE the
     domain in which 32-bit arithmetic cannot overflow ([cfg_smallb] false: priority >= 2^31 or
     decrement * #interfaces >= 2^31).  The property does not constrain those values (config validation
     keeps priorities in 1..255), so the model takes them from the implementation; every theorem quantifies
     over all [cfg], hence over every such function. *)
  c_over : Z -> Z;
  (* implementation choice: a notification that does not change the down count (repeated down, delete after
     down, up of an interface that is not down) may skip AdjustPriority.  Inside the no-overflow domain both
     choices give the same priority (C10_effective_priority holds for either). *)
  c_coalesce : bool }.

(* the configuration cannot overflow the int32 arithmetic of handleInterfaceEvent / AdjustPriority *)
Definition cfg_smallb (c : cfg) : bool :=
  (0 <=? c_prio c) && (c_prio c <? 2147483648) && (0 <=? c_dec c)
  && (c_dec c * Z.of_nat (c_nifs c) <? 2147483648).

(* SRGStateMachine fields + the Manager fields that belong to the group *)
Record node := mkNode {
  n_st : sst;             (* state *)
  n_eff : Z;              (* effectivePriority *)
  n_pprio : Z;            (* peerPriority *)
  n_pst : option sst;     (* peerState ("" = None) *)
  n_pknown : bool;        (* Manager.peerNodeID != "" *)
  n_cnt : Z;              (* Manager.ifDownCount[srg] *)
  n_down : list nat       (* fix_if only: Manager.ifDown, interfaces currently down *) }.

Definition trans := (sst * sst)%type.   (* StateTransition{Old,New} *)

Definition set_st (n : node) (s : sst) : node :=
  mkNode s (n_eff n) (n_pprio n) (n_pst n) (n_pknown n) (n_cnt n) (n_down n).
Definition set_peer (n : node) (p : Z) (ps : sst) : node :=
  mkNode (n_st n) (n_eff n) p (Some ps) (n_pknown n) (n_cnt n) (n_down n).
Definition set_pknown (n : node) (k : bool) : node :=
  mkNode (n_st n) (n_eff n) (n_pprio n) (n_pst n) k (n_cnt n) (n_down n).
Definition set_eff (n : node) (e : Z) : node :=
  mkNode (n_st n) e (n_pprio n) (n_pst n) (n_pknown n) (n_cnt n) (n_down n).
Definition set_track (n : node) (c : Z) (d : list nat) : node :=
  mkNode (n_st n) (n_eff n) (n_pprio n) (n_pst n) (n_pknown n) c d.

(* NewSRGStateMachine / NewManager + buildInterfaceMap *)
Definition init_node (c : cfg) : node := mkNode Init (c_prio c) 0 None false 0 [].

(* transitionTo: nil when the state does not change *)
Definition transition_to (n : node) (s : sst) : node * list trans :=
  if sst_eqb (n_st n) s then (n, []) else (set_st n s, [(n_st n, s)]).

(* Start *)
Definition sm_start (n : node) : node * list trans :=
  match n_st n with Init => transition_to n Waiting | _ => (n, []) end.

(* Go string comparison a < b: bytewise lexicographic, a proper prefix is smaller *)
Fixpoint str_ltb (a b : list N) : bool :=
  match a, b with
  | _, [] => false
  | [], _ :: _ => true
  | x :: a', y :: b' => if (x <? y)%N then true else if (y <? x)%N then false else str_ltb a' b'
  end.
Definition nonempty (a : list N) : bool := match a with [] => false | _ => true end.

(* winsElection *)
Definition wins (c : cfg) (n : node) (peerid : list N) : bool :=
  if negb (n_eff n =? n_pprio n) then n_pprio n <? n_eff n else str_ltb (c_id c) peerid.

(* PeerDiscovered *)
Definition peer_discovered (n : node) (p : Z) (ps : sst) : node * list trans :=
  let n := set_peer n p ps in
  match n_st n with
  | Waiting | ActiveSolo | StandbyAlone => transition_to n Ready
  | _ => (n, [])
  end.

(* Elect *)
Definition elect (c : cfg) (n : node) (peerid : list N) : node * list trans :=
  match n_st n with
  | Ready => if wins c n peerid then transition_to n Active else transition_to n Standby
  | _ => (n, [])
  end.

(* PeerLost *)
Definition peer_lost (n : node) : node * list trans :=
  match n_st n with
  | Active => transition_to n ActiveSolo
  | Standby => transition_to n StandbyAlone
  | Ready => transition_to n Waiting
  | Waiting => transition_to n ActiveSolo
  | _ => (n, [])
  end.

(* Switchover(force) *)
Definition switchover (n : node) (force : bool) : node * list trans :=
  match n_st n with
  | Active => transition_to n Standby
  | Standby => transition_to n Active
  | StandbyAlone => if force then transition_to n Active else (n, [])
  | _ => (n, [])
  end.

(* TrackerPromote *)
Definition tracker_promote (n : node) : node * list trans :=
  match n_st n with StandbyAlone => transition_to n ActiveSolo | _ => (n, []) end.

(* Go int32(x) of an integer: two's complement wrap *)
Definition i32 (z : Z) : Z := (z + 2147483648) mod 4294967296 - 2147483648.

(* AdjustPriority(delta): the int32 computation of /repo inside the no-overflow domain; outside it the value
   is the implementation's choice for the current down count *)
Definition adjust_priority (c : cfg) (n : node) (delta : Z) : node :=
  let base := i32 (c_prio c) in
  let newp := i32 (base + delta) in
  set_eff n (if cfg_smallb c then (if newp <? 0 then 0 else newp) else c_over c (n_cnt n)).

(* /repo d2827a3 as an instance of [c_over]: the wrapped int32 computation *)
Definition over_int32 (prio dec : Z) (cnt : Z) : Z :=
  let newp := i32 (i32 prio + i32 (i32 (- i32 dec) * i32 cnt)) in
  if newp <? 0 then 0 else newp.

(* handleInterfaceEvent: AdjustPriority after the count update n0 -> n1, unless coalesced *)
Definition adjust_or_skip (c : cfg) (n0 n1 : node) (delta : Z) : node :=
  if c_coalesce c && (n_cnt n1 =? n_cnt n0) then n1 else adjust_priority c n1 delta.

(* PeerHeartbeatUpdate *)
Definition hb_update (v : variant) (c : cfg) (n : node) (p : Z) (peerid : list N) (ps : sst)
  : node * list trans :=
  let n := set_peer n p ps in
  if c_preempt c && sst_eqb (n_st n) Standby && wins c n peerid then transition_to n Active
  else if sst_eqb (n_st n) Active
          && (sst_eqb ps Active || (fix_fc v && sst_eqb ps ActiveSolo))   (* 2nd disjunct: since b0a3819 *)
          && negb (wins c n peerid)
  then transition_to n Standby
  else if fix_hb v && sst_eqb (n_st n) Standby && sst_eqb ps Standby && wins c n peerid
  then transition_to n Active                         (* since 8396862 / b0a3819 *)
  else (n, []).

(* HeartbeatMessage restricted to the group: NodeId, SRGStatus.State, SRGStatus.Priority;
   h_req = true for a message sent on the sender's client stream (the receiving server
   replies), false for such a reply *)
Record hb := mkHb { h_id : list N; h_st : sst; h_prio : Z; h_req : bool }.

(* buildHeartbeatMessage *)
Definition snapshot (c : cfg) (n : node) (req : bool) : hb := mkHb (c_id c) (n_st n) (n_eff n) req.

(* Manager.handlePeerHeartbeat as ONE atomic step (peerNodeID = msg.NodeId: an empty id keeps it "") *)
Definition handle_hb (v : variant) (c : cfg) (n : node) (m : hb) : node * list trans :=
  let first := negb (n_pknown n) in
  let n := set_pknown n (nonempty (h_id m)) in
  if first || sst_eqb (n_st n) Waiting || sst_eqb (n_st n) ActiveSolo
     || (fix_sa v && sst_eqb (n_st n) StandbyAlone) then
    let '(n1, t1) := peer_discovered n (h_prio m) (h_st m) in
    if sst_eqb (n_st n1) Ready then
      let '(n2, t2) := elect c n1 (h_id m) in (n2, t1 ++ t2)
    else if fix_fc v then                                  (* since 8396862 / b0a3819 *)
      let '(n2, t2) := hb_update v c n1 (h_prio m) (h_id m) (h_st m) in (n2, t1 ++ t2)
    else (n1, t1)
  else hb_update v c n (h_prio m) (h_id m) (h_st m).

(* Manager.handlePeerLost *)
Definition handle_peer_lost (n : node) : node * list trans :=
  let n := set_pknown n false in
  let '(n1, t1) := peer_lost n in
  match t1 with
  | [] => (n1, t1)
  | _ => if sst_eqb (n_st n1) StandbyAlone && (0 <? n_cnt n1)
         then let '(n2, t2) := tracker_promote n1 in (n2, t1 ++ t2)
         else (n1, t1)
  end.

(* buildInterfaceMap: interface k is tracked iff the decrement is non-zero and k is configured *)
Definition tracked (c : cfg) (k : nat) : bool :=
  negb (c_dec c =? 0) && (k <? c_nifs c)%nat.

Definition mem_nat (k : nat) (l : list nat) : bool := existsb (Nat.eqb k) l.
Definition remove_nat (k : nat) (l : list nat) : list nat := filter (fun x => negb (Nat.eqb k x)) l.

(* handleInterfaceEvent, m.mu section: update of ifDown / ifDownCount *)
Definition track_update (v : variant) (n : node) (k : nat) (down : bool) : node :=
  if fix_if v then
    if Bool.eqb down (mem_nat k (n_down n)) then n
    else if down then set_track n (n_cnt n + 1) (k :: n_down n)
         else set_track n (n_cnt n - 1) (remove_nat k (n_down n))
  else
    if down then set_track n (n_cnt n + 1) (n_down n)
    else if 0 <? n_cnt n then set_track n (n_cnt n - 1) (n_down n)
         else n.
(* delta := -int32(TrackPriorityDecrement) * int32(downCount) *)
Definition if_delta (c : cfg) (n : node) : Z := i32 (i32 (- i32 (c_dec c)) * i32 (n_cnt n)).

(* Manager.handleInterfaceEvent as ONE atomic step; down = !LinkUp || Deleted *)
Definition handle_if (v : variant) (c : cfg) (n : node) (k : nat) (down : bool)
  : node * list trans :=
  if negb (tracked c k) then (n, []) else
  let n1 := track_update v n k down in
  let n2 := adjust_or_skip c n n1 (if_delta c n1) in
  if down && sst_eqb (n_st n2) StandbyAlone then tracker_promote n2 else (n2, []).

(* ---- the pair ---- *)
Inductive who := A | B.
Definition other (w : who) : who := match w with A => B | B => A end.
Definition who_eqb (x y : who) : bool :=
  match x, y with A, A | B, B => true | _, _ => false end.

Record pair := mkPair {
  p_a : node; p_b : node;
  q_a : list hb;         (* heartbeats in flight towards A *)
  q_b : list hb }.

Definition node_of (w : who) (s : pair) : node := match w with A => p_a s | B => p_b s end.
Definition queue_to (w : who) (s : pair) : list hb := match w with A => q_a s | B => q_b s end.
Definition set_node (w : who) (s : pair) (n : node) : pair :=
  match w with A => mkPair n (p_b s) (q_a s) (q_b s) | B => mkPair (p_a s) n (q_a s) (q_b s) end.
Definition set_queue (w : who) (s : pair) (q : list hb) : pair :=
  match w with A => mkPair (p_a s) (p_b s) q (q_b s) | B => mkPair (p_a s) (p_b s) (q_a s) q end.

Definition cfgs := (cfg * cfg)%type.
Definition cfg_of (w : who) (cs : cfgs) : cfg := match w with A => fst cs | B => snd cs end.

Definition init_pair (cs : cfgs) : pair := mkPair (init_node (fst cs)) (init_node (snd cs)) [] [].

Inductive ev :=
| EStart (w : who)                       (* Manager.Start: sm.Start() *)
| ESend (w : who)                        (* HeartbeatLoop.sendHeartbeat on w *)
| EDeliver (w : who) (i : nat)           (* in-flight message #(i mod len) reaches w *)
| EDrop (w : who) (i : nat)              (* ... is lost *)
| EPeerLost (w : who)                    (* w alone notices the loss: handlePeerLost *)
| EIf (w : who) (k : nat) (down : bool)  (* interface-state notification on w *)
| ESwLocal (w : who) (force : bool)      (* local half of Manager.RequestSwitchover *)
| ESwRemote (w : who)                    (* HAPeerServer.RequestSwitchover on w *)
| ETouch (w : who) (i : nat)             (* in-flight message #(i mod len) reaches w WITHOUT a status for this
                                            group (the Manager serves several groups; handlePeerHeartbeat then
                                            only runs its m.mu section: peerNodeID = msg.NodeId); requests are
                                            still answered with a full snapshot *)
| EStale (w : who) (i : nat).            (* in-flight message #(i mod len) reaches w and is discarded by a staleness
                                            filter at the top of handlePeerHeartbeat (Stale.v decides when); the
                                            server still answers a request *)

Fixpoint remove_nth {X} (i : nat) (l : list X) : list X :=
  match l, i with
  | [], _ => []
  | _ :: r, O => r
  | x :: r, S j => x :: remove_nth j r
  end.

Definition tag (w : who) (t : list trans) : list (who * trans) := map (fun x => (w, x)) t.

Definition step (v : variant) (cs : cfgs) (s : pair) (e : ev) : pair * list (who * trans) :=
  match e with
  | EStart w => let '(n, t) := sm_start (node_of w s) in (set_node w s n, tag w t)
  | ESend w =>
      let o := other w in
      (set_queue o s (queue_to o s ++ [snapshot (cfg_of w cs) (node_of w s) true]), [])
  | EDeliver w i =>
      let q := queue_to w s in
      match nth_error q (i mod length q)%nat with
      | None => (s, [])
      | Some m =>
          let s := set_queue w s (remove_nth (i mod length q)%nat q) in
          let '(n, t) := handle_hb v (cfg_of w cs) (node_of w s) m in
          let s := set_node w s n in
          let s := if h_req m
                   then set_queue (other w) s (queue_to (other w) s ++ [snapshot (cfg_of w cs) n false])
                   else s in
          (s, tag w t)
      end
  | EDrop w i =>
      let q := queue_to w s in
      match q with
      | [] => (s, [])
      | _ => (set_queue w s (remove_nth (i mod length q)%nat q), [])
      end
  | EPeerLost w => let '(n, t) := handle_peer_lost (node_of w s) in (set_node w s n, tag w t)
  | EIf w k d => let '(n, t) := handle_if v (cfg_of w cs) (node_of w s) k d in (set_node w s n, tag w t)
  | ESwLocal w f => let '(n, t) := switchover (node_of w s) f in (set_node w s n, tag w t)
  | ESwRemote w => let '(n, t) := switchover (node_of w s) false in (set_node w s n, tag w t)
  | ETouch w i =>
      let q := queue_to w s in
      match nth_error q (i mod length q)%nat with
      | None => (s, [])
      | Some m =>
          let s := set_queue w s (remove_nth (i mod length q)%nat q) in
          let n := set_pknown (node_of w s) (nonempty (h_id m)) in
          let s := set_node w s n in
          let s := if h_req m
                   then set_queue (other w) s (queue_to (other w) s ++ [snapshot (cfg_of w cs) n false])
                   else s in
          (s, [])
      end
  | EStale w i =>
      let q := queue_to w s in
      match nth_error q (i mod length q)%nat with
      | None => (s, [])
      | Some m =>
          let s := set_queue w s (remove_nth (i mod length q)%nat q) in
          let s := if h_req m
                   then set_queue (other w) s (queue_to (other w) s ++ [snapshot (cfg_of w cs) (node_of w s) false])
                   else s in
          (s, [])
      end
  end.

Fixpoint run (v : variant) (cs : cfgs) (s : pair) (es : list ev) : pair :=
  match es with
  | [] => s
  | e :: r => run v cs (fst (step v cs s e)) r
  end.

(* one complete, fresh heartbeat exchange initiated by w: w sends a snapshot, the peer handles
   it and replies with a snapshot of its new state, w handles the reply *)
Definition xchg (v : variant) (cs : cfgs) (w : who) (ab : node * node) : node * node :=
  let '(a, b) := ab in
  match w with
  | A => let b' := fst (handle_hb v (snd cs) b (snapshot (fst cs) a true)) in
         let a' := fst (handle_hb v (fst cs) a (snapshot (snd cs) b' false)) in (a', b')
  | B => let a' := fst (handle_hb v (fst cs) a (snapshot (snd cs) b true)) in
         let b' := fst (handle_hb v (snd cs) b (snapshot (fst cs) a' false)) in (a', b')
  end.

(* crossed exchange: both snapshots are taken before either is handled *)
Definition xchg_crossed (v : variant) (cs : cfgs) (ab : node * node) : node * node :=
  let '(a, b) := ab in
  (fst (handle_hb v (fst cs) a (snapshot (snd cs) b true)),
   fst (handle_hb v (snd cs) b (snapshot (fst cs) a true))).

Fixpoint xchgs (v : variant) (cs : cfgs) (ws : list who) (ab : node * node) : node * node :=
  match ws with
  | [] => ab
  | w :: r => xchgs v cs r (xchg v cs w ab)
  end.

(* the interfaces the notifications seen so far say are down: specification-level ghost,
   computed from the event history alone *)
Fixpoint down_after (w : who) (k : nat) (es : list ev) (cur : bool) : bool :=
  match es with
  | [] => cur
  | EIf w' k' d :: r => down_after w k r (if who_eqb w w' && Nat.eqb k k' then d else cur)
  | _ :: r => down_after w k r cur
  end.
Fixpoint count_down (w : who) (es : list ev) (n : nat) : Z :=
  match n with
  | O => 0
  | S k => (if down_after w k es false then 1 else 0) + count_down w es k
  end.
(* base priority minus decrement for every tracked interface currently down, floored at 0 *)
Definition spec_eff (c : cfg) (w : who) (es : list ev) : Z :=
  if c_dec c =? 0 then c_prio c
  else Z.max 0 (c_prio c - c_dec c * count_down w es (c_nifs c)).
